use vstd::prelude::*;
use vstd::std_specs::iter::IteratorSpec;
verus! {
pub enum LineRange { Single(u32), Range(u32, u32) }
pub open spec fn lo(r: LineRange) -> int { match r { LineRange::Single(l) => l as int, LineRange::Range(s, _) => s as int } }
pub open spec fn hi(r: LineRange) -> int { match r { LineRange::Single(l) => l as int, LineRange::Range(_, e) => e as int } }
impl LineRange {
    pub fn expand(&self) -> (r: Vec<u32>)
        requires lo(*self) <= hi(*self)
        ensures
            r@.len() == hi(*self) - lo(*self) + 1,
            forall|k: int| 0 <= k < r@.len() ==> #[trigger] r@[k] == lo(*self) + k,
    {
        match self {
            LineRange::Single(l) => vec![*l],
            LineRange::Range(start, end) => (*start..=*end).collect(),
        }
    }
}
}
fn main() {}
