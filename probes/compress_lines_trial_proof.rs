use vstd::prelude::*;
use vstd::std_specs::iter::IteratorSpec;
verus! {

pub enum LineRange {
    Single(u32),
    Range(u32, u32), // start, end (inclusive)
}

pub open spec fn lr_lo(r: LineRange) -> int { match r { LineRange::Single(l) => l as int, LineRange::Range(s, _) => s as int } }
pub open spec fn lr_hi(r: LineRange) -> int { match r { LineRange::Single(l) => l as int, LineRange::Range(_, e) => e as int } }
pub open spec fn lr_has(r: LineRange, x: int) -> bool { lr_lo(r) <= x <= lr_hi(r) }
pub open spec fn lr_wf(r: LineRange) -> bool { match r { LineRange::Single(_) => true, LineRange::Range(s, e) => s < e } }
pub open spec fn strictly_inc(s: Seq<u32>) -> bool { forall|i: int, j: int| 0 <= i < j < s.len() ==> s[i] < s[j] }
pub open spec fn ranges_canonical(v: Seq<LineRange>) -> bool {
    &&& forall|i: int| 0 <= i < v.len() ==> lr_wf(#[trigger] v[i])
    &&& forall|i: int, j: int| 0 <= i < j < v.len() ==> lr_hi(#[trigger] v[i]) + 1 < lr_lo(#[trigger] v[j])
}
pub open spec fn ranges_have(v: Seq<LineRange>, x: int) -> bool { exists|i: int| 0 <= i < v.len() && lr_has(#[trigger] v[i], x) }
pub open spec fn prefix_has(s: Seq<u32>, n: int, x: int) -> bool { exists|i: int| 0 <= i < n && #[trigger] s[i] as int == x }

pub open spec fn cover_inv(rs: Seq<LineRange>, cs: int, ce: int, lines: Seq<u32>, n: int) -> bool { forall|x: int| (#[trigger] ranges_have(rs, x) || cs <= x <= ce) <==> prefix_has(lines, n, x) }
proof fn lemma_push_has(v: Seq<LineRange>, r: LineRange, x: int)
    ensures ranges_have(v.push(r), x) <==> (ranges_have(v, x) || lr_has(r, x))
{
    let w = v.push(r);
    if ranges_have(w, x) {
        let i = choose|i: int| 0 <= i < w.len() && lr_has(#[trigger] w[i], x);
        if i < v.len() { assert(w[i] == v[i]); assert(lr_has(v[i], x)); } else { assert(w[i] == r); }
    }
    if ranges_have(v, x) {
        let i = choose|i: int| 0 <= i < v.len() && lr_has(#[trigger] v[i], x);
        assert(w[i] == v[i]); assert(lr_has(w[i], x));
    }
    if lr_has(r, x) { assert(w[v.len() as int] == r); assert(lr_has(w[v.len() as int], x)); }
}
proof fn lemma_prefix_step(s: Seq<u32>, n: int, x: int)
    requires 0 <= n < s.len()
    ensures prefix_has(s, n + 1, x) <==> (prefix_has(s, n, x) || s[n] as int == x)
{
    if prefix_has(s, n + 1, x) {
        let i = choose|i: int| 0 <= i < n + 1 && #[trigger] s[i] as int == x;
        if i < n { assert(prefix_has(s, n, x)); }
    }
    if prefix_has(s, n, x) {
        let i = choose|i: int| 0 <= i < n && #[trigger] s[i] as int == x;
        assert(0 <= i < n + 1 && s[i] as int == x);
    }
    if s[n] as int == x { assert(0 <= n < n + 1 && s[n] as int == x); }
}

impl LineRange {
    pub fn compress_lines(lines: &[u32]) -> (ranges: Vec<LineRange>)
        requires strictly_inc(lines@), 
        ensures
            ranges_canonical(ranges@),
            forall|x: int| ranges_have(ranges@, x) <==> prefix_has(lines@, lines@.len() as int, x),
    {
        if lines.is_empty() {
            return vec![];
        }

        let mut ranges = Vec::new();
        let mut current_start = lines[0];
        let mut current_end = lines[0];
        proof {
            assert forall|x: int| (ranges_have(ranges@, x) || current_start <= x <= current_end) <==> prefix_has(lines@, 1, x) by {
                if prefix_has(lines@, 1, x) { }
                if current_start <= x <= current_end { assert(lines@[0] as int == x); }
            }
        }

        let ghost mut n: int = 1;
        for __vr in it: &lines[1..]
            invariant
                strictly_inc(lines@),
                lines@.len() >= 1,
                it.snapshot@.remaining().len() == lines@.len() - 1,
                forall|k: int| 0 <= k < lines@.len() - 1 ==> *(#[trigger] it.snapshot@.remaining()[k]) == lines@[k + 1],
                current_start <= current_end,
                current_end == lines@[it.index@],
                ranges_canonical(ranges@),
                forall|k: int| 0 <= k < ranges@.len() ==> lr_hi(#[trigger] ranges@[k]) + 1 < current_start,
                n == it.index@ + 1,
                cover_inv(ranges@, current_start as int, current_end as int, lines@, n),
        {
            let line = *__vr;
            let ghost idx = it.index@;
            let ghost old_ranges = ranges@;
            let ghost old_cs = current_start;
            let ghost old_ce = current_end;
            proof { assert(line == lines@[idx + 1]); assert(lines@[idx] < lines@[idx + 1]); }
            if line == current_end + 1 {
                current_end = line;
            } else {
                // End current range and start new one
                if current_start == current_end {
                    ranges.push(LineRange::Single(current_start));
                } else {
                    ranges.push(LineRange::Range(current_start, current_end));
                }
                current_start = line;
                current_end = line;
            }
            proof {
                assert forall|x: int| (ranges_have(ranges@, x) || current_start <= x <= current_end) <==> prefix_has(lines@, n + 1, x) by {
                    lemma_prefix_step(lines@, n, x);
                    if ranges@.len() > old_ranges.len() {
                        lemma_push_has(old_ranges, ranges@[old_ranges.len() as int], x);
                        assert(ranges@ =~= old_ranges.push(ranges@[old_ranges.len() as int]));
                    }
                }
                n = n + 1;
                assert(cover_inv(ranges@, current_start as int, current_end as int, lines@, n));
            }
        }

        // Add the last range
        let ghost pre_ranges = ranges@;
        if current_start == current_end {
            ranges.push(LineRange::Single(current_start));
        } else {
            ranges.push(LineRange::Range(current_start, current_end));
        }
        proof {
            assert forall|x: int| ranges_have(ranges@, x) <==> prefix_has(lines@, lines@.len() as int, x) by {
                lemma_push_has(pre_ranges, ranges@[pre_ranges.len() as int], x);
                assert(ranges@ =~= pre_ranges.push(ranges@[pre_ranges.len() as int]));
            }
        }

        ranges
    }
}
}
fn main() {}
