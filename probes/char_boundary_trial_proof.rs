use vstd::prelude::*;
use vstd::utf8::*;
use vstd::string::StringSliceAdditionalSpecFns;
verus! {
fn floor_char_boundary(content: &str, idx: usize) -> (r: usize)
    ensures r <= content.spec_bytes().len(),
            is_char_boundary(content.spec_bytes(), r as int),
            r <= idx,
            forall|j: int| r < j <= idx && j <= content.spec_bytes().len() ==> !is_char_boundary(content.spec_bytes(), j),
{
    let mut i = idx.min(content.len());
    proof { encode_utf8_valid_utf8(content@); is_char_boundary_start_end_of_seq(content.spec_bytes()); }
    while i > 0 && !content.is_char_boundary(i)
        invariant i <= content.spec_bytes().len(), i <= idx,
            is_char_boundary(content.spec_bytes(), 0),
            is_char_boundary(content.spec_bytes(), content.spec_bytes().len() as int),
            forall|j: int| i < j <= idx && j <= content.spec_bytes().len() ==> !is_char_boundary(content.spec_bytes(), j),
        decreases i,
    {
        i -= 1;
    }
    i
}
fn ceil_char_boundary(content: &str, idx: usize) -> (r: usize)
    ensures r <= content.spec_bytes().len(),
            is_char_boundary(content.spec_bytes(), r as int),
{
    let mut i = idx.min(content.len());
    proof { encode_utf8_valid_utf8(content@); is_char_boundary_start_end_of_seq(content.spec_bytes()); }
    while i < content.len() && !content.is_char_boundary(i)
        invariant i <= content.spec_bytes().len(),
            is_char_boundary(content.spec_bytes(), content.spec_bytes().len() as int),
        decreases content.spec_bytes().len() - i,
    {
        i += 1;
    }
    i
}
}
fn main() {}
