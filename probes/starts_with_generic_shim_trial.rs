#![feature(pattern)]
use vstd::prelude::*;
use std::str::pattern::Pattern;
verus! {
#[verifier::external_trait_specification]
pub trait ExPattern: Sized {
    type ExternalTraitSpecificationFor: Pattern;
}
pub uninterp spec fn pat_prefix<P>(s: Seq<char>, p: P) -> bool;
pub assume_specification<P: Pattern>[ str::starts_with::<P> ](s: &str, pat: P) -> (r: bool)
    ensures r == pat_prefix(s@, pat);
fn first_git_subcommand_index(args: &[String]) -> Option<usize> {
    let mut index = 0usize;

    while index < args.len() {
        let arg = &args[index];

        if !arg.starts_with('-') {
            return Some(index);
        }

        let takes_value = matches!(
            arg.as_str(),
            "-C" | "-c"
                | "--git-dir"
                | "--work-tree"
                | "--namespace"
                | "--super-prefix"
                | "--config-env"
        );

        index += if takes_value { 2 } else { 1 };
    }

    None
}
}
fn main() {}
