import re,sys
def find_block(src, start_idx):
    i=src.index('{', start_idx)
    depth=0; j=i; in_str=False; in_chr=False
    n=len(src)
    while j<n:
        c=src[j]
        if in_str:
            if c=='\\': j+=2; continue
            if c=='"': in_str=False
        else:
            if c=='"': in_str=True
            elif c=="'" :
                # char literal or lifetime
                m=re.match(r"'(\\.|[^\\'])'", src[j:j+4])
                if m: j+=len(m.group(0)); continue
            elif c=='/' and src[j+1]=='/':
                j=src.index('\n', j); continue
            elif c=='{': depth+=1
            elif c=='}':
                depth-=1
                if depth==0: return j+1
        j+=1
    raise Exception("unbalanced")
def item(path, header_regex):
    src=open(path).read()
    m=re.search(header_regex, src, re.M)
    if not m: raise SystemExit("no match "+header_regex)
    # include preceding attribute/doc lines
    s=m.start()
    # walk back over attribute / doc lines
    while True:
        p=src.rfind('\n',0,s-1)
        line=src[p+1:s-1] if s>0 else ''
        if line.strip().startswith('#[') or line.strip().startswith('///'):
            s=p+1
        else: break
    end=find_block(src, m.end()-1 if src[m.end()-1]=='{' else m.end())
    return src[s:end]
def fn(path, name, within=None):
    return item(path, r'^[ \t]*(?:pub(?:\([a-z]+\))? )?fn '+re.escape(name)+r'\b')
def ty(path, name):
    return item(path, r'^[ \t]*(?:pub(?:\([a-z]+\))? )?(?:struct|enum) '+re.escape(name)+r'\b')
