use vstd::prelude::*;
verus! {
pub assume_specification<T>[ Option::<T>::or ](a: Option<T>, b: Option<T>) -> (r: Option<T>)
    ensures r == (if a is Some { a } else { b });
#[derive(Clone, PartialEq, Eq)]
pub struct Attribution {
    pub start: usize,
    pub end: usize,
    pub author_id: String,
    pub ts: u128,
}
impl Attribution {
    pub fn new(start: usize, end: usize, author_id: String, ts: u128) -> Self {
        Attribution {
            start,
            end,
            author_id,
            ts,
        }
    }
    pub fn len(&self) -> usize {
        self.end - self.start
    }
    pub fn is_empty(&self) -> bool {
        self.start >= self.end
    }
    pub fn overlaps(&self, start: usize, end: usize) -> bool {
        self.start < end && self.end > start
    }
    pub fn intersection(&self, start: usize, end: usize) -> Option<(usize, usize)> {
        let overlap_start = self.start.max(start);
        let overlap_end = self.end.min(end);

        if overlap_start < overlap_end {
            Some((overlap_start, overlap_end))
        } else {
            None
        }
    }
}
fn find_attribution_for_insertion<'a>(
    old_attributions: &'a [Attribution],
    position: usize,
    cursor_hint: &mut usize,
) -> (r: Option<&'a Attribution>)
    requires forall|i: int| 0 <= i < old_attributions@.len() ==> (#[trigger] old_attributions@[i]).start <= old_attributions@[i].end,
             *old(cursor_hint) <= old_attributions@.len(),
    ensures *final(cursor_hint) <= old_attributions@.len(), *final(cursor_hint) >= *old(cursor_hint),
            old_attributions@.len() == 0 ==> r is None,
{
    if old_attributions.is_empty() {
        return None;
    }

    while *cursor_hint < old_attributions.len() && old_attributions[*cursor_hint].end <= position
        invariant *cursor_hint <= old_attributions@.len(), *cursor_hint >= *old(cursor_hint),
        decreases old_attributions@.len() - *cursor_hint,
    {
        *cursor_hint += 1;
    }

    let mut best_overlap: Option<&Attribution> = None;
    let mut idx = *cursor_hint;
    while idx < old_attributions.len()
        invariant idx <= old_attributions@.len(),
            forall|i: int| 0 <= i < old_attributions@.len() ==> (#[trigger] old_attributions@[i]).start <= old_attributions@[i].end,
            best_overlap is Some ==> best_overlap.unwrap().start <= best_overlap.unwrap().end,
        decreases old_attributions@.len() - idx,
    {
        let attr = &old_attributions[idx];
        if attr.start > position {
            break;
        }
        let better_than_current = match best_overlap {
            None => true,
            Some(best) => {
                attr.ts > best.ts
                    || (attr.ts == best.ts && (attr.end - attr.start) > (best.end - best.start))
            }
        };
        if attr.overlaps(position, position.saturating_add(1)) && better_than_current {
            best_overlap = Some(attr);
        }
        idx += 1;
    }

    if best_overlap.is_some() {
        return best_overlap;
    }

    let before = if *cursor_hint > 0 {
        Some(&old_attributions[*cursor_hint - 1])
    } else {
        None
    };
    let after = old_attributions
        .iter()
        .skip(*cursor_hint)
        .find(|a| a.start >= position);

    before.or(after)
}
}
fn main() {}
