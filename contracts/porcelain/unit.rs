// Unit porcelain — property C09, first half (every line is assigned to the commit git blame assigns it to): the parser of
// `git blame --line-porcelain` output in blame_hunks_for_ranges.  It is proved to be a fold over the lines in which ONLY
// 4-field header lines open a hunk, with the numbers of that header; TAB-prefixed content lines - whatever they contain -
// blank lines and metadata lines never open, close or renumber a hunk.  The std string functions are rule-O1 stubs with
// uninterpreted results.
use vstd::prelude::*;
use vstd::std_specs::iter::IteratorSpec;
verus! {

//#item file=src/commands/blame.rs kind=struct name=BlameHunk
pub struct BlameHunk {
    pub range: (u32, u32),
    pub orig_range: (u32, u32),
    pub commit_sha: String,
    pub abbrev_sha: String,
    pub original_author: String,
    pub author_email: String,
    pub author_time: i64,
    pub author_tz: String,
    pub ai_human_author: Option<String>,
    pub committer: String,
    pub committer_email: String,
    pub committer_time: i64,
    pub committer_tz: String,
    pub is_boundary: bool,
    pub filename: String,
}
//#end
//#item file=src/commands/blame.rs kind=struct name=CurMeta impl="Repository" in_fn=blame_hunks_for_ranges
        struct CurMeta {
            author: String,
            author_mail: String,
            author_time: i64,
            author_tz: String,
            committer: String,
            committer_mail: String,
            committer_time: i64,
            committer_tz: String,
            boundary: bool,
            filename: String,
        }
//#end

// ---------------------------------------------------------------- what the string functions make of a line: uninterpreted
spec fn strs(v: Seq<&str>) -> Seq<Seq<char>> { Seq::new(v.len(), |i: int| v[i]@) }
uninterp spec fn sp_lines(s: Seq<char>) -> Seq<Seq<char>>;            // str::lines
uninterp spec fn sp_ws(l: Seq<char>) -> Seq<Seq<char>>;               // split_whitespace
uninterp spec fn all_hex(t: Seq<char>) -> bool;                        // chars().all(is_ascii_hexdigit)
uninterp spec fn num_or(t: Seq<char>, d: u32) -> u32;                  // parse::<u32>().unwrap_or(d)
uninterp spec fn is_meta(k: int, l: Seq<char>) -> bool;                // the k-th metadata test (strip_prefix("author ") ..., == "boundary"; 10: strip_prefix("filename "))
uninterp spec fn fn_rest(l: Seq<char>) -> Seq<char>;                   // what follows the prefix `filename ` on such a line
uninterp spec fn unquote(p: Seq<char>) -> Seq<char>;                   // crate::utils::unescape_git_path: git's C-style path quoting undone
uninterp spec fn meta_upd(k: int, m: CurMeta, l: Seq<char>) -> CurMeta;    // what the k-th metadata statement stores
uninterp spec fn meta_default() -> CurMeta;
spec fn starts_tab(l: Seq<char>) -> bool { l.len() > 0 && l[0] == '\t' }
spec fn tok(t: Seq<Seq<char>>, i: int) -> Seq<char> { if i < t.len() { t[i] } else { Seq::<char>::empty() } }
#[verifier::external_body]
fn opq_meta_default() -> (r: CurMeta)
    ensures r == meta_default(),
{ unimplemented!() }
#[verifier::external_body]
fn opq_lines<'a>(s: &'a String) -> (r: Vec<&'a str>)
    ensures strs(r@) == sp_lines(s@),
{ unimplemented!() }
#[verifier::external_body]
fn opq_starts_tab(s: &str) -> (r: bool)
    ensures r == starts_tab(s@),
{ unimplemented!() }
/// the k-th metadata statement: `if let Some(rest) = line.strip_prefix(KEY) { cur_meta.FIELD = ..; continue; }`
#[verifier::external_body]
fn opq_meta(k: u8, line: &str, m: &mut CurMeta) -> (r: bool)
    ensures r == is_meta(k as int, line@), r ==> *final(m) == meta_upd(k as int, *old(m), line@), !r ==> *final(m) == *old(m),
{ unimplemented!() }
/// TRUSTED reading of the ten abstracted metadata statements as far as the field `filename` goes (rule O1 hides their bodies):
/// the tenth, `if let Some(rest) = line.strip_prefix("filename ") { cur_meta.filename = unescape_git_path(rest); continue; }`,
/// stores the rest of the line UNQUOTED; the other nine assign other fields; `CurMeta::default()` has an empty filename.
/// (The replay sweep runs the original statements against real `filename` lines, quoted and unquoted.)
#[verifier::external_body]
proof fn axiom_filename_field(k: int, m: CurMeta, l: Seq<char>)
    ensures
        k == 10 ==> meta_upd(k, m, l).filename@ == unquote(fn_rest(l)),
        1 <= k <= 9 ==> meta_upd(k, m, l).filename@ == m.filename@,
        meta_default().filename@ == Seq::<char>::empty(),
{}
/// stand-in for std::str::SplitWhitespace: the fields and how many were taken
#[verifier::external_body]
pub struct Fields<'a> { _p: core::marker::PhantomData<&'a str> }
uninterp spec fn f_toks(f: Fields) -> Seq<Seq<char>>;
uninterp spec fn f_pos(f: Fields) -> int;
#[verifier::external_body]
fn opq_fields<'a>(line: &'a str) -> (r: Fields<'a>)
    ensures f_toks(r) == sp_ws(line@), f_pos(r) == 0,
{ unimplemented!() }
#[verifier::external_body]
fn opq_next_or_empty<'a>(f: &mut Fields<'a>) -> (r: &'a str)
    requires f_pos(*old(f)) >= 0,
    ensures r@ == tok(f_toks(*old(f)), f_pos(*old(f))), f_toks(*final(f)) == f_toks(*old(f)), f_pos(*final(f)) == f_pos(*old(f)) + 1,
{ unimplemented!() }
#[verifier::external_body]
fn opq_next<'a>(f: &mut Fields<'a>) -> (r: Option<&'a str>)
    requires f_pos(*old(f)) >= 0,
    ensures r is Some <==> f_pos(*old(f)) < f_toks(*old(f)).len(), r is Some ==> r->Some_0@ == f_toks(*old(f))[f_pos(*old(f))],
        f_toks(*final(f)) == f_toks(*old(f)), f_pos(*final(f)) == f_pos(*old(f)) + 1,
{ unimplemented!() }
#[verifier::external_body]
fn opq_all_hex(s: &str) -> (r: bool)
    ensures r == all_hex(s@),
{ unimplemented!() }
#[verifier::external_body]
fn opq_u32_or(s: &str, d: u32) -> (r: u32)
    ensures r == num_or(s@, d),
{ unimplemented!() }
/// `p4.unwrap_or("1").parse::<u32>().unwrap_or(1)`
#[verifier::external_body]
fn opq_group(p4: Option<&str>) -> (r: u32)
    ensures r == (match p4 { Some(s) => num_or(s@, 1), None => 1u32 }),
{ unimplemented!() }

// ---------------------------------------------------------------- the fold
/// a header line: `<hex sha> <orig line> <final line> [<group size>]`
struct Grp { sha: Seq<char>, orig: u32, fin: u32, group: u32 }
spec fn is_hdr(l: Seq<char>) -> bool { let t = sp_ws(l); tok(t, 0).len() > 0 && all_hex(tok(t, 0)) && tok(t, 1).len() > 0 && tok(t, 2).len() > 0 }
spec fn four(l: Seq<char>) -> bool { sp_ws(l).len() > 3 }
spec fn grp_of(l: Seq<char>) -> Grp { let t = sp_ws(l); Grp { sha: tok(t, 0), orig: num_or(tok(t, 1), 0), fin: num_or(tok(t, 2), 0), group: if four(l) { num_or(t[3], 1) } else { 1 } } }
/// ASSUMED of git: a group lies inside a file (line numbers fit u32)
spec fn grp_fits(g: Grp) -> bool { g.fin + g.group <= u32::MAX && g.orig + g.group <= u32::MAX }   // the code adds before it subtracts 1
spec fn line_fits(l: Seq<char>) -> bool { grp_fits(grp_of(l)) }
spec fn all_fit(ls: Seq<Seq<char>>) -> bool { forall|i: int| 0 <= i < ls.len() ==> line_fits(#[trigger] ls[i]) }
/// the metadata statement that takes the line, 0 when none does (they are tried in order)
spec fn meta_kind(l: Seq<char>) -> int {
    if is_meta(1, l) { 1 } else if is_meta(2, l) { 2 } else if is_meta(3, l) { 3 } else if is_meta(4, l) { 4 } else if is_meta(5, l) { 5 }
    else if is_meta(6, l) { 6 } else if is_meta(7, l) { 7 } else if is_meta(8, l) { 8 } else if is_meta(9, l) { 9 } else if is_meta(10, l) { 10 } else { 0 }
}
struct PS { out: Seq<(Grp, CurMeta)>, cur: Option<Grp>, meta: CurMeta }
spec fn pstep(st: PS, l: Seq<char>) -> PS {
    if l.len() == 0 || starts_tab(l) { st }
    else if meta_kind(l) > 0 { PS { meta: meta_upd(meta_kind(l), st.meta, l), ..st } }
    else if !is_hdr(l) { st }
    else if four(l) { PS { out: match st.cur { Some(g) => st.out.push((g, st.meta)), None => st.out }, cur: Some(grp_of(l)), meta: meta_default() } }
    else if st.cur is None { PS { cur: Some(grp_of(l)), ..st } }
    else { st }
}
spec fn pinit() -> PS { PS { out: Seq::empty(), cur: None, meta: meta_default() } }
spec fn pfold(ls: Seq<Seq<char>>, n: int) -> PS
    decreases n
{
    if n <= 0 { pinit() } else { pstep(pfold(ls, n - 1), ls[n - 1]) }
}
spec fn finish(st: PS) -> PS { PS { out: match st.cur { Some(g) => st.out.push((g, st.meta)), None => st.out }, cur: None, meta: st.meta } }
spec fn range_end(start: u32, group: u32) -> int { if group > 0 { start + group - 1 } else { start as int } }
/// the hunk built from a group and the metadata read for it
spec fn hunk_is(h: BlameHunk, g: Grp, m: CurMeta) -> bool {
    &&& h.range.0 == g.fin && h.range.1 == range_end(g.fin, g.group) && h.orig_range.0 == g.orig && h.orig_range.1 == range_end(g.orig, g.group)
    &&& h.commit_sha@ == g.sha && h.original_author@ == m.author@ && h.author_email@ == m.author_mail@ && h.author_time == m.author_time && h.author_tz@ == m.author_tz@
    &&& h.committer@ == m.committer@ && h.committer_email@ == m.committer_mail@ && h.committer_time == m.committer_time && h.committer_tz@ == m.committer_tz@
    &&& h.is_boundary == m.boundary && h.ai_human_author is None && h.filename@ == m.filename@
}
spec fn hunks_match(hs: Seq<BlameHunk>, out: Seq<(Grp, CurMeta)>) -> bool {
    hs.len() == out.len() && forall|i: int| 0 <= i < hs.len() ==> hunk_is(#[trigger] hs[i], out[i].0, out[i].1)
}
spec fn hunks_match_ps(hs: Seq<BlameHunk>, st: PS) -> bool { hunks_match(hs, st.out) }
proof fn lemma_match_push(hs: Seq<BlameHunk>, out: Seq<(Grp, CurMeta)>, h: BlameHunk, g: Grp, m: CurMeta)
    requires hunks_match(hs, out), hunk_is(h, g, m),
    ensures hunks_match(hs.push(h), out.push((g, m))),
{
    let hs2 = hs.push(h); let out2 = out.push((g, m));
    assert forall|i: int| 0 <= i < hs2.len() implies hunk_is(#[trigger] hs2[i], out2[i].0, out2[i].1) by { if i < hs.len() { assert(hs2[i] == hs[i] && out2[i] == out[i]); } }
}

//#item file=src/commands/blame.rs kind=region name=bh_parse in=blame_hunks_for_ranges from="let mut hunks: Vec<BlameHunk> = Vec::new();" to="self.populate_hunk_abbrev_shas(&mut hunks, options);" from_nth=0 to_nth=0 impl="Repository" to_exclusive=yes opaque='[{"expr": "CurMeta::default()", "call": "opq_meta_default()"}, {"expr": "stdout.lines()", "call": "opq_lines(&stdout)"}, {"expr": "line.starts_with(\u0027\\t\u0027)", "call": "opq_starts_tab(line)"}, {"stmt_from": "if let Some(rest) = line.strip_prefix(\"author \") {", "call": "if opq_meta(1, line, &mut cur_meta) { continue; }"}, {"stmt_from": "if let Some(rest) = line.strip_prefix(\"author-mail \") {", "call": "if opq_meta(2, line, &mut cur_meta) { continue; }"}, {"stmt_from": "if let Some(rest) = line.strip_prefix(\"author-time \") {", "call": "if opq_meta(3, line, &mut cur_meta) { continue; }"}, {"stmt_from": "if let Some(rest) = line.strip_prefix(\"author-tz \") {", "call": "if opq_meta(4, line, &mut cur_meta) { continue; }"}, {"stmt_from": "if let Some(rest) = line.strip_prefix(\"committer \") {", "call": "if opq_meta(5, line, &mut cur_meta) { continue; }"}, {"stmt_from": "if let Some(rest) = line.strip_prefix(\"committer-mail \") {", "call": "if opq_meta(6, line, &mut cur_meta) { continue; }"}, {"stmt_from": "if let Some(rest) = line.strip_prefix(\"committer-time \") {", "call": "if opq_meta(7, line, &mut cur_meta) { continue; }"}, {"stmt_from": "if let Some(rest) = line.strip_prefix(\"committer-tz \") {", "call": "if opq_meta(8, line, &mut cur_meta) { continue; }"}, {"stmt_from": "if line == \"boundary\" {", "call": "if opq_meta(9, line, &mut cur_meta) { continue; }"}, {"stmt_from": "if let Some(rest) = line.strip_prefix(\"filename \") {", "call": "if opq_meta(10, line, &mut cur_meta) { continue; }"}, {"expr": "line.split_whitespace()", "call": "opq_fields(line)"}, {"expr": "parts.next().unwrap_or(\"\")", "call": "opq_next_or_empty(&mut parts)"}, {"expr": "parts.next()", "call": "opq_next(&mut parts)"}, {"expr": "sha.chars().all(|c| c.is_ascii_hexdigit())", "call": "opq_all_hex(sha)"}, {"expr": "p2.parse::<u32>().unwrap_or(0)", "call": "opq_u32_or(p2, 0)"}, {"expr": "p3.parse::<u32>().unwrap_or(0)", "call": "opq_u32_or(p3, 0)"}, {"expr": "p4.unwrap_or(\"1\").parse::<u32>().unwrap_or(1)", "call": "opq_group(p4)"}]'
//@ fn region_bh_parse(stdout: String) -> (hunks: Vec<BlameHunk>)
//@     requires all_fit(sp_lines(stdout@)),
//@     ensures
//@         // exactly the hunks the line fold yields: one per 4-field header, with the numbers of that header and the
//@         // metadata read up to the next one; TAB-prefixed content lines and blank lines never start, end or change a hunk
//@         hunks_match(hunks@, finish(pfold(sp_lines(stdout@), sp_lines(stdout@).len() as int)).out),
//@ {
//@     let ghost ls = sp_lines(stdout@);
        let mut hunks: Vec<BlameHunk> = Vec::new();
        let mut cur_commit: Option<String> = None;
        let mut cur_final_start: u32 = 0;
        let mut cur_orig_start: u32 = 0;
        let mut cur_group_size: u32 = 0;
        let mut cur_meta = opq_meta_default();

        for line in it_0: opq_lines(&stdout)
        //@     invariant
        //@         ls == sp_lines(stdout@), all_fit(ls), it_0.snapshot@.remaining().len() == ls.len(),
        //@         forall|i: int| 0 <= i < ls.len() ==> (#[trigger] it_0.snapshot@.remaining()[i])@ == ls[i],
        //@         hunks_match(hunks@, pfold(ls, it_0.index@).out),
        //@         cur_meta == pfold(ls, it_0.index@).meta,
        //@         cur_commit is Some <==> pfold(ls, it_0.index@).cur is Some,
        //@         cur_commit is Some ==> cur_commit->Some_0@ == pfold(ls, it_0.index@).cur->Some_0.sha && cur_orig_start == pfold(ls, it_0.index@).cur->Some_0.orig
        //@             && cur_final_start == pfold(ls, it_0.index@).cur->Some_0.fin && cur_group_size == pfold(ls, it_0.index@).cur->Some_0.group && grp_fits(pfold(ls, it_0.index@).cur->Some_0),
        {
            //@ let ghost k = it_0.index@;
            //@ let ghost st = pfold(ls, k);
            //@ let ghost h0 = hunks@;
            //@ proof { assert(line@ == ls[k]); assert(pfold(ls, k + 1) == pstep(st, ls[k])); assert(line_fits(ls[k])); }
            if !(line.is_empty()) {

            if !(opq_starts_tab(line)) {

            // Metadata lines
            if !(opq_meta(1, line, &mut cur_meta)) {
            if !(opq_meta(2, line, &mut cur_meta)) {
            if !(opq_meta(3, line, &mut cur_meta)) {
            if !(opq_meta(4, line, &mut cur_meta)) {
            if !(opq_meta(5, line, &mut cur_meta)) {
            if !(opq_meta(6, line, &mut cur_meta)) {
            if !(opq_meta(7, line, &mut cur_meta)) {
            if !(opq_meta(8, line, &mut cur_meta)) {
            if !(opq_meta(9, line, &mut cur_meta)) {
            if !(opq_meta(10, line, &mut cur_meta)) {

            // Header line: either 4 fields (new hunk) or 3 fields (continuation)
            let mut parts = opq_fields(line);
            let sha = opq_next_or_empty(&mut parts);
            let p2 = opq_next_or_empty(&mut parts);
            let p3 = opq_next_or_empty(&mut parts);
            let p4 = opq_next(&mut parts);

            let is_header = !sha.is_empty()
                && opq_all_hex(sha)
                && !p2.is_empty()
                && !p3.is_empty();
            if !(!is_header) {

            // If we encounter a new hunk header (4 fields), flush previous hunk first
            if p4.is_some() {
                if let Some(prev_sha) = cur_commit.take() {
                    // Push the previous hunk
                    let start = cur_final_start;
                    let end = if cur_group_size > 0 {
                        start + cur_group_size - 1
                    } else {
                        start
                    };
                    let orig_start = cur_orig_start;
                    let orig_end = if cur_group_size > 0 {
                        orig_start + cur_group_size - 1
                    } else {
                        orig_start
                    };

                    hunks.push(BlameHunk {
                        range: (start, end),
                        orig_range: (orig_start, orig_end),
                        commit_sha: prev_sha,
                        abbrev_sha: String::new(),
                        original_author: cur_meta.author.clone(),
                        author_email: cur_meta.author_mail.clone(),
                        author_time: cur_meta.author_time,
                        author_tz: cur_meta.author_tz.clone(),
                        ai_human_author: None,
                        committer: cur_meta.committer.clone(),
                        committer_email: cur_meta.committer_mail.clone(),
                        committer_time: cur_meta.committer_time,
                        committer_tz: cur_meta.committer_tz.clone(),
                        is_boundary: cur_meta.boundary,
                        filename: cur_meta.filename.clone(),
                    });
                    //@ proof { lemma_match_push(h0, st.out, hunks@[h0.len() as int], st.cur->Some_0, st.meta); }
                }

                // Start new hunk
                cur_commit = Some(sha.to_string());
                // According to docs: fields are orig_lineno, final_lineno, group_size
                let orig_start = opq_u32_or(p2, 0);
                let final_start = opq_u32_or(p3, 0);
                let group = opq_group(p4);
                cur_orig_start = orig_start;
                cur_final_start = final_start;
                cur_group_size = group;
                // Reset metadata for the new hunk
                cur_meta = opq_meta_default();
            } else {
                // 3-field header: continuation line within current hunk
                // Nothing to do for grouping since we use recorded group_size
                // Metadata remains from the first line of the hunk
                if cur_commit.is_none() {
                    // Defensive: if no current hunk, start one with size 1
                    cur_commit = Some(sha.to_string());
                    cur_orig_start = opq_u32_or(p2, 0);
                    cur_final_start = opq_u32_or(p3, 0);
                    cur_group_size = 1;
                }
            }
        } } } } } } } } } } } } }
        }

        // Flush the final hunk if present
        if let Some(prev_sha) = cur_commit.take() {
            let start = cur_final_start;
            let end = if cur_group_size > 0 {
                start + cur_group_size - 1
            } else {
                start
            };
            let orig_start = cur_orig_start;
            let orig_end = if cur_group_size > 0 {
                orig_start + cur_group_size - 1
            } else {
                orig_start
            };

            hunks.push(BlameHunk {
                range: (start, end),
                orig_range: (orig_start, orig_end),
                commit_sha: prev_sha,
                abbrev_sha: String::new(),
                original_author: cur_meta.author.clone(),
                author_email: cur_meta.author_mail.clone(),
                author_time: cur_meta.author_time,
                author_tz: cur_meta.author_tz.clone(),
                ai_human_author: None,
                committer: cur_meta.committer.clone(),
                committer_email: cur_meta.committer_mail.clone(),
                committer_time: cur_meta.committer_time,
                committer_tz: cur_meta.committer_tz.clone(),
                is_boundary: cur_meta.boundary,
                filename: cur_meta.filename.clone(),
            });
            //@ proof { let fin = pfold(ls, ls.len() as int); lemma_match_push(hunks@.drop_last(), fin.out, hunks@.last(), fin.cur->Some_0, fin.meta); assert(hunks@.drop_last().push(hunks@.last()) =~= hunks@); }
        }
//@     hunks
//@ }
//#end

// ---------------------------------------------------------------- what the fold means on git's output
/// The shape of `git blame --line-porcelain` output: groups, each opened by a 4-field header line `<sha> <orig> <final> <n>`
/// and followed by lines that are NOT 4-field headers: the 3-field headers of the group's other lines, metadata lines
/// (author.., committer.., summary, previous, filename, boundary), and the TAB-prefixed content lines - whatever they contain.
struct BG { hdr: Seq<char>, rest: Seq<Seq<char>> }
spec fn opens(l: Seq<char>) -> bool { l.len() > 0 && !starts_tab(l) && meta_kind(l) == 0 && is_hdr(l) && four(l) }
spec fn inert(l: Seq<char>) -> bool { l.len() == 0 || starts_tab(l) || meta_kind(l) > 0 || !is_hdr(l) || !four(l) }
spec fn bg_wf(g: BG) -> bool { opens(g.hdr) && forall|i: int| 0 <= i < g.rest.len() ==> inert(#[trigger] g.rest[i]) }
spec fn bg_lines(g: BG) -> Seq<Seq<char>> { seq![g.hdr] + g.rest }
spec fn bflat(gs: Seq<BG>, n: int) -> Seq<Seq<char>>
    decreases n
{
    if n <= 0 { Seq::<Seq<char>>::empty() } else { bflat(gs, n - 1) + bg_lines(gs[n - 1]) }
}
spec fn pfold_from(st: PS, ls: Seq<Seq<char>>, n: int) -> PS
    decreases n
{
    if n <= 0 { st } else { pstep(pfold_from(st, ls, n - 1), ls[n - 1]) }
}
proof fn lemma_pfold_is_from(ls: Seq<Seq<char>>, n: int)
    ensures pfold(ls, n) == pfold_from(pinit(), ls, n),
    decreases n
{
    if n > 0 { lemma_pfold_is_from(ls, n - 1); }
}
proof fn lemma_pfrom_prefix(st: PS, x: Seq<Seq<char>>, y: Seq<Seq<char>>, n: int)
    requires 0 <= n <= x.len(), n <= y.len(), forall|i: int| 0 <= i < n ==> x[i] == y[i],
    ensures pfold_from(st, x, n) == pfold_from(st, y, n),
    decreases n
{
    if n > 0 { lemma_pfrom_prefix(st, x, y, n - 1); }
}
proof fn lemma_pfrom_concat(st: PS, a: Seq<Seq<char>>, b: Seq<Seq<char>>, n: int)
    requires 0 <= n <= b.len(),
    ensures pfold_from(st, a + b, a.len() + n) == pfold_from(pfold_from(st, a, a.len() as int), b, n),
    decreases n
{
    if n == 0 { lemma_pfrom_prefix(st, a + b, a, a.len() as int); } else { lemma_pfrom_concat(st, a, b, n - 1); assert((a + b)[a.len() + n - 1] == b[n - 1]); }
}
/// the path recorded after the first n lines of a group's body: the LAST `filename <path>` line so far, unquoted (f0 before any)
spec fn fname_after(f0: Seq<char>, rest: Seq<Seq<char>>, n: int) -> Seq<char>
    decreases n
{
    if n <= 0 { f0 } else { let l = rest[n - 1]; if l.len() > 0 && !starts_tab(l) && meta_kind(l) == 10 { unquote(fn_rest(l)) } else { fname_after(f0, rest, n - 1) } }
}
/// the path of a group: its `filename <path>` line unquoted, empty when git printed none
spec fn gfile(g: BG) -> Seq<char> { fname_after(Seq::<char>::empty(), g.rest, g.rest.len() as int) }
/// inside a group nothing opens, closes or renumbers a hunk; the recorded path is that of the group's last `filename` line
proof fn lemma_inert(st: PS, rest: Seq<Seq<char>>, n: int)
    requires 0 <= n <= rest.len(), st.cur is Some, forall|i: int| 0 <= i < rest.len() ==> inert(#[trigger] rest[i]),
    ensures pfold_from(st, rest, n).out == st.out, pfold_from(st, rest, n).cur == st.cur,
        pfold_from(st, rest, n).meta.filename@ == fname_after(st.meta.filename@, rest, n),
    decreases n
{
    if n > 0 {
        lemma_inert(st, rest, n - 1); assert(inert(rest[n - 1]));
        let l = rest[n - 1]; let s0 = pfold_from(st, rest, n - 1);
        axiom_filename_field(meta_kind(l), s0.meta, l);
    }
}
/// THEOREM: one hunk per group, in order, with the numbers of the group's header and, as its path, the group's `filename <path>`
/// line UNQUOTED (the path the file had in the originating commit; empty when git printed none) - content never interferes
proof fn theorem_one_hunk_per_group(gs: Seq<BG>, n: int)
    requires 0 <= n <= gs.len(), forall|i: int| 0 <= i < gs.len() ==> bg_wf(#[trigger] gs[i]),
    ensures ({
        let out = finish(pfold(bflat(gs, n), bflat(gs, n).len() as int)).out;
        out.len() == n && forall|i: int| 0 <= i < n ==> (#[trigger] out[i]).0 == grp_of(gs[i].hdr) && out[i].1.filename@ == gfile(gs[i])
    }),
    decreases n
{
    lemma_groups(gs, n);
    let st = pfold(bflat(gs, n), bflat(gs, n).len() as int);
    if n > 0 {
        let out = finish(st).out;
        assert forall|i: int| 0 <= i < n implies (#[trigger] out[i]).0 == grp_of(gs[i].hdr) && out[i].1.filename@ == gfile(gs[i]) by { if i < n - 1 { assert(out[i] == st.out[i]); } }
    }
}
/// after the first n groups: n - 1 hunks are complete, the n-th is open
proof fn lemma_groups(gs: Seq<BG>, n: int)
    requires 0 <= n <= gs.len(), forall|i: int| 0 <= i < gs.len() ==> bg_wf(#[trigger] gs[i]),
    ensures ({
        let st = pfold(bflat(gs, n), bflat(gs, n).len() as int);
        &&& n == 0 ==> st == pinit()
        &&& n > 0 ==> st.out.len() == n - 1 && st.cur == Some(grp_of(gs[n - 1].hdr)) && st.meta.filename@ == gfile(gs[n - 1])
                && forall|i: int| 0 <= i < n - 1 ==> (#[trigger] st.out[i]).0 == grp_of(gs[i].hdr) && st.out[i].1.filename@ == gfile(gs[i])
    }),
    decreases n
{
    if n > 0 {
        lemma_groups(gs, n - 1);
        let a = bflat(gs, n - 1); let g = gs[n - 1]; let b = bg_lines(g);
        assert(bg_wf(g));
        lemma_pfold_is_from(a + b, (a + b).len() as int);
        lemma_pfold_is_from(a, a.len() as int);
        lemma_pfrom_concat(pinit(), a, b, b.len() as int);
        let st0 = pfold(a, a.len() as int);
        let h = seq![g.hdr];
        assert(b =~= h + g.rest);
        lemma_pfrom_concat(st0, h, g.rest, g.rest.len() as int);
        assert(pfold_from(st0, h, 1) == pstep(pfold_from(st0, h, 0), h[0]));
        let st1 = pfold_from(st0, h, 1);
        assert(st1.cur == Some(grp_of(g.hdr)));
        assert(st1.meta == meta_default());
        axiom_filename_field(0, st0.meta, g.hdr);
        lemma_inert(st1, g.rest, g.rest.len() as int);
        let st2 = pfold_from(st1, g.rest, g.rest.len() as int);
        assert(pfold(bflat(gs, n), bflat(gs, n).len() as int) == st2);
        if n > 1 {
            assert(st1.out == st0.out.push((grp_of(gs[n - 2].hdr), st0.meta)));
            assert forall|i: int| 0 <= i < n - 1 implies (#[trigger] st2.out[i]).0 == grp_of(gs[i].hdr) && st2.out[i].1.filename@ == gfile(gs[i]) by { if i < n - 2 { assert(st1.out[i] == st0.out[i]); } }
        }
    }
}

} // verus!
fn main() {}
