// Replay driver for unit porcelain: the ORIGINAL parser statements of blame_hunks_for_ranges (region bh_parse) on synthetic
// `git blame --line-porcelain` output assembled from groups, so the expected hunks are known by construction.  Content and
// summary lines are drawn from texts that look like headers or metadata.  Each group carries a `filename` line (plain, C-quoted, or
// none): the hunk's `filename` must be that path unquoted (the path the file had in the originating commit).
#![allow(dead_code, unused)]
/// the region names the helper by its crate path; the ORIGINAL unescape_git_path (src/utils.rs) is spliced in at the crate root
pub mod utils { pub fn unescape_git_path(p: &str) -> String { super::unescape_git_path(p) } }
include!("@ITEMS@");
use std::panic::{catch_unwind, AssertUnwindSafe};
struct Ctx { evaluated: u64, failed: std::collections::HashSet<String> }
impl Ctx {
    fn fail(&mut self, f: &str, clause: &str, input: String, observed: String, expected: String) {
        if self.failed.insert(format!("{}::{}", f, clause)) { println!("FAIL fn=[[{}]] clause=[[{}]] input=[[{}]] observed=[[{}]] expected=[[{}]]", f, clause, input, observed, expected); }
    }
}
fn guarded<T>(f: impl FnOnce() -> T) -> Result<T, String> {
    catch_unwind(AssertUnwindSafe(f)).map_err(|e| { let m = e.downcast_ref::<String>().cloned().or_else(|| e.downcast_ref::<&str>().map(|s| s.to_string())).unwrap_or_default(); format!("panic: {}", m) })
}
struct Rng(u64);
impl Rng { fn next(&mut self) -> u64 { self.0 ^= self.0 << 13; self.0 ^= self.0 >> 7; self.0 ^= self.0 << 17; self.0 } fn below(&mut self, n: u64) -> u64 { self.next() % n } }
const SHAS: &[&str] = &["0123456789abcdef0123456789abcdef01234567", "89abcdef0123456789abcdef0123456789abcdef", "aaaaaaaaaaaaaaaaaaaaaaaaaaaaaaaaaaaaaaaa"];
const TEXTS: &[&str] = &["plain", "", "0123456789abcdef0123456789abcdef01234567 1 1 1", "deadbeef 2 2", "author Mallory", "boundary", "committer-time 1", "\tindented", "  spaced", "abc 1 2 3 4", "ünï 日本", "filename x"];
/// the `filename` line of a group as git prints it (C-quoted when the path has special characters; "" = git prints none) and the
/// path it stands for (the path the file had in the originating commit)
const FILES: &[(&str, &str)] = &[("src/file name.rs", "src/file name.rs"), ("old/plain.rs", "old/plain.rs"), ("\"tab\\there.rs\"", "tab\there.rs"), ("\"\\344\\270\\255.txt\"", "\u{4e2d}.txt"), ("", ""), ("\"q\\\"uote.rs\"", "q\"uote.rs")];
const AUTHORS: &[&str] = &["Alice", "Bob Builder", "deadbeef 1 2 3"];
/// group: sha index, orig start, final start, size, author index, boundary, content/summary text indices (one per line)
#[derive(Clone, Debug)]
struct G { sha: usize, orig: u32, fin: u32, n: u32, author: usize, boundary: bool, texts: Vec<usize>, file: usize }
fn render(gs: &[G], crlf: bool) -> String {
    let mut out: Vec<String> = vec![];
    for g in gs { for i in 0..g.n {
        let sha = SHAS[g.sha];
        if i == 0 { out.push(format!("{} {} {} {}", sha, g.orig, g.fin, g.n)); } else { out.push(format!("{} {} {}", sha, g.orig + i, g.fin + i)); }
        out.push(format!("author {}", AUTHORS[g.author])); out.push("author-mail <a@example.com>".into()); out.push("author-time 1700000000".into()); out.push("author-tz +0100".into());
        out.push(format!("committer {}", AUTHORS[g.author])); out.push("committer-mail <c@example.com>".into()); out.push("committer-time 1700000001".into()); out.push("committer-tz -0800".into());
        out.push(format!("summary {}", TEXTS[g.texts[i as usize]]));
        if g.boundary { out.push("boundary".into()); }
        if i % 2 == 1 { out.push(format!("previous {} old name.txt", SHAS[(g.sha + 1) % SHAS.len()])); }
        if !FILES[g.file].0.is_empty() { out.push(format!("filename {}", FILES[g.file].0)); }
        out.push(format!("\t{}", TEXTS[g.texts[i as usize]]));
    } }
    out.join(if crlf { "\r\n" } else { "\n" }) + "\n"
}
fn enc(gs: &[G], crlf: bool) -> String { format!("{}#{}", crlf as u8, gs.iter().map(|g| format!("{}:{}:{}:{}:{}:{}:{}:{}", g.sha, g.orig, g.fin, g.n, g.author, g.boundary as u8, g.texts.iter().map(|t| t.to_string()).collect::<Vec<_>>().join(","), g.file)).collect::<Vec<_>>().join("|")) }
fn dec(s: &str) -> (Vec<G>, bool) {
    let (c, r) = s.split_once('#').unwrap();
    (r.split('|').filter(|x| !x.is_empty()).map(|x| { let q: Vec<&str> = x.split(':').collect(); G { sha: q[0].parse().unwrap(), orig: q[1].parse().unwrap(), fin: q[2].parse().unwrap(), n: q[3].parse().unwrap(), author: q[4].parse().unwrap(), boundary: q[5] == "1", texts: q[6].split(',').filter(|t| !t.is_empty()).map(|t| t.parse().unwrap()).collect(), file: q.get(7).map(|f| f.parse().unwrap()).unwrap_or(0) } }).collect(), c == "1")
}
fn chk(c: &mut Ctx, gs: &[G], crlf: bool) {
    c.evaluated += 1;
    let input = enc(gs, crlf);
    let text = render(gs, crlf);
    match guarded(move || region_bh_parse(text)) {
        Err(p) => c.fail("region_bh_parse", "safety", input, p, "no panic".into()),
        Ok(hs) => {
            let got: Vec<(String, (u32, u32), (u32, u32), String, bool, String)> = hs.iter().map(|h| (h.commit_sha.clone(), h.range, h.orig_range, h.original_author.clone(), h.is_boundary, h.filename.clone())).collect();
            let want: Vec<(String, (u32, u32), (u32, u32), String, bool, String)> = gs.iter().map(|g| (SHAS[g.sha].to_string(), (g.fin, g.fin + g.n - 1), (g.orig, g.orig + g.n - 1), AUTHORS[g.author].to_string(), g.boundary, FILES[g.file].1.to_string())).collect();
            if got != want { c.fail("theorem_one_hunk_per_group", "one_hunk_per_group", input, format!("{:?}", got), format!("{:?}", want)); }
        }
    }
}
fn gen_groups(g: &mut Rng) -> Vec<G> {
    let mut fin = 1u32;
    (0..g.below(4)).map(|_| { let n = 1 + g.below(3) as u32; let f = fin; fin += n; G { sha: g.below(SHAS.len() as u64) as usize, orig: 1 + g.below(50) as u32, fin: f, n, author: g.below(AUTHORS.len() as u64) as usize, boundary: g.below(5) == 0, texts: (0..n).map(|_| g.below(TEXTS.len() as u64) as usize).collect(), file: g.below(FILES.len() as u64) as usize } }).collect()
}
fn main() {
    std::panic::set_hook(Box::new(|_| {}));
    let a: Vec<String> = std::env::args().collect();
    let mut c = Ctx { evaluated: 0, failed: Default::default() };
    if a[1] == "search" {
        // every tricky text as content and summary of the first line of a two-line group, followed by a second group
        for t in 0..TEXTS.len() { for au in 0..AUTHORS.len() {
            chk(&mut c, &[G { sha: 0, orig: 3, fin: 1, n: 2, author: au, boundary: false, texts: vec![t, 0], file: t % FILES.len() }, G { sha: 1, orig: 9, fin: 3, n: 1, author: 0, boundary: t % 2 == 0, texts: vec![t], file: (t + au + 1) % FILES.len() }], false);
        } }
        chk(&mut c, &[], false);
        let mut g = Rng(a[3].parse::<u64>().unwrap_or(0).wrapping_mul(0x9E3779B97F4A7C15) | 1);
        for _ in 0..3000 { let gs = gen_groups(&mut g); chk(&mut c, &gs, g.below(5) == 0); }
    } else { let (gs, crlf) = dec(&a[3]); chk(&mut c, &gs, crlf); }
    println!("DONE evaluated={}", c.evaluated);
}
