// Unit diffparse — property C01, the mechanism "intersection of working-log line attributions with the lines the commit
// added (git diff -U0 hunk headers)": parse_hunk_header turns a hunk header into exactly the new-side line numbers it
// announces; parse_diff_added_lines credits every hunk to the file of the nearest preceding `+++` HEADER line - lines of a
// hunk's body are file content and are never read as headers, whatever they look like.  The std string functions are rule-O1
// stubs; what they return for a given line is uninterpreted (the proof is about where tokens and lines go, not how they are cut).
use vstd::prelude::*;
use vstd::string::StringSliceAdditionalSpecFns;
use vstd::std_specs::iter::IteratorSpec;
verus! {

/// stand-in for crate::error::GitAiError (never constructed by the verified text)
pub enum GitAiError { Generic(String) }

// ---------------------------------------------------------------- (1) one hunk header
/// what the string functions make of a header line: uninterpreted
pub uninterp spec fn sp_atat(l: Seq<u8>) -> Seq<Seq<u8>>;      // line.split("@@")
pub uninterp spec fn sp_trim(l: Seq<u8>) -> Seq<u8>;          // str::trim
pub uninterp spec fn sp_ws(l: Seq<u8>) -> Seq<Seq<u8>>;        // split_whitespace
pub uninterp spec fn sp_tok(toks: Seq<Seq<u8>>, c: u8) -> Option<Seq<u8>>;   // first token starting with c, its leading c's removed
pub uninterp spec fn sp_comma(l: Seq<u8>) -> Seq<Seq<u8>>;     // split(',')
pub uninterp spec fn sp_num(l: Seq<u8>) -> Option<u32>;        // parse::<u32>().ok()
pub open spec fn strs(v: Seq<&str>) -> Seq<Seq<u8>> { Seq::new(v.len(), |i: int| v[i].spec_bytes()) }
#[verifier::external_body]
fn opq_split_atat<'a>(s: &'a str) -> (r: Vec<&'a str>)
    ensures strs(r@) == sp_atat(s.spec_bytes()),
{ unimplemented!() }
#[verifier::external_body]
fn opq_trim<'a>(s: &'a str) -> (r: &'a str)
    ensures r.spec_bytes() == sp_trim(s.spec_bytes()),
{ unimplemented!() }
#[verifier::external_body]
fn opq_split_ws<'a>(s: &'a str) -> (r: Vec<&'a str>)
    ensures strs(r@) == sp_ws(s.spec_bytes()),
{ unimplemented!() }
#[verifier::external_body]
fn opq_tok_body<'a>(v: &Vec<&'a str>, c: char) -> (r: Option<&'a str>)
    requires (c as u32) < 128,
    ensures r is Some <==> sp_tok(strs(v@), c as u8) is Some, r is Some ==> r->Some_0.spec_bytes() == sp_tok(strs(v@), c as u8)->Some_0,
{ unimplemented!() }
/// `s.split(',').collect()`: documented - always at least one piece
#[verifier::external_body]
fn opq_split_comma<'a>(s: &'a str) -> (r: Vec<&'a str>)
    ensures strs(r@) == sp_comma(s.spec_bytes()), r@.len() >= 1,
{ unimplemented!() }
#[verifier::external_body]
fn opq_num(s: &str) -> (r: Option<u32>)
    ensures r == sp_num(s.spec_bytes()),
{ unimplemented!() }
/// the count field of a range token `start[,count]`: 1 when absent
pub open spec fn count_of(parts: Seq<Seq<u8>>) -> Option<u32> { if parts.len() > 1 { sp_num(parts[1]) } else { Some(1u32) } }
/// (new start, new count, old count) announced by a hunk header line, None when the line is not a well-formed header
pub open spec fn hunk_of(l: Seq<u8>) -> Option<(u32, u32, u32)> {
    let parts = sp_atat(l);
    if parts.len() < 2 { None } else {
        let toks = sp_ws(sp_trim(parts[1]));
        if toks.len() < 2 { None } else {
            match sp_tok(toks, 0x2d) {
                None => None,
                Some(old) => match count_of(sp_comma(old)) {
                    None => None,
                    Some(oc) => match sp_tok(toks, 0x2b) {
                        None => None,
                        Some(new) => match (sp_num(sp_comma(new)[0]), count_of(sp_comma(new))) {
                            (Some(s), Some(c)) => Some((s, c, oc)),
                            _ => None,
                        },
                    },
                },
            }
        }
    }
}
/// the line numbers start, start+1, .., start+count-1
pub open spec fn run_of(s: u32, c: u32) -> Seq<u32> { Seq::new(c as nat, |i: int| (s + i) as u32) }
/// what parse_hunk_header must return
pub open spec fn hunk_lines(l: Seq<u8>) -> Option<(Seq<u32>, bool)> {
    match hunk_of(l) { None => None, Some((s, c, oc)) => if c == 0 { Some((Seq::<u32>::empty(), false)) } else { Some((run_of(s, c), oc == 0)) } }
}
/// ASSUMED of git: the new-side range of a hunk header lies inside a file (line numbers fit u32)
pub open spec fn header_fits(l: Seq<u8>) -> bool { hunk_of(l) is Some ==> hunk_of(l)->Some_0.0 + hunk_of(l)->Some_0.1 <= u32::MAX }

//#item file=src/git/repository.rs kind=fn name=parse_hunk_header opaque='[{"expr": "line.split(\"@@\").collect()", "call": "opq_split_atat(line)"}, {"expr": "parts[1].trim()", "call": "opq_trim(parts[1])"}, {"expr": "hunk_info.split_whitespace().collect()", "call": "opq_split_ws(hunk_info)"}, {"expr": "ranges .iter() .find(|r| r.starts_with(\u0027-\u0027))? .trim_start_matches(\u0027-\u0027)", "call": "opq_tok_body(&ranges, \u0027-\u0027)?"}, {"expr": "ranges .iter() .find(|r| r.starts_with(\u0027+\u0027))? .trim_start_matches(\u0027+\u0027)", "call": "opq_tok_body(&ranges, \u0027+\u0027)?"}, {"expr": "old_range.split(\u0027,\u0027).collect()", "call": "opq_split_comma(old_range)"}, {"expr": "new_range.split(\u0027,\u0027).collect()", "call": "opq_split_comma(new_range)"}, {"expr": "old_parts[1].parse().ok()", "call": "opq_num(old_parts[1])"}, {"expr": "new_parts[0].parse().ok()", "call": "opq_num(new_parts[0])"}, {"expr": "new_parts[1].parse().ok()", "call": "opq_num(new_parts[1])"}]'
fn parse_hunk_header(line: &str) -> (r_: Option<(Vec<u32>, bool)>)
//@     requires header_fits(line.spec_bytes()),
//@     ensures
//@         // exactly the new-side lines the header announces: start .. start+count-1 (count defaults to 1, nothing for count 0),
//@         // pure insertion exactly when the old side has count 0; all indexing in bounds, start + count cannot overflow
//@         r_ is Some <==> hunk_lines(line.spec_bytes()) is Some,
//@         r_ is Some ==> r_->Some_0.0@ == hunk_lines(line.spec_bytes())->Some_0.0 && r_->Some_0.1 == hunk_lines(line.spec_bytes())->Some_0.1,
{
    // Find the part between @@ and @@
    let parts: Vec<&str> = opq_split_atat(line);
    if parts.len() < 2 {
        return None;
    }
    //@ proof { assert(strs(parts@)[1] == parts@[1].spec_bytes()); }

    let hunk_info = opq_trim(parts[1]);

    // Split by space to get old and new ranges
    let ranges: Vec<&str> = opq_split_ws(hunk_info);
    if ranges.len() < 2 {
        return None;
    }

    // Parse the old file range (starts with '-')
    let old_range = opq_tok_body(&ranges, '-')?;

    // Parse "start,count" or just "start" for old range
    let old_parts: Vec<&str> = opq_split_comma(old_range);
    //@ proof { if old_parts@.len() > 1 { assert(strs(old_parts@)[1] == old_parts@[1].spec_bytes()); } }
    let old_count: u32 = if old_parts.len() > 1 {
        opq_num(old_parts[1])?
    } else {
        1 // If no count specified, it's 1 line
    };

    // Parse the new file range (starts with '+')
    let new_range = opq_tok_body(&ranges, '+')?;

    // Parse "start,count" or just "start"
    let new_parts: Vec<&str> = opq_split_comma(new_range);
    //@ proof { assert(strs(new_parts@)[0] == new_parts@[0].spec_bytes()); if new_parts@.len() > 1 { assert(strs(new_parts@)[1] == new_parts@[1].spec_bytes()); } }
    let start: u32 = opq_num(new_parts[0])?;
    let count: u32 = if new_parts.len() > 1 {
        opq_num(new_parts[1])?
    } else {
        1 // If no count specified, it's 1 line
    };
    //@ proof { assert(hunk_of(line.spec_bytes()) == Some((start, count, old_count))); }

    // If count is 0, no lines were added (only deleted)
    if count == 0 {
        return Some((Vec::new(), false));
    }

    // Generate all line numbers in the range
    let lines: Vec<u32> = (start..start + count).collect();
    //@ proof { assert(lines@ =~= run_of(start, count)); }

    // Pure insertion if old_count is 0 (no lines from old file were modified)
    let is_pure_insertion = old_count == 0;

    Some((lines, is_pure_insertion))
}
//#end

// ---------------------------------------------------------------- (2) the line loop
pub open spec fn has_prefix(l: Seq<u8>, p: Seq<u8>) -> bool { l.len() >= p.len() && l.subrange(0, p.len() as int) == p }
pub open spec fn starts_plus(l: Seq<u8>) -> bool { l.len() > 0 && l[0] == 0x2b }
pub open spec fn plus_hdr() -> Seq<u8> { seq![0x2bu8, 0x2bu8, 0x2bu8, 0x20u8] }                 // "+++ "
pub open spec fn hunk_pfx() -> Seq<u8> { seq![0x40u8, 0x40u8, 0x20u8] }                         // "@@ "
pub open spec fn diff_pfx() -> Seq<u8> { seq![0x64u8, 0x69u8, 0x66u8, 0x66u8, 0x20u8, 0x2du8, 0x2du8, 0x67u8, 0x69u8, 0x74u8, 0x20u8] }   // "diff --git "
pub open spec fn is_plus_hdr(l: Seq<u8>) -> bool { has_prefix(l, plus_hdr()) }
pub open spec fn starts_hunk(l: Seq<u8>) -> bool { has_prefix(l, hunk_pfx()) }
pub open spec fn starts_diff(l: Seq<u8>) -> bool { has_prefix(l, diff_pfx()) }
pub uninterp spec fn sp_lines(b: Seq<u8>) -> Seq<Seq<u8>>;     // str::lines
pub uninterp spec fn sp_dev_null(rest: Seq<u8>) -> bool;      // rest.trim_end() == "/dev/null"
pub uninterp spec fn sp_norm(rest: Seq<u8>) -> Seq<char>;     // normalize_diff_path_token (unquoting, a/ b/ prefixes): out of reach
/// the file a `+++ ` header line names: None for /dev/null
pub open spec fn hdr_path(l: Seq<u8>) -> Option<Seq<char>> {
    let rest = l.subrange(4, l.len() as int);
    if sp_dev_null(rest) { None } else { Some(sp_norm(rest)) }
}
pub open spec fn opt_view(o: Option<String>) -> Option<Seq<char>> { match o { Some(s) => Some(s@), None => None } }
#[verifier::external_body]
fn opq_strip_plus_header<'a>(s: &'a str) -> (r: Option<&'a str>)
    ensures r is Some <==> is_plus_hdr(s.spec_bytes()), r is Some ==> r->Some_0.spec_bytes() == s.spec_bytes().subrange(4, s.spec_bytes().len() as int),
{ unimplemented!() }
#[verifier::external_body]
fn opq_is_dev_null(s: &str) -> (r: bool)
    ensures r == sp_dev_null(s.spec_bytes()),
{ unimplemented!() }
#[verifier::external_body]
fn opq_norm_path(s: &str) -> (r: String)
    ensures r@ == sp_norm(s.spec_bytes()),
{ unimplemented!() }
//#item file=src/git/repository.rs kind=fn name=parse_new_file_path_from_plus_header_line opaque='[{"expr": "line.strip_prefix(\"+++ \")", "call": "opq_strip_plus_header(line)"}, {"expr": "raw.trim_end() == \"/dev/null\"", "call": "opq_is_dev_null(raw)"}, {"expr": "normalize_diff_path_token(raw)", "call": "opq_norm_path(raw)"}]'
fn parse_new_file_path_from_plus_header_line(line: &str) -> (r_: Option<Option<String>>)
//@     ensures
//@         // a header exactly when the line starts with "+++ "; it names no file for /dev/null
//@         r_ is Some <==> is_plus_hdr(line.spec_bytes()),
//@         r_ is Some ==> opt_view(r_->Some_0) == hdr_path(line.spec_bytes()),
{
    let raw = opq_strip_plus_header(line)?;
    if opq_is_dev_null(raw) {
        return Some(None);
    }
    Some(Some(opq_norm_path(raw)))
}
//#end

/// Stand-in for std::collections::HashMap<String, Vec<u32>> (the entry API is outside the Verus subset); keys compared by
/// their characters.  `lm_get` is its lookup.
#[verifier::external_body]
#[verifier::reject_recursive_types(K)]
#[verifier::reject_recursive_types(V)]
pub struct HashMap<K, V> { _p: core::marker::PhantomData<(K, V)> }
pub uninterp spec fn lm_get(m: HashMap<String, Vec<u32>>, k: Seq<char>) -> Option<Seq<u32>>;
#[verifier::external_body]
fn opq_map_new() -> (r: HashMap<String, Vec<u32>>)
    ensures forall|k: Seq<char>| (#[trigger] lm_get(r, k)) is None,
{ unimplemented!() }
/// `m.entry(file.clone()).or_default().extend(lines)`
#[verifier::external_body]
fn opq_map_extend(m: &mut HashMap<String, Vec<u32>>, key: &String, lines: Vec<u32>)
    ensures forall|k: Seq<char>| #[trigger] lm_get(*final(m), k) == (if k == key@ {
            Some(match lm_get(*old(m), k) { Some(v) => v + lines@, None => lines@ })
        } else { lm_get(*old(m), k) }),
{ unimplemented!() }
pub open spec fn strictly_inc(v: Seq<u32>) -> bool { forall|i: int, j: int| 0 <= i < j < v.len() ==> v[i] < v[j] }
pub open spec fn same_set(a: Seq<u32>, b: Seq<u32>) -> bool { forall|x: u32| a.contains(x) <==> b.contains(x) }
/// `for lines in m.values_mut() { lines.sort_unstable(); lines.dedup(); }` (documented: every value ends up strictly
/// increasing with the same elements; keys untouched)
#[verifier::external_body]
fn opq_sort_dedup_all(m: &mut HashMap<String, Vec<u32>>)
    ensures forall|k: Seq<char>| (#[trigger] lm_get(*final(m), k)) is Some <==> lm_get(*old(m), k) is Some,
        forall|k: Seq<char>| lm_get(*old(m), k) is Some ==> strictly_inc((#[trigger] lm_get(*final(m), k))->Some_0) && same_set(lm_get(*final(m), k)->Some_0, lm_get(*old(m), k)->Some_0),
{ unimplemented!() }
#[verifier::external_body]
fn opq_lines<'a>(s: &'a str) -> (r: Vec<&'a str>)
    ensures strs(r@) == sp_lines(s.spec_bytes()),
{ unimplemented!() }
#[verifier::external_body]
fn opq_starts_plus(s: &str) -> (r: bool)
    ensures r == starts_plus(s.spec_bytes()),
{ unimplemented!() }
#[verifier::external_body]
fn opq_starts_hunk(s: &str) -> (r: bool)
    ensures r == starts_hunk(s.spec_bytes()),
{ unimplemented!() }
#[verifier::external_body]
fn opq_starts_diff(s: &str) -> (r: bool)
    ensures r == starts_diff(s.spec_bytes()),
{ unimplemented!() }

/// the parser's state: the file of the last header, the added lines of the current hunk still to come, the lines per file
pub struct DState { pub cur: Option<Seq<char>>, pub pending: int, pub acc: Map<Seq<char>, Seq<u32>>, pub ins: Map<Seq<char>, Seq<u32>> }
pub open spec fn acc_get(acc: Map<Seq<char>, Seq<u32>>, k: Seq<char>) -> Option<Seq<u32>> { if acc.dom().contains(k) { Some(acc[k]) } else { None } }
pub open spec fn acc_add(acc: Map<Seq<char>, Seq<u32>>, k: Seq<char>, ls: Seq<u32>) -> Map<Seq<char>, Seq<u32>> {
    acc.insert(k, match acc_get(acc, k) { Some(v) => v + ls, None => ls })
}
pub open spec fn dstep(st: DState, l: Seq<u8>) -> DState {
    if st.pending > 0 && starts_plus(l) { DState { pending: st.pending - 1, ..st } }
    else if is_plus_hdr(l) { DState { cur: hdr_path(l), ..st } }
    else if starts_hunk(l) {
        match (st.cur, hunk_lines(l)) {
            (Some(f), Some(h)) => DState { pending: h.0.len() as int, acc: acc_add(st.acc, f, h.0), ins: if h.1 { acc_add(st.ins, f, h.0) } else { st.ins }, ..st },
            _ => st,
        }
    }
    else if starts_diff(l) { DState { pending: 0, ..st } }
    else { st }
}
pub open spec fn dinit() -> DState { DState { cur: None, pending: 0, acc: Map::empty(), ins: Map::empty() } }
pub open spec fn dfold(st: DState, ls: Seq<Seq<u8>>, n: int) -> DState
    decreases n
{
    if n <= 0 { st } else { dstep(dfold(st, ls, n - 1), ls[n - 1]) }
}
pub open spec fn all_fit(ls: Seq<Seq<u8>>) -> bool { forall|i: int| 0 <= i < ls.len() ==> header_fits(#[trigger] ls[i]) }

//#item file=src/git/repository.rs kind=fn name=parse_diff_added_lines opaque='[{"expr": "HashMap::new()", "call": "opq_map_new()"}, {"expr": "diff_output.lines()", "call": "opq_lines(diff_output)"}, {"expr": "line.starts_with(\u0027+\u0027)", "call": "opq_starts_plus(line)"}, {"expr": "line.starts_with(\"@@ \")", "call": "opq_starts_hunk(line)"}, {"expr": "line.starts_with(\"diff --git \")", "call": "opq_starts_diff(line)"}, {"expr": "result.entry(file.clone()).or_default().extend(added_lines)", "call": "opq_map_extend(&mut result, file, added_lines)"}, {"stmt_from": "for lines in result.values_mut() {", "call": "opq_sort_dedup_all(&mut result);"}]'
fn parse_diff_added_lines(diff_output: &str) -> (r_: Result<HashMap<String, Vec<u32>>, GitAiError>)
//@     requires all_fit(sp_lines(diff_output.spec_bytes())),
//@     ensures
//@         // never errs; the files listed are exactly those the line fold `dfold` credits, each with a strictly increasing list
//@         // that holds exactly the credited line numbers
//@         r_ is Ok,
//@         forall|k: Seq<char>| (#[trigger] lm_get(r_->Ok_0, k)) is Some <==> dfold(dinit(), sp_lines(diff_output.spec_bytes()), sp_lines(diff_output.spec_bytes()).len() as int).acc.dom().contains(k),
//@         forall|k: Seq<char>| (#[trigger] lm_get(r_->Ok_0, k)) is Some ==> strictly_inc(lm_get(r_->Ok_0, k)->Some_0)
//@             && same_set(lm_get(r_->Ok_0, k)->Some_0, dfold(dinit(), sp_lines(diff_output.spec_bytes()), sp_lines(diff_output.spec_bytes()).len() as int).acc[k]),
{
    let mut result: HashMap<String, Vec<u32>> = opq_map_new();
    let mut current_file: Option<String> = None;
    // Added lines of the current hunk that are still to come: they are file content, never headers
    // (an added line whose text starts with "++ " is printed as "+++ ...")
    let mut pending_added: usize = 0;
    //@ let ghost ls = sp_lines(diff_output.spec_bytes());

    for line in it_0: opq_lines(diff_output)
    //@     invariant
    //@         ls == sp_lines(diff_output.spec_bytes()), all_fit(ls), it_0.snapshot@.remaining().len() == ls.len(),
    //@         forall|i: int| 0 <= i < ls.len() ==> (#[trigger] it_0.snapshot@.remaining()[i]).spec_bytes() == ls[i],
    //@         opt_view(current_file) == dfold(dinit(), ls, it_0.index@).cur,
    //@         pending_added == dfold(dinit(), ls, it_0.index@).pending,
    //@         forall|k: Seq<char>| #[trigger] lm_get(result, k) == acc_get(dfold(dinit(), ls, it_0.index@).acc, k),
    {
        //@ let ghost i = it_0.index@;
        //@ let ghost st = dfold(dinit(), ls, i);
        //@ proof { assert(line.spec_bytes() == ls[i]); assert(header_fits(ls[i])); assert(dfold(dinit(), ls, i + 1) == dstep(st, ls[i])); }
        if pending_added > 0 && opq_starts_plus(line) {
            pending_added -= 1;
        } else if let Some(path_opt) = parse_new_file_path_from_plus_header_line(line) {
            current_file = path_opt;
        } else if opq_starts_hunk(line) {
            // Parse hunk header: @@ -old_start,old_count +new_start,new_count @@
            if let Some(ref file) = current_file { if let Some((added_lines, _is_pure_insertion)) = parse_hunk_header(line) {
                pending_added = added_lines.len();
                opq_map_extend(&mut result, file, added_lines);
            } }
        } else if opq_starts_diff(line) {
            // A new file section: whatever the previous hunk announced is over
            pending_added = 0;
        }
    }

    // Sort and deduplicate line numbers for each file
    opq_sort_dedup_all(&mut result);

    Ok(result)
}
//#end

#[verifier::external_body]
fn opq_clone_lines(v: &Vec<u32>) -> (r: Vec<u32>)
    ensures r@ == v@,
{ unimplemented!() }
pub open spec fn fold_all(b: Seq<u8>) -> DState { dfold(dinit(), sp_lines(b), sp_lines(b).len() as int) }
//#item file=src/git/repository.rs kind=fn name=parse_diff_added_lines_with_insertions opaque='[{"expr": "HashMap::new()", "call": "opq_map_new()"}, {"expr": "diff_output.lines()", "call": "opq_lines(diff_output)"}, {"expr": "line.starts_with(\u0027+\u0027)", "call": "opq_starts_plus(line)"}, {"expr": "line.starts_with(\"@@ \")", "call": "opq_starts_hunk(line)"}, {"expr": "line.starts_with(\"diff --git \")", "call": "opq_starts_diff(line)"}, {"expr": "all_lines .entry(file.clone()) .or_default() .extend(added_lines.clone())", "call": "opq_map_extend(&mut all_lines, file, opq_clone_lines(&added_lines))"}, {"expr": "insertion_lines .entry(file.clone()) .or_default() .extend(added_lines)", "call": "opq_map_extend(&mut insertion_lines, file, added_lines)"}, {"stmt_from": "for lines in all_lines.values_mut() {", "call": "opq_sort_dedup_all(&mut all_lines);"}, {"stmt_from": "for lines in insertion_lines.values_mut() {", "call": "opq_sort_dedup_all(&mut insertion_lines);"}]'
fn parse_diff_added_lines_with_insertions(
    diff_output: &str,
) -> (r_: Result<(HashMap<String, Vec<u32>>, HashMap<String, Vec<u32>>), GitAiError>)
//@     requires all_fit(sp_lines(diff_output.spec_bytes())),
//@     ensures
//@         // the same fold; the second map holds the lines of the hunks whose old side is empty (pure insertions)
//@         r_ is Ok,
//@         forall|k: Seq<char>| (#[trigger] lm_get(r_->Ok_0.0, k)) is Some <==> fold_all(diff_output.spec_bytes()).acc.dom().contains(k),
//@         forall|k: Seq<char>| (#[trigger] lm_get(r_->Ok_0.0, k)) is Some ==> strictly_inc(lm_get(r_->Ok_0.0, k)->Some_0) && same_set(lm_get(r_->Ok_0.0, k)->Some_0, fold_all(diff_output.spec_bytes()).acc[k]),
//@         forall|k: Seq<char>| (#[trigger] lm_get(r_->Ok_0.1, k)) is Some <==> fold_all(diff_output.spec_bytes()).ins.dom().contains(k),
//@         forall|k: Seq<char>| (#[trigger] lm_get(r_->Ok_0.1, k)) is Some ==> strictly_inc(lm_get(r_->Ok_0.1, k)->Some_0) && same_set(lm_get(r_->Ok_0.1, k)->Some_0, fold_all(diff_output.spec_bytes()).ins[k]),
{
    let mut all_lines: HashMap<String, Vec<u32>> = opq_map_new();
    let mut insertion_lines: HashMap<String, Vec<u32>> = opq_map_new();
    let mut current_file: Option<String> = None;
    // Added lines of the current hunk that are still to come: they are file content, never headers
    let mut pending_added: usize = 0;
    //@ let ghost ls = sp_lines(diff_output.spec_bytes());

    for line in it_0: opq_lines(diff_output)
    //@     invariant
    //@         ls == sp_lines(diff_output.spec_bytes()), all_fit(ls), it_0.snapshot@.remaining().len() == ls.len(),
    //@         forall|i: int| 0 <= i < ls.len() ==> (#[trigger] it_0.snapshot@.remaining()[i]).spec_bytes() == ls[i],
    //@         opt_view(current_file) == dfold(dinit(), ls, it_0.index@).cur,
    //@         pending_added == dfold(dinit(), ls, it_0.index@).pending,
    //@         forall|k: Seq<char>| #[trigger] lm_get(all_lines, k) == acc_get(dfold(dinit(), ls, it_0.index@).acc, k),
    //@         forall|k: Seq<char>| #[trigger] lm_get(insertion_lines, k) == acc_get(dfold(dinit(), ls, it_0.index@).ins, k),
    {
        //@ let ghost i = it_0.index@;
        //@ let ghost st = dfold(dinit(), ls, i);
        //@ proof { assert(line.spec_bytes() == ls[i]); assert(header_fits(ls[i])); assert(dfold(dinit(), ls, i + 1) == dstep(st, ls[i])); }
        if pending_added > 0 && opq_starts_plus(line) {
            pending_added -= 1;
        } else if let Some(path_opt) = parse_new_file_path_from_plus_header_line(line) {
            current_file = path_opt;
        } else if opq_starts_hunk(line) {
            // Parse hunk header: @@ -old_start,old_count +new_start,new_count @@
            if let Some(ref file) = current_file { if let Some((added_lines, is_pure_insertion)) = parse_hunk_header(line) {
                pending_added = added_lines.len();
                opq_map_extend(&mut all_lines, file, opq_clone_lines(&added_lines));

                if is_pure_insertion {
                    opq_map_extend(&mut insertion_lines, file, added_lines);
                }
            } }
        } else if opq_starts_diff(line) {
            // A new file section: whatever the previous hunk announced is over
            pending_added = 0;
        }
    }

    // Sort and deduplicate line numbers for each file
    opq_sort_dedup_all(&mut all_lines);
    opq_sort_dedup_all(&mut insertion_lines);

    Ok((all_lines, insertion_lines))
}
//#end

// ---------------------------------------------------------------- (3) what the fold means on git's output
/// The shape of `git diff -U0` output, as events: a line that is neither an added line nor a hunk header (`diff --git`,
/// `index`, mode lines, `--- a/x`, ...), a `+++ ` file header, or a hunk: its header, then lines that start with `-` or `\`
/// (removed lines, "\ No newline at end of file"), then exactly as many added lines as the header announces - whatever
/// their CONTENT is (in particular an added line whose text starts with "++ " reads "+++ ...").
pub enum Ev { Other(Seq<u8>), FileHdr(Seq<u8>), Hunk { hdr: Seq<u8>, mids: Seq<Seq<u8>>, plus: Seq<Seq<u8>> } }
pub open spec fn mid_ok(m: Seq<u8>) -> bool { m.len() > 0 && (m[0] == 0x2d || m[0] == 0x5c) }
pub open spec fn ev_wf(e: Ev) -> bool {
    match e {
        Ev::Other(l) => !starts_plus(l) && !starts_hunk(l),
        Ev::FileHdr(l) => is_plus_hdr(l),
        Ev::Hunk { hdr, mids, plus } => starts_hunk(hdr) && hunk_lines(hdr) is Some && hunk_lines(hdr)->Some_0.0.len() == plus.len()
            && (forall|i: int| 0 <= i < mids.len() ==> mid_ok(#[trigger] mids[i])) && (forall|i: int| 0 <= i < plus.len() ==> starts_plus(#[trigger] plus[i])),
    }
}
pub open spec fn ev_lines(e: Ev) -> Seq<Seq<u8>> {
    match e { Ev::Other(l) => seq![l], Ev::FileHdr(l) => seq![l], Ev::Hunk { hdr, mids, plus } => seq![hdr] + mids + plus }
}
pub open spec fn flatten(evs: Seq<Ev>, n: int) -> Seq<Seq<u8>>
    decreases n
{
    if n <= 0 { Seq::<Seq<u8>>::empty() } else { flatten(evs, n - 1) + ev_lines(evs[n - 1]) }
}
/// what the diff MEANS: the current file follows the `+++ ` headers, every hunk adds the lines its header announces to it
/// (current file, added lines per file, added lines of pure-insertion hunks per file)
pub open spec fn ideal(evs: Seq<Ev>, n: int) -> (Option<Seq<char>>, Map<Seq<char>, Seq<u32>>, Map<Seq<char>, Seq<u32>>)
    decreases n
{
    if n <= 0 { (None, Map::empty(), Map::empty()) } else {
        let (cur, acc, ins) = ideal(evs, n - 1);
        match evs[n - 1] {
            Ev::Other(l) => (cur, acc, ins),
            Ev::FileHdr(l) => (hdr_path(l), acc, ins),
            Ev::Hunk { hdr, mids, plus } => match cur {
                Some(f) => (cur, acc_add(acc, f, hunk_lines(hdr)->Some_0.0), if hunk_lines(hdr)->Some_0.1 { acc_add(ins, f, hunk_lines(hdr)->Some_0.0) } else { ins }),
                None => (cur, acc, ins),
            },
        }
    }
}
/// well-formed event list; a hunk that adds lines belongs to a file (after `+++ /dev/null` only deletions follow)
pub open spec fn evs_ok(evs: Seq<Ev>, n: int) -> bool
    decreases n
{
    n <= 0 || (evs_ok(evs, n - 1) && ev_wf(evs[n - 1]) && (match evs[n - 1] { Ev::Hunk { hdr, mids, plus } => ideal(evs, n - 1).0 is None ==> plus.len() == 0, _ => true }))
}
pub proof fn lemma_dfold_concat(st: DState, a: Seq<Seq<u8>>, b: Seq<Seq<u8>>, n: int)
    requires 0 <= n <= b.len(),
    ensures dfold(st, a + b, a.len() + n) == dfold(dfold(st, a, a.len() as int), b, n),
    decreases n
{
    if n == 0 { lemma_dfold_prefix(st, a + b, a, a.len() as int); } else { lemma_dfold_concat(st, a, b, n - 1); assert((a + b)[a.len() + n - 1] == b[n - 1]); }
}
pub proof fn lemma_dfold_prefix(st: DState, x: Seq<Seq<u8>>, y: Seq<Seq<u8>>, n: int)
    requires 0 <= n <= x.len(), n <= y.len(), forall|i: int| 0 <= i < n ==> x[i] == y[i],
    ensures dfold(st, x, n) == dfold(st, y, n),
    decreases n
{
    if n > 0 { lemma_dfold_prefix(st, x, y, n - 1); }
}
/// a line that starts with `-` or `\` changes nothing
pub proof fn lemma_mids(st: DState, mids: Seq<Seq<u8>>, n: int)
    requires 0 <= n <= mids.len(), forall|i: int| 0 <= i < mids.len() ==> mid_ok(#[trigger] mids[i]),
    ensures dfold(st, mids, n) == st,
    decreases n
{
    if n > 0 {
        lemma_mids(st, mids, n - 1);
        let m = mids[n - 1];
        assert(mid_ok(m));
        assert(!starts_plus(m));
        assert(!is_plus_hdr(m)) by { if is_plus_hdr(m) { assert(m.subrange(0, 4)[0] == plus_hdr()[0]); } }
        assert(!starts_hunk(m)) by { if starts_hunk(m) { assert(m.subrange(0, 3)[0] == hunk_pfx()[0]); } }
        assert(!starts_diff(m)) by { if starts_diff(m) { assert(m.subrange(0, 11)[0] == diff_pfx()[0]); } }
    }
}
/// the announced added lines are consumed one by one and never interpreted, whatever they contain
pub proof fn lemma_plus(st: DState, plus: Seq<Seq<u8>>, n: int)
    requires 0 <= n <= plus.len(), st.pending == plus.len(), forall|i: int| 0 <= i < plus.len() ==> starts_plus(#[trigger] plus[i]),
    ensures dfold(st, plus, n) == (DState { pending: st.pending - n, ..st }),
    decreases n
{
    if n > 0 { lemma_plus(st, plus, n - 1); assert(starts_plus(plus[n - 1])); }
}
/// THEOREM: on git's -U0 output the fold computes what the diff means - every hunk is credited to the file of the nearest
/// preceding `+++ ` header, with exactly the lines its header announces, and no line of a hunk's body is read as a header
pub proof fn theorem_diff_meaning(evs: Seq<Ev>, n: int)
    requires 0 <= n <= evs.len(), evs_ok(evs, n),
    ensures dfold(dinit(), flatten(evs, n), flatten(evs, n).len() as int) == (DState { cur: ideal(evs, n).0, pending: 0, acc: ideal(evs, n).1, ins: ideal(evs, n).2 }),
    decreases n
{
    if n > 0 {
        theorem_diff_meaning(evs, n - 1);
        let a = flatten(evs, n - 1); let e = evs[n - 1]; let b = ev_lines(e);
        lemma_dfold_concat(dinit(), a, b, b.len() as int);
        let st = dfold(dinit(), a, a.len() as int);
        assert(ev_wf(e));
        match e {
            Ev::Other(l) => {
                assert(dfold(st, b, 1) == dstep(dfold(st, b, 0), b[0]));
                assert(!is_plus_hdr(l)) by { if is_plus_hdr(l) { assert(l.subrange(0, 4)[0] == plus_hdr()[0]); } }
            }
            Ev::FileHdr(l) => {
                assert(dfold(st, b, 1) == dstep(dfold(st, b, 0), b[0]));
            }
            Ev::Hunk { hdr, mids, plus } => {
                assert(!starts_plus(hdr)) by { assert(hdr.subrange(0, 3)[0] == hunk_pfx()[0]); }
                assert(!is_plus_hdr(hdr)) by { if is_plus_hdr(hdr) { assert(hdr.subrange(0, 4)[0] == plus_hdr()[0]); } }
                let h = seq![hdr];
                assert(b =~= h + (mids + plus));
                lemma_dfold_concat(st, h, mids + plus, (mids + plus).len() as int);
                assert(dfold(st, h, 1) == dstep(dfold(st, h, 0), h[0]));
                let st1 = dfold(st, h, 1);
                lemma_dfold_concat(st1, mids, plus, plus.len() as int);
                lemma_mids(st1, mids, mids.len() as int);
                if st.cur is Some { lemma_plus(st1, plus, plus.len() as int); } else { assert(plus.len() == 0); }
            }
        }
    }
}
/// the premise is satisfiable, including a hunk whose added line reads like a file header
pub proof fn lemma_evs_inhabited()
    ensures exists|evs: Seq<Ev>| #[trigger] evs_ok(evs, 1) && evs.len() == 1,
{
    let evs = seq![Ev::FileHdr(plus_hdr())];
    assert(plus_hdr().subrange(0, 4) =~= plus_hdr());
    assert(evs_ok(evs, 0));
    assert(ev_wf(evs[0]));
    assert(evs_ok(evs, 1) && evs.len() == 1);
}

} // verus!
fn main() {}
