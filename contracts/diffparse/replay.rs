// Replay driver for unit diffparse: the ORIGINAL parse_hunk_header / parse_new_file_path_from_plus_header_line /
// parse_diff_added_lines / parse_diff_added_lines_with_insertions together with the ORIGINAL normalize_diff_path_token and
// utils::unescape_git_path (real string handling, nothing stubbed).  Inputs are synthetic `git diff -U0` outputs assembled
// from events (file sections with hunks), so the expected maps are known by construction.
#![allow(dead_code, unused)]
use std::collections::{HashMap, HashSet};
#[derive(Debug)]
pub enum GitAiError { Generic(String) }
include!("@ITEMS@");
mod utils { pub use super::unescape_git_path; }
use std::panic::{catch_unwind, AssertUnwindSafe};
struct Ctx { evaluated: u64, failed: std::collections::HashSet<String> }
impl Ctx {
    fn fail(&mut self, f: &str, clause: &str, input: String, observed: String, expected: String) {
        if self.failed.insert(format!("{}::{}", f, clause)) { println!("FAIL fn=[[{}]] clause=[[{}]] input=[[{}]] observed=[[{}]] expected=[[{}]]", f, clause, input, observed, expected); }
    }
}
fn guarded<T>(f: impl FnOnce() -> T) -> Result<T, String> {
    catch_unwind(AssertUnwindSafe(f)).map_err(|e| { let m = e.downcast_ref::<String>().cloned().or_else(|| e.downcast_ref::<&str>().map(|s| s.to_string())).unwrap_or_default(); format!("panic: {}", m) })
}
struct Rng(u64);
impl Rng { fn next(&mut self) -> u64 { self.0 ^= self.0 << 13; self.0 ^= self.0 >> 7; self.0 ^= self.0 << 17; self.0 } fn below(&mut self, n: u64) -> u64 { self.next() % n } }
fn esc(s: &str) -> String { s.chars().map(|c| if c.is_ascii_graphic() && !"\\|~;:#[]".contains(c) { c.to_string() } else { format!("\\u{{{:x}}}", c as u32) }).collect() }
fn unesc(s: &str) -> String {
    let mut out = String::new(); let mut it = s.chars().peekable();
    while let Some(c) = it.next() {
        if c == '\\' && it.peek() == Some(&'u') { it.next(); it.next(); let mut h = String::new(); while let Some(&d) = it.peek() { it.next(); if d == '}' { break; } h.push(d); } out.push(char::from_u32(u32::from_str_radix(&h, 16).unwrap()).unwrap()); }
        else { out.push(c); }
    }
    out
}

// ---------------------------------------------------------------- events and the text git prints for them
/// one hunk: old start/count, new start/count, the removed and the added line texts
#[derive(Clone, Debug)]
struct Hunk { os: u32, oc: u32, ns: u32, nc: u32, removed: Vec<String>, added: Vec<String>, no_nl: bool }
/// one file section: the path (None = deleted file: `+++ /dev/null`), its hunks
#[derive(Clone, Debug)]
struct Sec { path: Option<String>, hunks: Vec<Hunk> }
/// git's C-style quoting of a path (core.quotePath=true): quoted when it has a byte outside printable ASCII, a quote or a backslash
fn git_quote(prefix: &str, p: &str) -> String {
    let raw = format!("{}{}", prefix, p);
    let needs = raw.bytes().any(|b| b < 0x20 || b >= 0x7f || b == b'"' || b == b'\\');
    if !needs { return raw; }
    let mut out = String::from("\"");
    for b in raw.bytes() {
        match b { b'"' => out.push_str("\\\""), b'\\' => out.push_str("\\\\"), b'\n' => out.push_str("\\n"), b'\t' => out.push_str("\\t"), b'\r' => out.push_str("\\r"),
            0x20..=0x7e => out.push(b as char), _ => out.push_str(&format!("\\{:03o}", b)) }
    }
    out.push('"'); out
}
fn range_txt(s: u32, c: u32) -> String { if c == 1 { format!("{}", s) } else { format!("{},{}", s, c) } }
fn render(secs: &[Sec], crlf: bool) -> String {
    let mut out: Vec<String> = vec![];
    for s in secs {
        let name = s.path.clone().unwrap_or_else(|| "gone.txt".to_string());
        out.push(format!("diff --git {} {}", git_quote("a/", &name), git_quote("b/", &name)));
        out.push("index 1111111..2222222 100644".to_string());
        out.push(format!("--- {}", git_quote("a/", &name)));
        out.push(match &s.path { Some(p) => format!("+++ {}", git_quote("b/", p)), None => "+++ /dev/null".to_string() });
        for h in &s.hunks {
            out.push(format!("@@ -{} +{} @@ fn ctx()", range_txt(h.os, h.oc), range_txt(h.ns, h.nc)));
            for r in &h.removed { out.push(format!("-{}", r)); }
            if h.no_nl && !h.removed.is_empty() { out.push("\\ No newline at end of file".to_string()); }
            for a in &h.added { out.push(format!("+{}", a)); }
            if h.no_nl && !h.added.is_empty() { out.push("\\ No newline at end of file".to_string()); }
        }
    }
    out.join(if crlf { "\r\n" } else { "\n" })
}
/// what the diff means: per file the new-side lines of its hunks; and those of pure-insertion hunks
fn meaning(secs: &[Sec]) -> (HashMap<String, Vec<u32>>, HashMap<String, Vec<u32>>) {
    let (mut all, mut ins): (HashMap<String, Vec<u32>>, HashMap<String, Vec<u32>>) = Default::default();
    for s in secs { if let Some(p) = &s.path { for h in &s.hunks { if h.nc > 0 {
        all.entry(p.clone()).or_default().extend(h.ns..h.ns + h.nc);
        if h.oc == 0 { ins.entry(p.clone()).or_default().extend(h.ns..h.ns + h.nc); }
    } } } }
    for v in all.values_mut().chain(ins.values_mut()) { v.sort_unstable(); v.dedup(); }
    (all, ins)
}
fn show(m: &HashMap<String, Vec<u32>>) -> String { let mut k: Vec<_> = m.iter().collect(); k.sort(); k.iter().map(|(p, v)| format!("{}={:?}", esc(p), v)).collect::<Vec<_>>().join(" ") }
fn enc(secs: &[Sec], crlf: bool) -> String {
    format!("{}#{}", if crlf { "crlf" } else { "lf" }, secs.iter().map(|s| format!("{}~{}", s.path.as_deref().map(esc).unwrap_or("-".into()),
        s.hunks.iter().map(|h| format!("{}:{}:{}:{}:{}:[{}]:[{}]", h.os, h.oc, h.ns, h.nc, h.no_nl as u8, h.removed.iter().map(|x| esc(x)).collect::<Vec<_>>().join(";"), h.added.iter().map(|x| esc(x)).collect::<Vec<_>>().join(";"))).collect::<Vec<_>>().join("|"))).collect::<Vec<_>>().join("#"))
}
fn dec(input: &str) -> (Vec<Sec>, bool) {
    let mut it = input.split('#'); let crlf = it.next() == Some("crlf");
    let secs = it.filter(|s| !s.is_empty()).map(|s| { let (p, hs) = s.split_once('~').unwrap();
        Sec { path: if p == "-" { None } else { Some(unesc(p)) }, hunks: hs.split('|').filter(|h| !h.is_empty()).map(|h| { let q: Vec<&str> = h.splitn(7, ':').collect();
            let list = |t: &str| -> Vec<String> { let t = &t[1..t.len() - 1]; if t.is_empty() { vec![] } else { t.split(';').map(unesc).collect() } };
            Hunk { os: q[0].parse().unwrap(), oc: q[1].parse().unwrap(), ns: q[2].parse().unwrap(), nc: q[3].parse().unwrap(), no_nl: q[4] == "1", removed: list(q[5]), added: list(q[6]) } }).collect() } }).collect();
    (secs, crlf)
}

fn chk_diff(c: &mut Ctx, secs: &[Sec], crlf: bool) {
    c.evaluated += 1;
    let input = enc(secs, crlf);
    let text = render(secs, crlf);
    let (want_all, want_ins) = meaning(secs);
    let t1 = text.clone();
    match guarded(move || parse_diff_added_lines(&t1)) {
        Err(p) => c.fail("parse_diff_added_lines", "safety", input.clone(), p, "no panic".into()),
        Ok(Err(e)) => c.fail("parse_diff_added_lines", "ensures#0", input.clone(), format!("Err({:?})", e), "Ok".into()),
        Ok(Ok(mut got)) => { got.retain(|_, v| !v.is_empty());   // a file whose hunks add nothing may be listed with no lines
            if got != want_all { c.fail("theorem_diff_meaning", "added_lines_per_file", input.clone(), show(&got), show(&want_all)); } },
    }
    let t2 = text.clone();
    match guarded(move || parse_diff_added_lines_with_insertions(&t2)) {
        Err(p) => c.fail("parse_diff_added_lines_with_insertions", "safety", input.clone(), p, "no panic".into()),
        Ok(Err(e)) => c.fail("parse_diff_added_lines_with_insertions", "ensures#0", input.clone(), format!("Err({:?})", e), "Ok".into()),
        Ok(Ok((mut a, mut i))) => {
            a.retain(|_, v| !v.is_empty()); i.retain(|_, v| !v.is_empty());
            if a != want_all { c.fail("theorem_diff_meaning", "added_lines_per_file_with_insertions", input.clone(), show(&a), show(&want_all)); }
            if i != want_ins { c.fail("theorem_diff_meaning", "pure_insertion_lines_per_file", input.clone(), show(&i), show(&want_ins)); }
        }
    }
}
fn chk_header(c: &mut Ctx, os: u32, oc: Option<u32>, ns: u32, nc: Option<u32>, tail: &str) {
    c.evaluated += 1;
    let f = |s: u32, c: Option<u32>| match c { Some(c) => format!("{},{}", s, c), None => format!("{}", s) };
    let line = format!("@@ -{} +{} @@{}", f(os, oc), f(ns, nc), tail);
    let o = |c: Option<u32>| c.map(|x| x.to_string()).unwrap_or("-".into());
    let input = format!("HDR#{}:{}:{}:{}:{}", os, o(oc), ns, o(nc), esc(tail));
    let (c_new, c_old) = (nc.unwrap_or(1), oc.unwrap_or(1));
    let want = if c_new == 0 { Some((vec![], false)) } else { Some(((ns..ns + c_new).collect::<Vec<u32>>(), c_old == 0)) };
    let l2 = line.clone();
    match guarded(move || parse_hunk_header(&l2)) {
        Err(p) => c.fail("parse_hunk_header", "safety", input, p, "no panic".into()),
        Ok(got) => if got != want { c.fail("parse_hunk_header", "ensures#1", input, format!("{:?}", got), format!("{:?}", want)); },
    }
}
fn chk_line_total(c: &mut Ctx, line: &str) {
    // arbitrary lines: the line classifiers never panic (headers whose start + count exceeds u32 are outside the stated precondition header_fits)
    c.evaluated += 1;
    let input = format!("LINE#{}", esc(line));
    let l = line.to_string();
    if let Err(p) = guarded(move || { let _ = parse_new_file_path_from_plus_header_line(&l); let _ = parse_hunk_header(&l); let _ = parse_diff_added_lines(&l); }) {
        c.fail("parse_diff_added_lines", "safety", input, p, "no panic on arbitrary text".into());
    }
}

const NAMES: &[&str] = &["src/main.rs", "a b.txt", "café1.txt", "src/版本2/notes.txt", "tab\there", "q\"uote.txt", "back\\slash", "x", "dir/ü7", "émoji🙂0.md"];
const BODIES: &[&str] = &["plain text", "", "++ b/other.txt", "++ /dev/null", "++ \"q\"", "++ ", "@@ -1 +1 @@", "@ -1,2 +3,4 @@", "-- a/x", "diff --git a/x b/x", "\\ No newline at end of file", "++", "+ + +", "  indented", "tab\tin line", "ünï"];
fn gen_secs(g: &mut Rng) -> Vec<Sec> {
    let n = 1 + g.below(3) as usize;
    (0..n).map(|_| {
        let deleted = g.below(9) == 0;
        let path = if deleted { None } else { Some(NAMES[g.below(NAMES.len() as u64) as usize].to_string()) };
        let mut next = 1u32;
        let hunks = (0..1 + g.below(3)).map(|_| {
            let ns = next + g.below(4) as u32; let nc = if deleted { 0 } else { g.below(4) as u32 }; let oc = if deleted { 1 + g.below(3) as u32 } else { g.below(3) as u32 };
            next = ns + nc + 1;
            Hunk { os: ns, oc, ns, nc, no_nl: g.below(6) == 0,
                removed: (0..oc).map(|_| BODIES[g.below(BODIES.len() as u64) as usize].to_string()).collect(),
                added: (0..nc).map(|_| BODIES[g.below(BODIES.len() as u64) as usize].to_string()).collect() }
        }).collect();
        Sec { path, hunks }
    }).collect()
}
fn search(c: &mut Ctx, only: &str, seed: u64) {
    let all = only == "*";
    let want = |f: &str| all || f == only;
    if want("parse_hunk_header") {
        for ns in [0u32, 1, 7, 4294967290] { for nc in [None, Some(0u32), Some(1), Some(3)] { for oc in [None, Some(0u32), Some(2)] { for tail in ["", " fn main() {", " @@ -9 +9 @@", " +5,5"] { chk_header(c, 3, oc, ns, nc, tail); } } } }
    }
    if want("parse_diff_added_lines") || want("parse_diff_added_lines_with_insertions") || want("theorem_diff_meaning") || want("parse_new_file_path_from_plus_header_line") {
        // every body text as the FIRST added line of a two-hunk file, followed by a second file
        for b in BODIES { for name in NAMES {
            let secs = vec![Sec { path: Some(name.to_string()), hunks: vec![Hunk { os: 1, oc: 0, ns: 2, nc: 2, no_nl: false, removed: vec![], added: vec![b.to_string(), "x".into()] }, Hunk { os: 9, oc: 1, ns: 11, nc: 1, no_nl: false, removed: vec![b.to_string()], added: vec!["y".into()] }] },
                            Sec { path: Some("other.txt".into()), hunks: vec![Hunk { os: 1, oc: 1, ns: 1, nc: 1, no_nl: true, removed: vec!["o".into()], added: vec![b.to_string()] }] }];
            chk_diff(c, &secs, false);
        } }
        chk_diff(c, &[], false);
        let mut g = Rng(seed.wrapping_mul(0x9E3779B97F4A7C15) | 1);
        for _ in 0..4000 { let s = gen_secs(&mut g); chk_diff(c, &s, g.below(5) == 0); }
        for l in ["\"", "+++ \"", "+++ ", "+++", "@@ ", "@@", "@@ @@", "@@ - + @@", "@@ -, +, @@", "+++ \"\\", "+++ \"\\4\"", "+++ \"\\777\"", "ü@@ü@@"] { chk_line_total(c, l); }
    }
}
fn main() {
    std::panic::set_hook(Box::new(|_| {}));
    let a: Vec<String> = std::env::args().collect();
    let mut c = Ctx { evaluated: 0, failed: Default::default() };
    match a[1].as_str() {
        "search" => search(&mut c, &a[2], a[3].parse().unwrap_or(1)),
        "replay" => {
            let inp = &a[3];
            if let Some(l) = inp.strip_prefix("LINE#") { chk_line_total(&mut c, &unesc(l)); }
            else if let Some(l) = inp.strip_prefix("HDR#") { let q: Vec<&str> = l.splitn(5, ':').collect(); let o = |t: &str| if t == "-" { None } else { Some(t.parse::<u32>().unwrap()) }; chk_header(&mut c, q[0].parse().unwrap(), o(q[1]), q[2].parse().unwrap(), o(q[3]), &unesc(q[4])); }
            else { let (secs, crlf) = dec(inp); chk_diff(&mut c, &secs, crlf); }
        }
        _ => {}
    }
    println!("DONE evaluated={}", c.evaluated);
}
