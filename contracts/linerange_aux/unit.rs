// Unit linerange_aux — NOT attached to any property: LineRange::overlaps / remove / shift are
// #[allow(dead_code)] in /repo (reachable only from dead AttestationEntry helpers and unit tests), so a
// change to them cannot break C04 and must not raise an alarm.  Kept verified for reference
// (run with `bin/check-aux linerange_aux`).
use vstd::prelude::*;
verus! {

pub open spec fn lr_lo(r: LineRange) -> int { match r { LineRange::Single(l) => l as int, LineRange::Range(s, _) => s as int } }
pub open spec fn lr_hi(r: LineRange) -> int { match r { LineRange::Single(l) => l as int, LineRange::Range(_, e) => e as int } }
/// x is a line of r
pub open spec fn lr_has(r: LineRange, x: int) -> bool { lr_lo(r) <= x <= lr_hi(r) }
/// r denotes at least one line
pub open spec fn lr_nonempty(r: LineRange) -> bool { lr_lo(r) <= lr_hi(r) }
/// canonical element: a Range always spans at least two lines
pub open spec fn lr_wf(r: LineRange) -> bool { match r { LineRange::Single(_) => true, LineRange::Range(s, e) => s < e } }
pub open spec fn ranges_have(v: Seq<LineRange>, x: int) -> bool { exists|i: int| 0 <= i < v.len() && lr_has(#[trigger] v[i], x) }
/// the shift of one line number (authorship_log.rs, closure apply_offset): lines at or after the insertion point move by offset
pub open spec fn shift_pt(line: int, ip: int, off: int) -> int { if line >= ip { line + off } else { line } }
pub open spec fn fits_u32(x: int) -> bool { 0 <= x <= u32::MAX as int }
pub open spec fn shift_spec(r: LineRange, ip: int, off: int) -> Option<LineRange> {
    match r {
        LineRange::Single(l) => {
            let s = shift_pt(l as int, ip, off);
            if fits_u32(s) { Some(LineRange::Single(s as u32)) } else { None }
        }
        LineRange::Range(st, en) => {
            let a = shift_pt(st as int, ip, off);
            let b = shift_pt(en as int, ip, off);
            if fits_u32(a) && fits_u32(b) && a <= b {
                if a == b { Some(LineRange::Single(a as u32)) } else { Some(LineRange::Range(a as u32, b as u32)) }
            } else { None }
        }
    }
}

pub broadcast proof fn lemma_has_len0(v: Seq<LineRange>, x: int)
    requires v.len() == 0
    ensures !(#[trigger] ranges_have(v, x))
{
}
pub broadcast proof fn lemma_has_len1(v: Seq<LineRange>, x: int)
    requires v.len() == 1
    ensures #[trigger] ranges_have(v, x) <==> lr_has(v[0], x)
{
    if lr_has(v[0], x) { assert(0 <= 0 < v.len() && lr_has(v[0], x)); }
}
pub broadcast proof fn lemma_has_len2(v: Seq<LineRange>, x: int)
    requires v.len() == 2
    ensures #[trigger] ranges_have(v, x) <==> (lr_has(v[0], x) || lr_has(v[1], x))
{
    if lr_has(v[0], x) { assert(0 <= 0 < v.len() && lr_has(v[0], x)); }
    if lr_has(v[1], x) { assert(0 <= 1 < v.len() && lr_has(v[1], x)); }
}

//#item file=src/authorship/authorship_log.rs kind=enum name=LineRange derive=PartialEq,Eq
#[derive(PartialEq, Eq)]
pub enum LineRange {
    Single(u32),
    Range(u32, u32), // start, end (inclusive)
}
//#end
// D1 drops `Clone` from the derive list (Verus attaches no specification to a derived Clone that is
// not Copy and refuses a second one).  The structural clone that #[derive(Clone)] generates for an
// enum of u32 fields is written out here and verified to return an equal value.
impl Clone for LineRange {
    fn clone(&self) -> (r: Self)
        ensures r == *self
    {
        match self { LineRange::Single(l) => LineRange::Single(*l), LineRange::Range(a, b) => LineRange::Range(*a, *b) }
    }
}
impl LineRange {
//#item file=src/authorship/authorship_log.rs kind=fn name=overlaps impl="LineRange"
    pub fn overlaps(&self, other: &LineRange) -> (r_: bool)
    //@     requires lr_nonempty(*self), lr_nonempty(*other),
    //@     ensures r_ == (exists|x: int| lr_has(*self, x) && lr_has(*other, x)),
    {
    //@ proof {
    //@     let w = if lr_lo(*self) >= lr_lo(*other) { lr_lo(*self) } else { lr_lo(*other) };
    //@     if lr_lo(*self) <= lr_hi(*other) && lr_lo(*other) <= lr_hi(*self) { assert(lr_has(*self, w) && lr_has(*other, w)); }
    //@ }
        match (self, other) {
            (LineRange::Single(l1), LineRange::Single(l2)) => l1 == l2,
            (LineRange::Single(l), LineRange::Range(start, end)) => *l >= *start && *l <= *end,
            (LineRange::Range(start, end), LineRange::Single(l)) => *l >= *start && *l <= *end,
            (LineRange::Range(start1, end1), LineRange::Range(start2, end2)) => {
                start1 <= end2 && start2 <= end1
            }
        }
    }
//#end
//#item file=src/authorship/authorship_log.rs kind=fn name=remove impl="LineRange"
    pub fn remove(&self, to_remove: &LineRange) -> (r_: Vec<LineRange>)
    //@     requires lr_nonempty(*self), lr_nonempty(*to_remove),
    //@     ensures
    //@         forall|x: int| ranges_have(r_@, x) <==> (lr_has(*self, x) && !lr_has(*to_remove, x)),
    //@         forall|i: int| 0 <= i < r_@.len() ==> lr_nonempty(#[trigger] r_@[i]),
    //@         forall|i: int, j: int| 0 <= i < j < r_@.len() ==> lr_hi(#[trigger] r_@[i]) + 1 < lr_lo(#[trigger] r_@[j]),
    //@         r_@.len() <= 2,
    {
    //@ broadcast use lemma_has_len0, lemma_has_len1, lemma_has_len2;
        match (self, to_remove) {
            (LineRange::Single(l), LineRange::Single(r)) => {
                if l == r {
                    vec![]
                } else {
                    vec![self.clone()]
                }
            }
            (LineRange::Single(l), LineRange::Range(start, end)) => {
                if *l >= *start && *l <= *end {
                    vec![]
                } else {
                    vec![self.clone()]
                }
            }
            (LineRange::Range(start, end), LineRange::Single(r)) => {
                if *r < *start || *r > *end {
                    vec![self.clone()]
                } else if *r == *start && *r == *end {
                    vec![]
                } else if *r == *start {
                    vec![LineRange::Range(*start + 1, *end)]
                } else if *r == *end {
                    vec![LineRange::Range(*start, *end - 1)]
                } else {
                    vec![
                        LineRange::Range(*start, *r - 1),
                        LineRange::Range(*r + 1, *end),
                    ]
                }
            }
            (LineRange::Range(start1, end1), LineRange::Range(start2, end2)) => {
                if *start2 > *end1 || *end2 < *start1 {
                    // No overlap
                    vec![self.clone()]
                } else {
                    let mut result = Vec::new();
                    // Left part
                    if *start1 < *start2 {
                        result.push(LineRange::Range(*start1, *start2 - 1));
                    }
                    // Right part
                    if *end1 > *end2 {
                        result.push(LineRange::Range(*end2 + 1, *end1));
                    }
                    result
                }
            }
        }
    }
//#end
//#item file=src/authorship/authorship_log.rs kind=fn name=shift impl="LineRange"
    pub fn shift(&self, insertion_point: u32, offset: i32) -> (r_: Option<LineRange>)
    //@     ensures r_ == shift_spec(*self, insertion_point as int, offset as int),
    {
        // Helper: apply offset to a line number, returning None if result is negative
        let apply_offset = |line: u32| -> (c_: Option<u32>)
        //@     ensures c_ == (if fits_u32(shift_pt(line as int, insertion_point as int, offset as int)) { Some(shift_pt(line as int, insertion_point as int, offset as int) as u32) } else { None::<u32> }),
        {
            if line >= insertion_point {
                let shifted = (line as i64) + (offset as i64);
                if shifted >= 0 && shifted <= u32::MAX as i64 {
                    Some(shifted as u32)
                } else {
                    None
                }
            } else {
                Some(line)
            }
        };

        match self {
            LineRange::Single(l) => {
                let new_line = apply_offset(*l)?;
                Some(LineRange::Single(new_line))
            }
            LineRange::Range(start, end) => {
                let new_start = apply_offset(*start)?;
                let new_end = apply_offset(*end)?;

                // Ensure the range is still valid
                if new_start <= new_end {
                    if new_start == new_end {
                        Some(LineRange::Single(new_start))
                    } else {
                        Some(LineRange::Range(new_start, new_end))
                    }
                } else {
                    None
                }
            }
        }
    }
//#end
}

} // verus!
fn main() {}
