// Unit dominant — property C16: find_dominant_author_for_line_candidates, the place where the char -> line
// projection slices the text at attribution offsets (`&full_content[safe_start..safe_end]`): the panic C16 names.
// One expression is outside the Verus subset and is abstracted by rule O1 (pure, cannot panic):
//   content_slice.chars().any(|c| !c.is_whitespace())   =>   opq_has_non_whitespace(content_slice)
use vstd::prelude::*;
use vstd::utf8::*;
use vstd::string::StringSliceAdditionalSpecFns;
use vstd::std_specs::iter::IteratorSpec;
use vstd::std_specs::cmp::OrdSpec;
use core::cmp::Ordering;
verus! {

//#include ../_shared/cmp_shims.inc.rs
//#include ../_shared/str_axioms.inc.rs
//#include ../_shared/attr_specs.inc.rs
//#use-contract tracker_geom ../_shared/attribution.inc.rs
//#use-contract boundaries ../_shared/char_boundary_fns.inc.rs

//#include ../_shared/checkpoint_kind.inc.rs
//#include ../_shared/dominant_fn.inc.rs

} // verus!
fn main() {}
