// Replay driver for unit dominant: ORIGINAL find_dominant_author_for_line_candidates (and floor/ceil_char_boundary,
// Attribution::overlaps, CheckpointKind::to_str) on multibyte texts with attribution offsets anywhere, including
// inside a character.
#![allow(dead_code, unused)]
include!("@ITEMS@");
use std::panic::{catch_unwind, AssertUnwindSafe};

struct Ctx { evaluated: u64, failed: std::collections::HashSet<String> }
impl Ctx {
    fn fail(&mut self, f: &str, clause: &str, input: String, observed: String, expected: String) {
        if self.failed.insert(f.to_string()) {
            println!("FAIL fn=[[{}]] clause=[[{}]] input=[[{}]] observed=[[{}]] expected=[[{}]]", f, clause, input, observed, expected);
        }
    }
}
fn guarded<T>(f: impl FnOnce() -> T) -> Result<T, String> {
    catch_unwind(AssertUnwindSafe(f)).map_err(|e| {
        let m = e.downcast_ref::<String>().cloned().or_else(|| e.downcast_ref::<&str>().map(|s| s.to_string())).unwrap_or_default();
        format!("panic: {}", m)
    })
}
struct Rng(u64);
impl Rng {
    fn next(&mut self) -> u64 { self.0 ^= self.0 << 13; self.0 ^= self.0 >> 7; self.0 ^= self.0 << 17; self.0 }
    fn below(&mut self, n: u64) -> u64 { self.next() % n }
}
fn hex(s: &str) -> String { s.bytes().map(|b| format!("{:02x}", b)).collect() }
fn unhex(h: &str) -> String { String::from_utf8((0..h.len() / 2).map(|i| u8::from_str_radix(&h[2 * i..2 * i + 2], 16).unwrap()).collect()).unwrap() }
fn table(s: &str) -> Vec<(usize, usize)> {
    let b = s.as_bytes(); let mut out = vec![]; let mut st = 0;
    for i in 0..b.len() { if b[i] == b'\n' { out.push((st, i + 1)); st = i + 1; } }
    if st < b.len() { out.push((st, b.len())); }
    out
}
// input: hex(content);line_start-line_end;empty(0/1);attrs "s-e-author-ts ...";indices "i,j"
fn chk(c: &mut Ctx, content: &str, line: (usize, usize), empty: bool, attrs: &[(usize, usize, String, u128)], idx: &[usize]) {
    c.evaluated += 1;
    let input = format!("{};{}-{};{};{};{}", hex(content), line.0, line.1, empty as u8, attrs.iter().map(|a| format!("{}-{}-{}-{}", a.0, a.1, a.2, a.3)).collect::<Vec<_>>().join(" "), idx.iter().map(|x| x.to_string()).collect::<Vec<_>>().join(","));
    let av: Vec<Attribution> = attrs.iter().map(|a| Attribution::new(a.0, a.1, a.2.clone(), a.3)).collect();
    match guarded(|| find_dominant_author_for_line_candidates(line.0, line.1, empty, idx, &av, content)) {
        Ok((author, _)) => {
            if !(author == "human" || idx.iter().any(|&i| av[i].author_id == author)) { c.fail("find_dominant_author_for_line_candidates", "ensures#0", input, author, "human or the author of a candidate".into()); }
        }
        Err(p) => c.fail("find_dominant_author_for_line_candidates", "safety", input, p, "no panic (slices on char boundaries, indices in range)".into()),
    }
}
fn main() {
    std::panic::set_hook(Box::new(|_| {}));
    let a: Vec<String> = std::env::args().collect();
    let mut c = Ctx { evaluated: 0, failed: Default::default() };
    if a[1] == "search" {
        let texts = ["é\n", "日本語\nx\n", "a🙂b\n🙂\n", "ab\ncd", "\n\n", "é", "x\r\né\r\n"];
        for t in texts {
            for l in table(t) {
                // every attribution [s,e) over byte offsets 0..=len+1 (also past the end and inside characters)
                for s in 0..=t.len() + 1 { for e in s..=t.len() + 1 {
                    chk(&mut c, t, l, false, &[(s, e, "ai".into(), 5)], &[0]);
                    chk(&mut c, t, l, true, &[(s, e, "ai".into(), 5), (0, t.len(), "human".into(), 9)], &[0, 1]);
                } }
                chk(&mut c, t, l, false, &[], &[]);
            }
        }
        let mut g = Rng(a[3].parse::<u64>().unwrap_or(0).wrapping_mul(0x9E3779B97F4A7C15) ^ 0xbf58476d1ce4e5b9);
        let atoms = ["a", "é", "日", "🙂", "\n", " ", "\r\n", "xy"];
        for _ in 0..20000 {
            let n = 1 + g.below(8); let mut s = String::new(); for _ in 0..n { s.push_str(atoms[g.below(8) as usize]); }
            let tb = table(&s); if tb.is_empty() { continue; }
            let l = tb[g.below(tb.len() as u64) as usize];
            let k = g.below(4) as usize;
            let attrs: Vec<(usize, usize, String, u128)> = (0..k).map(|i| { let st = g.below(s.len() as u64 + 2) as usize; (st, st + g.below(6) as usize, if g.below(3) == 0 { "human".to_string() } else { format!("ai{}", i) }, g.below(4) as u128) }).collect();
            let idx: Vec<usize> = (0..k).filter(|_| g.below(4) != 0).collect();
            chk(&mut c, &s, l, g.below(5) == 0, &attrs, &idx);
        }
    } else {
        let p: Vec<&str> = a[3].split(';').collect();
        let content = unhex(p[0]);
        let l: Vec<usize> = p[1].split('-').map(|x| x.parse().unwrap()).collect();
        let attrs: Vec<(usize, usize, String, u128)> = p[3].split_whitespace().map(|t| { let q: Vec<&str> = t.split('-').collect(); (q[0].parse().unwrap(), q[1].parse().unwrap(), q[2].to_string(), q[3].parse().unwrap()) }).collect();
        let idx: Vec<usize> = if p[4].is_empty() { vec![] } else { p[4].split(',').map(|x| x.parse().unwrap()).collect() };
        chk(&mut c, &content, (l[0], l[1]), p[2] == "1", &attrs, &idx);
    }
    println!("DONE evaluated={}", c.evaluated);
}
