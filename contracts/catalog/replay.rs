// Replay driver for unit catalog (plain Rust, compiled by the repository's rustc).
#![allow(dead_code, unused)]
include!("@ITEMS@");
use std::panic::{catch_unwind, AssertUnwindSafe};

struct Ctx { evaluated: u64, failed: std::collections::HashSet<String> }
impl Ctx {
    fn fail(&mut self, f: &str, clause: &str, input: String, observed: String, expected: String) {
        if self.failed.insert(f.to_string()) {
            println!("FAIL fn=[[{}]] clause=[[{}]] input=[[{}]] observed=[[{}]] expected=[[{}]]", f, clause, input, observed, expected);
        }
    }
}
fn guarded<T>(f: impl FnOnce() -> T) -> Result<T, String> {
    catch_unwind(AssertUnwindSafe(f)).map_err(|e| {
        let m = e.downcast_ref::<String>().cloned().or_else(|| e.downcast_ref::<&str>().map(|s| s.to_string())).unwrap_or_default();
        format!("panic: {}", m)
    })
}
struct Rng(u64);
impl Rng {
    fn next(&mut self) -> u64 { self.0 ^= self.0 << 13; self.0 ^= self.0 >> 7; self.0 ^= self.0 << 17; self.0 }
    fn below(&mut self, n: u64) -> u64 { self.next() % n }
}
// input: sequence of segments "E3 D2 I1" (op letter + byte length)
fn parse(s: &str) -> Vec<(char, usize)> { s.split_whitespace().map(|t| (t.chars().next().unwrap(), t[1..].parse().unwrap())).collect() }
fn chk(c: &mut Ctx, segs: &[(char, usize)]) {
    c.evaluated += 1;
    let input = segs.iter().map(|(o, n)| format!("{}{}", o, n)).collect::<Vec<_>>().join(" ");
    let diffs: Vec<ByteDiff> = segs.iter().enumerate().map(|(i, (o, n))| {
        let data: Vec<u8> = (0..*n).map(|k| (i * 31 + k) as u8).collect();
        ByteDiff::new(match o { 'E' => ByteDiffOp::Equal, 'D' => ByteDiffOp::Delete, _ => ByteDiffOp::Insert }, &data)
    }).collect();
    let mut want_d = vec![]; let mut want_i = vec![]; let (mut op, mut np) = (0usize, 0usize);
    for d in &diffs {
        let n = d.data().len();
        match d.op() { ByteDiffOp::Equal => { op += n; np += n; } ByteDiffOp::Delete => { want_d.push((op, op + n, d.data().to_vec())); op += n; } ByteDiffOp::Insert => { want_i.push((np, np + n, d.data().to_vec())); np += n; } }
    }
    let t = AttributionTracker { config: AttributionConfig { move_lines_threshold: 3 } };
    match guarded(|| t.build_diff_catalog(&diffs)) {
        Ok((ds, is)) => {
            let gd: Vec<(usize, usize, Vec<u8>)> = ds.iter().map(|d| (d.start, d.end, d.bytes.clone())).collect();
            let gi: Vec<(usize, usize, Vec<u8>)> = is.iter().map(|d| (d.start, d.end, d.bytes.clone())).collect();
            let short = |v: &Vec<(usize, usize, Vec<u8>)>| v.iter().map(|x| format!("{}..{}", x.0, x.1)).collect::<Vec<_>>().join(" ");
            if gd != want_d { c.fail("AttributionTracker::build_diff_catalog", "ensures#0", input.clone(), format!("deletions {}", short(&gd)), format!("deletions {}", short(&want_d))); }
            else if gi != want_i { c.fail("AttributionTracker::build_diff_catalog", "ensures#1", input, format!("insertions {}", short(&gi)), format!("insertions {}", short(&want_i))); }
        }
        Err(p) => c.fail("AttributionTracker::build_diff_catalog", "safety", input, p, "no panic".into()),
    }
}
fn search(c: &mut Ctx, which: &str, seed: u64) {
    // all op sequences up to length 5 over lengths {0,1,3}
    let ops = ['E', 'D', 'I']; let lens = [0usize, 1, 3];
    let alphabet: Vec<(char, usize)> = ops.iter().flat_map(|o| lens.iter().map(move |l| (*o, *l))).collect();
    fn rec(c: &mut Ctx, alphabet: &[(char, usize)], cur: &mut Vec<(char, usize)>, depth: usize) {
        chk(c, cur);
        if depth == 0 { return; }
        for a in alphabet { cur.push(*a); rec(c, alphabet, cur, depth - 1); cur.pop(); }
    }
    rec(c, &alphabet, &mut vec![], 4);
    let mut g = Rng(seed.wrapping_mul(0x9E3779B97F4A7C15) ^ 0x2545F4914F6CDD1D);
    for _ in 0..3000 { let n = g.below(12); let v: Vec<(char, usize)> = (0..n).map(|_| (ops[g.below(3) as usize], g.below(9) as usize)).collect(); chk(c, &v); }
}
fn main() {
    std::panic::set_hook(Box::new(|_| {}));
    let a: Vec<String> = std::env::args().collect();
    let mut c = Ctx { evaluated: 0, failed: Default::default() };
    if a[1] == "search" { search(&mut c, &a[2], a[3].parse().unwrap_or(0)); } else { chk(&mut c, &parse(&a[3])); }
    println!("DONE evaluated={}", c.evaluated);
}
