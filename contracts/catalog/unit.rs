// Unit catalog — property C16: positions of deletions / insertions derived from the diff segments
// (AttributionTracker::build_diff_catalog) and the ByteDiff accessors it uses.
use vstd::prelude::*;
use vstd::std_specs::iter::IteratorSpec;
verus! {

// ---------------------------------------------------------------- specification vocabulary
//#include ../_shared/bytediff.inc.rs
spec fn seg_len(d: ByteDiff) -> int { bd_data(d).len() as int }
/// bytes of the OLD text covered by the first n segments (Equal + Delete)
spec fn old_upto(diffs: Seq<ByteDiff>, n: int) -> int
    decreases n
{
    if n <= 0 { 0 } else { old_upto(diffs, n - 1) + (if bd_op(diffs[n - 1]) == ByteDiffOp::Insert { 0 } else { seg_len(diffs[n - 1]) }) }
}
/// bytes of the NEW text covered by the first n segments (Equal + Insert)
spec fn new_upto(diffs: Seq<ByteDiff>, n: int) -> int
    decreases n
{
    if n <= 0 { 0 } else { new_upto(diffs, n - 1) + (if bd_op(diffs[n - 1]) == ByteDiffOp::Delete { 0 } else { seg_len(diffs[n - 1]) }) }
}
/// the catalog of deletions the first n segments must produce: (start, end, bytes) in OLD coordinates
spec fn dels_upto(diffs: Seq<ByteDiff>, n: int) -> Seq<(int, int, Seq<u8>)>
    decreases n
{
    if n <= 0 { Seq::empty() } else {
        let r = dels_upto(diffs, n - 1);
        if bd_op(diffs[n - 1]) == ByteDiffOp::Delete { r.push((old_upto(diffs, n - 1), old_upto(diffs, n - 1) + seg_len(diffs[n - 1]), bd_data(diffs[n - 1]))) } else { r }
    }
}
/// the catalog of insertions, in NEW coordinates
spec fn ins_upto(diffs: Seq<ByteDiff>, n: int) -> Seq<(int, int, Seq<u8>)>
    decreases n
{
    if n <= 0 { Seq::empty() } else {
        let r = ins_upto(diffs, n - 1);
        if bd_op(diffs[n - 1]) == ByteDiffOp::Insert { r.push((new_upto(diffs, n - 1), new_upto(diffs, n - 1) + seg_len(diffs[n - 1]), bd_data(diffs[n - 1]))) } else { r }
    }
}
spec fn del_view(d: Deletion) -> (int, int, Seq<u8>) { (d.start as int, d.end as int, d.bytes@) }
spec fn ins_view(d: Insertion) -> (int, int, Seq<u8>) { (d.start as int, d.end as int, d.bytes@) }
spec fn dels_view(v: Seq<Deletion>) -> Seq<(int, int, Seq<u8>)> { v.map_values(|d: Deletion| del_view(d)) }
spec fn inss_view(v: Seq<Insertion>) -> Seq<(int, int, Seq<u8>)> { v.map_values(|d: Insertion| ins_view(d)) }
/// sorted, pairwise disjoint, inside [0, total], length equals the byte count
spec fn catalog_wf(c: Seq<(int, int, Seq<u8>)>, total: int) -> bool {
    &&& forall|i: int| 0 <= i < c.len() ==> 0 <= (#[trigger] c[i]).0 <= c[i].1 <= total && c[i].1 - c[i].0 == c[i].2.len()
    &&& forall|i: int, j: int| 0 <= i < j < c.len() ==> (#[trigger] c[i]).1 <= (#[trigger] c[j]).0
}

proof fn lemma_upto_nonneg(diffs: Seq<ByteDiff>, n: int)
    requires 0 <= n,
    ensures 0 <= old_upto(diffs, n), 0 <= new_upto(diffs, n),
    decreases n,
{
    if n > 0 { lemma_upto_nonneg(diffs, n - 1); }
}
proof fn lemma_upto_monotone(diffs: Seq<ByteDiff>, a: int, b: int)
    requires 0 <= a <= b,
    ensures 0 <= old_upto(diffs, a) <= old_upto(diffs, b), 0 <= new_upto(diffs, a) <= new_upto(diffs, b),
    decreases b - a,
{
    lemma_upto_nonneg(diffs, a);
    if a < b { lemma_upto_monotone(diffs, a, b - 1); }
}
/// the specified catalogs are sorted, disjoint and inside the text: C16's "ranges lie inside the text" for the move detector's inputs
proof fn lemma_catalog_wf(diffs: Seq<ByteDiff>, n: int)
    requires 0 <= n <= diffs.len(),
    ensures
        catalog_wf(dels_upto(diffs, n), old_upto(diffs, n)),
        catalog_wf(ins_upto(diffs, n), new_upto(diffs, n)),
        0 <= old_upto(diffs, n), 0 <= new_upto(diffs, n),
    decreases n,
{
    if n > 0 {
        lemma_catalog_wf(diffs, n - 1);
        lemma_upto_monotone(diffs, n - 1, n);
        let d = dels_upto(diffs, n - 1);
        let i_ = ins_upto(diffs, n - 1);
        assert(forall|i: int| 0 <= i < d.len() ==> (#[trigger] d[i]).1 <= old_upto(diffs, n - 1));
        assert(forall|i: int| 0 <= i < i_.len() ==> (#[trigger] i_[i]).1 <= new_upto(diffs, n - 1));
    }
}

//#item file=src/authorship/attribution_tracker.rs kind=struct name=Deletion
pub(crate) struct Deletion {
    pub(crate) start: usize,
    pub(crate) end: usize,
    pub(crate) bytes: Vec<u8>,
}
//#end
//#item file=src/authorship/attribution_tracker.rs kind=struct name=Insertion
pub(crate) struct Insertion {
    pub(crate) start: usize,
    pub(crate) end: usize,
    pub(crate) bytes: Vec<u8>,
}
//#end
//#item file=src/authorship/attribution_tracker.rs kind=struct name=AttributionConfig
pub struct AttributionConfig {
    move_lines_threshold: usize,
}
//#end
//#item file=src/authorship/attribution_tracker.rs kind=struct name=AttributionTracker
pub struct AttributionTracker {
    config: AttributionConfig,
}
//#end
impl AttributionTracker {
//#item file=src/authorship/attribution_tracker.rs kind=fn name=build_diff_catalog impl="AttributionTracker"
    fn build_diff_catalog(&self, diffs: &[ByteDiff]) -> (r_: (Vec<Deletion>, Vec<Insertion>))
    //@     requires old_upto(diffs@, diffs@.len() as int) <= usize::MAX, new_upto(diffs@, diffs@.len() as int) <= usize::MAX,
    //@     ensures
    //@         dels_view(r_.0@) == dels_upto(diffs@, diffs@.len() as int),
    //@         inss_view(r_.1@) == ins_upto(diffs@, diffs@.len() as int),
    //@         catalog_wf(dels_view(r_.0@), old_upto(diffs@, diffs@.len() as int)),
    //@         catalog_wf(inss_view(r_.1@), new_upto(diffs@, diffs@.len() as int)),
    {
        let mut deletions = Vec::new();
        let mut insertions = Vec::new();

        let mut old_pos = 0;
        let mut new_pos = 0;
        //@ proof { assert(dels_view(deletions@) =~= Seq::empty()); assert(inss_view(insertions@) =~= Seq::empty()); }

        for diff in it_0: diffs
        //@     invariant
        //@         it_0.snapshot@.remaining().len() == diffs@.len(),
        //@         forall|k: int| 0 <= k < diffs@.len() ==> *(#[trigger] it_0.snapshot@.remaining()[k]) == diffs@[k],
        //@         old_upto(diffs@, diffs@.len() as int) <= usize::MAX, new_upto(diffs@, diffs@.len() as int) <= usize::MAX,
        //@         old_pos == old_upto(diffs@, it_0.index@), new_pos == new_upto(diffs@, it_0.index@),
        //@         dels_view(deletions@) == dels_upto(diffs@, it_0.index@),
        //@         inss_view(insertions@) == ins_upto(diffs@, it_0.index@),
        {
            //@ let ghost i = it_0.index@;
            //@ let ghost old_dels = deletions@;
            //@ let ghost old_ins = insertions@;
            //@ proof { assert(*diff == diffs@[i]); lemma_upto_monotone(diffs@, i + 1, diffs@.len() as int); }
            let op = diff.op();
            match op {
                ByteDiffOp::Equal => {
                    let len = diff.data().len();
                    old_pos += len;
                    new_pos += len;
                }
                ByteDiffOp::Delete => {
                    let bytes = diff.data();
                    let len = bytes.len();
                    deletions.push(Deletion {
                        start: old_pos,
                        end: old_pos + len,
                        bytes: bytes.to_vec(),
                    });
                    old_pos += len;
                }
                ByteDiffOp::Insert => {
                    let bytes = diff.data();
                    let len = bytes.len();
                    insertions.push(Insertion {
                        start: new_pos,
                        end: new_pos + len,
                        bytes: bytes.to_vec(),
                    });
                    new_pos += len;
                }
            }
        //@     proof {
        //@         if deletions@.len() > old_dels.len() { let x = deletions@[old_dels.len() as int]; assert(deletions@ =~= old_dels.push(x)); assert(x.bytes@ =~= bd_data(diffs@[i])); assert(dels_view(deletions@) =~= dels_view(old_dels).push(del_view(x))); }
        //@         if insertions@.len() > old_ins.len() { let x = insertions@[old_ins.len() as int]; assert(insertions@ =~= old_ins.push(x)); assert(x.bytes@ =~= bd_data(diffs@[i])); assert(inss_view(insertions@) =~= inss_view(old_ins).push(ins_view(x))); }
        //@     }
        }

        //@ proof { lemma_catalog_wf(diffs@, diffs@.len() as int); }
        (deletions, insertions)
    }
//#end
}

} // verus!
fn main() {}
