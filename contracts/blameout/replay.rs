// Replay driver for unit blameout: the ORIGINAL texts of overlay_ai_authorship, populate_ai_human_authors, the three writer
// regions (df_map, df_lines, js_lines), the whole ORIGINAL output_porcelain_format / output_incremental_format (println!
// captured), get_line_attribution, parse_line_range and the two abbreviation helpers, run as one pipeline over a stand-in git
// (a table of raw blame hunks and a table of notes).  Oracle, written from the property: line l belongs to the hunk that
// covers it; its original number is orig_start + (l - start); it is session S's exactly when the note of the hunk's commit
// lists that ORIGINAL number for the file; every writer must show that commit and that author; -L only removes lines.
#![allow(dead_code, unused)]
use std::collections::{BTreeMap, HashMap, HashSet};
use std::cell::RefCell;
thread_local! { static OUT: RefCell<Vec<String>> = Default::default(); static NOTES: RefCell<HashMap<String, Note>> = Default::default(); static RAW: RefCell<Vec<BlameHunk>> = Default::default(); }
macro_rules! println { ($($t:tt)*) => { OUT.with(|o| o.borrow_mut().push(format!($($t)*))) } }
#[derive(Clone, PartialEq, Debug, Default)]
pub struct Message { pub _opaque: () }
#[derive(Clone, PartialEq, Debug, Default)]
pub struct AuthorshipMetadata { pub prompts: BTreeMap<String, PromptRecord> }
pub struct Repository { pub _opaque: () }
#[derive(Debug)]
pub enum GitAiError { Generic(String) }
#[derive(Clone, Debug)]
pub struct DateTime<T> { _p: std::marker::PhantomData<T> }
#[derive(Clone, Debug)]
pub struct FixedOffset;
pub struct Commit { sha: String }
impl Commit { pub fn summary(&self) -> Result<String, GitAiError> { Ok(format!("summary-of-{}", self.sha)) } }
pub mod git { pub mod refs {
    use super::super::*;
    pub fn grep_ai_notes(_r: &Repository, _p: &str) -> Result<Vec<String>, String> { Ok(vec![]) }
    pub fn get_authorship(_r: &Repository, _sha: &str) -> Option<AuthorshipLog> { None }
} }
fn get_reference_as_authorship_log_v3(_r: &Repository, sha: &str) -> Result<AuthorshipLog, GitAiError> {
    NOTES.with(|n| n.borrow().get(sha).map(mk_log)).ok_or(GitAiError::Generic("no note".into()))
}
fn format_blame_date(_t: i64, _tz: &str, _o: &GitAiBlameOptions) -> String { "DATE".to_string() }
impl Repository {
    /// the stand-in `git blame --line-porcelain -L ..`: the raw hunks clipped to the requested ranges (absolute line numbers,
    /// original numbers shifted with the cut), then the ORIGINAL post-processing
    pub fn blame_hunks_for_ranges(&self, file_path: &str, line_ranges: &[(u32, u32)], options: &GitAiBlameOptions) -> Result<Vec<BlameHunk>, GitAiError> {
        let raw = clip(&RAW.with(|r| r.borrow().clone()), line_ranges);
        self.populate_ai_human_authors(raw, file_path, options)
    }
    pub fn find_commit(&self, sha: String) -> Result<Commit, GitAiError> { Ok(Commit { sha }) }
}
fn clip(raw: &[BlameHunk], ranges: &[(u32, u32)]) -> Vec<BlameHunk> {
    let mut out = vec![];
    for (a, b) in ranges { for h in raw {
        let (s, e) = (h.range.0.max(*a), h.range.1.min(*b));
        if s <= e { let mut n = h.clone(); n.range = (s, e); n.orig_range = (h.orig_range.0 + (s - h.range.0), h.orig_range.0 + (e - h.range.0)); out.push(n); }
    } }
    out
}
include!("@ITEMS@");
use std::panic::{catch_unwind, AssertUnwindSafe};
struct Ctx { evaluated: u64, failed: std::collections::HashSet<String> }
impl Ctx {
    fn fail(&mut self, f: &str, clause: &str, input: String, observed: String, expected: String) {
        if self.failed.insert(format!("{}::{}", f, clause)) { std::println!("FAIL fn=[[{}]] clause=[[{}]] input=[[{}]] observed=[[{}]] expected=[[{}]]", f, clause, input, observed, expected); }
    }
}
fn guarded<T>(f: impl FnOnce() -> T) -> Result<T, String> {
    catch_unwind(AssertUnwindSafe(f)).map_err(|e| { let m = e.downcast_ref::<String>().cloned().or_else(|| e.downcast_ref::<&str>().map(|s| s.to_string())).unwrap_or_default(); format!("panic: {}", m) })
}
struct Rng(u64);
impl Rng { fn next(&mut self) -> u64 { self.0 ^= self.0 << 13; self.0 ^= self.0 >> 7; self.0 ^= self.0 << 17; self.0 } fn below(&mut self, n: u64) -> u64 { self.next() % n } }

/// a note: files -> entries (session hash, inclusive ranges); sessions "s1","s2" have a prompt record (tools "tool1","tool2"), "sx" has none
type Note = Vec<(String, Vec<(String, Vec<(u32, u32)>)>)>;
fn mk_log(n: &Note) -> AuthorshipLog {
    let mut prompts = BTreeMap::new();
    for (h, tool, who) in [("s1", "tool1", Some("ann")), ("s2", "tool2", Some("bob"))] {
        prompts.insert(h.to_string(), PromptRecord { agent_id: AgentId { tool: tool.into(), id: "id".into(), model: "m".into() }, human_author: who.map(|s| s.to_string()), messages: vec![], total_additions: 0, total_deletions: 0, accepted_lines: 0, overriden_lines: 0, messages_url: None });
    }
    AuthorshipLog {
        attestations: n.iter().map(|(f, es)| FileAttestation { file_path: f.clone(), entries: es.iter().map(|(h, rs)| AttestationEntry { hash: h.clone(), line_ranges: rs.iter().map(|(a, b)| if a == b { LineRange::Single(*a) } else { LineRange::Range(*a, *b) }).collect() }).collect() }).collect(),
        metadata: AuthorshipMetadata { prompts },
    }
}
fn show_note(n: &Note) -> String { n.iter().map(|(f, es)| format!("{}:{}", f, es.iter().map(|(h, rs)| format!("{}={}", h, rs.iter().map(|(a, b)| format!("{}-{}", a, b)).collect::<Vec<_>>().join(","))).collect::<Vec<_>>().join(";"))).collect::<Vec<_>>().join("|") }
fn parse_note(s: &str) -> Note {
    s.split('|').filter(|x| !x.is_empty()).map(|fe| { let (f, es) = fe.split_once(':').unwrap(); (f.to_string(), es.split(';').filter(|x| !x.is_empty()).map(|e| { let (h, rs) = e.split_once('=').unwrap(); (h.to_string(), rs.split(',').filter(|x| !x.is_empty()).map(|r| { let (a, b) = r.split_once('-').unwrap(); (a.parse().unwrap(), b.parse().unwrap()) }).collect()) }).collect()) }).collect()
}
/// oracle: the session of `line` of `file` per the note (first attestation of the path, LAST entry listing the line that has a prompt record)
fn o_session(n: &Note, file: &str, line: u32) -> Option<String> {
    let (_, es) = n.iter().find(|(f, _)| f == file)?;
    es.iter().rev().find(|(h, rs)| (h == "s1" || h == "s2") && rs.iter().any(|(a, b)| *a <= line && line <= *b)).map(|(h, _)| h.clone())
}
fn tool_of(h: &str) -> &'static str { if h == "s1" { "tool1" } else { "tool2" } }
fn mk_opts(hashes: bool, human: bool, unknown: bool, split: bool) -> GitAiBlameOptions {
    GitAiBlameOptions { line_ranges: vec![], newest_commit: None, oldest_commit: None, oldest_date: None, porcelain: false, line_porcelain: false, incremental: false, show_name: false, show_number: false, show_email: false, suppress_author: false, show_stats: false, long_rev: false, raw_timestamp: false, abbrev: None, blank_boundary: false, show_root: false, detect_moves: false, detect_copies: 0, move_threshold: None, ignore_revs: vec![], ignore_revs_file: None, no_ignore_revs_file: false, color_lines: false, color_by_age: false, progress: false, date_format: None, contents_file: None, reverse: None, first_parent: false, encoding: None, contents_data: None, use_prompt_hashes_as_names: hashes, return_human_authors_as_human: human, no_output: false, ignore_whitespace: false, json: false, mark_unknown: unknown, show_prompt: false, split_hunks_by_ai_author: split }
}
const SHAS: &[&str] = &["c1c1c1c1", "c2c2c2c2", "c3c3c3c3"];
/// the path git reports for a hunk (the `filename` line of its blame group): "" = none, else the path the file had in the originating commit
const HPATHS: &[&str] = &["", "f.rs", "old.rs"];
fn mk_hunk(r: (u32, u32), o: u32, c: usize, p: usize) -> BlameHunk {
    BlameHunk { range: r, orig_range: (o, o + (r.1 - r.0)), commit_sha: SHAS[c].into(), abbrev_sha: format!("ab{}", c + 1), original_author: format!("author{}", c + 1), author_email: format!("a{}@x", c + 1), author_time: c as i64, author_tz: "+0000".into(), ai_human_author: None, committer: "comm".into(), committer_email: "c@x".into(), committer_time: 0, committer_tz: "+0000".into(), is_boundary: c == 2, filename: HPATHS[p].to_string() }
}
/// scenario: raw hunks `start-end@orig#commit/path` (consecutive from line 1; path = index into HPATHS), notes per commit, the file asked for, -L ranges, option bits
struct Sc { hunks: Vec<(u32, u32, u32, usize, usize)>, notes: Vec<Option<Note>>, file: String, ranges: Vec<(u32, u32)>, bits: u32 }
fn show_sc(s: &Sc) -> String {
    format!("{}~{}~{}~{}~{}", s.hunks.iter().map(|(a, b, o, c, p)| format!("{}-{}@{}#{}/{}", a, b, o, c, p)).collect::<Vec<_>>().join(","),
        s.notes.iter().map(|n| match n { Some(n) => format!("N{}", show_note(n)), None => "-".to_string() }).collect::<Vec<_>>().join("!"), s.file,
        s.ranges.iter().map(|(a, b)| format!("{}-{}", a, b)).collect::<Vec<_>>().join(","), s.bits)
}
fn parse_sc(s: &str) -> Sc {
    let p: Vec<&str> = s.split('~').collect();
    Sc { hunks: p[0].split(',').filter(|x| !x.is_empty()).map(|h| { let (r, rest) = h.split_once('@').unwrap(); let (a, b) = r.split_once('-').unwrap(); let (o, c) = rest.split_once('#').unwrap(); let (c, p) = c.split_once('/').unwrap_or((c, "0")); (a.parse().unwrap(), b.parse().unwrap(), o.parse().unwrap(), c.parse().unwrap(), p.parse().unwrap()) }).collect(),
         notes: p[1].split('!').map(|n| if n == "-" { None } else { Some(parse_note(&n[1..])) }).collect(), file: p[2].to_string(),
         ranges: p[3].split(',').filter(|x| !x.is_empty()).map(|r| { let (a, b) = r.split_once('-').unwrap(); (a.parse().unwrap(), b.parse().unwrap()) }).collect(), bits: p[4].parse().unwrap() }
}
/// the oracle's answer for line l: (commit index, expected name, session if AI)
fn o_line(s: &Sc, o: &GitAiBlameOptions, l: u32) -> Option<(usize, String, Option<String>)> {
    let (a, _b, orig, c, p) = *s.hunks.iter().find(|(a, b, _, _, _)| *a <= l && l <= *b)?;
    // the note is searched under the path the file had in the ORIGINATING commit; the command-line path only when git reported none
    let note_path: &str = if HPATHS[p].is_empty() { &s.file } else { HPATHS[p] };
    let git_author = format!("author{}", c + 1);
    match &s.notes[c] {
        None => Some((c, if o.mark_unknown { "Unknown".into() } else if o.return_human_authors_as_human { "human".into() } else { git_author }, None)),
        Some(n) => match o_session(n, note_path, orig + (l - a)) {
            Some(h) => Some((c, if o.use_prompt_hashes_as_names { h.clone() } else { tool_of(&h).to_string() }, Some(h))),
            None => Some((c, if o.return_human_authors_as_human { "human".into() } else { git_author }, None)),
        },
    }
}
fn flatten(hs: &[BlameHunk]) -> Vec<(u32, u32, String, String, bool, String)> {
    let mut v = vec![]; for h in hs { for i in 0..=(h.range.1 - h.range.0) { v.push((h.range.0 + i, h.orig_range.0 + i, h.commit_sha.clone(), h.original_author.clone(), h.is_boundary, h.filename.clone())); } } v
}
fn chk(c: &mut Ctx, s: &Sc) {
    c.evaluated += 1;
    let input = show_sc(s);
    let mut o = mk_opts(s.bits & 1 != 0, s.bits & 2 != 0, s.bits & 4 != 0, s.bits & 8 == 0);
    o.show_email = s.bits & 16 != 0; o.show_number = s.bits & 32 != 0; o.show_root = s.bits & 64 != 0;
    let total = s.hunks.last().map(|h| h.1).unwrap_or(0);
    let ranges: Vec<(u32, u32)> = if s.ranges.is_empty() { vec![(1, total)] } else { s.ranges.clone() };
    let wanted: Vec<u32> = (1..=total).filter(|l| ranges.iter().any(|(a, b)| a <= l && l <= b)).collect();
    NOTES.with(|n| { let mut n = n.borrow_mut(); n.clear(); for (i, x) in s.notes.iter().enumerate() { if let Some(x) = x { n.insert(SHAS[i].to_string(), x.clone()); } } });
    RAW.with(|r| *r.borrow_mut() = s.hunks.iter().map(|(a, b, og, ci, p)| mk_hunk((*a, *b), *og, *ci, *p)).collect());
    let repo = Repository { _opaque: () };
    // ---- populate_ai_human_authors: line by line the result is the input
    let raw = clip(&RAW.with(|r| r.borrow().clone()), &ranges);
    let hunks = match guarded(|| repo.populate_ai_human_authors(raw.clone(), &s.file, &o)) {
        Err(p) => { c.fail("Repository::populate_ai_human_authors", "safety", input, p, "no panic".into()); return; }
        Ok(Err(e)) => { c.fail("Repository::populate_ai_human_authors", "ensures#0", input, format!("{:?}", e), "Ok".into()); return; }
        Ok(Ok(h)) => h,
    };
    if hunks.iter().any(|h| h.range.0 > h.range.1) { c.fail("Repository::populate_ai_human_authors", "ensures#1", input.clone(), format!("{:?}", hunks.iter().map(|h| h.range).collect::<Vec<_>>()), "forward ranges".into()); return; }
    // the label populate adds (not part of C09's wording, but it is looked up in the same note under the same path): the human author
    // of the session of the hunk's lines - with splitting every line of a result hunk has the hunk's label, without it the first labelled line decides
    let human_of = |l: u32| o_line(s, &o, l).and_then(|t| t.2).map(|h| if h == "s1" { "ann".to_string() } else { "bob".to_string() });
    for h in &hunks {
        let labels: Vec<Option<String>> = (h.range.0..=h.range.1).map(|l| human_of(l)).collect();
        let ok = if o.split_hunks_by_ai_author { labels.iter().all(|x| *x == h.ai_human_author) } else { h.ai_human_author == labels.iter().flatten().next().cloned() };
        if !ok { c.fail("Repository::populate_ai_human_authors", "labels", input.clone(), format!("hunk {:?} labelled {:?}", h.range, h.ai_human_author), format!("per line {:?}", labels)); break; }
    }
    if flatten(&hunks) != flatten(&raw) { c.fail("Repository::populate_ai_human_authors", "ensures#2", input.clone(), format!("{:?}", flatten(&hunks)), format!("{:?}", flatten(&raw))); }
    // ---- overlay_ai_authorship: every requested line (no other) shows the oracle's name
    let (la, prm) = match guarded(|| overlay_ai_authorship(&repo, &hunks, &s.file, &o)) {
        Err(p) => { c.fail("overlay_ai_authorship", "safety", input, p, "no panic".into()); return; }
        Ok(Err(e)) => { c.fail("overlay_ai_authorship", "ensures#0", input, format!("{:?}", e), "Ok".into()); return; }
        Ok(Ok(t)) => (t.0, t.1),
    };
    let mut keys: Vec<u32> = la.keys().copied().collect(); keys.sort();
    if keys != wanted { c.fail("overlay_ai_authorship", "ensures#1", input.clone(), format!("lines {:?}", keys), format!("lines {:?}", wanted)); return; }
    for l in &wanted {
        let (_, name, sess) = o_line(s, &o, *l).unwrap();
        if la[l] != name { c.fail("overlay_ai_authorship", "ensures#1", input.clone(), format!("line {} -> {}", l, la[l]), format!("line {} -> {}", l, name)); }
        if let Some(h) = sess { if !prm.contains_key(&h) { c.fail("overlay_ai_authorship", "ensures#1", input.clone(), format!("no prompt record for {}", h), "session recorded".into()); } }
    }
    // ---- the JSON `lines` object (only meaningful with prompt hashes as names, as effective_blame_options forces for --json)
    if o.use_prompt_hashes_as_names {
        match guarded(|| region_js_lines(&la, &prm)) {
            Err(p) => c.fail("region_js_lines", "safety", input.clone(), p, "no panic".into()),
            Ok(m) => {
                let mut got: Vec<(u32, String)> = vec![];
                for (k, v) in &m { let (a, b) = match k.split_once('-') { Some((a, b)) => (a.parse::<u32>().unwrap(), b.parse::<u32>().unwrap()), None => (k.parse::<u32>().unwrap(), k.parse::<u32>().unwrap()) }; for l in a..=b { got.push((l, v.clone())); } }
                got.sort();
                let want: Vec<(u32, String)> = wanted.iter().filter_map(|l| o_line(s, &o, *l).unwrap().2.map(|h| (*l, h))).collect();
                if got != want { c.fail("region_js_lines", "ensures#1", input.clone(), format!("{:?}", got), format!("{:?}", want)); }
            }
        }
    }
    // ---- the default writer: table + one text per line; commit column and author of every line
    let mut no_split = o.clone(); no_split.split_hunks_by_ai_author = false;
    let hunks2 = repo.blame_hunks_for_ranges(&s.file, &ranges, &no_split).unwrap();
    let content: Vec<String> = (1..=total).map(|l| format!("text{}", l)).collect();
    let lines: Vec<&str> = content.iter().map(|x| x.as_str()).collect();
    match guarded(|| { let (m, req) = region_df_map(hunks2.clone()); let req2 = req.clone(); (req2, region_df_lines(req, m, &lines, &la, &prm, &o, &s.file, 0, 8, 3, String::new())) }) {
        Err(p) => c.fail("region_df_lines", "safety", input.clone(), p, "no panic".into()),
        Ok((req, text)) => {
            if req != wanted { c.fail("region_df_map", "ensures#1", input.clone(), format!("{:?}", req), format!("{:?}", wanted)); }
            let got: Vec<&str> = text.lines().collect();
            if got.len() != wanted.len() { c.fail("region_df_lines", "ensures#0", input.clone(), format!("{} lines", got.len()), format!("{} lines", wanted.len())); }
            else { for (t, l) in got.iter().zip(&wanted) {
                let (ci, name, _) = o_line(s, &o, *l).unwrap();
                let sha = format!("{}ab{}", if ci == 2 && !o.show_root { "^" } else { "" }, ci + 1);
                let author = if o.show_email { format!("{} <a{}@x>", name, ci + 1) } else { name };
                let want = if o.show_number { format!("{} {} ({} DATE {:>3}) text{}", sha, l, author, l, l) } else { format!("{} ({} DATE {:>3}) text{}", sha, author, l, l) };
                if *t != want { c.fail("region_df_lines", "ensures#0", input.clone(), t.to_string(), want); }
            } }
        }
    }
    // ---- porcelain / line-porcelain / incremental (whole original functions): the commit named for every line
    for mode in 0..3 {
        let mut po = o.clone(); po.porcelain = mode < 2; po.line_porcelain = mode == 1; po.incremental = mode == 2;
        OUT.with(|x| x.borrow_mut().clear());
        let fname = if mode == 2 { "output_incremental_format" } else { "output_porcelain_format" };
        let r = guarded(|| if mode == 2 { output_incremental_format(&repo, &la, &s.file, &lines, &ranges, &po) } else { output_porcelain_format(&repo, &la, &s.file, &lines, &ranges, &po) });
        let out = OUT.with(|x| x.borrow().clone());
        match r { Err(p) => { c.fail(fname, "safety", input.clone(), p, "no panic".into()); continue; } Ok(Err(e)) => { c.fail(fname, "ensures#ok", input.clone(), format!("{:?}", e), "Ok".into()); continue; } Ok(Ok(())) => {} }
        let mut named: Vec<(u32, String)> = vec![];
        for t in &out {
            let f: Vec<&str> = t.split(' ').collect();
            if SHAS.contains(&f[0]) && (f.len() == 3 || f.len() == 4) && !t.starts_with('\t') {
                let l: u32 = f[2].parse().unwrap();
                // incremental prints one header per group: it stands for `size` lines
                let n: u32 = if mode == 2 { f[3].parse().unwrap() } else { 1 };
                for k in 0..n { named.push((l + k, f[0].to_string())); }
            }
        }
        named.sort();
        let want: Vec<(u32, String)> = wanted.iter().map(|l| (*l, SHAS[o_line(s, &o, *l).unwrap().0].to_string())).collect();
        if named != want { c.fail(fname, "ensures#commit", input.clone(), format!("{:?}", named), format!("{:?}", want)); }
    }
}
/// git's reading of `-L <arg>` (git-blame(1)): `a,b`; `a,+n` = n lines starting at a (an empty range is refused); `a` alone and `a,` = from a to
/// the end of the file (None as end).  Forms this parser refuses although git accepts them (`a,-n`, `,b`, regexes) stay refusals.
fn o_range(s: &str) -> Option<(u32, Option<u32>)> {
    // an end of exactly u32::MAX (explicit or as a+n-1) coincides with the open-end marker: read as `to the end of the file` - which is
    // also what git makes of any end beyond the last line (it clamps)
    o_range_raw(s).map(|(a, e)| (a, if e == Some(u32::MAX) { None } else { e }))
}
fn o_range_raw(s: &str) -> Option<(u32, Option<u32>)> {
    let num = |x: &str| if !x.is_empty() && x.len() <= 12 && x.bytes().all(|b| b.is_ascii_digit()) { x.parse::<u32>().ok() } else { None };
    let start = |x: &str| num(x.strip_prefix('+').unwrap_or(x));     // git reads a leading '+' on the START as part of the number (strtol)
    match s.split_once(',') {
        Some((a, b)) => {
            let a = start(a)?;
            if b.is_empty() { return Some((a, None)); }
            if let Some(n) = b.strip_prefix('+') { let n = num(n)?; if n == 0 { return None; } return a.checked_add(n - 1).map(|e| (a, Some(e))); }
            num(b).map(|b| (a, Some(b)))
        }
        None => start(s).map(|a| (a, None)),
    }
}
fn chk_range(c: &mut Ctx, s: &str, total: u32) {
    c.evaluated += 1;
    let input = format!("{} total {}", s, total);
    let want = o_range(s);
    match guarded(|| parse_line_range(s)) {
        Err(p) => c.fail("parse_line_range", "safety", input, p, "no panic".into()),
        Ok(r) => {
            // the marker of an open end is the function's business; what counts is what git is finally asked for
            let mut o = mk_opts(false, false, false, true);
            if let Some(r) = r { o.line_ranges.push(r); }
            match (r, want) {
                (None, None) => {}
                (Some(_), Some((a, e))) => match guarded(|| Repository::region_pb_ranges(&o, total)) {
                    Err(p) => c.fail("region_pb_ranges", "safety", input, p, "no panic".into()),
                    Ok(v) => { let w = vec![(a, e.unwrap_or(total))]; if v != w { c.fail(if e.is_none() || r.unwrap().1 == u32::MAX { "region_pb_ranges" } else { "parse_line_range" }, "ensures#0", input, format!("{:?} -> asked {:?}", r, v), format!("asked {:?}", w)); } }
                },
                _ => c.fail("parse_line_range", "ensures#0", input, format!("{:?}", r), format!("{:?}", want)),
            }
        }
    }
}
/// no -L at all: the whole file
fn chk_no_range(c: &mut Ctx, total: u32) {
    c.evaluated += 1;
    let o = mk_opts(false, false, false, true);
    match guarded(|| Repository::region_pb_ranges(&o, total)) { Err(p) => c.fail("region_pb_ranges", "safety", format!("total {}", total), p, "no panic".into()), Ok(v) => if v != vec![(1, total)] { c.fail("region_pb_ranges", "ensures#0", format!("total {}", total), format!("{:?}", v), format!("[(1, {})]", total)); } }
}
fn chk_abbrev(c: &mut Ctx, abbrev: Option<u32>, root: bool, boundary: bool, sha: &str, len: usize) {
    c.evaluated += 1;
    let mut o = mk_opts(false, false, false, true); o.abbrev = abbrev; o.show_root = root;
    let input = format!("{:?} {} {} {} {}", abbrev, root, boundary, sha, len);
    match guarded(|| Repository::blame_requested_abbrev_len(&o, boundary)) {
        Err(p) => c.fail("Repository::blame_requested_abbrev_len", "safety", input.clone(), p, "no panic".into()),
        Ok(r) => { let n = abbrev.unwrap_or(7).max(1) as usize; let w = if boundary && !root { n } else { (n + 1).min(40) }; if r != w { c.fail("Repository::blame_requested_abbrev_len", "ensures#0", input.clone(), r.to_string(), w.to_string()); } }
    }
    match guarded(|| Repository::fallback_blame_abbrev_sha(sha, len)) {
        Err(p) => c.fail("Repository::fallback_blame_abbrev_sha", "safety", input.clone(), p, "no panic".into()),
        Ok(r) => { let w: String = sha.chars().take(len).collect(); if r != w { c.fail("Repository::fallback_blame_abbrev_sha", "ensures#0", input, r, w); } }
    }
}
fn gen_note(g: &mut Rng, files: &[&str]) -> Note {
    let nf = 1 + g.below(2) as usize;
    (0..nf).map(|_| (files[g.below(files.len() as u64) as usize].to_string(), (0..1 + g.below(3)).map(|_| (["s1", "s2", "sx"][g.below(3) as usize].to_string(), (0..1 + g.below(2)).map(|_| { let a = 1 + g.below(9) as u32; (a, a + g.below(3) as u32) }).collect())).collect())).collect()
}
fn gen_sc(g: &mut Rng) -> Sc {
    let nh = g.below(5) as usize; let mut hunks = vec![]; let mut l = 1u32;
    for _ in 0..nh { let n = 1 + g.below(4) as u32; hunks.push((l, l + n - 1, 1 + g.below(8) as u32, g.below(3) as usize, g.below(3) as usize)); l += n; }
    let notes = (0..3).map(|_| if g.below(4) == 0 { None } else { Some(gen_note(g, &["f.rs", "old.rs"])) }).collect();
    let total = l - 1;
    let ranges = if total == 0 || g.below(2) == 0 { vec![] } else { let a = 1 + g.below(total as u64) as u32; let b = a + g.below((total - a + 1) as u64) as u32; vec![(a, b)] };
    Sc { hunks, notes, file: "f.rs".into(), ranges, bits: g.below(128) as u32 }
}
fn main() {
    std::panic::set_hook(Box::new(|_| {}));
    let a: Vec<String> = std::env::args().collect();
    let mut c = Ctx { evaluated: 0, failed: Default::default() };
    let want = |f: &str| a[2] == "*" || a[2] == f || f.ends_with(a[2].as_str());
    if a[1] == "search" {
        let mut g = Rng(a[3].parse::<u64>().unwrap_or(0).wrapping_mul(0x9E3779B97F4A7C15) ^ 0x6a09e667f3bcc909);
        if want("parse_line_range") || want("region_pb_ranges") {
            for s in ["", ",", "1", "7", "0", "1,1", "2,5", "5,2", "10,20", "3,", ",4", "a", "1,b", "x,2", "1,2,3", " 1,2", "1, 2", "1,-2", "-1,2", "4294967295,4294967295", "4294967296,1", "1,4294967296", "2,+3", "+2,3", "2,+0", "é,1", "1,é", "١,٢", "00012,0013", "5", "5,", "+5", "3,+1", "3,+4294967293", "3,+4294967294", "2,++3", "2,+-3", "2,+ 3", "4294967295", "4294967295,+1", "4294967295,+2"] { for total in [0u32, 7, 4000000000] { chk_range(&mut c, s, total); } }
            for total in [0u32, 1, 7] { chk_no_range(&mut c, total); }
            for _ in 0..3000 { let n = g.below(7) as usize; let s: String = (0..n).map(|_| ['0', '1', '9', ',', '+', '-', ' ', 'x', '5'][g.below(9) as usize]).collect(); chk_range(&mut c, &s, 1 + g.below(50) as u32); }
        }
        if want("blame_requested_abbrev_len") || want("fallback_blame_abbrev_sha") {
            for ab in [None, Some(0), Some(1), Some(7), Some(38), Some(39), Some(40), Some(41), Some(u32::MAX)] { for root in [false, true] { for b in [false, true] { for len in [0usize, 1, 7, 8, 40, 41] { chk_abbrev(&mut c, ab, root, b, "0123456789abcdef0123456789abcdef01234567", len); chk_abbrev(&mut c, ab, root, b, "abc", len); } } } }
        }
        if want("overlay_ai_authorship") || want("populate_ai_human_authors") || want("region_js_lines") || want("region_df_lines") || want("region_df_map") || want("output_porcelain_format") || want("output_incremental_format") {
            // exhaustive-small: one or two hunks, every placement of one session range, all notes/no-note, with and without -L
            for bits in [0u32, 1, 2, 4, 1 | 8, 1 | 16, 32, 1 | 64] { for orig in [1u32, 3] { for (ra, rb) in [(1u32, 1u32), (2, 3), (3, 5), (1, 6)] { for sess in ["s1", "sx"] { for file in ["f.rs", "old.rs"] {
                let note: Note = vec![(file.to_string(), vec![(sess.to_string(), vec![(ra, rb)]), ("s2".to_string(), vec![(5, 5)])])];
                for ranges in [vec![], vec![(2u32, 4u32)], vec![(1, 1), (4, 5)]] {
                    for hp in 0..HPATHS.len() {
                        chk(&mut c, &Sc { hunks: vec![(1, 3, orig, 0, hp), (4, 5, 2, 1, 0)], notes: vec![Some(note.clone()), None, None], file: "f.rs".into(), ranges: ranges.clone(), bits });
                        chk(&mut c, &Sc { hunks: vec![(1, 2, 1, 1, (hp + 1) % 3), (3, 5, orig, 0, hp)], notes: vec![Some(note.clone()), Some(note.clone()), None], file: "f.rs".into(), ranges: ranges.clone(), bits });
                    }
                }
            } } } } }
            chk(&mut c, &Sc { hunks: vec![], notes: vec![None, None, None], file: "f.rs".into(), ranges: vec![], bits: 1 });
            for _ in 0..4000 { let s = gen_sc(&mut g); chk(&mut c, &s); }
        }
    } else {
        match a[2].as_str() {
            "parse_line_range" | "region_pb_ranges" => match a[3].rsplit_once(" total ") { Some((s, t)) => chk_range(&mut c, s, t.parse().unwrap()), None => chk_range(&mut c, &a[3], 7) },
            f if f.contains("abbrev") => {}
            _ => chk(&mut c, &parse_sc(&a[3])),
        }
    }
    std::println!("DONE evaluated={}", c.evaluated);
}
