// Unit blameout — property C09: the rest of the blame pipeline of src/commands/blame.rs.  One per-line function
// (line -> commit, original line, blamed author) is defined ONCE over the flattened hunk list (`flat`, `lidx`); against it are
// proved: overlay_ai_authorship (whole function: which note is asked about which ORIGINAL line, what name the line gets),
// populate_ai_human_authors (whole function: splitting hunks changes no line's commit / original line), and the per-line
// decisions of the writers (regions): the commit and the author handed to the format calls.
use vstd::prelude::*;
use std::collections::HashMap;
use vstd::std_specs::iter::IteratorSpec;
use vstd::std_specs::hash::*;
use vstd::iset::ISet;
verus! {

broadcast use vstd::std_specs::hash::group_hash_axioms;
// ASSUMED: a 64-bit target (on a 32-bit one `--abbrev 4294967295` overflows `base_len + 1` in blame_requested_abbrev_len)
global size_of usize == 8;

//#include ../_shared/linerange_type.inc.rs
//#include ../_shared/linerange_specs.inc.rs
//#include ../_shared/checkpoint_kind.inc.rs

// stand-ins: never inspected by the verified text.  ABSTRACT types (external_body): a struct with a unit field would have exactly one
// value, which makes every uninterpreted function over it a constant and lets `two logs are equal` follow from equal attestations alone
#[verifier::external_body] pub struct Repository { _o: () }
#[verifier::external_body] pub struct Message { _o: () }
#[verifier::external_body] pub struct AuthorshipMetadata { _o: () }
pub enum GitAiError { Generic(String) }
#[verifier::external_body]
#[verifier::reject_recursive_types(T)]
pub struct DateTime<T> { _p: core::marker::PhantomData<T> }
#[verifier::external_body] pub struct FixedOffset { _o: () }

//#item file=src/authorship/authorship_log.rs kind=struct name=Author
pub struct Author {
    pub username: String,
    pub email: String,
}
//#end
//#item file=src/authorship/working_log.rs kind=struct name=AgentId
pub struct AgentId {
    pub tool: String, // e.g., "cursor", "windsurf"
    pub id: String,   // id in their domain
    pub model: String,
}
//#end
//#item file=src/authorship/authorship_log.rs kind=struct name=PromptRecord
pub struct PromptRecord {
    pub agent_id: AgentId,
    pub human_author: Option<String>,
    pub messages: Vec<Message>,
    pub total_additions: u32,
    pub total_deletions: u32,
    pub accepted_lines: u32,
    pub overriden_lines: u32,
    /// Full URL to CAS-stored messages (format: {api_base_url}/cas/{hash})
    pub messages_url: Option<String>,
}
//#end
//#item file=src/authorship/authorship_log_serialization.rs kind=struct name=AttestationEntry
pub struct AttestationEntry {
    pub hash: String,
    pub line_ranges: Vec<LineRange>,
}
//#end
//#item file=src/authorship/authorship_log_serialization.rs kind=struct name=FileAttestation
pub struct FileAttestation {
    pub file_path: String,
    pub entries: Vec<AttestationEntry>,
}
//#end
//#item file=src/authorship/authorship_log_serialization.rs kind=struct name=AuthorshipLog
pub struct AuthorshipLog {
    pub attestations: Vec<FileAttestation>,
    pub metadata: AuthorshipMetadata,
}
//#end
//#item file=src/commands/blame.rs kind=struct name=BlameHunk
pub struct BlameHunk {
    pub range: (u32, u32),
    pub orig_range: (u32, u32),
    pub commit_sha: String,
    pub abbrev_sha: String,
    pub original_author: String,
    pub author_email: String,
    pub author_time: i64,
    pub author_tz: String,
    pub ai_human_author: Option<String>,
    pub committer: String,
    pub committer_email: String,
    pub committer_time: i64,
    pub committer_tz: String,
    pub is_boundary: bool,
    pub filename: String,
}
//#end
//#item file=src/commands/blame.rs kind=struct name=GitAiBlameOptions
pub struct GitAiBlameOptions {
    // Line range options
    pub line_ranges: Vec<(u32, u32)>,

    pub newest_commit: Option<String>,
    pub oldest_commit: Option<String>,
    pub oldest_date: Option<DateTime<FixedOffset>>,

    // Output format options
    pub porcelain: bool,
    pub line_porcelain: bool,
    pub incremental: bool,
    pub show_name: bool,
    pub show_number: bool,
    pub show_email: bool,
    pub suppress_author: bool,
    pub show_stats: bool,

    // Commit display options
    pub long_rev: bool,
    pub raw_timestamp: bool,
    pub abbrev: Option<u32>,

    // Boundary options
    pub blank_boundary: bool,
    pub show_root: bool,

    // Movement detection options
    pub detect_moves: bool,
    pub detect_copies: u32, // Number of -C flags (0-3)
    pub move_threshold: Option<u32>,

    // Ignore options
    pub ignore_revs: Vec<String>,
    pub ignore_revs_file: Option<String>,
    pub no_ignore_revs_file: bool,

    // Color options
    pub color_lines: bool,
    pub color_by_age: bool,

    // Progress options
    pub progress: bool,

    // Date format
    pub date_format: Option<String>,

    // Content options
    pub contents_file: Option<String>,

    // Revision options
    pub reverse: Option<String>,
    pub first_parent: bool,

    // Encoding
    pub encoding: Option<String>,

    // Pre-read contents data (from --contents flag, either from stdin or file)
    // This is populated during argument parsing and used by blame
    pub contents_data: Option<Vec<u8>>,

    // Use prompt hashes as name instead of author names
    pub use_prompt_hashes_as_names: bool,

    // Return all human authors as CheckpointKind::Human
    pub return_human_authors_as_human: bool,

    // No output
    pub no_output: bool,

    // Ignore whitespace
    pub ignore_whitespace: bool,

    // JSON output format
    pub json: bool,

    // Mark lines from commits without authorship logs as "Unknown"
    pub mark_unknown: bool,

    // Show prompt hashes inline and dump prompts when piped
    pub show_prompt: bool,

    // Split hunks when lines have different AI human authors
    // When true, a single git blame hunk may be split into multiple hunks
    // if different lines were authored by different humans working with AI
    pub split_hunks_by_ai_author: bool,
}
//#end

// ================================================================ parse_line_range, abbreviation length
/// byte offset of the first ',' (`str::find(',')`), what `str::parse::<u32>` returns, the two cuts - std, uninterpreted
pub uninterp spec fn first_comma(s: Seq<char>) -> Option<int>;
pub uninterp spec fn u32_of(s: Seq<char>) -> Option<u32>;
pub uninterp spec fn cut_ok(s: Seq<char>, pos: int) -> bool;            // 0 <= pos <= byte length, on a char boundary
pub uninterp spec fn before(s: Seq<char>, pos: int) -> Seq<char>;       // &s[..pos]
pub uninterp spec fn after(s: Seq<char>, pos: int) -> Seq<char>;        // &s[pos..]
pub uninterp spec fn byte_len(s: Seq<char>) -> int;
#[verifier::external_body] pub struct PErr { _o: () }
/// `range_str.find(',')`: documented - the byte offset of the first match; ',' is one byte long, so both the offset and the
/// offset + 1 are char boundaries inside the string
#[verifier::external_body]
fn opq_find_comma(s: &str) -> (r: Option<usize>)
    ensures
        first_comma(s@) is Some <==> r is Some,
        r is Some ==> r.unwrap() == first_comma(s@).unwrap() && cut_ok(s@, r.unwrap() as int) && cut_ok(s@, r.unwrap() + 1) && r.unwrap() < usize::MAX,
{ unimplemented!() }
#[verifier::external_body]
fn opq_str_upto<'a>(s: &'a str, pos: usize) -> (r: &'a str)
    requires cut_ok(s@, pos as int),
    ensures r@ == before(s@, pos as int),
{ unimplemented!() }
#[verifier::external_body]
fn opq_str_from<'a>(s: &'a str, pos: usize) -> (r: &'a str)
    requires cut_ok(s@, pos as int),
    ensures r@ == after(s@, pos as int),
{ unimplemented!() }
#[verifier::external_body]
fn opq_parse_u32(s: &str) -> (r: Result<u32, PErr>)
    ensures r is Ok <==> u32_of(s@) is Some, r is Ok ==> r->Ok_0 == u32_of(s@).unwrap(),
{ unimplemented!() }
/// `s.strip_prefix('+')`: the rest after a leading '+', if there is one (std, uninterpreted)
pub uninterp spec fn plus_rest(s: Seq<char>) -> Option<Seq<char>>;
#[verifier::external_body]
fn opq_strip_plus<'a>(s: &'a str) -> (r: Option<&'a str>)
    ensures r is Some <==> plus_rest(s@) is Some, r is Some ==> r.unwrap()@ == plus_rest(s@).unwrap(),
{ unimplemented!() }
//#item file=src/commands/blame.rs kind=const name=LINE_RANGE_TO_END_OF_FILE
const LINE_RANGE_TO_END_OF_FILE: u32 = u32::MAX;
//#end
/// the end of an OPEN range (`-L a`, `-L a,`): a marker that region pb_ranges (prepare_blame_request) replaces by the file's last line
pub open spec fn to_eof() -> u32 { u32::MAX }
/// git-blame(1): `a,+n` = n lines starting at a, i.e. a ..= a+n-1; an empty range (n = 0) is refused; std's parse::<u32> would accept a
/// second '+' (`a,++n`), git does not: refused.  None = this form does not apply / is refused; Some(None) = a+n-1 does not fit
pub open spec fn count_form(a: Seq<char>, c: Seq<char>) -> Option<Option<(u32, u32)>> {
    match (u32_of(a), u32_of(c)) {
        (Some(x), Some(n)) => if n > 0 && plus_rest(c) is None { Some(if x + (n - 1) <= u32::MAX { Some((x, (x + (n - 1)) as u32)) } else { None }) } else { None },
        _ => None,
    }
}
/// the statement `if let (Ok(start), Ok(count)) = (..parse(), ..parse()) && count > 0 && !count_str.starts_with('+') { return
/// start.checked_add(count - 1).map(|end| (start, end)); }` (a let-chain whose header the normaliser cannot combine with rule O1): TRUSTED
/// to compute count_form; the replay sweep runs the original statement against git's reading
#[verifier::external_body]
fn opq_count_form(a: &str, c: &str) -> (r: Option<Option<(u32, u32)>>)
    ensures r == count_form(a@, c@),
{ unimplemented!() }
/// what `-L <arg>` means (git-blame(1)), over std's reading of the numbers: `a,b` -> (a, b) in THIS order; `a,+n` -> (a, a+n-1);
/// `a` alone and `a,` -> from a to the end of the file (to_eof); anything else is refused
pub open spec fn plr(s: Seq<char>) -> Option<(u32, u32)> {
    match first_comma(s) {
        Some(p) => {
            let a = before(s, p); let b = after(s, p + 1);
            match plus_rest(b) {
                Some(c) => match count_form(a, c) { Some(r) => r, None => None },
                None => if b.len() == 0 { match u32_of(a) { Some(x) => Some((x, to_eof())), None => None } }
                        else { match (u32_of(a), u32_of(b)) { (Some(x), Some(y)) => Some((x, y)), _ => None } },
            }
        },
        None => match u32_of(s) { Some(x) => Some((x, to_eof())), None => None },
    }
}
//#item file=src/commands/blame.rs kind=fn name=parse_line_range opaque='[{"stmt_from": "if let (Ok(start), Ok(count)) = (start_str.parse::<u32>(), count_str.parse::<u32>())\n                && count > 0\n                && !count_str.starts_with(\u0027+\u0027)\n            {", "call": "if let Some(r) = opq_count_form(start_str, count_str) { return r; }"}, {"expr": "range_str.find(\u0027,\u0027)", "call": "opq_find_comma(range_str)"}, {"expr": "&range_str[..dash_pos]", "call": "opq_str_upto(range_str, dash_pos)"}, {"expr": "&range_str[dash_pos + 1..]", "call": "opq_str_from(range_str, dash_pos + 1)"}, {"expr": "end_str.strip_prefix(\u0027+\u0027)", "call": "opq_strip_plus(end_str)"}, {"expr": "start_str.parse::<u32>()", "call": "opq_parse_u32(start_str)"}, {"expr": "end_str.parse::<u32>()", "call": "opq_parse_u32(end_str)"}, {"expr": "range_str.parse::<u32>()", "call": "opq_parse_u32(range_str)"}]'
fn parse_line_range(range_str: &str) -> (r_: Option<(u32, u32)>)
//@     ensures r_ == plr(range_str@),
{
    if let Some(dash_pos) = opq_find_comma(range_str) {
        let start_str = opq_str_upto(range_str, dash_pos);
        let end_str = opq_str_from(range_str, dash_pos + 1);

        // `<start>,+<count>`: <count> lines starting at <start> (git-blame(1)); an empty range is refused, as git does
        if let Some(count_str) = opq_strip_plus(end_str) {
            if let Some(r) = opq_count_form(start_str, count_str) { return r; }
            return None;
        }

        // `<start>,` spans from <start> to the end of the file (git-blame(1))
        if end_str.is_empty() {
            return opq_parse_u32(start_str)
                .ok()
                .map(|start| /*@< -> (c_: (u32, u32)) ensures c_ == (start, to_eof()) { >@*/(start, LINE_RANGE_TO_END_OF_FILE)/*@< } >@*/);
        }

        if let (Ok(start), Ok(end)) = (opq_parse_u32(start_str), opq_parse_u32(end_str)) {
            return Some((start, end));
        }
    } else if let Ok(line) = opq_parse_u32(range_str) {
        // `<start>` alone spans from <start> to the end of the file (git-blame(1)), not the single line
        return Some((line, LINE_RANGE_TO_END_OF_FILE));
    }

    None
}
//#end


/// git blame's column width: `--abbrev=<n>` (default 7, at least 1) plus one digit, the one a boundary commit's `^` takes
pub open spec fn abbrev_base(o: GitAiBlameOptions) -> int { let n = match o.abbrev { Some(n) => n as int, None => 7 }; if n < 1 { 1 } else { n } }
pub open spec fn abbrev_len(o: GitAiBlameOptions, is_boundary: bool) -> int {
    if is_boundary && !o.show_root { abbrev_base(o) } else if abbrev_base(o) + 1 < 40 { abbrev_base(o) + 1 } else { 40 }
}
#[verifier::external_body]
fn opq_max_u32(a: u32, b: u32) -> (r: u32)
    ensures r == (if a >= b { a } else { b }),
{ unimplemented!() }
#[verifier::external_body]
fn opq_min_usize(a: usize, b: usize) -> (r: usize)
    ensures r == (if a <= b { a } else { b }),
{ unimplemented!() }
#[verifier::external_body]
fn opq_str_len(s: &str) -> (r: usize)
    ensures r == byte_len(s@),
{ unimplemented!() }
#[verifier::external_body]
fn opq_prefix_string(s: &str, n: usize) -> (r: String)
    requires cut_ok(s@, n as int),
    ensures r@ == before(s@, n as int),
{ unimplemented!() }
/// a commit id as git prints it: ASCII, so every offset up to its length is a char boundary
pub open spec fn ascii_sha(s: Seq<char>) -> bool { forall|n: int| 0 <= n <= byte_len(s) ==> cut_ok(s, n) }
impl Repository {
//#item file=src/commands/blame.rs kind=fn name=blame_requested_abbrev_len impl="Repository" opaque='[{"expr": "options.abbrev.unwrap_or(7).max(1)", "call": "opq_max_u32(options.abbrev.unwrap_or(7), 1)"}, {"expr": "(base_len + 1).min(40)", "call": "opq_min_usize(base_len + 1, 40)"}]'
    fn blame_requested_abbrev_len(options: &GitAiBlameOptions, is_boundary: bool) -> (r_: usize)
    //@     ensures r_ == abbrev_len(*options, is_boundary), 1 <= r_,
    {
        let base_len = opq_max_u32(options.abbrev.unwrap_or(7), 1) as usize;
        if is_boundary && !options.show_root {
            base_len
        } else {
            opq_min_usize(base_len + 1, 40)
        }
    }
//#end
//#item file=src/commands/blame.rs kind=fn name=fallback_blame_abbrev_sha impl="Repository" opaque='[{"expr": "commit_sha.len()", "call": "opq_str_len(commit_sha)"}, {"expr": "commit_sha[..requested_len].to_string()", "call": "opq_prefix_string(commit_sha, requested_len)"}]'
    fn fallback_blame_abbrev_sha(commit_sha: &str, requested_len: usize) -> (r_: String)
    //@     requires ascii_sha(commit_sha@),
    //@     ensures r_@ == (if requested_len < byte_len(commit_sha@) { before(commit_sha@, requested_len as int) } else { commit_sha@ }),
    {
        if requested_len < opq_str_len(commit_sha) {
            opq_prefix_string(commit_sha, requested_len)
        } else {
            commit_sha.to_string()
        }
    }
//#end
}

// ================================================================ the note lookup (contract PROVED in unit blame, used here)
pub uninterp spec fn local_prompt(md: AuthorshipMetadata, hash: Seq<char>) -> Option<PromptRecord>;
pub uninterp spec fn foreign_prompt(hash: Seq<char>) -> Option<PromptRecord>;
pub open spec fn resolvable(md: AuthorshipMetadata, e: AttestationEntry) -> bool { local_prompt(md, e.hash@) is Some || foreign_prompt(e.hash@) is Some }
pub open spec fn resolved(md: AuthorshipMetadata, e: AttestationEntry) -> PromptRecord { if local_prompt(md, e.hash@) is Some { local_prompt(md, e.hash@).unwrap() } else { foreign_prompt(e.hash@).unwrap() } }
pub open spec fn hit(md: AuthorshipMetadata, e: AttestationEntry, line: u32) -> bool { ranges_have(e.line_ranges@, line as int) && resolvable(md, e) }
pub type Found = Option<(Author, Option<String>, Option<PromptRecord>)>;
pub open spec fn lookup_post(es: Seq<AttestationEntry>, md: AuthorshipMetadata, line: u32, r: Found) -> bool {
    &&& r is None <==> (forall|k: int| 0 <= k < es.len() ==> !hit(md, #[trigger] es[k], line))
    &&& r is Some ==> exists|k: int| 0 <= k < es.len() && hit(md, #[trigger] es[k], line) && (forall|m: int| k < m < es.len() ==> !hit(md, #[trigger] es[m], line))
            && r.unwrap().1 is Some && r.unwrap().1.unwrap()@ == es[k].hash@
            && r.unwrap().2 == Some(resolved(md, es[k]))
            && r.unwrap().0.username@ == resolved(md, es[k]).agent_id.tool@ && r.unwrap().0.email@.len() == 0
}
pub open spec fn no_file(atts: Seq<FileAttestation>, file: Seq<char>) -> bool { forall|j: int| 0 <= j < atts.len() ==> (#[trigger] atts[j]).file_path@ != file }
pub open spec fn first_file_at(atts: Seq<FileAttestation>, file: Seq<char>, i: int) -> bool { 0 <= i < atts.len() && atts[i].file_path@ == file && no_file(atts.subrange(0, i), file) }
/// the contract of AuthorshipLog::get_line_attribution (unit blame): a file the note does not name has no AI line; otherwise
/// the FIRST attestation of that path answers and, within it, the LAST entry that lists the line and has a prompt record
pub open spec fn gla_post(log: AuthorshipLog, file: Seq<char>, line: u32, r: Found) -> bool {
    &&& no_file(log.attestations@, file) ==> r is None
    &&& forall|i: int| first_file_at(log.attestations@, file, i) ==> lookup_post((#[trigger] log.attestations@[i]).entries@, log.metadata, line, r)
}
impl AuthorshipLog {
    /// NOT re-proved here: unit blame proves exactly this contract on the text of /repo (same property, C09)
    #[verifier::external_body]
    pub fn get_line_attribution(&self, repo: &Repository, file: &str, line: u32, foreign_prompts_cache: &mut HashMap<String, Option<PromptRecord>>) -> (r_: Found)
        ensures gla_post(*self, file@, line, r_),
    { unimplemented!() }
}
proof fn lemma_first_file_exists(atts: Seq<FileAttestation>, file: Seq<char>, j: int)
    requires 0 <= j < atts.len(), atts[j].file_path@ == file,
    ensures exists|i: int| first_file_at(atts, file, i),
    decreases j
{
    if no_file(atts.subrange(0, j), file) { assert(first_file_at(atts, file, j)); }
    else {
        let pre = atts.subrange(0, j);
        let k = choose|k: int| 0 <= k < pre.len() && (#[trigger] pre[k]).file_path@ == file;
        assert(pre[k] == atts[k]);
        lemma_first_file_exists(atts, file, k);
    }
}
/// a lookup that found something names the session and carries its prompt record
proof fn lemma_found_has_hash(log: AuthorshipLog, file: Seq<char>, line: u32, r: Found)
    requires gla_post(log, file, line, r), r is Some,
    ensures r.unwrap().1 is Some, r.unwrap().2 is Some,
{
    assert(!no_file(log.attestations@, file));
    let j = choose|j: int| 0 <= j < log.attestations@.len() && (#[trigger] log.attestations@[j]).file_path@ == file;
    lemma_first_file_exists(log.attestations@, file, j);
    let i = choose|i: int| first_file_at(log.attestations@, file, i);
    assert(lookup_post(log.attestations@[i].entries@, log.metadata, line, r));
}

// ================================================================ ONE per-line function for the whole pipeline
/// the note git-ai stores for a commit (`get_reference_as_authorship_log_v3(repo, sha).ok()`): outside the verifier's reach
pub uninterp spec fn note_of(sha: Seq<char>) -> Option<AuthorshipLog>;
/// what the porcelain parser is ASSUMED (and populate_ai_human_authors is PROVED) to hand over
pub open spec fn hunk_wf(h: BlameHunk) -> bool {
    h.range.0 <= h.range.1 && h.range.1 - h.range.0 < u32::MAX && h.orig_range.0 + (h.range.1 - h.range.0) <= u32::MAX
}
pub open spec fn all_wf(hs: Seq<BlameHunk>) -> bool { forall|k: int| 0 <= k < hs.len() ==> hunk_wf(#[trigger] hs[k]) }
/// what every line of a hunk inherits from it: the commit and its metadata, as plain values (not the extent, not the label
/// populate_ai_human_authors adds)
pub struct HV { pub commit: Seq<char>, pub abbrev: Seq<char>, pub author: Seq<char>, pub email: Seq<char>, pub time: i64, pub tz: Seq<char>,
                pub committer: Seq<char>, pub committer_email: Seq<char>, pub committer_time: i64, pub committer_tz: Seq<char>, pub boundary: bool,
                /// the path git reports for the hunk (`filename <path>` of the blame group): the path the file had in the originating commit; empty = none reported
                pub path: Seq<char> }
pub open spec fn hv(h: BlameHunk) -> HV {
    HV { commit: h.commit_sha@, abbrev: h.abbrev_sha@, author: h.original_author@, email: h.author_email@, time: h.author_time, tz: h.author_tz@,
         committer: h.committer@, committer_email: h.committer_email@, committer_time: h.committer_time, committer_tz: h.committer_tz@, boundary: h.is_boundary, path: h.filename@ }
}
/// one reported line: its number in the blamed revision, its number in the originating commit, the commit's data
pub struct LineRec { pub line: int, pub orig: int, pub h: HV }
pub open spec fn hlen(h: BlameHunk) -> int { if h.range.0 <= h.range.1 { h.range.1 - h.range.0 + 1 } else { 0 } }
pub open spec fn rec_at(h: BlameHunk, i: int) -> LineRec { LineRec { line: h.range.0 + i, orig: h.orig_range.0 + i, h: hv(h) } }
pub open spec fn flat1(h: BlameHunk) -> Seq<LineRec> { Seq::new(hlen(h) as nat, |i: int| rec_at(h, i)) }
/// the first n hunks, line by line, in order
pub open spec fn flat(hs: Seq<BlameHunk>, n: int) -> Seq<LineRec>
    decreases n
{
    if n <= 0 { Seq::<LineRec>::empty() } else { flat(hs, n - 1) + flat1(hs[n - 1]) }
}
/// index of the record that decides line l: the LAST one (git never reports a line twice; a map insert would let the later win)
pub open spec fn lidx(f: Seq<LineRec>, l: int) -> int
    decreases f.len()
{
    if f.len() == 0 { -1 } else if f.last().line == l { f.len() - 1 } else { lidx(f.drop_last(), l) }
}
proof fn lemma_lidx(f: Seq<LineRec>, l: int)
    ensures -1 <= lidx(f, l) < f.len(), lidx(f, l) >= 0 ==> f[lidx(f, l)].line == l,
        lidx(f, l) < 0 ==> forall|k: int| 0 <= k < f.len() ==> (#[trigger] f[k]).line != l,
    decreases f.len()
{
    if f.len() > 0 && f.last().line != l {
        lemma_lidx(f.drop_last(), l);
        assert forall|k: int| 0 <= k < f.len() && lidx(f, l) < 0 implies (#[trigger] f[k]).line != l by { if k < f.len() - 1 { assert(f.drop_last()[k] == f[k]); } }
    }
}
proof fn lemma_lidx_push(f: Seq<LineRec>, r: LineRec, l: int)
    ensures lidx(f.push(r), l) == (if r.line == l { f.len() as int } else { lidx(f, l) }),
{
    assert(f.push(r).drop_last() =~= f);
}

/// the name a line shows, given what the originating commit's note says about its ORIGINAL line
pub open spec fn shown(r: Found, o: GitAiBlameOptions, git_author: Seq<char>) -> Seq<char> {
    match r {
        Some(t) => match t.2 {
            Some(p) => if o.use_prompt_hashes_as_names { t.1.unwrap()@ } else { p.agent_id.tool@ },
            None => if o.return_human_authors_as_human { human_str() } else { t.0.username@ },
        },
        None => if o.return_human_authors_as_human { human_str() } else { git_author },
    }
}
pub open spec fn no_note_name(o: GitAiBlameOptions, git_author: Seq<char>) -> Seq<char> {
    if o.mark_unknown { "Unknown"@ } else if o.return_human_authors_as_human { human_str() } else { git_author }
}
/// the path the originating commit's note is searched for: the path the file had IN THAT COMMIT (what git reports for the hunk;
/// region bh_parse of unit porcelain keeps it), the path given on the command line only when git reported none
pub open spec fn npath(h: HV, file: Seq<char>) -> Seq<char> { if h.path.len() == 0 { file } else { h.path } }
/// THE per-line clause of C09.  The line of record `rec` is reported under `name`: the note of rec's COMMIT is asked about
/// rec's ORIGINAL line number for the path the file had in that commit (npath); the line is the session's exactly when that
/// note lists it (then the session is a key of the prompt table `pk`), else the author git blames.  `file` is the command-line
/// path (the fallback of npath).  "Renaming a file without editing it changes no line's attribution": the record of a line - commit,
/// original number, original path - is what git reports for it, before and after the rename.
pub open spec fn rec_ok(name: Seq<char>, rec: LineRec, file: Seq<char>, o: GitAiBlameOptions, pk: ISet<Seq<char>>) -> bool {
    match note_of(rec.h.commit) {
        Some(log) => 0 <= rec.orig <= u32::MAX && exists|r: Found| #[trigger] gla_post(log, npath(rec.h, file), rec.orig as u32, r) && name == shown(r, o, rec.h.author)
                        && (r is Some ==> r.unwrap().1 is Some && pk.contains(r.unwrap().1.unwrap()@)),
        None => name == no_note_name(o, rec.h.author),
    }
}
/// the line -> author table agrees with the per-line function of the flattened hunk list f
pub open spec fn lines_ok(m: Map<u32, String>, f: Seq<LineRec>, file: Seq<char>, o: GitAiBlameOptions, pk: ISet<Seq<char>>) -> bool {
    forall|l: u32| (#[trigger] m.contains_key(l) <==> lidx(f, l as int) >= 0) && (m.contains_key(l) ==> rec_ok(m[l]@, f[lidx(f, l as int)], file, o, pk))
}
proof fn lemma_lines_push(m: Map<u32, String>, f: Seq<LineRec>, file: Seq<char>, o: GitAiBlameOptions, pk: ISet<Seq<char>>, pk2: ISet<Seq<char>>, l: u32, name: String, rec: LineRec)
    requires lines_ok(m, f, file, o, pk), rec.line == l, rec_ok(name@, rec, file, o, pk2), pk.subset_of(pk2),
    ensures lines_ok(m.insert(l, name), f.push(rec), file, o, pk2),
{
    let m2 = m.insert(l, name); let f2 = f.push(rec);
    assert forall|x: u32| (#[trigger] m2.contains_key(x) <==> lidx(f2, x as int) >= 0) && (m2.contains_key(x) ==> rec_ok(m2[x]@, f2[lidx(f2, x as int)], file, o, pk2)) by {
        lemma_lidx_push(f, rec, x as int); lemma_lidx(f, x as int);
        if x != l {
            assert(m.contains_key(x) <==> lidx(f, x as int) >= 0);
            if m.contains_key(x) {
                let rc = f[lidx(f, x as int)];
                assert(f2[lidx(f2, x as int)] == rc);
                assert(rec_ok(m[x]@, rc, file, o, pk));
                lemma_rec_mono(m[x]@, rc, file, o, pk, pk2);
            }
        }
    }
}
proof fn lemma_rec_mono(name: Seq<char>, rec: LineRec, file: Seq<char>, o: GitAiBlameOptions, pk: ISet<Seq<char>>, pk2: ISet<Seq<char>>)
    requires rec_ok(name, rec, file, o, pk), pk.subset_of(pk2),
    ensures rec_ok(name, rec, file, o, pk2),
{
    match note_of(rec.h.commit) {
        Some(log) => {
            let r = choose|r: Found| #[trigger] gla_post(log, npath(rec.h, file), rec.orig as u32, r) && name == shown(r, o, rec.h.author) && (r is Some ==> r.unwrap().1 is Some && pk.contains(r.unwrap().1.unwrap()@));
            assert(gla_post(log, npath(rec.h, file), rec.orig as u32, r) && name == shown(r, o, rec.h.author) && (r is Some ==> r.unwrap().1 is Some && pk2.contains(r.unwrap().1.unwrap()@)));
        },
        None => {},
    }
}
proof fn lemma_flat_step(hs: Seq<BlameHunk>, n: int)
    requires 0 <= n < hs.len(),
    ensures flat(hs, n + 1) == flat(hs, n) + flat1(hs[n]),
{}

// ---------------------------------------------------------------- O1 stubs of overlay_ai_authorship / populate_ai_human_authors
pub type NoteCache = HashMap<String, Option<AuthorshipLog>>;
/// every cached answer is the note of the commit it is stored under
pub open spec fn cache_ok(c: NoteCache) -> bool { forall|s: String| c@.contains_key(s) ==> #[trigger] c@[s] == note_of(s@) }
/// the session hashes the prompt table has a record for
pub open spec fn pkeys(m: HashMap<String, PromptRecord>) -> ISet<Seq<char>> { ISet::new(|k: Seq<char>| exists|s: String| s@ == k && #[trigger] m@.contains_key(s)) }
/// `cache.get(&sha)`: documented HashMap behaviour - a stored value under an equal key, if any
#[verifier::external_body]
fn opq_cache_get<'a>(c: &'a NoteCache, k: &String) -> (r: Option<&'a Option<AuthorshipLog>>)
    ensures r is Some ==> exists|s: String| #[trigger] c@.contains_key(s) && s@ == k@ && *r.unwrap() == c@[s],
{ unimplemented!() }
#[verifier::external_body]
fn opq_clone_note(n: &Option<AuthorshipLog>) -> (r: Option<AuthorshipLog>)
    ensures r == *n,
{ unimplemented!() }
/// `get_reference_as_authorship_log_v3(repo, sha).ok()`: the note of THAT commit (uninterpreted)
#[verifier::external_body]
fn opq_fetch_note(sha: &String) -> (r: Option<AuthorshipLog>)
    ensures r == note_of(sha@),
{ unimplemented!() }
#[verifier::external_body]
fn opq_cache_put(c: &mut NoteCache, k: String, v: &Option<AuthorshipLog>)
    ensures final(c)@ == old(c)@.insert(k, *v),
{ unimplemented!() }
/// `String::is_empty`
#[verifier::external_body]
fn opq_is_empty(s: &String) -> (r: bool)
    ensures r == (s@.len() == 0),
{ unimplemented!() }
#[verifier::external_body]
fn opq_owned(s: String) -> (r: String)
    ensures r@ == s@,
{ unimplemented!() }
/// bookkeeping for the JSON `commits` field: frame only (it does not receive `line_authors`)
#[verifier::external_body]
fn opq_note_commit(m: &mut HashMap<String, std::collections::HashSet<String>>, hash: &String, sha: &String)
{ unimplemented!() }
/// `prompt_records.insert(hash, record.clone())`: afterwards the table has a record for that session
#[verifier::external_body]
fn opq_record_prompt(m: &mut HashMap<String, PromptRecord>, hash: String, p: &PromptRecord)
    ensures pkeys(*final(m)) == pkeys(*old(m)).insert(hash@),
{ unimplemented!() }
/// the two conversions at the end of overlay_ai_authorship (JSON `other_files` / `commits`): uninterpreted
#[verifier::external_body]
fn opq_logs_seen(c: NoteCache) -> (r: Vec<AuthorshipLog>)
{ unimplemented!() }
#[verifier::external_body]
fn opq_commits_sorted(m: HashMap<String, std::collections::HashSet<String>>) -> (r: HashMap<String, Vec<String>>)
{ unimplemented!() }
pub open spec fn range_rem(rem: Seq<u32>, start: int, end: int) -> bool {
    &&& rem.len() == (if start <= end { end - start + 1 } else { 0 })
    &&& forall|i: int| 0 <= i < rem.len() ==> (#[trigger] rem[i]) == start + i
}
pub open spec fn slice_rem(rem: Seq<&BlameHunk>, hs: Seq<BlameHunk>) -> bool {
    rem.len() == hs.len() && forall|i: int| 0 <= i < hs.len() ==> *(#[trigger] rem[i]) == hs[i]
}

//#item file=src/commands/blame.rs kind=fn name=overlay_ai_authorship opaque='[{"expr": "commit_authorship_cache.get(&hunk.commit_sha)", "call": "opq_cache_get(&commit_authorship_cache, &hunk.commit_sha)"}, {"expr": "cached.clone()", "call": "opq_clone_note(cached)"}, {"expr": "get_reference_as_authorship_log_v3(repo, &hunk.commit_sha).ok()", "call": "opq_fetch_note(&hunk.commit_sha)"}, {"expr": "commit_authorship_cache.insert(hunk.commit_sha.clone(), authorship.clone())", "call": "opq_cache_put(&mut commit_authorship_cache, hunk.commit_sha.clone(), &authorship)"}, {"expr": "prompt_commits\n                            .entry(prompt_hash.clone())\n                            .or_default()\n                            .insert(hunk.commit_sha.clone())", "call": "opq_note_commit(&mut prompt_commits, &prompt_hash, &hunk.commit_sha)"}, {"expr": "prompt_records.insert(prompt_hash, prompt_record.clone())", "call": "opq_record_prompt(&mut prompt_records, prompt_hash, &prompt_record)"}, {"expr": "CheckpointKind::Human.to_str().to_string()", "call": "opq_owned(CheckpointKind::Human.to_str())"}, {"expr": "commit_authorship_cache\n        .into_iter()\n        .filter_map(|(_, log)| log)\n        .collect()", "call": "opq_logs_seen(commit_authorship_cache)"}, {"expr": "prompt_commits\n        .into_iter()\n        .map(|(hash, commits)| {\n            let mut commits_vec: Vec<String> = commits.into_iter().collect();\n            commits_vec.sort();\n            (hash, commits_vec)\n        })\n        .collect()", "call": "opq_commits_sorted(prompt_commits)"}, {"expr": "hunk.filename.is_empty()", "call": "opq_is_empty(&hunk.filename)"}]'
fn overlay_ai_authorship(
    repo: &Repository,
    blame_hunks: &[BlameHunk],
    file_path: &str,
    options: &GitAiBlameOptions,
) -> (r_: Result<
    (
        HashMap<u32, String>,
        HashMap<String, PromptRecord>,
        Vec<AuthorshipLog>,
        HashMap<String, Vec<String>>, // prompt_hash -> commit_shas
    ),
    GitAiError,
>)
//@     requires all_wf(blame_hunks@),
//@     ensures
//@         // never fails; EVERY reported line (and no other) has an entry, and the entry is what the note of the line's
//@         // commit says about the line's ORIGINAL number (rec_ok); every session named has its record in the prompt table
//@         r_ is Ok,
//@         lines_ok(r_->Ok_0.0@, flat(blame_hunks@, blame_hunks@.len() as int), file_path@, *options, pkeys(r_->Ok_0.1)),
{
    let mut line_authors: HashMap<u32, String> = HashMap::new();
    let mut prompt_records: HashMap<String, PromptRecord> = HashMap::new();
    // Track which commits contain each prompt hash
    let mut prompt_commits: HashMap<String, std::collections::HashSet<String>> = HashMap::new();

    // Group hunks by commit SHA to avoid repeated lookups
    let mut commit_authorship_cache: HashMap<String, Option<AuthorshipLog>> = HashMap::new();
    // Cache for foreign prompts to avoid repeated grepping
    let mut foreign_prompts_cache: HashMap<String, Option<PromptRecord>> = HashMap::new();
//@ let ghost hs = blame_hunks@; let ghost fp = file_path@; let ghost o = *options;
//@ proof { assert(pkeys(prompt_records) =~= ISet::<Seq<char>>::empty()); assert forall|l: u32| lidx(flat(hs, 0), l as int) < 0 by {} }

    for hunk in it_0: blame_hunks
//@     invariant
//@         hs == blame_hunks@, fp == file_path@, o == *options, all_wf(hs), cache_ok(commit_authorship_cache),
//@         slice_rem(it_0.snapshot@.remaining(), hs),
//@         lines_ok(line_authors@, flat(hs, it_0.index@), fp, o, pkeys(prompt_records)),
    {
//@ let ghost n = it_0.index@;
//@ let ghost h = *hunk;
//@ let ghost f0 = flat(hs, n);
//@ proof { assert(h == hs[n]); assert(hunk_wf(h)); lemma_flat_step(hs, n); }
        // Check if we've already looked up this commit's authorship
        let authorship_log = if let Some(cached) = opq_cache_get(&commit_authorship_cache, &hunk.commit_sha) {
            opq_clone_note(cached)
        } else {
            // Try to get authorship log for this commit
            let authorship = opq_fetch_note(&hunk.commit_sha);
            opq_cache_put(&mut commit_authorship_cache, hunk.commit_sha.clone(), &authorship);
            authorship
        };
//@ proof { assert(authorship_log == note_of(h.commit_sha@)); }

        // If we have AI authorship data, look up the author for lines in this hunk
        if let Some(authorship_log) = authorship_log {
            // The note of the originating commit lists the file under the path it had in THAT commit
            let note_path = if opq_is_empty(&hunk.filename) {
                file_path
            } else {
                hunk.filename.as_str()
            };
            //@ let ghost np = npath(hv(h), fp);
            //@ proof { assert(note_path@ == np); }
            // Check each line in this hunk for AI authorship using compact schema
            // IMPORTANT: Use the original line numbers from the commit, not the current line numbers
            let num_lines = hunk.range.1 - hunk.range.0 + 1;
            for i in it_1: 0..num_lines
//@     invariant
//@         hunk_wf(h), h == *hunk, o == *options, fp == file_path@, np == npath(hv(h), fp), note_path@ == np, note_of(h.commit_sha@) is Some, note_of(h.commit_sha@)->Some_0 == authorship_log,
//@         num_lines == hlen(h),
//@         lines_ok(line_authors@, f0 + flat1(h).take(it_1.index@), fp, o, pkeys(prompt_records)),
            {
//@ let ghost k = it_1.index@;
//@ let ghost ma = line_authors@; let ghost pk0 = pkeys(prompt_records); let ghost fk = f0 + flat1(h).take(k);
//@ proof { assert(i == k); }
                let current_line_num = hunk.range.0 + i;
                let orig_line_num = hunk.orig_range.0 + i;
//@ let ghost rec = rec_at(h, k);
//@ let ghost mut rw: Found = None;
//@ proof { assert(rec.h == hv(h) && rec.orig == orig_line_num && rec.line == current_line_num); }

                if let Some((author, prompt_hash, prompt)) = authorship_log.get_line_attribution(
                    repo,
                    note_path,
                    orig_line_num,
                    &mut foreign_prompts_cache,
                ) {
//@ proof { rw = Some((author, prompt_hash, prompt)); assert(gla_post(authorship_log, np, orig_line_num, rw)); lemma_found_has_hash(authorship_log, np, orig_line_num, rw); }
                    // If this line is AI-assisted, display the tool name; otherwise the human username
                    if let Some(prompt_record) = prompt {
                        let prompt_hash = prompt_hash.unwrap();
                        // Track that this prompt hash appears in this commit
                        opq_note_commit(&mut prompt_commits, &prompt_hash, &hunk.commit_sha);
                        if options.use_prompt_hashes_as_names {
                            line_authors.insert(current_line_num, prompt_hash.clone());
                        } else {
                            line_authors
                                .insert(current_line_num, prompt_record.agent_id.tool.clone());
                        }
                        opq_record_prompt(&mut prompt_records, prompt_hash, &prompt_record);
                    } else {
                        // Has authorship log but line not AI = human-authored
                        if options.return_human_authors_as_human {
                            line_authors.insert(
                                current_line_num,
                                opq_owned(CheckpointKind::Human.to_str()),
                            );
                        } else {
                            line_authors.insert(current_line_num, author.username.clone());
                        }
                    }
                } else {
                    // Has authorship log but no attribution found = human-authored
                    if options.return_human_authors_as_human {
                        line_authors
                            .insert(current_line_num, opq_owned(CheckpointKind::Human.to_str()));
                    } else {
                        line_authors.insert(current_line_num, hunk.original_author.clone());
                    }
                }
//@ proof {
//@     let pk2 = pkeys(prompt_records);
//@     assert(pk0.subset_of(pk2));
//@     assert(line_authors@.contains_key(current_line_num) && line_authors@[current_line_num]@ == shown(rw, o, h.original_author@));
//@     assert(gla_post(authorship_log, npath(rec.h, fp), rec.orig as u32, rw));
//@     assert(rw is Some ==> pk2.contains(rw.unwrap().1.unwrap()@));
//@     // the `log` rec_ok binds by matching on note_of(commit) IS the log the lookup above was made in (whole value, metadata included)
//@     assert(note_of(rec.h.commit) is Some && note_of(rec.h.commit)->Some_0 == authorship_log);
//@     assert(rec_ok(line_authors@[current_line_num]@, rec, fp, o, pk2));
//@     lemma_lines_push(ma, fk, fp, o, pk0, pk2, current_line_num, line_authors@[current_line_num], rec);
//@     assert(line_authors@ =~= ma.insert(current_line_num, line_authors@[current_line_num]));
//@     assert(fk.push(rec) =~= f0 + flat1(h).take(k + 1));
//@ }
            }
//@ proof { assert(flat1(h).take(hlen(h)) =~= flat1(h)); }
        } else {
            // No authorship log for this commit
            for line_num in it_2: hunk.range.0..=hunk.range.1
//@     invariant
//@         hunk_wf(h), h == *hunk, o == *options, fp == file_path@, note_of(h.commit_sha@) is None,
//@         range_rem(it_2.snapshot@.remaining(), h.range.0 as int, h.range.1 as int),
//@         lines_ok(line_authors@, f0 + flat1(h).take(it_2.index@), fp, o, pkeys(prompt_records)),
            {
//@ let ghost k = it_2.index@;
//@ let ghost ma = line_authors@; let ghost pk0 = pkeys(prompt_records); let ghost fk = f0 + flat1(h).take(k);
//@ let ghost rec = rec_at(h, k);
//@ proof { assert(line_num == h.range.0 + k); assert(rec.h == hv(h) && rec.line == line_num); }
                if options.mark_unknown {
                    // User wants explicit distinction - mark as Unknown
                    line_authors.insert(line_num, "Unknown".to_string());
                } else if options.return_human_authors_as_human {
                    line_authors.insert(line_num, opq_owned(CheckpointKind::Human.to_str()));
                } else {
                    line_authors.insert(line_num, hunk.original_author.clone());
                }
//@ proof {
//@     assert(line_authors@.contains_key(line_num) && line_authors@[line_num]@ == no_note_name(o, h.original_author@));
//@     assert(rec_ok(line_authors@[line_num]@, rec, fp, o, pk0));
//@     lemma_lines_push(ma, fk, fp, o, pk0, pk0, line_num, line_authors@[line_num], rec);
//@     assert(line_authors@ =~= ma.insert(line_num, line_authors@[line_num]));
//@     assert(fk.push(rec) =~= f0 + flat1(h).take(k + 1));
//@ }
            }
//@ proof { assert(flat1(h).take(hlen(h)) =~= flat1(h)); }
        }
    }

    // Collect all authorship logs we've seen (for JSON output to find other files)
    let authorship_logs: Vec<AuthorshipLog> = opq_logs_seen(commit_authorship_cache);

    // Convert HashSet to Vec and sort for deterministic output
    let prompt_commits_vec: HashMap<String, Vec<String>> = opq_commits_sorted(prompt_commits);

    Ok((
        line_authors,
        prompt_records,
        authorship_logs,
        prompt_commits_vec,
    ))
}
//#end


// ---------------------------------------------------------------- populate_ai_human_authors
pub open spec fn ovw(o: Option<String>) -> Option<Seq<char>> { match o { Some(s) => Some(s@), None => None } }
#[verifier::external_body]
fn opq_clone_opt(o: &Option<String>) -> (r: Option<String>)
    ensures ovw(r) == ovw(*o),
{ unimplemented!() }
/// `v.first().cloned().flatten()`
#[verifier::external_body]
fn opq_first_flat(v: &Vec<Option<String>>) -> (r: Option<String>)
    ensures v@.len() > 0 ==> ovw(r) == ovw(v@[0]), v@.len() == 0 ==> r is None,
{ unimplemented!() }
pub open spec fn enum_ok(e: Seq<(usize, &Option<String>)>, v: Seq<Option<String>>) -> bool {
    e.len() == v.len() && forall|j: int| 0 <= j < v.len() ==> (#[trigger] e[j]).0 == j && *e[j].1 == v[j]
}
/// `v.iter().enumerate()`, collected: documented - the elements with their indices, in order
#[verifier::external_body]
fn opq_enumerate<'a>(v: &'a Vec<Option<String>>) -> (r: Vec<(usize, &'a Option<String>)>)
    ensures enum_ok(r@, v@),
{ unimplemented!() }
#[verifier::external_body]
fn opq_opt_ne(a: &Option<String>, b: &Option<String>) -> (r: bool)
    ensures r == (ovw(*a) != ovw(*b)),
{ unimplemented!() }
/// `#[derive(Clone)]` of BlameHunk: the same values
#[verifier::external_body]
fn opq_clone_hunk(h: &BlameHunk) -> (r: BlameHunk)
    ensures hv(r) == hv(*h), r.range == h.range, r.orig_range == h.orig_range, ovw(r.ai_human_author) == ovw(h.ai_human_author),
{ unimplemented!() }
/// `v.into_iter().flatten().next()` (the label of an unsplit hunk: not part of C09, uninterpreted)
#[verifier::external_body]
fn opq_first_some(v: Vec<Option<String>>) -> (r: Option<String>)
{ unimplemented!() }
pub open spec fn vals_rem(rem: Seq<BlameHunk>, hs: Seq<BlameHunk>) -> bool { rem == hs }
proof fn lemma_flat_prefix(a: Seq<BlameHunk>, b: Seq<BlameHunk>, n: int)
    requires 0 <= n <= a.len(), n <= b.len(), forall|i: int| 0 <= i < n ==> a[i] == b[i],
    ensures flat(a, n) == flat(b, n),
    decreases n
{
    if n > 0 { lemma_flat_prefix(a, b, n - 1); }
}
proof fn lemma_flat_push(s: Seq<BlameHunk>, x: BlameHunk)
    ensures flat(s.push(x), s.len() as int + 1) == flat(s, s.len() as int) + flat1(x),
{
    lemma_flat_prefix(s.push(x), s, s.len() as int);
}
/// a hunk cut out of h: lines [a, b) of it (0-based), whatever its label
pub open spec fn is_cut(nh: BlameHunk, h: BlameHunk, a: int, b: int) -> bool {
    hv(nh) == hv(h) && nh.range.0 == h.range.0 + a && nh.range.1 == h.range.0 + b - 1 && nh.orig_range.0 == h.orig_range.0 + a
}
proof fn lemma_cut(nh: BlameHunk, h: BlameHunk, a: int, b: int)
    requires hunk_wf(h), 0 <= a < b <= hlen(h), is_cut(nh, h, a, b),
    ensures hunk_wf(nh), flat1(nh) == flat1(h).subrange(a, b),
{
    assert(flat1(nh) =~= flat1(h).subrange(a, b));
}

impl Repository {
//#item file=src/commands/blame.rs kind=fn name=populate_ai_human_authors impl="Repository" opaque='[{"expr": "commit_authorship_cache.get(&hunk.commit_sha)", "call": "opq_cache_get(&commit_authorship_cache, &hunk.commit_sha)"}, {"expr": "cached.clone()", "call": "opq_clone_note(cached)"}, {"expr": "get_reference_as_authorship_log_v3(self, &hunk.commit_sha).ok()", "call": "opq_fetch_note(&hunk.commit_sha)"}, {"expr": "commit_authorship_cache.insert(hunk.commit_sha.clone(), authorship.clone())", "call": "opq_cache_put(&mut commit_authorship_cache, hunk.commit_sha.clone(), &authorship)"}, {"expr": "prompt_record.human_author.clone()", "call": "opq_clone_opt(&prompt_record.human_author)"}, {"expr": "line_authors.first().cloned().flatten()", "call": "opq_first_flat(&line_authors)"}, {"expr": "line_authors.iter().enumerate()", "call": "opq_enumerate(&line_authors)"}, {"expr": "author.clone()", "call": "opq_clone_opt(author)"}, {"expr": "author_flat != current_author", "call": "opq_opt_ne(&author_flat, &current_author)"}, {"expr": "hunk.clone()", "call": "opq_clone_hunk(&hunk)"}, {"expr": "current_author.clone()", "call": "opq_clone_opt(&current_author)"}, {"expr": "line_authors.into_iter().flatten().next()", "call": "opq_first_some(line_authors)"}, {"expr": "hunk.filename.is_empty()", "call": "opq_is_empty(&hunk.filename)"}]'
    fn populate_ai_human_authors(
        &self,
        hunks: Vec<BlameHunk>,
        file_path: &str,
        options: &GitAiBlameOptions,
    ) -> (r_: Result<Vec<BlameHunk>, GitAiError>)
    //@     requires all_wf(hunks@),
    //@     ensures
    //@         // never fails; splitting hunks changes NO line's commit, metadata or original line number: line by line the
    //@         // result is the input (so every consumer of the hunk list sees the same per-line function), and stays well-formed
    //@         r_ is Ok, all_wf(r_->Ok_0@),
    //@         flat(r_->Ok_0@, r_->Ok_0@.len() as int) == flat(hunks@, hunks@.len() as int),
    {
        // Cache authorship logs by commit SHA to avoid repeated lookups
        let mut commit_authorship_cache: HashMap<String, Option<AuthorshipLog>> = HashMap::new();
        // Cache for foreign prompts to avoid repeated grepping
        let mut foreign_prompts_cache: HashMap<String, Option<PromptRecord>> = HashMap::new();

        let mut result_hunks: Vec<BlameHunk> = Vec::new();
//@ let ghost hs = hunks@;

        for hunk in it_0: hunks
//@     invariant
//@         all_wf(hs), cache_ok(commit_authorship_cache), vals_rem(it_0.snapshot@.remaining(), hs),
//@         all_wf(result_hunks@), flat(result_hunks@, result_hunks@.len() as int) == flat(hs, it_0.index@),
        {
//@ let ghost n = it_0.index@;
//@ let ghost h = hunk;
//@ let ghost f0 = flat(hs, n);
//@ let ghost res0 = result_hunks@;
//@ proof { assert(h == hs[n]); assert(hunk_wf(h)); lemma_flat_step(hs, n); }
            // Get or fetch the authorship log for this commit
            let authorship_log = if let Some(cached) = opq_cache_get(&commit_authorship_cache, &hunk.commit_sha)
            {
                opq_clone_note(cached)
            } else {
                let authorship = opq_fetch_note(&hunk.commit_sha);
                opq_cache_put(&mut commit_authorship_cache, hunk.commit_sha.clone(), &authorship);
                authorship
            };

            // If we have an authorship log, look up human_author for each line
            if let Some(ref authorship_log) = authorship_log {
                // The note of the originating commit lists the file under the path it had in THAT commit
                let note_path = if opq_is_empty(&hunk.filename) {
                    file_path
                } else {
                    hunk.filename.as_str()
                };
                // Collect human_author for each line in this hunk
                let num_lines = hunk.range.1 - hunk.range.0 + 1;
                let mut line_authors: Vec<Option<String>> = Vec::with_capacity(num_lines as usize);

                for i in it_1: 0..num_lines
//@     invariant hunk_wf(h), h == hunk, num_lines == hlen(h), line_authors@.len() == it_1.index@,
                {
//@ proof { assert(i == it_1.index@); }
                    let orig_line_num = hunk.orig_range.0 + i;

                    let human_author = if let Some((_author, _prompt_hash, Some(prompt_record))) =
                        authorship_log.get_line_attribution(
                            self,
                            note_path,
                            orig_line_num,
                            &mut foreign_prompts_cache,
                        ) {
                        opq_clone_opt(&prompt_record.human_author)
                    } else {
                        None
                    };
                    line_authors.push(human_author);
                }

                if options.split_hunks_by_ai_author {
                    // Split hunk by consecutive lines with the same human_author
                    let mut current_start_idx: u32 = 0;
                    let mut current_author = opq_first_flat(&line_authors);
//@ let ghost la = line_authors@;

                    for (i, author) in it_2: opq_enumerate(&line_authors)
//@     invariant
//@         hunk_wf(h), h == hunk, la == line_authors@, la.len() == hlen(h), enum_ok(it_2.snapshot@.remaining(), la),
//@         current_start_idx <= it_2.index@, it_2.index@ > 0 ==> current_start_idx < it_2.index@, current_start_idx < hlen(h),
//@         ovw(current_author) == ovw(la[current_start_idx as int]),
//@         all_wf(result_hunks@), flat(result_hunks@, result_hunks@.len() as int) == f0 + flat1(h).take(current_start_idx as int),
                    {
//@ let ghost k = it_2.index@;
//@ let ghost cur = current_start_idx as int;
//@ let ghost res1 = result_hunks@;
//@ proof { assert(i == k && *author == la[k]); }
                        let author_flat = opq_clone_opt(author);
                        if opq_opt_ne(&author_flat, &current_author) {
//@ proof { assert(k > 0); }
                            // Create a hunk for the previous group
                            let group_start = hunk.range.0 + current_start_idx;
                            let group_end = hunk.range.0 + (i as u32) - 1;
                            let orig_group_start = hunk.orig_range.0 + current_start_idx;
                            let orig_group_end = hunk.orig_range.0 + (i as u32) - 1;

                            let mut new_hunk = opq_clone_hunk(&hunk);
                            new_hunk.range = (group_start, group_end);
                            new_hunk.orig_range = (orig_group_start, orig_group_end);
                            new_hunk.ai_human_author = opq_clone_opt(&current_author);
                            result_hunks.push(new_hunk);
//@ proof {
//@     let nh = result_hunks@[res1.len() as int];
//@     assert(is_cut(nh, h, cur, k)); lemma_cut(nh, h, cur, k); lemma_flat_push(res1, nh);
//@     assert(result_hunks@ =~= res1.push(nh));
//@     assert(f0 + flat1(h).take(cur) + flat1(h).subrange(cur, k) =~= f0 + flat1(h).take(k));
//@ }

                            // Start a new group
                            current_start_idx = i as u32;
                            current_author = author_flat;
                        }
                    }

                    // Don't forget the last group
                    let group_start = hunk.range.0 + current_start_idx;
                    let group_end = hunk.range.1;
                    let orig_group_start = hunk.orig_range.0 + current_start_idx;
                    let orig_group_end = hunk.orig_range.1;

//@ let ghost cur = current_start_idx as int;
//@ let ghost res1 = result_hunks@;
                    let mut new_hunk = opq_clone_hunk(&hunk);
                    new_hunk.range = (group_start, group_end);
                    new_hunk.orig_range = (orig_group_start, orig_group_end);
                    new_hunk.ai_human_author = current_author;
                    result_hunks.push(new_hunk);
//@ proof {
//@     let nh = result_hunks@[res1.len() as int];
//@     assert(is_cut(nh, h, cur, hlen(h))); lemma_cut(nh, h, cur, hlen(h)); lemma_flat_push(res1, nh);
//@     assert(result_hunks@ =~= res1.push(nh));
//@     assert(f0 + flat1(h).take(cur) + flat1(h).subrange(cur, hlen(h)) =~= f0 + flat1(h));
//@ }
                } else {
                    // Don't split - just use the first human_author found
                    let mut new_hunk = hunk;
                    new_hunk.ai_human_author = opq_first_some(line_authors);
                    result_hunks.push(new_hunk);
//@ proof {
//@     let nh = result_hunks@[res0.len() as int];
//@     assert(is_cut(nh, h, 0, hlen(h))); lemma_cut(nh, h, 0, hlen(h)); lemma_flat_push(res0, nh);
//@     assert(result_hunks@ =~= res0.push(nh));
//@     assert(flat1(h).subrange(0, hlen(h)) =~= flat1(h));
//@ }
                }
            } else {
                // No authorship log, keep hunk as-is
                result_hunks.push(hunk);
//@ proof { lemma_flat_push(res0, h); assert(result_hunks@ =~= res0.push(h)); }
            }
        }

        Ok(result_hunks)
    }
//#end

}

// ================================================================ the writers: line -> hunk table, then one text per requested line
/// the line -> hunk table agrees with the per-line function of the flattened hunk list f
pub open spec fn l2h_ok(m: Map<u32, BlameHunk>, f: Seq<LineRec>) -> bool {
    forall|l: u32| (#[trigger] m.contains_key(l) <==> lidx(f, l as int) >= 0) && (m.contains_key(l) ==> hv(m[l]) == f[lidx(f, l as int)].h)
}
/// the lines written: every key of the table once, in increasing order
pub open spec fn req_ok(v: Seq<u32>, m: Map<u32, BlameHunk>) -> bool {
    (forall|i: int, j: int| 0 <= i < j < v.len() ==> v[i] < v[j]) && (forall|l: u32| v.contains(l) <==> #[trigger] m.contains_key(l))
}
proof fn lemma_l2h_push(m: Map<u32, BlameHunk>, f: Seq<LineRec>, l: u32, hk: BlameHunk, rec: LineRec)
    requires l2h_ok(m, f), rec.line == l, hv(hk) == rec.h,
    ensures l2h_ok(m.insert(l, hk), f.push(rec)),
{
    let m2 = m.insert(l, hk); let f2 = f.push(rec);
    assert forall|x: u32| (#[trigger] m2.contains_key(x) <==> lidx(f2, x as int) >= 0) && (m2.contains_key(x) ==> hv(m2[x]) == f2[lidx(f2, x as int)].h) by {
        lemma_lidx_push(f, rec, x as int); lemma_lidx(f, x as int);
        if x != l { assert(m.contains_key(x) <==> lidx(f, x as int) >= 0); }
    }
}
/// `m.keys().copied().collect()`: documented - every key once, in no particular order
#[verifier::external_body]
fn opq_keys(m: &HashMap<u32, BlameHunk>) -> (r: Vec<u32>)
    ensures r@.no_duplicates(), forall|l: u32| r@.contains(l) <==> #[trigger] m@.contains_key(l),
{ unimplemented!() }
pub open spec fn sorted_le(v: Seq<u32>) -> bool { forall|i: int, j: int| 0 <= i < j < v.len() ==> v[i] <= v[j] }
/// `v.sort_unstable()`: documented - a sorted permutation
#[verifier::external_body]
fn opq_sort_u32(v: &mut Vec<u32>)
    ensures sorted_le(final(v)@), final(v)@.len() == old(v)@.len(), forall|x: u32| final(v)@.contains(x) <==> old(v)@.contains(x),
        old(v)@.no_duplicates() ==> final(v)@.no_duplicates(),
{ unimplemented!() }

//#item file=src/commands/blame.rs kind=region name=df_map in=output_default_format from="let mut line_to_hunk: HashMap<u32, BlameHunk> = HashMap::new();" to="requested_lines.sort_unstable();" from_nth=0 to_nth=0 opaque='[{"expr": "hunk.clone()", "call": "opq_clone_hunk(hunk)"}, {"expr": "line_to_hunk.keys().copied().collect()", "call": "opq_keys(&line_to_hunk)"}, {"expr": "requested_lines.sort_unstable()", "call": "opq_sort_u32(&mut requested_lines)"}]'
//@ fn region_df_map(hunks: Vec<BlameHunk>) -> (r_: (HashMap<u32, BlameHunk>, Vec<u32>))
//@     requires all_wf(hunks@),
//@     ensures
//@         // every line of the hunk list gets the hunk data of ITS hunk (commit, author, dates), no other line has an entry;
//@         // the lines to write are exactly those, each once, in increasing order
//@         l2h_ok(r_.0@, flat(hunks@, hunks@.len() as int)), req_ok(r_.1@, r_.0@),
//@ {
//@     let ghost hs = hunks@;
    let mut line_to_hunk: HashMap<u32, BlameHunk> = HashMap::new();
//@ proof { assert forall|l: u32| lidx(flat(hs, 0), l as int) < 0 by {} }
    for hunk in it_0: &hunks
//@     invariant hs == hunks@, all_wf(hs), slice_rem(it_0.snapshot@.remaining(), hs), l2h_ok(line_to_hunk@, flat(hs, it_0.index@)),
    {
//@ let ghost n = it_0.index@; let ghost h = *hunk; let ghost f0 = flat(hs, n);
//@ proof { assert(h == hs[n]); assert(hunk_wf(h)); lemma_flat_step(hs, n); }
        for line_num in it_1: hunk.range.0..=hunk.range.1
//@     invariant hunk_wf(h), h == *hunk, range_rem(it_1.snapshot@.remaining(), h.range.0 as int, h.range.1 as int),
//@         l2h_ok(line_to_hunk@, f0 + flat1(h).take(it_1.index@)),
        {
//@ let ghost k = it_1.index@; let ghost m0 = line_to_hunk@; let ghost fk = f0 + flat1(h).take(k); let ghost rec = rec_at(h, k);
//@ proof { assert(line_num == h.range.0 + k); }
            line_to_hunk.insert(line_num, opq_clone_hunk(hunk));
//@ proof { lemma_l2h_push(m0, fk, line_num, line_to_hunk@[line_num], rec); assert(line_to_hunk@ =~= m0.insert(line_num, line_to_hunk@[line_num])); assert(fk.push(rec) =~= f0 + flat1(h).take(k + 1)); }
        }
//@ proof { assert(flat1(h).take(hlen(h)) =~= flat1(h)); }
    }
    let mut requested_lines: Vec<u32> = opq_keys(&line_to_hunk);
    opq_sort_u32(&mut requested_lines);
//@     (line_to_hunk, requested_lines)
//@ }
//#end


// ---------------------------------------------------------------- output_default_format: the text of one line
// every format!(..) is uninterpreted (rule O1): the point is WHICH commit column and WHICH author go into it
pub uninterp spec fn sp_blank(w: int) -> Seq<char>;
pub uninterp spec fn sp_sha(marker: Seq<char>, sha: Seq<char>) -> Seq<char>;
pub uninterp spec fn sp_short(author: Seq<char>) -> Seq<char>;
pub uninterp spec fn sp_tool_hash(tool: Seq<char>, short: Seq<char>) -> Seq<char>;
pub uninterp spec fn sp_author_email(author: Seq<char>, email: Seq<char>) -> Seq<char>;
pub uninterp spec fn sp_pad(s: Seq<char>, w: int) -> Seq<char>;
pub uninterp spec fn sp_date(time: i64, tz: Seq<char>, o: GitAiBlameOptions) -> Seq<char>;
pub uninterp spec fn f_s(sha: Seq<char>, l: u32, content: Seq<char>) -> Seq<char>;
pub uninterp spec fn f_name(sha: Seq<char>, file: Seq<char>, padded: Seq<char>, date: Seq<char>, l: u32, content: Seq<char>, lw: int) -> Seq<char>;
pub uninterp spec fn f_num(sha: Seq<char>, l: u32, padded: Seq<char>, date: Seq<char>, l2: u32, content: Seq<char>, lw: int) -> Seq<char>;
pub uninterp spec fn f_plain(sha: Seq<char>, padded: Seq<char>, date: Seq<char>, l: u32, content: Seq<char>, lw: int) -> Seq<char>;
pub uninterp spec fn f_unknown(l: u32, content: Seq<char>, lw: int) -> Seq<char>;
/// the record the prompt table holds for a session
pub uninterp spec fn prompt_tool(m: HashMap<String, PromptRecord>, k: Seq<char>) -> Seq<char>;
#[verifier::external_body] fn opq_blank(w: usize) -> (r: String) ensures r@ == sp_blank(w as int), { unimplemented!() }
#[verifier::external_body] fn opq_fmt_sha(marker: &str, sha: &String) -> (r: String) ensures r@ == sp_sha(marker@, sha@), { unimplemented!() }
#[verifier::external_body] fn opq_has_prompt(m: &HashMap<String, PromptRecord>, k: &String) -> (r: bool) ensures r == pkeys(*m).contains(k@), { unimplemented!() }
/// `&prompt_records[author]` panics for a missing key: the precondition
#[verifier::external_body] fn opq_prompt_of<'a>(m: &'a HashMap<String, PromptRecord>, k: &String) -> (r: &'a PromptRecord) requires pkeys(*m).contains(k@), ensures r.agent_id.tool@ == prompt_tool(*m, k@), { unimplemented!() }
#[verifier::external_body] fn opq_short_hash<'a>(a: &'a String) -> (r: &'a str) ensures r@ == sp_short(a@), { unimplemented!() }
#[verifier::external_body] fn opq_fmt_tool_hash(tool: &String, short: &str) -> (r: String) ensures r@ == sp_tool_hash(tool@, short@), { unimplemented!() }
#[verifier::external_body] fn opq_fmt_author_email(a: &String, e: &String) -> (r: String) ensures r@ == sp_author_email(a@, e@), { unimplemented!() }
#[verifier::external_body] fn opq_to_string(a: &String) -> (r: String) ensures r@ == a@, { unimplemented!() }
#[verifier::external_body] fn opq_pad(s: String, w: usize) -> (r: String) ensures r@ == sp_pad(s@, w as int), { unimplemented!() }
#[verifier::external_body] fn opq_fmt_sp_str(s: &str) -> (r: String) { unimplemented!() }
#[verifier::external_body] fn opq_fmt_sp_num(n: u32) -> (r: String) { unimplemented!() }
/// format_blame_date (same file, not under contract): uninterpreted
#[verifier::external_body] fn format_blame_date(author_time: i64, author_tz: &String, options: &GitAiBlameOptions) -> (r: String) ensures r@ == sp_date(author_time, author_tz@, *options), { unimplemented!() }
#[verifier::external_body] fn opq_emit_s(out: &mut String, sha: &String, l: u32, content: &str) ensures final(out)@ == old(out)@ + f_s(sha@, l, content@), { unimplemented!() }
#[verifier::external_body] fn opq_emit_name(out: &mut String, sha: &String, file: &str, padded: &String, date: &String, l: u32, content: &str, lw: usize) ensures final(out)@ == old(out)@ + f_name(sha@, file@, padded@, date@, l, content@, lw as int), { unimplemented!() }
#[verifier::external_body] fn opq_emit_num(out: &mut String, sha: &String, l: u32, padded: &String, date: &String, l2: u32, content: &str, lw: usize) ensures final(out)@ == old(out)@ + f_num(sha@, l, padded@, date@, l2, content@, lw as int), { unimplemented!() }
#[verifier::external_body] fn opq_emit_plain(out: &mut String, sha: &String, padded: &String, date: &String, l: u32, content: &str, lw: usize) ensures final(out)@ == old(out)@ + f_plain(sha@, padded@, date@, l, content@, lw as int), { unimplemented!() }
#[verifier::external_body] fn opq_emit_unknown(out: &mut String, l: u32, content: &str, lw: usize) ensures final(out)@ == old(out)@ + f_unknown(l, content@, lw as int), { unimplemented!() }
/// everything the loop of output_default_format reads
pub struct DCtx { pub l2h: Map<u32, BlameHunk>, pub la: Map<u32, String>, pub prm: HashMap<String, PromptRecord>, pub o: GitAiBlameOptions, pub file: Seq<char>,
                  pub lines: Seq<Seq<char>>, pub maw: int, pub bw: int, pub lw: int }
pub open spec fn content_of(c: DCtx, l: u32) -> Seq<char> { if 1 <= l && l - 1 < c.lines.len() { c.lines[l - 1] } else { ""@ } }
/// the text of line l, GIVEN the hunk data `h` and the author name `author` that go into it
pub open spec fn dline_of(h: HV, author: Seq<char>, c: DCtx, l: u32) -> Seq<char> {
    let sha = if h.boundary && c.o.blank_boundary && !c.o.show_root { sp_blank(c.bw) } else { sp_sha(if h.boundary && !c.o.show_root { "^"@ } else { ""@ }, h.abbrev) };
    let disp = if c.o.suppress_author { ""@ } else if c.o.show_prompt && pkeys(c.prm).contains(author) { sp_tool_hash(prompt_tool(c.prm, author), sp_short(author)) }
               else if c.o.show_email { sp_author_email(author, h.email) } else { author };
    let padded = if c.maw > 0 { sp_pad(disp, c.maw) } else { disp };
    let date = sp_date(h.time, h.tz, c.o);
    if c.o.suppress_author { f_s(sha, l, content_of(c, l)) }
    else if c.o.show_name { f_name(sha, c.file, padded, date, l, content_of(c, l), c.lw) }
    else if c.o.show_number { f_num(sha, l, padded, date, l, content_of(c, l), c.lw) }
    else { f_plain(sha, padded, date, l, content_of(c, l), c.lw) }
}
/// the author written for line l: the overlay's entry for THAT line (the hunk's git author only if the overlay has none)
pub open spec fn dauthor(c: DCtx, l: u32) -> Seq<char> { if c.la.contains_key(l) { c.la[l]@ } else { c.l2h[l].original_author@ } }
pub open spec fn dline(c: DCtx, l: u32) -> Seq<char> {
    if c.l2h.contains_key(l) { dline_of(hv(c.l2h[l]), dauthor(c, l), c, l) } else { f_unknown(l, content_of(c, l), c.lw) }
}
pub open spec fn dtext(v: Seq<u32>, n: int, c: DCtx) -> Seq<char>
    decreases n
{
    if n <= 0 { Seq::<char>::empty() } else { dtext(v, n - 1, c) + dline(c, v[n - 1]) }
}
pub open spec fn str_views(v: Seq<&str>) -> Seq<Seq<char>> { Seq::new(v.len(), |i: int| v[i]@) }

//#item file=src/commands/blame.rs kind=region name=df_lines in=output_default_format from="for line_num in requested_lines {" to="// Print stats if requested" from_nth=0 to_nth=0 to_exclusive=yes opaque='[{"expr": "\" \".repeat(blank_boundary_hash_width)", "call": "opq_blank(blank_boundary_hash_width)"}, {"expr": "format!(\"{}{}\", boundary_marker, sha)", "call": "opq_fmt_sha(boundary_marker, sha)"}, {"expr": "prompt_records.contains_key(author)", "call": "opq_has_prompt(prompt_records, author)"}, {"expr": "&prompt_records[author]", "call": "opq_prompt_of(prompt_records, author)"}, {"expr": "&author[..7.min(author.len())]", "call": "opq_short_hash(author)"}, {"expr": "format!(\"{} [{}]\", prompt.agent_id.tool, short_hash)", "call": "opq_fmt_tool_hash(&prompt.agent_id.tool, short_hash)"}, {"expr": "format!(\"{} <{}>\", author, &hunk.author_email)", "call": "opq_fmt_author_email(author, &hunk.author_email)"}, {"expr": "author.to_string()", "call": "opq_to_string(author)"}, {"expr": "format!(\"{:<width$}\", author_display, width = max_author_width)", "call": "opq_pad(author_display, max_author_width)"}, {"expr": "format!(\"{} \", file_path)", "call": "opq_fmt_sp_str(file_path)"}, {"expr": "format!(\"{} \", line_num)", "call": "opq_fmt_sp_num(line_num)"}, {"expr": "output.push_str(&format!(\"{} {}) {}\\n\", full_sha, line_num, line_content))", "call": "opq_emit_s(&mut output, &full_sha, line_num, line_content)"}, {"expr": "output.push_str(&format!(\n                        \"{} {} ({} {} {:>width$}) {}\\n\",\n                        full_sha,\n                        file_path,\n                        padded_author,\n                        date_str,\n                        line_num,\n                        line_content,\n                        width = line_num_width\n                    ))", "call": "opq_emit_name(&mut output, &full_sha, file_path, &padded_author, &date_str, line_num, line_content, line_num_width)"}, {"expr": "output.push_str(&format!(\n                        \"{} {} ({} {} {:>width$}) {}\\n\",\n                        full_sha,\n                        line_num,\n                        padded_author,\n                        date_str,\n                        line_num,\n                        line_content,\n                        width = line_num_width\n                    ))", "call": "opq_emit_num(&mut output, &full_sha, line_num, &padded_author, &date_str, line_num, line_content, line_num_width)"}, {"expr": "output.push_str(&format!(\n                        \"{} ({} {} {:>width$}) {}\\n\",\n                        full_sha,\n                        padded_author,\n                        date_str,\n                        line_num,\n                        line_content,\n                        width = line_num_width\n                    ))", "call": "opq_emit_plain(&mut output, &full_sha, &padded_author, &date_str, line_num, line_content, line_num_width)"}, {"expr": "output.push_str(&format!(\n                \"{:<8} (unknown        1970-01-01 00:00:00 +0000    {:>width$}) {}\\n\",\n                \"????????\",\n                line_num,\n                line_content,\n                width = line_num_width\n            ))", "call": "opq_emit_unknown(&mut output, line_num, line_content, line_num_width)"}]'
//@ fn region_df_lines(requested_lines: Vec<u32>, line_to_hunk: HashMap<u32, BlameHunk>, lines: &[&str], line_authors: &HashMap<u32, String>, prompt_records: &HashMap<String, PromptRecord>, options: &GitAiBlameOptions, file_path: &str, max_author_width: usize, blank_boundary_hash_width: usize, line_num_width: usize, output0: String) -> (r_: String)
//@     requires
//@         // git numbers lines from 1 (`line_num - 1` underflows for a line 0: an ASSUMPTION about git's output, see REPORT)
//@         forall|i: int| 0 <= i < requested_lines@.len() ==> requested_lines@[i] >= 1,
//@     ensures
//@         // one text per requested line, in the given order; the text of line l is made from the table entry of l (commit
//@         // column, dates) and from the overlay's author entry FOR l - the same table the JSON writer reads (dline / dauthor)
//@         r_@ == output0@ + dtext(requested_lines@, requested_lines@.len() as int, DCtx { l2h: line_to_hunk@, la: line_authors@, prm: *prompt_records, o: *options, file: file_path@, lines: str_views(lines@), maw: max_author_width as int, bw: blank_boundary_hash_width as int, lw: line_num_width as int }),
//@ {
//@     let mut output = output0;
//@     let ghost rl = requested_lines@;
//@     let ghost c = DCtx { l2h: line_to_hunk@, la: line_authors@, prm: *prompt_records, o: *options, file: file_path@, lines: str_views(lines@), maw: max_author_width as int, bw: blank_boundary_hash_width as int, lw: line_num_width as int };
    for line_num in it_0: requested_lines
//@     invariant
//@         rl == it_0.snapshot@.remaining(), forall|i: int| 0 <= i < rl.len() ==> rl[i] >= 1,
//@         c == (DCtx { l2h: line_to_hunk@, la: line_authors@, prm: *prompt_records, o: *options, file: file_path@, lines: str_views(lines@), maw: max_author_width as int, bw: blank_boundary_hash_width as int, lw: line_num_width as int }),
//@         output@ == output0@ + dtext(rl, it_0.index@, c),
    {
//@ let ghost k = it_0.index@; let ghost out_k = output@;
//@ proof { assert(line_num == rl[k]); }
        let line_index = (line_num - 1) as usize;
        let line_content = if line_index < lines.len() {
            lines[line_index]
        } else {
            ""
        };
//@ proof { assert(line_content@ == content_of(c, line_num)); }

        if let Some(hunk) = line_to_hunk.get(&line_num) {
            let sha = &hunk.abbrev_sha;

            // Match git blame boundary formatting:
            // - default boundary: prefix abbreviated hash with '^'
            // - -b/--blank-boundary: print a blank hash column
            let full_sha = if hunk.is_boundary && options.blank_boundary && !options.show_root {
                opq_blank(blank_boundary_hash_width)
            } else {
                let boundary_marker = if hunk.is_boundary && !options.show_root {
                    "^"
                } else {
                    ""
                };
                opq_fmt_sha(boundary_marker, sha)
            };

            // Get the author for this line (AI authorship or original)
            let author = line_authors.get(&line_num).unwrap_or(&hunk.original_author);

            // Format date according to options
            let date_str = format_blame_date(hunk.author_time, &hunk.author_tz, options);

            // Handle different output formats based on flags
            let author_display = if options.suppress_author {
                "".to_string()
            } else if options.show_prompt && opq_has_prompt(prompt_records, author) {
                let prompt = opq_prompt_of(prompt_records, author);
                let short_hash = opq_short_hash(author);
                opq_fmt_tool_hash(&prompt.agent_id.tool, short_hash)
            } else if options.show_email {
                opq_fmt_author_email(author, &hunk.author_email)
            } else {
                opq_to_string(author)
            };

            // Pad author name to consistent width
            let padded_author = if max_author_width > 0 {
                opq_pad(author_display, max_author_width)
            } else {
                author_display
            };

            let _filename_display = if options.show_name {
                opq_fmt_sp_str(file_path)
            } else {
                "".to_string()
            };

            let _number_display = if options.show_number {
                opq_fmt_sp_num(line_num)
            } else {
                "".to_string()
            };

            // Format exactly like git blame: sha (author date line) code
            if options.suppress_author {
                // Suppress author format: sha line_number) code
                opq_emit_s(&mut output, &full_sha, line_num, line_content);
            } else {
                // Normal format: sha (author date line) code
                if options.show_name {
                    // Show filename format: sha filename (author date line) code
                    opq_emit_name(&mut output, &full_sha, file_path, &padded_author, &date_str, line_num, line_content, line_num_width);
                } else if options.show_number {
                    // Show number format: sha line_number (author date line) code (matches git's -n output)
                    opq_emit_num(&mut output, &full_sha, line_num, &padded_author, &date_str, line_num, line_content, line_num_width);
                } else {
                    // Normal format: sha (author date line) code
                    opq_emit_plain(&mut output, &full_sha, &padded_author, &date_str, line_num, line_content, line_num_width);
                }
            }
        } else {
            // Fallback for lines without blame info
            opq_emit_unknown(&mut output, line_num, line_content, line_num_width);
        }
//@ proof { assert(output@ == out_k + dline(c, line_num)); assert(dtext(rl, k + 1, c) == dtext(rl, k, c) + dline(c, rl[k])); assert(output@ =~= output0@ + dtext(rl, k + 1, c)); }
    }
//@     output
//@ }
//#end


// ---------------------------------------------------------------- output_json_format: the `lines` object
pub type JMap = std::collections::BTreeMap<String, String>;
/// the (key, value) pairs inserted into the `lines` object, in insertion order (an insertion log: distinct ranges give distinct
/// keys as long as the two key formats are injective - not interpreted here)
pub uninterp spec fn jv(m: JMap) -> Seq<(Seq<char>, Seq<char>)>;
pub uninterp spec fn key1(a: u32) -> Seq<char>;             // a.to_string()
pub uninterp spec fn key2(a: u32, b: u32) -> Seq<char>;     // format!("{}-{}", a, b)
pub type Ev = (u32, u32, Seq<char>);                         // lines a..=b belong to session s
pub open spec fn key_of(e: Ev) -> (Seq<char>, Seq<char>) { (if e.0 == e.1 { key1(e.0) } else { key2(e.0, e.1) }, e.2) }
pub open spec fn keyed(ev: Seq<Ev>) -> Seq<(Seq<char>, Seq<char>)> { Seq::new(ev.len(), |i: int| key_of(ev[i])) }
pub open spec fn run(a: int, b: int, s: Seq<char>) -> Seq<(int, Seq<char>)> { Seq::new((if a <= b { b - a + 1 } else { 0 }) as nat, |i: int| (a + i, s)) }
/// what the ranges say, line by line
pub open spec fn expand(ev: Seq<Ev>, n: int) -> Seq<(int, Seq<char>)>
    decreases n
{
    if n <= 0 { Seq::<(int, Seq<char>)>::empty() } else { expand(ev, n - 1) + run(ev[n - 1].0 as int, ev[n - 1].1 as int, ev[n - 1].2) }
}
pub open spec fn pairs(al: Seq<(u32, String)>) -> Seq<(int, Seq<char>)> { Seq::new(al.len(), |i: int| (al[i].0 as int, al[i].1@)) }
/// (l, s) is an AI line of the overlay's table: l has an entry, the entry is s, and s is a session of the prompt table
pub open spec fn ai_pair(x: (u32, String), la: Map<u32, String>, pk: ISet<Seq<char>>) -> bool { la.contains_key(x.0) && x.1@ == la[x.0]@ && pk.contains(x.1@) }
pub open spec fn ai_set(al: Seq<(u32, String)>, la: Map<u32, String>, pk: ISet<Seq<char>>) -> bool {
    &&& forall|i: int| 0 <= i < al.len() ==> ai_pair(#[trigger] al[i], la, pk)
    &&& forall|l: u32| #[trigger] la.contains_key(l) && pk.contains(la[l]@) ==> exists|i: int| 0 <= i < al.len() && (#[trigger] al[i]).0 == l
}
pub open spec fn distinct_lines(al: Seq<(u32, String)>) -> bool { forall|i: int, j: int| 0 <= i < j < al.len() ==> (#[trigger] al[i]).0 != (#[trigger] al[j]).0 }
pub open spec fn sorted_pairs(al: Seq<(u32, String)>) -> bool { forall|i: int, j: int| 0 <= i < j < al.len() ==> (#[trigger] al[i]).0 <= (#[trigger] al[j]).0 }
pub open spec fn strict_pairs(al: Seq<(u32, String)>) -> bool { forall|i: int, j: int| 0 <= i < j < al.len() ==> (#[trigger] al[i]).0 < (#[trigger] al[j]).0 }
/// `line_authors.iter().filter(|(_, a)| prompt_records.contains_key(a)).map(|(l, a)| (*l, a.clone())).collect()`: documented -
/// exactly the entries whose value is a key of the prompt table, each once (a map has one entry per line)
#[verifier::external_body]
fn opq_ai_lines(la: &HashMap<u32, String>, prm: &HashMap<String, PromptRecord>) -> (r: Vec<(u32, String)>)
    ensures ai_set(r@, la@, pkeys(*prm)), distinct_lines(r@),
{ unimplemented!() }
/// `sort_by_key(|(line, _)| *line)`: documented - a permutation sorted by line
#[verifier::external_body]
fn opq_sort_pairs(v: &mut Vec<(u32, String)>)
    ensures final(v)@.len() == old(v)@.len(), sorted_pairs(final(v)@), distinct_lines(old(v)@) ==> distinct_lines(final(v)@),
        forall|x: (u32, String)| final(v)@.contains(x) <==> old(v)@.contains(x),
{ unimplemented!() }
#[verifier::external_body] fn opq_jmap_new() -> (r: JMap) ensures jv(r) == Seq::<(Seq<char>, Seq<char>)>::empty(), { unimplemented!() }
#[verifier::external_body] fn opq_pairs_empty(v: &Vec<(u32, String)>) -> (r: bool) ensures r == (v@.len() == 0), { unimplemented!() }
#[verifier::external_body] fn opq_str_eq(a: &String, b: &String) -> (r: bool) ensures r == (a@ == b@), { unimplemented!() }
#[verifier::external_body] fn opq_key1(a: u32) -> (r: String) ensures r@ == key1(a), { unimplemented!() }
#[verifier::external_body] fn opq_key2(a: u32, b: u32) -> (r: String) ensures r@ == key2(a, b), { unimplemented!() }
#[verifier::external_body] fn opq_jmap_insert(m: &mut JMap, k: String, v: String) ensures jv(*final(m)) == jv(*old(m)).push((k@, v@)), { unimplemented!() }
pub open spec fn tail_rem(rem: Seq<&(u32, String)>, al: Seq<(u32, String)>) -> bool {
    rem.len() == al.len() - 1 && forall|j: int| 0 <= j < rem.len() ==> *(#[trigger] rem[j]) == al[1 + j]
}
proof fn lemma_sorted_set(a0: Seq<(u32, String)>, al: Seq<(u32, String)>, la: Map<u32, String>, pk: ISet<Seq<char>>)
    requires ai_set(a0, la, pk), forall|x: (u32, String)| al.contains(x) <==> a0.contains(x), sorted_pairs(al), distinct_lines(al),
    ensures ai_set(al, la, pk), strict_pairs(al),
{
    assert forall|i: int| 0 <= i < al.len() implies ai_pair(#[trigger] al[i], la, pk) by {
        assert(al.contains(al[i])); assert(a0.contains(al[i]));
        let j = choose|j: int| 0 <= j < a0.len() && a0[j] == al[i];
        assert(ai_pair(a0[j], la, pk));
    }
    assert forall|l: u32| #[trigger] la.contains_key(l) && pk.contains(la[l]@) implies exists|i: int| 0 <= i < al.len() && (#[trigger] al[i]).0 == l by {
        let j = choose|j: int| 0 <= j < a0.len() && (#[trigger] a0[j]).0 == l;
        assert(a0.contains(a0[j])); assert(al.contains(a0[j]));
        let i = choose|i: int| 0 <= i < al.len() && al[i] == a0[j];
        assert(al[i].0 == l);
    }
}
proof fn lemma_expand_push(ev: Seq<Ev>, e: Ev)
    ensures expand(ev.push(e), ev.len() as int + 1) == expand(ev, ev.len() as int) + run(e.0 as int, e.1 as int, e.2),
{
    lemma_expand_prefix(ev.push(e), ev, ev.len() as int);
}
proof fn lemma_expand_prefix(a: Seq<Ev>, b: Seq<Ev>, n: int)
    requires 0 <= n <= a.len(), n <= b.len(), forall|i: int| 0 <= i < n ==> a[i] == b[i],
    ensures expand(a, n) == expand(b, n),
    decreases n
{
    if n > 0 { lemma_expand_prefix(a, b, n - 1); }
}
/// THE JSON clause: the ranges of the `lines` object name line l with session s EXACTLY when the overlay's table has s for l and
/// s is a session of the prompt table - the same table entry the default writer prints for l (dauthor)
proof fn theorem_json_lines(al: Seq<(u32, String)>, ev: Seq<Ev>, la: Map<u32, String>, pk: ISet<Seq<char>>, l: u32, s: Seq<char>)
    requires ai_set(al, la, pk), expand(ev, ev.len() as int) == pairs(al),
    ensures expand(ev, ev.len() as int).contains((l as int, s)) <==> (la.contains_key(l) && la[l]@ == s && pk.contains(s)),
{
    let ex = expand(ev, ev.len() as int);
    if ex.contains((l as int, s)) {
        let i = choose|i: int| 0 <= i < ex.len() && ex[i] == (l as int, s);
        assert(ai_pair(al[i], la, pk));
    }
    if la.contains_key(l) && la[l]@ == s && pk.contains(s) {
        let i = choose|i: int| 0 <= i < al.len() && (#[trigger] al[i]).0 == l;
        assert(ai_pair(al[i], la, pk));
        assert(ex[i] == (l as int, s));
    }
}

//#item file=src/commands/blame.rs kind=region name=js_lines in=output_json_format from="let mut ai_lines: Vec<(u32, String)> = line_authors" to="// Only include prompts that are actually referenced in lines" from_nth=0 to_nth=0 to_exclusive=yes opaque='[{"expr": "line_authors\n        .iter()\n        .filter(|(_, author)| prompt_records.contains_key(*author))\n        .map(|(line, author)| (*line, author.clone()))\n        .collect()", "call": "opq_ai_lines(line_authors, prompt_records)"}, {"expr": "ai_lines.sort_by_key(|(line, _)| *line)", "call": "opq_sort_pairs(&mut ai_lines)"}, {"expr": "std::collections::BTreeMap::new()", "call": "opq_jmap_new()"}, {"expr": "ai_lines.is_empty()", "call": "opq_pairs_empty(&ai_lines)"}, {"expr": "*prompt_id == current_prompt_id", "call": "opq_str_eq(prompt_id, &current_prompt_id)"}, {"expr": "range_start.to_string()", "call": "opq_key1(range_start)"}, {"expr": "format!(\"{}-{}\", range_start, range_end)", "call": "opq_key2(range_start, range_end)"}, {"expr": "lines_map.insert(range_key, current_prompt_id.clone())", "call": "opq_jmap_insert(&mut lines_map, range_key, current_prompt_id.clone())"}, {"expr": "lines_map.insert(range_key, current_prompt_id)", "call": "opq_jmap_insert(&mut lines_map, range_key, current_prompt_id)"}]'
//@ fn region_js_lines(line_authors: &HashMap<u32, String>, prompt_records: &HashMap<String, PromptRecord>) -> (r_: (JMap, Ghost<Seq<Ev>>, Ghost<Seq<(u32, String)>>))
//@     ensures
//@         // the `lines` object holds one key per range; expanded line by line the ranges are EXACTLY the AI entries of the overlay's
//@         // table (ai_set: value is a session of the prompt table), in line order - see theorem_json_lines
//@         jv(r_.0) == keyed(r_.1@), expand(r_.1@, r_.1@.len() as int) == pairs(r_.2@), ai_set(r_.2@, line_authors@, pkeys(*prompt_records)), strict_pairs(r_.2@),
//@ {
//@     let ghost la = line_authors@; let ghost pk = pkeys(*prompt_records);
    let mut ai_lines: Vec<(u32, String)> = opq_ai_lines(line_authors, prompt_records);
//@ let ghost a0 = ai_lines@;

    // Sort by line number
    opq_sort_pairs(&mut ai_lines);
//@ let ghost al = ai_lines@;
//@ proof { lemma_sorted_set(a0, al, la, pk); }
//@ let ghost mut ev: Seq<Ev> = Seq::empty();

    // Group consecutive lines with the same prompt_id into ranges
    let mut lines_map: std::collections::BTreeMap<String, String> =
        opq_jmap_new();
//@ proof { assert(keyed(ev) =~= jv(lines_map)); }

    if !opq_pairs_empty(&ai_lines) {
        let mut range_start = ai_lines[0].0;
        let mut range_end = ai_lines[0].0;
        let mut current_prompt_id = ai_lines[0].1.clone();
//@ proof { assert(pairs(al).take(1) =~= expand(ev, 0) + run(range_start as int, range_end as int, current_prompt_id@)); }

        for (line, prompt_id) in it_0: &ai_lines[1..]
//@     invariant
//@         al == ai_lines@, strict_pairs(al), al.len() >= 1, tail_rem(it_0.snapshot@.remaining(), al),
//@         jv(lines_map) == keyed(ev),
//@         expand(ev, ev.len() as int) + run(range_start as int, range_end as int, current_prompt_id@) == pairs(al).take(1 + it_0.index@),
//@         range_start <= range_end, range_end == al[it_0.index@].0,
        {
//@ let ghost k = it_0.index@; let ghost ev0 = ev; let ghost rs = range_start; let ghost re = range_end; let ghost cur = current_prompt_id@;
//@ proof { assert(*line == al[1 + k].0 && prompt_id@ == al[1 + k].1@); assert(al[k].0 < al[1 + k].0); }
//@ proof { assert(pairs(al).take(2 + k) =~= pairs(al).take(1 + k).push((al[1 + k].0 as int, al[1 + k].1@))); }
            if opq_str_eq(prompt_id, &current_prompt_id) && *line == range_end + 1 {
                // Extend current range
                range_end = *line;
//@ proof { assert(run(rs as int, re as int + 1, cur) =~= run(rs as int, re as int, cur).push((re as int + 1, cur))); }
            } else {
                // Save current range and start new one
                let range_key = if range_start == range_end {
                    opq_key1(range_start)
                } else {
                    opq_key2(range_start, range_end)
                };
                opq_jmap_insert(&mut lines_map, range_key, current_prompt_id.clone());
//@ proof { ev = ev0.push((rs, re, cur)); lemma_expand_push(ev0, (rs, re, cur)); assert(keyed(ev) =~= keyed(ev0).push(key_of((rs, re, cur)))); }

                range_start = *line;
                range_end = *line;
                current_prompt_id = prompt_id.clone();
//@ proof { assert(run(*line as int, *line as int, prompt_id@) =~= seq![(*line as int, prompt_id@)]); 
//@     assert(expand(ev, ev.len() as int) + run(range_start as int, range_end as int, current_prompt_id@) =~= pairs(al).take(2 + k)); }
            }
        }
//@ let ghost ev0 = ev; let ghost rs = range_start; let ghost re = range_end; let ghost cur = current_prompt_id@;

        // Don't forget the last range
        let range_key = if range_start == range_end {
            opq_key1(range_start)
        } else {
            opq_key2(range_start, range_end)
        };
        opq_jmap_insert(&mut lines_map, range_key, current_prompt_id);
//@ proof { ev = ev0.push((rs, re, cur)); lemma_expand_push(ev0, (rs, re, cur)); assert(keyed(ev) =~= keyed(ev0).push(key_of((rs, re, cur)))); assert(pairs(al).take(al.len() as int) =~= pairs(al)); }
    }
//@ proof { if al.len() == 0 { assert(pairs(al) =~= expand(ev, 0)); } }
//@     (lines_map, Ghost(ev), Ghost(al))
//@ }
//#end


// ================================================================ the user-level statements over the spec functions above
/// the note's answer fixes the name: two lookups that both meet get_line_attribution's contract show the same name
proof fn lemma_shown_unique(log: AuthorshipLog, file: Seq<char>, line: u32, r1: Found, r2: Found, o: GitAiBlameOptions, a: Seq<char>)
    requires gla_post(log, file, line, r1), gla_post(log, file, line, r2),
    ensures shown(r1, o, a) == shown(r2, o, a),
{
    let atts = log.attestations@;
    if no_file(atts, file) { } else {
        let j = choose|j: int| 0 <= j < atts.len() && (#[trigger] atts[j]).file_path@ == file;
        lemma_first_file_exists(atts, file, j);
        let i = choose|i: int| first_file_at(atts, file, i);
        let es = atts[i].entries@; let md = log.metadata;
        assert(lookup_post(es, md, line, r1) && lookup_post(es, md, line, r2));
        if r1 is Some {
            assert(r2 is Some);
            let k1 = choose|k: int| 0 <= k < es.len() && hit(md, #[trigger] es[k], line) && (forall|m: int| k < m < es.len() ==> !hit(md, #[trigger] es[m], line))
                && r1.unwrap().1 is Some && r1.unwrap().1.unwrap()@ == es[k].hash@ && r1.unwrap().2 == Some(resolved(md, es[k]))
                && r1.unwrap().0.username@ == resolved(md, es[k]).agent_id.tool@ && r1.unwrap().0.email@.len() == 0;
            let k2 = choose|k: int| 0 <= k < es.len() && hit(md, #[trigger] es[k], line) && (forall|m: int| k < m < es.len() ==> !hit(md, #[trigger] es[m], line))
                && r2.unwrap().1 is Some && r2.unwrap().1.unwrap()@ == es[k].hash@ && r2.unwrap().2 == Some(resolved(md, es[k]))
                && r2.unwrap().0.username@ == resolved(md, es[k]).agent_id.tool@ && r2.unwrap().0.email@.len() == 0;
            assert(k1 == k2) by { if k1 < k2 { assert(!hit(md, es[k2], line)); } if k2 < k1 { assert(!hit(md, es[k1], line)); } }
        } else { assert(r2 is None); }
    }
}
/// ... so the per-line clause determines the name of a line from its record alone
proof fn lemma_rec_ok_unique(n1: Seq<char>, n2: Seq<char>, rec: LineRec, file: Seq<char>, o: GitAiBlameOptions, pk1: ISet<Seq<char>>, pk2: ISet<Seq<char>>)
    requires rec_ok(n1, rec, file, o, pk1), rec_ok(n2, rec, file, o, pk2),
    ensures n1 == n2,
{
    match note_of(rec.h.commit) {
        Some(log) => {
            let r1 = choose|r: Found| #[trigger] gla_post(log, npath(rec.h, file), rec.orig as u32, r) && n1 == shown(r, o, rec.h.author) && (r is Some ==> r.unwrap().1 is Some && pk1.contains(r.unwrap().1.unwrap()@));
            let r2 = choose|r: Found| #[trigger] gla_post(log, npath(rec.h, file), rec.orig as u32, r) && n2 == shown(r, o, rec.h.author) && (r is Some ==> r.unwrap().1 is Some && pk2.contains(r.unwrap().1.unwrap()@));
            lemma_shown_unique(log, npath(rec.h, file), rec.orig as u32, r1, r2, o, rec.h.author);
        },
        None => {},
    }
}
/// "Its human-readable and JSON outputs agree with each other": the default writer's table (second git run, hunks not split)
/// and the overlay's table (first run, hunks split) describe the same lines (populate_ai_human_authors changes no record:
/// f1 == f2); then for every line l the default writer prints the commit column of l's record and the overlay's entry FOR l,
/// which is the name the per-line clause rec_ok fixes - and the JSON writer reads that same entry (theorem_json_lines)
proof fn theorem_default_and_json_read_the_same_entry(c: DCtx, f1: Seq<LineRec>, f2: Seq<LineRec>, file: Seq<char>, l: u32)
    requires lines_ok(c.la, f1, file, c.o, pkeys(c.prm)), l2h_ok(c.l2h, f2), f1 == f2,
    ensures
        c.l2h.contains_key(l) <==> c.la.contains_key(l),
        c.l2h.contains_key(l) ==> dline(c, l) == dline_of(f1[lidx(f1, l as int)].h, c.la[l]@, c, l) && rec_ok(c.la[l]@, f1[lidx(f1, l as int)], file, c.o, pkeys(c.prm)),
{
    assert(c.la.contains_key(l) <==> lidx(f1, l as int) >= 0);
    assert(c.l2h.contains_key(l) <==> lidx(f2, l as int) >= 0);
}
/// "-L restricts the lines reported without changing any reported line's commit / author": if git reports for line l the same
/// record (commit, original line) with and without the restriction, both runs show the same name for l - nothing in the
/// pipeline depends on where the requested range starts or on the position of the hunk in the list
proof fn theorem_range_restriction_changes_no_line(m: Map<u32, String>, f: Seq<LineRec>, m2: Map<u32, String>, f2: Seq<LineRec>, file: Seq<char>, o: GitAiBlameOptions, pk: ISet<Seq<char>>, pk2: ISet<Seq<char>>, l: u32)
    requires lines_ok(m, f, file, o, pk), lines_ok(m2, f2, file, o, pk2), lidx(f, l as int) >= 0, lidx(f2, l as int) >= 0, f2[lidx(f2, l as int)] == f[lidx(f, l as int)],
    ensures m.contains_key(l), m2.contains_key(l), m[l]@ == m2[l]@,
{
    assert(m.contains_key(l) && m2.contains_key(l));
    lemma_rec_ok_unique(m[l]@, m2[l]@, f[lidx(f, l as int)], file, o, pk, pk2);
}

// ================================================================ prepare_blame_request: which ranges git is asked for
/// an open range (`-L a`, `-L a,`: parse_line_range marks its end with to_eof) ends at the file's last line; other ranges are kept
pub open spec fn close_end(r: (u32, u32), total: u32) -> (u32, u32) { if r.1 == to_eof() { (r.0, total) } else { r } }
/// no -L at all: the whole file
pub open spec fn asked_ranges(v: Seq<(u32, u32)>, total: u32) -> Seq<(u32, u32)> {
    if v.len() == 0 { seq![(1u32, total)] } else { Seq::new(v.len(), |i: int| close_end(v[i], total)) }
}
/// `options.line_ranges.iter().map(|&(start, end)| if end == LINE_RANGE_TO_END_OF_FILE { (start, total_lines) } else { (start, end) }).collect()`:
/// TRUSTED to be the element-wise close_end (iter/map/collect are outside the subset); the replay sweep runs the original expression
#[verifier::external_body]
fn opq_close_open_ends(v: &Vec<(u32, u32)>, total: u32) -> (r: Vec<(u32, u32)>)
    ensures r@ == Seq::new(v@.len(), |i: int| close_end(v@[i], total)),
{ unimplemented!() }
//#item file=src/commands/blame.rs kind=region name=pb_ranges in=prepare_blame_request from="let line_ranges = if options.line_ranges.is_empty() {" to="=};" from_nth=0 to_nth=0 impl="Repository" opaque='[{"expr": "options\n                .line_ranges\n                .iter()\n                .map(|&(start, end)| {\n                    if end == LINE_RANGE_TO_END_OF_FILE {\n                        (start, total_lines)\n                    } else {\n                        (start, end)\n                    }\n                })\n                .collect()", "call": "opq_close_open_ends(&options.line_ranges, total_lines)"}]'
//@ fn region_pb_ranges(options: &GitAiBlameOptions, total_lines: u32) -> (r_: Vec<(u32, u32)>)
//@     ensures r_@ == asked_ranges(options.line_ranges@, total_lines),
//@ {
        let line_ranges = if options.line_ranges.is_empty() {
            vec![(1, total_lines)]
        } else {
            // An open-ended range (`-L <start>`) ends at the last line of the file
            opq_close_open_ends(&options.line_ranges, total_lines)
        };
//@     proof { assert(line_ranges@ =~= asked_ranges(options.line_ranges@, total_lines)); }
//@     line_ranges
//@ }
//#end
/// `-L a` alone and `-L a,` reach git as `a,<last line>` (git-blame(1): "spans from <start> to end of file"); `-L a,b` and
/// `-L a,+n` (b, a+n-1 below the marker) are passed unchanged
proof fn theorem_open_range_ends_at_last_line(s: Seq<char>, total: u32)
    requires plr(s) is Some,
    ensures
        first_comma(s) is None ==> asked_ranges(seq![plr(s).unwrap()], total)[0] == (u32_of(s).unwrap(), total),
        plr(s).unwrap().1 != to_eof() ==> asked_ranges(seq![plr(s).unwrap()], total)[0] == plr(s).unwrap(),
{}

} // verus!
fn main() {}
