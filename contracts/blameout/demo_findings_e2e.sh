#!/bin/bash
# End-to-end demonstration of REPORT.md findings 1-4 with the built binary (no rebuild): bash demo_findings_e2e.sh [scratch dir]
# Uses a scratch HOME; prints `git blame` next to `git-ai blame` for each scenario and the number of deviations observed:
# 4 of 4 before the repairs 8b563fec / 67992242 / 3d859ea7 landed in /repo, 1 of 4 (finding 4, still recorded) with a binary built after them.
set -u
S=${1:-/var/tmp/w-blameout-demo}; BIN=${GIT_AI_BIN:-/repo/target/debug/git-ai}
rm -rf "$S"; mkdir -p "$S/home"; cd "$S"
export HOME=$S/home GIT_CONFIG_GLOBAL=$S/home/.gitconfig GIT_AI_TEST_DB_PATH=$S/home/db.sqlite GITAI_TEST_DB_PATH=$S/home/db.sqlite GIT_PAGER=cat PAGER=cat
git config --global user.name Tester; git config --global user.email t@example.com; git config --global init.defaultBranch main
G() { GIT_AI=git $BIN "$@" 2>/dev/null; }
mkdir r1 && cd r1 && G init -q .
printf 'h1\nh2\nh3\n' > a.txt; G add -A; G commit -q -m base
printf 'h1\nh2\nh3\nai4\nai5\nai6\nai7\n' > a.txt; $BIN checkpoint mock_ai a.txt >/dev/null 2>&1; G add -A; G commit -q -m "ai adds"
ok=0
echo "== control: lines 4-7 are mock_ai"; $BIN blame a.txt
echo "== finding 2: -L 2,+4   git: 4 lines (2..5)   git-ai:"; git blame -L 2,+4 a.txt | wc -l; $BIN blame -L 2,+4 a.txt
[ "$($BIN blame -L 2,+4 a.txt | wc -l)" != "$(git blame -L 2,+4 a.txt | wc -l)" ] && ok=$((ok+1))
echo "== finding 2: -L 4,+2   git: lines 4..5   git-ai:"; $BIN blame -L 4,+2 a.txt; 
echo "== finding 3: -L 5      git: lines 5..7   git-ai:"; $BIN blame -L 5 a.txt
[ "$($BIN blame -L 5 a.txt | wc -l)" != "$(git blame -L 5 a.txt | wc -l)" ] && ok=$((ok+1))
G mv a.txt b.txt; G commit -q -m "rename only"
echo "== finding 1: after git mv a.txt b.txt (no edit): git blame still names commit 'ai adds' for 4-7; git-ai shows them as human, JSON has no AI line"
git blame b.txt | cut -c1-70; $BIN blame b.txt; $BIN blame --json b.txt | head -4
$BIN blame b.txt | grep -q mock_ai || ok=$((ok+1))
cd "$S"; mkdir r2 && cd r2 && git init -q . && printf 'alpha beta\nsecond\n' > f.txt && git add -A && git commit -q -m base && printf 'alpha  beta\nsecond\n' > f.txt && git commit -q -am reformat && git rev-parse HEAD > .git-blame-ignore-revs
echo "== finding 4: an (untracked, unconfigured) .git-blame-ignore-revs changes the commit of line 1 for git-ai only"
git blame f.txt | cut -c1-60; $BIN blame f.txt
[ "$(git blame f.txt | head -1 | cut -c1-8)" != "$($BIN blame f.txt | head -1 | cut -c1-8)" ] && ok=$((ok+1))
echo "deviations observed: $ok of 4"
