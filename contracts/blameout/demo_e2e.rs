// End-to-end demonstration (real binary through the repository's own test harness) of the four recorded deviations of
// `git-ai blame` from property C09 found while putting the blame pipeline under contract (unit blameout, REPORT.md findings 1-4):
//   1. renaming a file without editing it turns its AI lines human (the note is searched under the NEW path);
//   2. `-L a,+n` is read as `a,n` (Rust's "+n".parse::<u32>() succeeds) instead of git's "n lines starting at a";
//   3. `-L a` is read as `a,a` instead of git's "from a to the end of the file";
//   4. a `.git-blame-ignore-revs` file in the work tree is applied although neither an option nor blame.ignoreRevsFile asks for it.
// Every case compares `git-ai blame` with plain `git blame` for the same arguments (commit, line number, text of every reported
// line) where the property says "the same commit as plain git blame"; cases named control_* pass on the unchanged tree.
#[macro_use]
mod repos;
use repos::test_file::ExpectedLineExt;
use repos::test_repo::TestRepo;

/// (first 7 hex digits of the commit, line number, text) of every line of a default-format blame output (git's or git-ai's)
fn rows(out: &str) -> Vec<(String, u32, String)> {
    out.lines().filter(|l| l.contains('(') && l.contains(')')).map(|l| {
        let sha: String = l.split_whitespace().next().unwrap().trim_start_matches('^').chars().take(7).collect();
        let (open, close) = (l.find('(').unwrap(), l.find(')').unwrap());
        let num: u32 = l[open + 1..close].split_whitespace().last().unwrap().parse().unwrap();
        (sha, num, l[close + 1..].trim().to_string())
    }).collect()
}
/// author column of every line of a git-ai default-format output, by line number
fn authors(repo: &TestRepo, out: &str) -> Vec<(u32, String)> {
    let f = repo.filename("unused-for-parsing");
    out.lines().filter(|l| l.contains('(') && l.contains(')')).zip(rows(out)).map(|(l, r)| (r.1, f.parse_blame_line(l).0)).collect()
}
fn is_ai(author: &str) -> bool { author.contains("mock_ai") }
/// a.txt: three human lines committed, then four lines appended by the agent and committed
fn repo_with_ai_tail() -> TestRepo {
    let repo = TestRepo::new();
    let mut f = repo.filename("a.txt");
    f.set_contents(lines!["h1", "h2", "h3"]);
    repo.stage_all_and_commit("base").unwrap();
    f.insert_at(3, lines!["ai4".ai(), "ai5".ai(), "ai6".ai(), "ai7".ai()]);
    repo.stage_all_and_commit("ai adds").unwrap();
    repo
}
/// same lines, same commits as plain git for the same arguments
fn assert_same_lines_as_git(repo: &TestRepo, args: &[&str]) {
    let git = repo.git_og(args).unwrap_or_else(|e| panic!("git {:?} failed: {}", args, e));
    let ours = repo.git_ai(args).unwrap_or_else(|e| panic!("git-ai {:?} failed where git succeeds with {} lines: {}", args, rows(&git).len(), e));
    eprintln!("git:\n{}\ngit-ai:\n{}", git, ours);
    assert_eq!(rows(&ours), rows(&git), "git-ai {:?} reports other lines / commits than git", args);
}

// ---------------------------------------------------------------- 1. rename without edit
#[test]
fn control_ai_lines_are_reported_before_the_rename() {
    let repo = repo_with_ai_tail();
    assert_same_lines_as_git(&repo, &["blame", "a.txt"]);
    let out = repo.git_ai(&["blame", "a.txt"]).unwrap();
    for (n, a) in authors(&repo, &out) { assert_eq!(is_ai(&a), n >= 4, "line {} blamed to {:?}", n, a); }
    let json = repo.git_ai(&["blame", "--json", "a.txt"]).unwrap();
    assert!(json.contains("\"4-7\""), "JSON does not report lines 4-7 as AI: {}", json);
}
#[test]
fn control_rename_with_a_later_ai_edit_reports_the_new_lines() {
    // lines added AFTER the rename are recorded under the new path: they are found
    let repo = repo_with_ai_tail();
    repo.git(&["mv", "a.txt", "b.txt"]).unwrap();
    repo.git(&["commit", "-m", "rename only"]).unwrap();
    let mut f = repo.filename("b.txt");
    f.set_contents(lines!["h1", "h2", "h3", "ai4", "ai5", "ai6", "ai7", "ai8".ai()]);
    repo.stage_all_and_commit("ai adds to renamed file").unwrap();
    let out = repo.git_ai(&["blame", "b.txt"]).unwrap();
    let a = authors(&repo, &out);
    assert!(is_ai(&a[7].1), "line 8 (added under the new path) blamed to {:?}", a[7].1);
    assert_same_lines_as_git(&repo, &["blame", "b.txt"]);
}
#[test]
fn rename_without_edit_keeps_ai_lines() {
    let repo = repo_with_ai_tail();
    repo.git(&["mv", "a.txt", "b.txt"]).unwrap();
    repo.git(&["commit", "-m", "rename only"]).unwrap();
    // git still assigns lines 4-7 to the commit that added them (under the old path) ...
    assert_same_lines_as_git(&repo, &["blame", "b.txt"]);
    // ... and that commit's note lists them for the path the file had in that commit: they are still the agent's
    let out = repo.git_ai(&["blame", "b.txt"]).unwrap();
    for (n, a) in authors(&repo, &out) { assert_eq!(is_ai(&a), n >= 4, "after `git mv` line {} is blamed to {:?}", n, a); }
    let json = repo.git_ai(&["blame", "--json", "b.txt"]).unwrap();
    assert!(json.contains("\"4-7\""), "after `git mv` the JSON output reports no AI lines 4-7: {}", json);
}

// ---------------------------------------------------------------- 2. / 3. -L forms
#[test]
fn control_range_with_explicit_end_matches_git() {
    let repo = repo_with_ai_tail();
    assert_same_lines_as_git(&repo, &["blame", "-L", "2,5", "a.txt"]);
    assert_same_lines_as_git(&repo, &["blame", "-L", "5,5", "a.txt"]);
    assert_same_lines_as_git(&repo, &["blame", "-L", "1,7", "a.txt"]);
}
#[test]
fn range_with_plus_count_matches_git() {
    let repo = repo_with_ai_tail();
    // git: four lines starting at 2 (2..5)
    assert_same_lines_as_git(&repo, &["blame", "-L", "2,+4", "a.txt"]);
    // git: two lines starting at 4 (4..5)
    assert_same_lines_as_git(&repo, &["blame", "-L", "4,+2", "a.txt"]);
    assert_same_lines_as_git(&repo, &["blame", "-L", "7,+1", "a.txt"]);
    // the AI overlay is unaffected by the form of the range
    let out = repo.git_ai(&["blame", "-L", "2,+4", "a.txt"]).unwrap();
    for (n, a) in authors(&repo, &out) { assert_eq!(is_ai(&a), n >= 4, "line {} blamed to {:?}", n, a); }
}
#[test]
fn range_with_start_only_matches_git() {
    let repo = repo_with_ai_tail();
    // git: from line 5 to the end of the file (5..7)
    assert_same_lines_as_git(&repo, &["blame", "-L", "5", "a.txt"]);
    assert_same_lines_as_git(&repo, &["blame", "-L", "1", "a.txt"]);
    assert_same_lines_as_git(&repo, &["blame", "-L", "7", "a.txt"]);
}

// ---------------------------------------------------------------- 4. ignore-revs file nobody asked for
/// f.txt: `base` writes two lines, `reformat` changes the spacing of line 1; returns (repo, id of `reformat`)
fn repo_with_reformat_commit() -> (TestRepo, String) {
    let repo = TestRepo::new();
    let mut f = repo.filename("f.txt");
    f.set_contents(lines!["alpha beta", "second"]);
    repo.stage_all_and_commit("base").unwrap();
    f.set_contents(lines!["alpha  beta", "second"]);
    repo.stage_all_and_commit("reformat").unwrap();
    let id = repo.git_og(&["rev-parse", "HEAD"]).unwrap().trim().to_string();
    (repo, id)
}
#[test]
fn control_without_an_ignore_revs_file_blame_matches_git() {
    let (repo, _) = repo_with_reformat_commit();
    assert_same_lines_as_git(&repo, &["blame", "f.txt"]);
}
#[test]
fn control_ignore_revs_file_given_as_option_is_applied_like_git() {
    let (repo, id) = repo_with_reformat_commit();
    std::fs::write(repo.path().join("revs-to-skip"), format!("{}\n", id)).unwrap();
    assert_same_lines_as_git(&repo, &["blame", "--ignore-revs-file", "revs-to-skip", "f.txt"]);
    assert_same_lines_as_git(&repo, &["blame", "--ignore-rev", &id, "f.txt"]);
}
#[test]
fn control_configured_ignore_revs_file_is_applied_like_git() {
    let (repo, id) = repo_with_reformat_commit();
    std::fs::write(repo.path().join(".git-blame-ignore-revs"), format!("{}\n", id)).unwrap();
    repo.git_og(&["config", "blame.ignoreRevsFile", ".git-blame-ignore-revs"]).unwrap();
    assert_same_lines_as_git(&repo, &["blame", "f.txt"]);
}
#[test]
fn untracked_ignore_revs_file_is_not_applied() {
    let (repo, id) = repo_with_reformat_commit();
    // the file merely exists in the work tree: no option, no blame.ignoreRevsFile - plain git ignores it
    std::fs::write(repo.path().join(".git-blame-ignore-revs"), format!("{}\n", id)).unwrap();
    assert_same_lines_as_git(&repo, &["blame", "f.txt"]);
}
