// Unit blamewriters — property C09: the two porcelain-style writers (output_porcelain_format, output_incremental_format) and the
// option parser (parse_blame_args) of src/commands/blame.rs.  `println!` is a rule-O1 stub that appends its ARGUMENTS to a ghost
// trace (`Tr`), so WHAT is printed for every line is part of the contract; the text formatting itself is uninterpreted.  The
// per-line vocabulary (`flat`, `lidx`, `hv`, `npath`) is copied from unit blameout; `LineRec` is blameout's record extended by the
// extent of the line's group (git's porcelain groups are the UNSPLIT hunks: both writers blame with split_hunks_by_ai_author = false).
// The clauses are taken from git-blame(1), THE PORCELAIN FORMAT / INCREMENTAL OUTPUT, not from the code.
use vstd::prelude::*;
use std::collections::HashMap;
use vstd::std_specs::iter::IteratorSpec;
use vstd::std_specs::hash::*;
/// every `println!` that is NOT abstracted by rule O1 (the `lines without blame info` branch of output_incremental_format) becomes
/// a call with precondition `false`: the branch is PROVED unreachable
macro_rules! println { ($($t:tt)*) => { $crate::opq_print_unreachable() } }
verus! {

broadcast use vstd::std_specs::hash::group_hash_axioms;

// stand-ins: never inspected by the verified text (ABSTRACT types: many values)
#[verifier::external_body] pub struct Repository { _o: () }
#[verifier::external_body] pub struct Commit { _o: () }
pub enum GitAiError { Generic(String) }
#[verifier::external_body]
#[verifier::reject_recursive_types(T)]
pub struct DateTime<T> { _p: core::marker::PhantomData<T> }
#[verifier::external_body] pub struct FixedOffset { _o: () }

//#item file=src/commands/blame.rs kind=struct name=BlameHunk
pub struct BlameHunk {
    pub range: (u32, u32),
    pub orig_range: (u32, u32),
    pub commit_sha: String,
    pub abbrev_sha: String,
    pub original_author: String,
    pub author_email: String,
    pub author_time: i64,
    pub author_tz: String,
    pub ai_human_author: Option<String>,
    pub committer: String,
    pub committer_email: String,
    pub committer_time: i64,
    pub committer_tz: String,
    pub is_boundary: bool,
    pub filename: String,
}
//#end
//#item file=src/commands/blame.rs kind=struct name=GitAiBlameOptions
pub struct GitAiBlameOptions {
    // Line range options
    pub line_ranges: Vec<(u32, u32)>,

    pub newest_commit: Option<String>,
    pub oldest_commit: Option<String>,
    pub oldest_date: Option<DateTime<FixedOffset>>,

    // Output format options
    pub porcelain: bool,
    pub line_porcelain: bool,
    pub incremental: bool,
    pub show_name: bool,
    pub show_number: bool,
    pub show_email: bool,
    pub suppress_author: bool,
    pub show_stats: bool,

    // Commit display options
    pub long_rev: bool,
    pub raw_timestamp: bool,
    pub abbrev: Option<u32>,

    // Boundary options
    pub blank_boundary: bool,
    pub show_root: bool,

    // Movement detection options
    pub detect_moves: bool,
    pub detect_copies: u32, // Number of -C flags (0-3)
    pub move_threshold: Option<u32>,

    // Ignore options
    pub ignore_revs: Vec<String>,
    pub ignore_revs_file: Option<String>,
    pub no_ignore_revs_file: bool,

    // Color options
    pub color_lines: bool,
    pub color_by_age: bool,

    // Progress options
    pub progress: bool,

    // Date format
    pub date_format: Option<String>,

    // Content options
    pub contents_file: Option<String>,

    // Revision options
    pub reverse: Option<String>,
    pub first_parent: bool,

    // Encoding
    pub encoding: Option<String>,

    // Pre-read contents data (from --contents flag, either from stdin or file)
    // This is populated during argument parsing and used by blame
    pub contents_data: Option<Vec<u8>>,

    // Use prompt hashes as name instead of author names
    pub use_prompt_hashes_as_names: bool,

    // Return all human authors as CheckpointKind::Human
    pub return_human_authors_as_human: bool,

    // No output
    pub no_output: bool,

    // Ignore whitespace
    pub ignore_whitespace: bool,

    // JSON output format
    pub json: bool,

    // Mark lines from commits without authorship logs as "Unknown"
    pub mark_unknown: bool,

    // Show prompt hashes inline and dump prompts when piped
    pub show_prompt: bool,

    // Split hunks when lines have different AI human authors
    // When true, a single git blame hunk may be split into multiple hunks
    // if different lines were authored by different humans working with AI
    pub split_hunks_by_ai_author: bool,
}
//#end

// ================================================================ the per-line function (vocabulary of unit blameout)
pub open spec fn hunk_wf(h: BlameHunk) -> bool {
    h.range.0 <= h.range.1 && h.range.1 - h.range.0 < u32::MAX && h.orig_range.0 + (h.range.1 - h.range.0) <= u32::MAX
}
/// what the blame run is ASSUMED to hand over: forward ranges that fit (established for the parser's output by unit porcelain,
/// preserved by populate_ai_human_authors: unit blameout), numbered from 1 as git does (`line_num - 1` would underflow for 0)
pub open spec fn hunk_ok(h: BlameHunk) -> bool { hunk_wf(h) && h.range.0 >= 1 }
pub open spec fn all_ok(hs: Seq<BlameHunk>) -> bool { forall|k: int| 0 <= k < hs.len() ==> hunk_ok(#[trigger] hs[k]) }
pub struct HV { pub commit: Seq<char>, pub abbrev: Seq<char>, pub author: Seq<char>, pub email: Seq<char>, pub time: i64, pub tz: Seq<char>,
                pub committer: Seq<char>, pub committer_email: Seq<char>, pub committer_time: i64, pub committer_tz: Seq<char>, pub boundary: bool,
                /// the path git reports for the hunk (`filename <path>` of the blame group): the path the file had in the originating commit; empty = none reported
                pub path: Seq<char> }
pub open spec fn hv(h: BlameHunk) -> HV {
    HV { commit: h.commit_sha@, abbrev: h.abbrev_sha@, author: h.original_author@, email: h.author_email@, time: h.author_time, tz: h.author_tz@,
         committer: h.committer@, committer_email: h.committer_email@, committer_time: h.committer_time, committer_tz: h.committer_tz@, boundary: h.is_boundary, path: h.filename@ }
}
/// one reported line: its number in the blamed revision, its number in the originating commit, the commit's data - and (added to
/// blameout's record) the group the line belongs to: first line and line count of the hunk git reported
pub struct LineRec { pub line: int, pub orig: int, pub h: HV, pub gstart: int, pub gcount: int }
pub open spec fn hlen(h: BlameHunk) -> int { if h.range.0 <= h.range.1 { h.range.1 - h.range.0 + 1 } else { 0 } }
pub open spec fn rec_at(h: BlameHunk, i: int) -> LineRec { LineRec { line: h.range.0 + i, orig: h.orig_range.0 + i, h: hv(h), gstart: h.range.0 as int, gcount: hlen(h) } }
pub open spec fn flat1(h: BlameHunk) -> Seq<LineRec> { Seq::new(hlen(h) as nat, |i: int| rec_at(h, i)) }
/// the first n hunks, line by line, in order
pub open spec fn flat(hs: Seq<BlameHunk>, n: int) -> Seq<LineRec>
    decreases n
{
    if n <= 0 { Seq::<LineRec>::empty() } else { flat(hs, n - 1) + flat1(hs[n - 1]) }
}
/// index of the record that decides line l: the LAST one (git never reports a line twice; a map insert would let the later win)
pub open spec fn lidx(f: Seq<LineRec>, l: int) -> int
    decreases f.len()
{
    if f.len() == 0 { -1 } else if f.last().line == l { f.len() - 1 } else { lidx(f.drop_last(), l) }
}
proof fn lemma_lidx(f: Seq<LineRec>, l: int)
    ensures -1 <= lidx(f, l) < f.len(), lidx(f, l) >= 0 ==> f[lidx(f, l)].line == l,
        lidx(f, l) < 0 ==> forall|k: int| 0 <= k < f.len() ==> (#[trigger] f[k]).line != l,
    decreases f.len()
{
    if f.len() > 0 && f.last().line != l {
        lemma_lidx(f.drop_last(), l);
        assert forall|k: int| 0 <= k < f.len() && lidx(f, l) < 0 implies (#[trigger] f[k]).line != l by { if k < f.len() - 1 { assert(f.drop_last()[k] == f[k]); } }
    }
}
proof fn lemma_lidx_push(f: Seq<LineRec>, r: LineRec, l: int)
    ensures lidx(f.push(r), l) == (if r.line == l { f.len() as int } else { lidx(f, l) }),
{
    assert(f.push(r).drop_last() =~= f);
}
proof fn lemma_flat_step(hs: Seq<BlameHunk>, n: int)
    requires 0 <= n < hs.len(),
    ensures flat(hs, n + 1) == flat(hs, n) + flat1(hs[n]),
{}
/// the path the hunk's `filename` line names: the path the file had IN THE ORIGINATING COMMIT (what git reported for the group),
/// the path given on the command line only when git reported none
pub open spec fn npath(h: HV, file: Seq<char>) -> Seq<char> { if h.path.len() == 0 { file } else { h.path } }

/// the record line l has according to the hunk `h` that holds it
pub open spec fn rec_of(h: BlameHunk, l: int) -> LineRec { rec_at(h, l - h.range.0) }
pub open spec fn in_hunk(h: BlameHunk, l: int) -> bool { h.range.0 <= l <= h.range.1 }
/// the line -> hunk table agrees with the per-line function of the flattened hunk list f: every line of the list has an entry, no
/// other line has one, and the entry is a hunk that holds the line and gives it the record the list gives it
pub open spec fn tbl_ok(m: Map<u32, BlameHunk>, f: Seq<LineRec>) -> bool {
    forall|l: u32| (#[trigger] m.contains_key(l) <==> lidx(f, l as int) >= 0)
        && (m.contains_key(l) ==> hunk_ok(m[l]) && in_hunk(m[l], l as int) && rec_of(m[l], l as int) == f[lidx(f, l as int)])
}
/// the lines written: every key of the table once, in increasing order
pub open spec fn req_ok(v: Seq<u32>, m: Map<u32, BlameHunk>) -> bool {
    (forall|i: int, j: int| 0 <= i < j < v.len() ==> v[i] < v[j]) && (forall|l: u32| v.contains(l) <==> #[trigger] m.contains_key(l))
}
/// the same, stated over the per-line function: exactly the lines of the hunk list, each once, increasing
pub open spec fn lines_of(v: Seq<u32>, f: Seq<LineRec>) -> bool {
    (forall|i: int, j: int| 0 <= i < j < v.len() ==> v[i] < v[j]) && (forall|l: u32| v.contains(l) <==> lidx(f, l as int) >= 0)
}
proof fn lemma_tbl_push(m: Map<u32, BlameHunk>, f: Seq<LineRec>, l: u32, hk: BlameHunk, rec: LineRec)
    requires tbl_ok(m, f), rec.line == l, hunk_ok(hk), in_hunk(hk, l as int), rec_of(hk, l as int) == rec,
    ensures tbl_ok(m.insert(l, hk), f.push(rec)),
{
    let m2 = m.insert(l, hk); let f2 = f.push(rec);
    assert forall|x: u32| (#[trigger] m2.contains_key(x) <==> lidx(f2, x as int) >= 0)
        && (m2.contains_key(x) ==> hunk_ok(m2[x]) && in_hunk(m2[x], x as int) && rec_of(m2[x], x as int) == f2[lidx(f2, x as int)]) by {
        lemma_lidx_push(f, rec, x as int); lemma_lidx(f, x as int);
        if x != l { assert(m.contains_key(x) <==> lidx(f, x as int) >= 0); }
    }
}
pub open spec fn range_rem(rem: Seq<u32>, start: int, end: int) -> bool {
    &&& rem.len() == (if start <= end { end - start + 1 } else { 0 })
    &&& forall|i: int| 0 <= i < rem.len() ==> (#[trigger] rem[i]) == start + i
}
pub open spec fn sorted_le(v: Seq<u32>) -> bool { forall|i: int, j: int| 0 <= i < j < v.len() ==> v[i] <= v[j] }
proof fn lemma_strict(v: Seq<u32>)
    requires sorted_le(v), v.no_duplicates(),
    ensures forall|i: int, j: int| 0 <= i < j < v.len() ==> v[i] < v[j],
{
    assert forall|i: int, j: int| 0 <= i < j < v.len() implies v[i] < v[j] by { assert(v[i] <= v[j]); assert(v[i] != v[j]); }
}

// ================================================================ the ghost trace: what the writers print, argument by argument
pub enum Ev {
    /// `<sha> <orig> <final> <count>`: the header line of the FIRST line of a group / of an incremental entry
    Hdr4 { sha: Seq<char>, orig: int, fin: int, cnt: int },
    /// `<sha> <orig> <final>`: the header line of a later line of a group
    Hdr3 { sha: Seq<char>, orig: int, fin: int },
    /// 1 author, 2 author-mail, 4 author-tz, 5 committer, 6 committer-mail, 8 committer-tz, 9 summary
    MetaS { k: int, v: Seq<char> },
    /// 3 author-time, 7 committer-time
    MetaN { k: int, v: i64 },
    Boundary,
    Filename { path: Seq<char> },
    /// TAB + the line's text
    Content { text: Seq<char> },
}
pub tracked struct Tr { pub ghost s: Seq<Ev> }
#[verifier::external_body]
fn opq_p_hdr4(sha: &String, orig: u32, fin: u32, cnt: u32, Tracked(tr): Tracked<&mut Tr>)
    ensures final(tr).s == old(tr).s.push(Ev::Hdr4 { sha: sha@, orig: orig as int, fin: fin as int, cnt: cnt as int }),
{ unimplemented!() }
#[verifier::external_body]
fn opq_p_hdr3(sha: &String, orig: u32, fin: u32, Tracked(tr): Tracked<&mut Tr>)
    ensures final(tr).s == old(tr).s.push(Ev::Hdr3 { sha: sha@, orig: orig as int, fin: fin as int }),
{ unimplemented!() }
#[verifier::external_body]
fn opq_p_meta_s(v: &String, k: u8, Tracked(tr): Tracked<&mut Tr>)
    ensures final(tr).s == old(tr).s.push(Ev::MetaS { k: k as int, v: v@ }),
{ unimplemented!() }
#[verifier::external_body]
fn opq_p_meta_n(v: i64, k: u8, Tracked(tr): Tracked<&mut Tr>)
    ensures final(tr).s == old(tr).s.push(Ev::MetaN { k: k as int, v: v }),
{ unimplemented!() }
#[verifier::external_body]
fn opq_p_boundary(Tracked(tr): Tracked<&mut Tr>)
    ensures final(tr).s == old(tr).s.push(Ev::Boundary),
{ unimplemented!() }
#[verifier::external_body]
fn opq_p_filename(p: &str, Tracked(tr): Tracked<&mut Tr>)
    ensures final(tr).s == old(tr).s.push(Ev::Filename { path: p@ }),
{ unimplemented!() }
#[verifier::external_body]
fn opq_p_content(t: &str, Tracked(tr): Tracked<&mut Tr>)
    ensures final(tr).s == old(tr).s.push(Ev::Content { text: t@ }),
{ unimplemented!() }
/// a `println!` in a branch the contract proves unreachable
#[verifier::external_body]
pub fn opq_print_unreachable()
    requires false,
{ unimplemented!() }

// ---------------------------------------------------------------- the blame run and the commit lookup (uninterpreted results)
/// what `git blame --line-porcelain` + the porcelain parser + populate_ai_human_authors return for (path, -L ranges, options)
pub uninterp spec fn git_hunks(repo: Repository, file: Seq<char>, ranges: Seq<(u32, u32)>, o: GitAiBlameOptions) -> Seq<BlameHunk>;
/// `find_commit(sha)?.summary()?`: the subject line of the commit, when both succeed
pub uninterp spec fn summ(sha: Seq<char>) -> Seq<char>;
pub uninterp spec fn commit_id(c: Commit) -> Seq<char>;
impl Repository {
    /// NOT verified here (git subprocess; parser: unit porcelain, populate: unit blameout): the result is uninterpreted, its shape assumed
    #[verifier::external_body]
    pub fn blame_hunks_for_ranges(&self, file_path: &str, line_ranges: &[(u32, u32)], options: &GitAiBlameOptions) -> (r: Result<Vec<BlameHunk>, GitAiError>)
        ensures r is Ok ==> r->Ok_0@ == git_hunks(*self, file_path@, line_ranges@, *options) && all_ok(r->Ok_0@),
    { unimplemented!() }
    #[verifier::external_body]
    pub fn find_commit(&self, sha: String) -> (r: Result<Commit, GitAiError>)
        ensures r is Ok ==> commit_id(r->Ok_0) == sha@,
    { unimplemented!() }
}
impl Commit {
    #[verifier::external_body]
    pub fn summary(&self) -> (r: Result<String, GitAiError>)
        ensures r is Ok ==> r->Ok_0@ == summ(commit_id(*self)),
    { unimplemented!() }
}
/// `#[derive(Clone)]`: the same values
#[verifier::external_body]
fn opq_clone_opts(o: &GitAiBlameOptions) -> (r: GitAiBlameOptions)
    ensures r == *o,
{ unimplemented!() }
#[verifier::external_body]
fn opq_clone_hunk(h: &BlameHunk) -> (r: BlameHunk)
    ensures r == *h,
{ unimplemented!() }
/// `m.keys().copied().collect()`: documented - every key once, in no particular order
#[verifier::external_body]
fn opq_keys(m: &HashMap<u32, BlameHunk>) -> (r: Vec<u32>)
    ensures r@.no_duplicates(), forall|l: u32| r@.contains(l) <==> #[trigger] m@.contains_key(l),
{ unimplemented!() }
/// `v.sort_unstable()`: documented - a sorted permutation
#[verifier::external_body]
fn opq_sort_u32(v: &mut Vec<u32>)
    ensures sorted_le(final(v)@), final(v)@.len() == old(v)@.len(), forall|x: u32| final(v)@.contains(x) <==> old(v)@.contains(x),
        old(v)@.no_duplicates() ==> final(v)@.no_duplicates(),
{ unimplemented!() }
/// the two String-keyed tables of the writers, by their documented behaviour over the keys' characters
pub type SeenSet = std::collections::HashSet<String>;
pub uninterp spec fn seen_view(s: SeenSet) -> Set<Seq<char>>;
pub uninterp spec fn sum_view(m: HashMap<String, String>) -> Map<Seq<char>, Seq<char>>;
#[verifier::external_body] fn opq_seen_new() -> (r: SeenSet) ensures seen_view(r) == Set::<Seq<char>>::empty(), { unimplemented!() }
#[verifier::external_body] fn opq_seen_has(s: &SeenSet, k: &String) -> (r: bool) ensures r == seen_view(*s).contains(k@), { unimplemented!() }
#[verifier::external_body] fn opq_seen_put(s: &mut SeenSet, k: String) -> (r: bool) ensures seen_view(*final(s)) == seen_view(*old(s)).insert(k@), { unimplemented!() }
#[verifier::external_body] fn opq_sum_get<'a>(m: &'a HashMap<String, String>, k: &String) -> (r: Option<&'a String>)
    ensures r is Some <==> sum_view(*m).contains_key(k@), r is Some ==> r.unwrap()@ == sum_view(*m)[k@], { unimplemented!() }
#[verifier::external_body] fn opq_sum_put(m: &mut HashMap<String, String>, k: String, v: &String) -> (r: Option<String>)
    ensures sum_view(*final(m)) == sum_view(*old(m)).insert(k@, v@), { unimplemented!() }
/// the summary cache only ever holds the summary of the commit it is stored under
pub open spec fn sum_ok(m: HashMap<String, String>) -> bool { forall|k: Seq<char>| sum_view(m).contains_key(k) ==> #[trigger] sum_view(m)[k] == summ(k) }
/// an empty HashMap has no keys (the view `sum_view` is over the keys' characters; `HashMap::new()` itself is native)
#[verifier::external_body]
proof fn axiom_sum_view_new(m: HashMap<String, String>)
    requires m@ =~= Map::<String, String>::empty(),
    ensures sum_view(m) =~= Map::<Seq<char>, Seq<char>>::empty(),
{}
/// `String::is_empty` (only in the repaired text): no characters
#[verifier::external_body] fn opq_is_empty(s: &String) -> (r: bool) ensures r == (s@.len() == 0), { unimplemented!() }
pub type GroupId = (String, u32);
pub open spec fn gid(o: Option<GroupId>) -> Option<(Seq<char>, int)> { match o { Some(p) => Some((p.0@, p.1 as int)), None => None } }
/// `last_hunk_id.as_ref() != Some(&hunk_id)`: tuple / String / u32 equality
#[verifier::external_body]
fn opq_other_group(last: &Option<GroupId>, id: &GroupId) -> (r: bool)
    ensures r == (gid(*last) != Some((id.0@, id.1 as int))),
{ unimplemented!() }

// ================================================================ WHAT IS PRINTED, line by line (git-blame(1), THE PORCELAIN FORMAT)
/// f: the per-line records of the blame run; lp / p: --line-porcelain / --porcelain; file: the path asked for; lines: the blamed file's lines
pub struct WCtx { pub f: Seq<LineRec>, pub lp: bool, pub p: bool, pub file: Seq<char>, pub lines: Seq<Seq<char>> }
pub struct WSt { pub tr: Seq<Ev>, pub last: Option<(Seq<char>, int)>, pub seen: Set<Seq<char>> }
pub open spec fn str_views(v: Seq<&str>) -> Seq<Seq<char>> { Seq::new(v.len(), |i: int| v[i]@) }
/// "the contents of the actual line": line l of the blamed file
pub open spec fn content_of(c: WCtx, l: u32) -> Seq<char> { if 1 <= l && l - 1 < c.lines.len() { c.lines[l - 1] } else { ""@ } }
/// the commit information lines (author .. summary, `boundary`)
pub open spec fn meta9(h: HV) -> Seq<Ev> {
    seq![Ev::MetaS { k: 1, v: h.author }, Ev::MetaS { k: 2, v: h.email }, Ev::MetaN { k: 3, v: h.time }, Ev::MetaS { k: 4, v: h.tz },
         Ev::MetaS { k: 5, v: h.committer }, Ev::MetaS { k: 6, v: h.committer_email }, Ev::MetaN { k: 7, v: h.committer_time }, Ev::MetaS { k: 8, v: h.committer_tz },
         Ev::MetaS { k: 9, v: summ(h.commit) }]
}
pub open spec fn meta_block(h: HV) -> Seq<Ev> { if h.boundary { meta9(h).push(Ev::Boundary) } else { meta9(h) } }
/// git-blame(1): "Each blame entry always starts with a line of `<40-byte-hex-sha1> <sourceline> <resultline> <num-lines>`" - the FULL id of
/// the commit the line is attributed to, the line's number IN THE ORIGINAL FILE, its number in the final file and, "on a line that
/// starts a group of lines from a different commit than the previous one", the number of lines in the group
pub open spec fn header(r: LineRec, l: u32, first: bool) -> Ev {
    if first { Ev::Hdr4 { sha: r.h.commit, orig: r.orig, fin: l as int, cnt: r.gcount } } else { Ev::Hdr3 { sha: r.h.commit, orig: r.orig, fin: l as int } }
}
/// one line of --porcelain / --line-porcelain.  A line starts a group when the previous line written belongs to another group
/// (state `last`); --line-porcelain repeats the commit information and the `filename` line for EVERY line; --porcelain prints them
/// once per commit; `filename` names the path in the commit the line is attributed to (npath); the content line is the file's line l
pub open spec fn pstep(s: WSt, c: WCtx, l: u32) -> WSt {
    let i = lidx(c.f, l as int);
    if i < 0 { s } else {
        let r = c.f[i];
        let id = (r.h.commit, r.gstart);
        let first = s.last != Some(id);
        let block = meta_block(r.h).push(Ev::Filename { path: npath(r.h, c.file) });
        let content = Ev::Content { text: content_of(c, l) };
        if c.lp {
            WSt { tr: (s.tr.push(header(r, l, first)) + block).push(content), last: Some(id), seen: s.seen }
        } else if c.p {
            if first {
                WSt { tr: (s.tr.push(header(r, l, true)) + (if s.seen.contains(r.h.commit) { Seq::<Ev>::empty() } else { block })).push(content), last: Some(id), seen: s.seen.insert(r.h.commit) }
            } else {
                WSt { tr: s.tr.push(header(r, l, false)).push(content), last: s.last, seen: s.seen }
            }
        } else { s }
    }
}
pub open spec fn pfold(v: Seq<u32>, n: int, c: WCtx, s0: WSt) -> WSt
    decreases n
{
    if n <= 0 { s0 } else { pstep(pfold(v, n - 1, c, s0), c, v[n - 1]) }
}
/// git-blame(1), INCREMENTAL OUTPUT: "Each blame entry always starts with a line of `<sha> <sourceline> <resultline> <num-lines>`", the
/// commit information the first time a commit shows up, "the filename line ... terminates the entry"; no content line.  One entry
/// per group: written when the line starts a new group
pub open spec fn istep(s: WSt, c: WCtx, l: u32) -> WSt {
    let i = lidx(c.f, l as int);
    if i < 0 { s } else {
        let r = c.f[i];
        let id = (r.h.commit, r.gstart);
        if s.last != Some(id) {
            WSt { tr: (s.tr.push(header(r, l, true)) + (if s.seen.contains(r.h.commit) { Seq::<Ev>::empty() } else { meta_block(r.h) })).push(Ev::Filename { path: npath(r.h, c.file) }),
                  last: Some(id), seen: s.seen.insert(r.h.commit) }
        } else { s }
    }
}
pub open spec fn ifold(v: Seq<u32>, n: int, c: WCtx, s0: WSt) -> WSt
    decreases n
{
    if n <= 0 { s0 } else { istep(ifold(v, n - 1, c, s0), c, v[n - 1]) }
}
pub open spec fn st0(tr: Seq<Ev>) -> WSt { WSt { tr: tr, last: None, seen: Set::<Seq<char>>::empty() } }
/// the options both writers blame with: every option the blame run consults (read off blame_hunks_for_ranges; its command line is under
/// contract in unit blame) is handed on unchanged, and the splitting of hunks by AI author is switched off (git's groups are unsplit).
/// Stated field by field: whole-value equality of the 40-field struct (Vec<String> fields) exhausts the solver inside the writers
pub open spec fn run_opts(o2: GitAiBlameOptions, o: GitAiBlameOptions) -> bool {
    &&& !o2.split_hunks_by_ai_author
    &&& o2.ignore_whitespace == o.ignore_whitespace && o2.ignore_revs@ == o.ignore_revs@ && o2.ignore_revs_file == o.ignore_revs_file && o2.no_ignore_revs_file == o.no_ignore_revs_file
    &&& o2.newest_commit == o.newest_commit && o2.oldest_commit == o.oldest_commit && o2.oldest_date == o.oldest_date
    &&& o2.detect_moves == o.detect_moves && o2.detect_copies == o.detect_copies && o2.move_threshold == o.move_threshold && o2.first_parent == o.first_parent
    &&& o2.use_prompt_hashes_as_names == o.use_prompt_hashes_as_names && o2.return_human_authors_as_human == o.return_human_authors_as_human
}
/// the flattened result of the writer's blame run
pub open spec fn blamed(repo: Repository, file: Seq<char>, ranges: Seq<(u32, u32)>, o2: GitAiBlameOptions) -> Seq<LineRec> {
    let hs = git_hunks(repo, file, ranges, o2); flat(hs, hs.len() as int)
}
/// the writers' table loop, shared: lemma for the end of stage 1
proof fn lemma_req_lines(v: Seq<u32>, m: Map<u32, BlameHunk>, f: Seq<LineRec>)
    requires req_ok(v, m), tbl_ok(m, f),
    ensures lines_of(v, f),
{
    assert forall|l: u32| v.contains(l) <==> lidx(f, l as int) >= 0 by { assert(m.contains_key(l) <==> lidx(f, l as int) >= 0); }
}

// ================================================================ output_porcelain_format (whole function)
//#item file=src/commands/blame.rs kind=fn name=output_porcelain_format opaque='[{"expr": "println!(\n                        \"{} {} {} {}\",\n                        commit_sha,\n                        line_num,\n                        line_num,\n                        hunk.range.1 - hunk.range.0 + 1\n                    )", "call": "opq_p_hdr4(commit_sha, line_num, line_num, hunk.range.1 - hunk.range.0 + 1, Tracked(tr))"}, {"expr": "println!(\"{} {} {}\", commit_sha, line_num, line_num)", "call": "opq_p_hdr3(commit_sha, line_num, line_num, Tracked(tr))"}, {"expr": "println!(\"filename {}\", filename)", "call": "opq_p_filename(filename, Tracked(tr))"}, {"expr": "println!(\"\\t{}\", line_content)", "call": "opq_p_content(line_content, Tracked(tr))"}, {"expr": "options.clone()", "call": "opq_clone_opts(options)"}, {"expr": "hunk.clone()", "call": "opq_clone_hunk(&hunk)"}, {"expr": "line_to_hunk.keys().copied().collect()", "call": "opq_keys(&line_to_hunk)"}, {"expr": "requested_lines.sort_unstable()", "call": "opq_sort_u32(&mut requested_lines)"}, {"expr": "std::collections::HashSet::new()", "call": "opq_seen_new()"}, {"expr": "commit_summaries.get(commit_sha)", "call": "opq_sum_get(&commit_summaries, commit_sha)"}, {"expr": "commit_summaries.insert(commit_sha.clone(), summary.clone())", "call": "opq_sum_put(&mut commit_summaries, commit_sha.clone(), &summary)"}, {"expr": "last_hunk_id.as_ref() != Some(&hunk_id)", "call": "opq_other_group(&last_hunk_id, &hunk_id)"}, {"expr": "seen_commits.contains(commit_sha)", "call": "opq_seen_has(&seen_commits, commit_sha)"}, {"expr": "seen_commits.insert(commit_sha.clone())", "call": "opq_seen_put(&mut seen_commits, commit_sha.clone())"}, {"expr": "println!(\"author {}\", author_name)", "call": "opq_p_meta_s(author_name, 1, Tracked(tr))"}, {"expr": "println!(\"author-mail <{}>\", author_email)", "call": "opq_p_meta_s(author_email, 2, Tracked(tr))"}, {"expr": "println!(\"author-time {}\", author_time)", "call": "opq_p_meta_n(author_time, 3, Tracked(tr))"}, {"expr": "println!(\"author-tz {}\", author_tz)", "call": "opq_p_meta_s(author_tz, 4, Tracked(tr))"}, {"expr": "println!(\"committer {}\", committer_name)", "call": "opq_p_meta_s(committer_name, 5, Tracked(tr))"}, {"expr": "println!(\"committer-mail <{}>\", committer_email)", "call": "opq_p_meta_s(committer_email, 6, Tracked(tr))"}, {"expr": "println!(\"committer-time {}\", committer_time)", "call": "opq_p_meta_n(committer_time, 7, Tracked(tr))"}, {"expr": "println!(\"committer-tz {}\", committer_tz)", "call": "opq_p_meta_s(committer_tz, 8, Tracked(tr))"}, {"expr": "println!(\"summary {}\", summary)", "call": "opq_p_meta_s(&summary, 9, Tracked(tr))"}, {"expr": "println!(\"boundary\")", "call": "opq_p_boundary(Tracked(tr))"}]'
fn output_porcelain_format(
    repo: &Repository,
    _line_authors: &HashMap<u32, String>,
    file_path: &str,
    lines: &[&str],
    line_ranges: &[(u32, u32)],
    options: &GitAiBlameOptions,
//@     Tracked(tr): Tracked<&mut Tr>,
) -> (r_: Result<(), GitAiError>)
//@     ensures
//@         // every line git's blame run reports (under the -L ranges passed on unchanged) is written exactly once, in increasing order;
//@         // what is written for it is pstep: header (full commit id, ORIGINAL line number, final line number, group size on the
//@         // group's first line), the commit information + `filename <path in that commit>` (every line: --line-porcelain; once per
//@         // commit: --porcelain), TAB + the file's line
//@         r_ is Ok ==> exists|o2: GitAiBlameOptions, v: Seq<u32>| run_opts(o2, *options) && #[trigger] lines_of(v, blamed(*repo, file_path@, line_ranges@, o2))
//@             && final(tr).s == pfold(v, v.len() as int, WCtx { f: blamed(*repo, file_path@, line_ranges@, o2), lp: options.line_porcelain, p: options.porcelain, file: file_path@, lines: str_views(lines@) }, st0(old(tr).s)).tr,
{
    // Use options that don't split hunks to match git's native porcelain output
    let mut no_split_options = opq_clone_opts(options);
    no_split_options.split_hunks_by_ai_author = false;
//@ let ghost o2 = no_split_options;
//@ // one conjunct at a time: the conjunction in one query exhausts the solver (40-field struct update)
//@ assert(o2.ignore_whitespace == options.ignore_whitespace);
//@ assert(o2.ignore_revs@ == options.ignore_revs@);
//@ assert(o2.ignore_revs_file == options.ignore_revs_file);
//@ assert(o2.no_ignore_revs_file == options.no_ignore_revs_file);
//@ assert(o2.newest_commit == options.newest_commit);
//@ assert(o2.oldest_commit == options.oldest_commit);
//@ assert(o2.oldest_date == options.oldest_date);
//@ assert(o2.detect_moves == options.detect_moves);
//@ assert(o2.detect_copies == options.detect_copies);
//@ assert(o2.move_threshold == options.move_threshold);
//@ assert(o2.first_parent == options.first_parent);
//@ assert(o2.use_prompt_hashes_as_names == options.use_prompt_hashes_as_names);
//@ assert(o2.return_human_authors_as_human == options.return_human_authors_as_human);
//@ assert(run_opts(o2, *options));

    // Build a map from line number to BlameHunk for fast lookup
    let mut line_to_hunk: HashMap<u32, BlameHunk> = HashMap::new();
    let hunks = repo.blame_hunks_for_ranges(file_path, line_ranges, &no_split_options)?;
//@ let ghost hs = hunks@; let ghost f = flat(hs, hs.len() as int); let ghost tr0 = tr.s;
//@ proof { assert(f == blamed(*repo, file_path@, line_ranges@, o2)); assert forall|l: u32| lidx(flat(hs, 0), l as int) < 0 by {} }
    for hunk in it_0: hunks
//@     invariant all_ok(hs), it_0.snapshot@.remaining() == hs, tbl_ok(line_to_hunk@, flat(hs, it_0.index@)), tr.s == tr0,
    {
//@ let ghost n = it_0.index@; let ghost h = hunk; let ghost f0 = flat(hs, n);
//@ proof { assert(h == hs[n]); assert(hunk_ok(h)); lemma_flat_step(hs, n); }
        for line_num in it_1: hunk.range.0..=hunk.range.1
//@     invariant hunk_ok(h), h == hunk, range_rem(it_1.snapshot@.remaining(), h.range.0 as int, h.range.1 as int),
//@         tbl_ok(line_to_hunk@, f0 + flat1(h).take(it_1.index@)), tr.s == tr0,
        {
//@ let ghost k = it_1.index@; let ghost m0 = line_to_hunk@; let ghost fk = f0 + flat1(h).take(k); let ghost rec = rec_at(h, k);
//@ proof { assert(line_num == h.range.0 + k); }
            line_to_hunk.insert(line_num, opq_clone_hunk(&hunk));
//@ proof { lemma_tbl_push(m0, fk, line_num, h, rec); assert(line_to_hunk@ =~= m0.insert(line_num, h)); assert(fk.push(rec) =~= f0 + flat1(h).take(k + 1)); }
        }
//@ proof { assert(flat1(h).take(hlen(h)) =~= flat1(h)); }
    }
    let mut requested_lines: Vec<u32> = opq_keys(&line_to_hunk);
    opq_sort_u32(&mut requested_lines);
//@ let ghost rl = requested_lines@; let ghost m = line_to_hunk@;
//@ proof { lemma_strict(rl); assert(req_ok(rl, m)); lemma_req_lines(rl, m, f); }

    let mut last_hunk_id = None;
    let mut commit_summaries: HashMap<String, String> = HashMap::new();
//@ proof { axiom_sum_view_new(commit_summaries); }
    let mut seen_commits: std::collections::HashSet<String> = opq_seen_new();
//@ let ghost c = WCtx { f: f, lp: options.line_porcelain, p: options.porcelain, file: file_path@, lines: str_views(lines@) };
//@ let ghost s0 = st0(tr0);
    for line_num in it_2: requested_lines
//@     invariant
//@         rl == it_2.snapshot@.remaining(), req_ok(rl, m), tbl_ok(m, f), m == line_to_hunk@, c == (WCtx { f: f, lp: options.line_porcelain, p: options.porcelain, file: file_path@, lines: str_views(lines@) }), c.f == f, s0 == st0(tr0),
//@         tr.s == pfold(rl, it_2.index@, c, s0).tr, gid(last_hunk_id) == pfold(rl, it_2.index@, c, s0).last,
//@         seen_view(seen_commits) == pfold(rl, it_2.index@, c, s0).seen, sum_ok(commit_summaries),
    {
//@ let ghost k = it_2.index@; let ghost st = pfold(rl, k, c, s0);
//@ proof { assert(line_num == rl[k]); assert(rl.contains(line_num)); assert(m.contains_key(line_num)); assert(pfold(rl, k + 1, c, s0) == pstep(st, c, line_num)); lemma_lidx(f, line_num as int); }
//@ let ghost r = f[lidx(f, line_num as int)];
        let line_index = (line_num - 1) as usize;
        let line_content = if line_index < lines.len() {
            lines[line_index]
        } else {
            ""
        };

//@ proof { assert(line_content@ == content_of(c, line_num)); }
        if let Some(hunk) = line_to_hunk.get(&line_num) {
            let author_name = &hunk.original_author;
            let commit_sha = &hunk.commit_sha;
            let author_email = &hunk.author_email;
            let author_time = hunk.author_time;
            let author_tz = &hunk.author_tz;
            let committer_name = &hunk.committer;
            let committer_email = &hunk.committer_email;
            let committer_time = hunk.committer_time;
            let committer_tz = &hunk.committer_tz;
            let boundary = hunk.is_boundary;
            let filename = file_path;

//@ proof { assert(*hunk == m[line_num]); assert(rec_of(*hunk, line_num as int) == r); assert(hunk_ok(*hunk) && in_hunk(*hunk, line_num as int)); }
//@ let ghost blk = meta_block(r.h).push(Ev::Filename { path: npath(r.h, c.file) });
//@ let ghost fst = st.last != Some((r.h.commit, r.gstart));
//@ let ghost cont = Ev::Content { text: content_of(c, line_num) };
//@ let ghost t_in = tr.s;
            let hunk_id = (commit_sha.clone(), hunk.range.0);
            if options.line_porcelain {
                let summary = if let Some(summary) = opq_sum_get(&commit_summaries, commit_sha) {
                    summary.clone()
                } else {
                    let commit = repo.find_commit(commit_sha.clone())?;
                    let summary = commit.summary()?;
                    opq_sum_put(&mut commit_summaries, commit_sha.clone(), &summary);
                    summary
                };
//@ assert(summary@ == summ(r.h.commit));
                if opq_other_group(&last_hunk_id, &hunk_id) {
                    // First line of hunk: 4-field header
                    opq_p_hdr4(commit_sha, line_num, line_num, hunk.range.1 - hunk.range.0 + 1, Tracked(tr));
                    last_hunk_id = Some(hunk_id);
                } else {
                    // Subsequent lines: 3-field header
                    opq_p_hdr3(commit_sha, line_num, line_num, Tracked(tr));
                }
//@ let ghost t1 = tr.s;
//@ assert(t1 == t_in.push(header(r, line_num, fst)));
                opq_p_meta_s(author_name, 1, Tracked(tr));
                opq_p_meta_s(author_email, 2, Tracked(tr));
                opq_p_meta_n(author_time, 3, Tracked(tr));
                opq_p_meta_s(author_tz, 4, Tracked(tr));
                opq_p_meta_s(committer_name, 5, Tracked(tr));
                opq_p_meta_s(committer_email, 6, Tracked(tr));
                opq_p_meta_n(committer_time, 7, Tracked(tr));
                opq_p_meta_s(committer_tz, 8, Tracked(tr));
                opq_p_meta_s(&summary, 9, Tracked(tr));
//@ assert(tr.s =~= t1 + meta9(r.h));
                if boundary {
                    opq_p_boundary(Tracked(tr));
                }
//@ assert(tr.s =~= t1 + meta_block(r.h));
                opq_p_filename(filename, Tracked(tr));
//@ assert(tr.s =~= t1 + blk);
//@ let ghost t2 = tr.s;
                opq_p_content(line_content, Tracked(tr));
//@ proof { assert(tr.s == t2.push(cont)); assert(tr.s =~= (t_in.push(header(r, line_num, fst)) + blk).push(cont)); assert(pstep(st, c, line_num).tr == tr.s); }
            } else if options.porcelain {
                if opq_other_group(&last_hunk_id, &hunk_id) {
                    // First line of hunk.
                    opq_p_hdr4(commit_sha, line_num, line_num, hunk.range.1 - hunk.range.0 + 1, Tracked(tr));
                    if !opq_seen_has(&seen_commits, commit_sha) {
                        let summary = if let Some(summary) = opq_sum_get(&commit_summaries, commit_sha) {
                            summary.clone()
                        } else {
                            let commit = repo.find_commit(commit_sha.clone())?;
                            let summary = commit.summary()?;
                            opq_sum_put(&mut commit_summaries, commit_sha.clone(), &summary);
                            summary
                        };
//@ assert(summary@ == summ(r.h.commit));
//@ let ghost t1 = tr.s;
//@ assert(t1 == t_in.push(header(r, line_num, true)));
                        opq_p_meta_s(author_name, 1, Tracked(tr));
                        opq_p_meta_s(author_email, 2, Tracked(tr));
                        opq_p_meta_n(author_time, 3, Tracked(tr));
                        opq_p_meta_s(author_tz, 4, Tracked(tr));
                        opq_p_meta_s(committer_name, 5, Tracked(tr));
                        opq_p_meta_s(committer_email, 6, Tracked(tr));
                        opq_p_meta_n(committer_time, 7, Tracked(tr));
                        opq_p_meta_s(committer_tz, 8, Tracked(tr));
                        opq_p_meta_s(&summary, 9, Tracked(tr));
//@ assert(tr.s =~= t1 + meta9(r.h));
                        if boundary {
                            opq_p_boundary(Tracked(tr));
                        }
//@ assert(tr.s =~= t1 + meta_block(r.h));
                        opq_p_filename(filename, Tracked(tr));
//@ assert(tr.s =~= t1 + blk);
                        opq_seen_put(&mut seen_commits, commit_sha.clone());
                    }
//@ let ghost t2 = tr.s;
//@ assert(t2 =~= t_in.push(header(r, line_num, true)) + (if st.seen.contains(r.h.commit) { Seq::<Ev>::empty() } else { blk }));
                    opq_p_content(line_content, Tracked(tr));
//@ proof { assert(tr.s == t2.push(cont)); assert(pstep(st, c, line_num).tr == tr.s); }
                    last_hunk_id = Some(hunk_id);
                } else {
                    // For subsequent lines, print only the header and content (no metadata block)
                    opq_p_hdr3(commit_sha, line_num, line_num, Tracked(tr));
                    opq_p_content(line_content, Tracked(tr));
//@ proof { assert(tr.s =~= t_in.push(header(r, line_num, false)).push(cont)); assert(pstep(st, c, line_num).tr == tr.s); }
                }
            }
        }
    }
//@ proof { assert(lines_of(rl, blamed(*repo, file_path@, line_ranges@, o2)) && tr.s == pfold(rl, rl.len() as int, WCtx { f: blamed(*repo, file_path@, line_ranges@, o2), lp: options.line_porcelain, p: options.porcelain, file: file_path@, lines: str_views(lines@) }, st0(tr0)).tr); }
    Ok(())
}
//#end

// ================================================================ output_incremental_format (whole function)
//#item file=src/commands/blame.rs kind=fn name=output_incremental_format opaque='[{"expr": "println!(\n                    \"{} {} {} {}\",\n                    commit_sha,\n                    line_num,\n                    line_num,\n                    hunk.range.1 - hunk.range.0 + 1\n                )", "call": "opq_p_hdr4(commit_sha, line_num, line_num, hunk.range.1 - hunk.range.0 + 1, Tracked(tr))"}, {"expr": "println!(\"filename {}\", file_path)", "call": "opq_p_filename(file_path, Tracked(tr))"}, {"expr": "options.clone()", "call": "opq_clone_opts(options)"}, {"expr": "hunk.clone()", "call": "opq_clone_hunk(&hunk)"}, {"expr": "line_to_hunk.keys().copied().collect()", "call": "opq_keys(&line_to_hunk)"}, {"expr": "requested_lines.sort_unstable()", "call": "opq_sort_u32(&mut requested_lines)"}, {"expr": "std::collections::HashSet::new()", "call": "opq_seen_new()"}, {"expr": "commit_summaries.get(commit_sha)", "call": "opq_sum_get(&commit_summaries, commit_sha)"}, {"expr": "commit_summaries.insert(commit_sha.clone(), summary.clone())", "call": "opq_sum_put(&mut commit_summaries, commit_sha.clone(), &summary)"}, {"expr": "last_hunk_id.as_ref() != Some(&hunk_id)", "call": "opq_other_group(&last_hunk_id, &hunk_id)"}, {"expr": "seen_commits.contains(commit_sha)", "call": "opq_seen_has(&seen_commits, commit_sha)"}, {"expr": "seen_commits.insert(commit_sha.clone())", "call": "opq_seen_put(&mut seen_commits, commit_sha.clone())"}, {"expr": "println!(\"author {}\", author_name)", "call": "opq_p_meta_s(author_name, 1, Tracked(tr))"}, {"expr": "println!(\"author-mail <{}>\", author_email)", "call": "opq_p_meta_s(author_email, 2, Tracked(tr))"}, {"expr": "println!(\"author-time {}\", author_time)", "call": "opq_p_meta_n(author_time, 3, Tracked(tr))"}, {"expr": "println!(\"author-tz {}\", author_tz)", "call": "opq_p_meta_s(author_tz, 4, Tracked(tr))"}, {"expr": "println!(\"committer {}\", committer_name)", "call": "opq_p_meta_s(committer_name, 5, Tracked(tr))"}, {"expr": "println!(\"committer-mail <{}>\", committer_email)", "call": "opq_p_meta_s(committer_email, 6, Tracked(tr))"}, {"expr": "println!(\"committer-time {}\", committer_time)", "call": "opq_p_meta_n(committer_time, 7, Tracked(tr))"}, {"expr": "println!(\"committer-tz {}\", committer_tz)", "call": "opq_p_meta_s(committer_tz, 8, Tracked(tr))"}, {"expr": "println!(\"summary {}\", summary)", "call": "opq_p_meta_s(&summary, 9, Tracked(tr))"}, {"expr": "println!(\"boundary\")", "call": "opq_p_boundary(Tracked(tr))"}]'
fn output_incremental_format(
    repo: &Repository,
    _line_authors: &HashMap<u32, String>,
    file_path: &str,
    _lines: &[&str],
    line_ranges: &[(u32, u32)],
    options: &GitAiBlameOptions,
//@     Tracked(tr): Tracked<&mut Tr>,
) -> (r_: Result<(), GitAiError>)
//@     ensures
//@         // one entry per group of the blame run (written at the group's first reported line): header (full commit id, original
//@         // start, final start, size), the commit information the first time the commit shows up, `filename <path in that commit>`
//@         r_ is Ok ==> exists|o2: GitAiBlameOptions, v: Seq<u32>| run_opts(o2, *options) && #[trigger] lines_of(v, blamed(*repo, file_path@, line_ranges@, o2))
//@             && final(tr).s == ifold(v, v.len() as int, WCtx { f: blamed(*repo, file_path@, line_ranges@, o2), lp: options.line_porcelain, p: options.porcelain, file: file_path@, lines: str_views(_lines@) }, st0(old(tr).s)).tr,
{
    // Use options that don't split hunks to match git's native incremental output
    let mut no_split_options = opq_clone_opts(options);
    no_split_options.split_hunks_by_ai_author = false;
//@ let ghost o2 = no_split_options;
//@ // one conjunct at a time: the conjunction in one query exhausts the solver (40-field struct update)
//@ assert(o2.ignore_whitespace == options.ignore_whitespace);
//@ assert(o2.ignore_revs@ == options.ignore_revs@);
//@ assert(o2.ignore_revs_file == options.ignore_revs_file);
//@ assert(o2.no_ignore_revs_file == options.no_ignore_revs_file);
//@ assert(o2.newest_commit == options.newest_commit);
//@ assert(o2.oldest_commit == options.oldest_commit);
//@ assert(o2.oldest_date == options.oldest_date);
//@ assert(o2.detect_moves == options.detect_moves);
//@ assert(o2.detect_copies == options.detect_copies);
//@ assert(o2.move_threshold == options.move_threshold);
//@ assert(o2.first_parent == options.first_parent);
//@ assert(o2.use_prompt_hashes_as_names == options.use_prompt_hashes_as_names);
//@ assert(o2.return_human_authors_as_human == options.return_human_authors_as_human);
//@ assert(run_opts(o2, *options));

    // Build a map from line number to BlameHunk for fast lookup
    let mut line_to_hunk: HashMap<u32, BlameHunk> = HashMap::new();
    let hunks = repo.blame_hunks_for_ranges(file_path, line_ranges, &no_split_options)?;
//@ let ghost hs = hunks@; let ghost f = flat(hs, hs.len() as int); let ghost tr0 = tr.s;
//@ proof { assert(f == blamed(*repo, file_path@, line_ranges@, o2)); assert forall|l: u32| lidx(flat(hs, 0), l as int) < 0 by {} }
    for hunk in it_0: hunks
//@     invariant all_ok(hs), it_0.snapshot@.remaining() == hs, tbl_ok(line_to_hunk@, flat(hs, it_0.index@)), tr.s == tr0,
    {
//@ let ghost n = it_0.index@; let ghost h = hunk; let ghost f0 = flat(hs, n);
//@ proof { assert(h == hs[n]); assert(hunk_ok(h)); lemma_flat_step(hs, n); }
        for line_num in it_1: hunk.range.0..=hunk.range.1
//@     invariant hunk_ok(h), h == hunk, range_rem(it_1.snapshot@.remaining(), h.range.0 as int, h.range.1 as int),
//@         tbl_ok(line_to_hunk@, f0 + flat1(h).take(it_1.index@)), tr.s == tr0,
        {
//@ let ghost k = it_1.index@; let ghost m0 = line_to_hunk@; let ghost fk = f0 + flat1(h).take(k); let ghost rec = rec_at(h, k);
//@ proof { assert(line_num == h.range.0 + k); }
            line_to_hunk.insert(line_num, opq_clone_hunk(&hunk));
//@ proof { lemma_tbl_push(m0, fk, line_num, h, rec); assert(line_to_hunk@ =~= m0.insert(line_num, h)); assert(fk.push(rec) =~= f0 + flat1(h).take(k + 1)); }
        }
//@ proof { assert(flat1(h).take(hlen(h)) =~= flat1(h)); }
    }
    let mut requested_lines: Vec<u32> = opq_keys(&line_to_hunk);
    opq_sort_u32(&mut requested_lines);
//@ let ghost rl = requested_lines@; let ghost m = line_to_hunk@;
//@ proof { lemma_strict(rl); assert(req_ok(rl, m)); lemma_req_lines(rl, m, f); }

    let mut last_hunk_id = None;
    let mut commit_summaries: HashMap<String, String> = HashMap::new();
//@ proof { axiom_sum_view_new(commit_summaries); }
    let mut seen_commits: std::collections::HashSet<String> = opq_seen_new();
//@ let ghost c = WCtx { f: f, lp: options.line_porcelain, p: options.porcelain, file: file_path@, lines: str_views(_lines@) };
//@ let ghost s0 = st0(tr0);
    for line_num in it_2: requested_lines
//@     invariant
//@         rl == it_2.snapshot@.remaining(), req_ok(rl, m), tbl_ok(m, f), m == line_to_hunk@, c == (WCtx { f: f, lp: options.line_porcelain, p: options.porcelain, file: file_path@, lines: str_views(_lines@) }), c.f == f, s0 == st0(tr0),
//@         tr.s == ifold(rl, it_2.index@, c, s0).tr, gid(last_hunk_id) == ifold(rl, it_2.index@, c, s0).last,
//@         seen_view(seen_commits) == ifold(rl, it_2.index@, c, s0).seen, sum_ok(commit_summaries),
    {
//@ let ghost k = it_2.index@; let ghost st = ifold(rl, k, c, s0);
//@ proof { assert(line_num == rl[k]); assert(rl.contains(line_num)); assert(m.contains_key(line_num)); assert(ifold(rl, k + 1, c, s0) == istep(st, c, line_num)); lemma_lidx(f, line_num as int); }
//@ let ghost r = f[lidx(f, line_num as int)];
        if let Some(hunk) = line_to_hunk.get(&line_num) {
            // For incremental format, use the original git author, not AI authorship
            let author_name = &hunk.original_author;
            let commit_sha = &hunk.commit_sha;
            let author_email = &hunk.author_email;
            let author_time = hunk.author_time;
            let author_tz = &hunk.author_tz;
            let committer_name = &hunk.committer;
            let committer_email = &hunk.committer_email;
            let committer_time = hunk.committer_time;
            let committer_tz = &hunk.committer_tz;

            // Only print the full block for the first line of a hunk
//@ proof { assert(*hunk == m[line_num]); assert(rec_of(*hunk, line_num as int) == r); assert(hunk_ok(*hunk) && in_hunk(*hunk, line_num as int)); }
//@ let ghost t_in = tr.s;
            let hunk_id = (hunk.commit_sha.clone(), hunk.range.0);
            if opq_other_group(&last_hunk_id, &hunk_id) {
                // Print first line for this hunk.
                opq_p_hdr4(commit_sha, line_num, line_num, hunk.range.1 - hunk.range.0 + 1, Tracked(tr));
                if !opq_seen_has(&seen_commits, commit_sha) {
                    let summary = if let Some(summary) = opq_sum_get(&commit_summaries, commit_sha) {
                        summary.clone()
                    } else {
                        let commit = repo.find_commit(commit_sha.clone())?;
                        let summary = commit.summary()?;
                        opq_sum_put(&mut commit_summaries, commit_sha.clone(), &summary);
                        summary
                    };
//@ assert(summary@ == summ(r.h.commit));
//@ let ghost t1 = tr.s;
//@ assert(t1 == t_in.push(header(r, line_num, true)));
                    opq_p_meta_s(author_name, 1, Tracked(tr));
                    opq_p_meta_s(author_email, 2, Tracked(tr));
                    opq_p_meta_n(author_time, 3, Tracked(tr));
                    opq_p_meta_s(author_tz, 4, Tracked(tr));
                    opq_p_meta_s(committer_name, 5, Tracked(tr));
                    opq_p_meta_s(committer_email, 6, Tracked(tr));
                    opq_p_meta_n(committer_time, 7, Tracked(tr));
                    opq_p_meta_s(committer_tz, 8, Tracked(tr));
                    opq_p_meta_s(&summary, 9, Tracked(tr));
//@ assert(tr.s =~= t1 + meta9(r.h));
                    if hunk.is_boundary {
                        opq_p_boundary(Tracked(tr));
                    }
//@ assert(tr.s =~= t1 + meta_block(r.h));
                    opq_seen_put(&mut seen_commits, commit_sha.clone());
                }
//@ let ghost t2 = tr.s;
//@ assert(t2 =~= t_in.push(header(r, line_num, true)) + (if st.seen.contains(r.h.commit) { Seq::<Ev>::empty() } else { meta_block(r.h) }));
                opq_p_filename(file_path, Tracked(tr));
//@ proof { assert(tr.s == t2.push(Ev::Filename { path: npath(r.h, c.file) })); assert(istep(st, c, line_num).tr == tr.s); }
                last_hunk_id = Some(hunk_id);
            }
            // For incremental, no content lines (no \tLine)
        } else {
            // Fallback for lines without blame info
            println!(
                "0000000000000000000000000000000000000000 {} {} 1",
                line_num, line_num
            );
            println!("author unknown");
            println!("author-mail <unknown@example.com>");
            println!("author-time 0");
            println!("author-tz +0000");
            println!("committer unknown");
            println!("committer-mail <unknown@example.com>");
            println!("committer-time 0");
            println!("committer-tz +0000");
            println!("summary unknown");
            opq_p_filename(file_path, Tracked(tr));
        }
    }
//@ proof { assert(lines_of(rl, blamed(*repo, file_path@, line_ranges@, o2)) && tr.s == ifold(rl, rl.len() as int, WCtx { f: blamed(*repo, file_path@, line_ranges@, o2), lp: options.line_porcelain, p: options.porcelain, file: file_path@, lines: str_views(_lines@) }, st0(tr0)).tr); }
    Ok(())
}
//#end

// ================================================================ the user-level statements, over the fold the writers are proved to print
/// C09 / git-blame(1), per line: whatever was written before (s), the text written for a reported line l under --porcelain or
/// --line-porcelain STARTS with the header naming the FULL id of the commit of l's record, l's ORIGINAL number and l, and ENDS with
/// TAB + the file's line l; the header carries the group's size exactly when l starts a group; nothing already written changes
proof fn theorem_porcelain_line(s: WSt, c: WCtx, l: u32)
    requires lidx(c.f, l as int) >= 0, c.lp || c.p,
    ensures ({
        let r = c.f[lidx(c.f, l as int)]; let t = pstep(s, c, l).tr; let first = s.last != Some((r.h.commit, r.gstart));
        &&& t.len() >= s.tr.len() + 2 && t.subrange(0, s.tr.len() as int) == s.tr
        &&& t[s.tr.len() as int] == header(r, l, first)
        &&& t.last() == (Ev::Content { text: content_of(c, l) })
        &&& pstep(s, c, l).last == Some((r.h.commit, r.gstart))
        &&& c.lp ==> t.contains(Ev::Filename { path: npath(r.h, c.file) })
    }),
{
    let r = c.f[lidx(c.f, l as int)]; let t = pstep(s, c, l).tr; let first = s.last != Some((r.h.commit, r.gstart));
    let block = meta_block(r.h).push(Ev::Filename { path: npath(r.h, c.file) });
    assert(t.subrange(0, s.tr.len() as int) =~= s.tr);
    if c.lp {
        assert(t =~= (s.tr.push(header(r, l, first)) + block).push(Ev::Content { text: content_of(c, l) }));
        let i = s.tr.len() + 1 + block.len() - 1;
        assert(t[i] == block[block.len() - 1]);
    }
}
/// the incremental format: an entry is written exactly when the line starts a group; it starts with (commit, original number of that
/// line, that line, group size) and ends with the `filename` line of the hunk's path; a later line of the group writes nothing
proof fn theorem_incremental_entry(s: WSt, c: WCtx, l: u32)
    requires lidx(c.f, l as int) >= 0,
    ensures ({
        let r = c.f[lidx(c.f, l as int)]; let t = istep(s, c, l).tr;
        if s.last != Some((r.h.commit, r.gstart)) {
            t.len() >= s.tr.len() + 2 && t.subrange(0, s.tr.len() as int) == s.tr
            && t[s.tr.len() as int] == (Ev::Hdr4 { sha: r.h.commit, orig: r.orig, fin: l as int, cnt: r.gcount })
            && t.last() == (Ev::Filename { path: npath(r.h, c.file) })
        } else { t == s.tr }
    }),
{
    let t = istep(s, c, l).tr;
    assert(t.subrange(0, s.tr.len() as int) =~= s.tr);
}
/// the record of a line of hunk h: the hunk's commit, orig_start + (l - start), and the hunk's extent as the group
proof fn theorem_record_of_line(h: BlameHunk, l: int)
    requires hunk_wf(h), in_hunk(h, l),
    ensures rec_of(h, l).h.commit == h.commit_sha@, rec_of(h, l).orig == h.orig_range.0 + (l - h.range.0), rec_of(h, l).line == l,
        rec_of(h, l).gstart == h.range.0, rec_of(h, l).gcount == h.range.1 - h.range.0 + 1,
{}

} // verus!
fn main() {}
