// Replay driver for unit blamewriters: the whole ORIGINAL output_porcelain_format / output_incremental_format (println! captured
// line by line) over a stand-in `git blame` (a table of raw hunks, clipped to the -L ranges), and the whole ORIGINAL
// parse_blame_args / parse_line_range.  Oracle, written from git-blame(1) (THE PORCELAIN FORMAT, INCREMENTAL OUTPUT, OPTIONS), not
// from the code: every requested line has exactly one header `<full sha> <orig> <final> [<count>]` with the commit of the hunk that
// covers it, orig = orig_start + (final - start), the count only (and always) on the first line of a group; TAB + the file's line
// follows; `filename` names the path of the hunk (the path in the originating commit); --line-porcelain repeats the commit
// information for every line; the incremental format has one entry per group.
#![allow(dead_code, unused)]
use std::collections::{BTreeMap, HashMap, HashSet};
use std::cell::RefCell;
use std::{fs, io};
thread_local! { static OUT: RefCell<Vec<String>> = Default::default(); static RAW: RefCell<Vec<BlameHunk>> = Default::default(); static WANT_W: RefCell<bool> = Default::default(); }
macro_rules! println { ($($t:tt)*) => { OUT.with(|o| o.borrow_mut().push(format!($($t)*))) } }
pub struct Repository { pub _opaque: () }
#[derive(Debug)]
pub enum GitAiError { Generic(String) }
#[derive(Clone, Debug, PartialEq)]
pub struct DateTime<T> { s: String, _p: std::marker::PhantomData<T> }
#[derive(Clone, Debug, PartialEq)]
pub struct FixedOffset;
impl DateTime<FixedOffset> {
    /// stand-in for chrono: accepts exactly `YYYY-MM-DDTHH:MM:SSZ`-shaped strings
    pub fn parse_from_rfc3339(s: &str) -> Result<Self, String> { if s.len() == 20 && s.ends_with('Z') && s.as_bytes()[10] == b'T' { Ok(DateTime { s: s.to_string(), _p: Default::default() }) } else { Err("bad date".into()) } }
}
pub struct Commit { sha: String }
impl Commit { pub fn summary(&self) -> Result<String, GitAiError> { Ok(format!("summary-of-{}", self.sha)) } }
impl Repository {
    /// the stand-in `git blame --line-porcelain -L ..` + parser: the raw hunks clipped to the requested ranges.  It DEPENDS on the
    /// options handed over, as the real run does: with split_hunks_by_ai_author every hunk comes back line by line (what
    /// populate_ai_human_authors may do), and a -w flag that differs from the one asked for blames another commit
    pub fn blame_hunks_for_ranges(&self, _file_path: &str, line_ranges: &[(u32, u32)], options: &GitAiBlameOptions) -> Result<Vec<BlameHunk>, GitAiError> {
        let mut raw = clip(&RAW.with(|r| r.borrow().clone()), line_ranges);
        if options.ignore_whitespace != WANT_W.with(|w| *w.borrow()) { for h in raw.iter_mut() { h.commit_sha = SHAS[3].to_string(); } }
        if options.split_hunks_by_ai_author {
            let mut v = vec![]; for h in &raw { for i in 0..=(h.range.1 - h.range.0) { let mut n = h.clone(); n.range = (h.range.0 + i, h.range.0 + i); n.orig_range = (h.orig_range.0 + i, h.orig_range.0 + i); v.push(n); } }
            raw = v;
        }
        Ok(raw)
    }
    pub fn find_commit(&self, sha: String) -> Result<Commit, GitAiError> { Ok(Commit { sha }) }
}
fn clip(raw: &[BlameHunk], ranges: &[(u32, u32)]) -> Vec<BlameHunk> {
    let mut out = vec![];
    for (a, b) in ranges { for h in raw {
        let (s, e) = (h.range.0.max(*a), h.range.1.min(*b));
        if s <= e { let mut n = h.clone(); n.range = (s, e); n.orig_range = (h.orig_range.0 + (s - h.range.0), h.orig_range.0 + (e - h.range.0)); out.push(n); }
    } }
    out
}
include!("@ITEMS@");
use std::panic::{catch_unwind, AssertUnwindSafe};
struct Ctx { evaluated: u64, failed: std::collections::HashSet<String> }
impl Ctx {
    fn fail(&mut self, f: &str, clause: &str, input: String, observed: String, expected: String) {
        if self.failed.insert(format!("{}::{}", f, clause)) { std::println!("FAIL fn=[[{}]] clause=[[{}]] input=[[{}]] observed=[[{}]] expected=[[{}]]", f, clause, input, observed, expected); }
    }
}
fn guarded<T>(f: impl FnOnce() -> T) -> Result<T, String> {
    catch_unwind(AssertUnwindSafe(f)).map_err(|e| { let m = e.downcast_ref::<String>().cloned().or_else(|| e.downcast_ref::<&str>().map(|s| s.to_string())).unwrap_or_default(); format!("panic: {}", m) })
}
struct Rng(u64);
impl Rng { fn next(&mut self) -> u64 { self.0 ^= self.0 << 13; self.0 ^= self.0 >> 7; self.0 ^= self.0 << 17; self.0 } fn below(&mut self, n: u64) -> u64 { self.next() % n } }

const SHAS: &[&str] = &["c1c1c1c1c1c1c1c1c1c1c1c1c1c1c1c1c1c1c1c1", "c2c2c2c2c2c2c2c2c2c2c2c2c2c2c2c2c2c2c2c2", "c3c3c3c3c3c3c3c3c3c3c3c3c3c3c3c3c3c3c3c3", "ffffffffffffffffffffffffffffffffffffffff"];
/// the path git reports for a hunk (the `filename` line of its blame group): "" = none, else the path in the originating commit
const HPATHS: &[&str] = &["", "f.rs", "old.rs"];
fn mk_hunk(r: (u32, u32), o: u32, c: usize, p: usize) -> BlameHunk {
    BlameHunk { range: r, orig_range: (o, o + (r.1 - r.0)), commit_sha: SHAS[c].into(), abbrev_sha: format!("ab{}", c + 1), original_author: format!("author{}", c + 1), author_email: format!("a{}@x", c + 1), author_time: c as i64, author_tz: "+0000".into(), ai_human_author: None, committer: "comm".into(), committer_email: "c@x".into(), committer_time: 0, committer_tz: "+0000".into(), is_boundary: c == 2, filename: HPATHS[p].to_string() }
}
/// scenario: raw hunks (start, end, orig_start, commit, path), the path asked for, -L ranges (already resolved), mode 0 porcelain /
/// 1 line-porcelain / 2 incremental, -w asked for, the number of lines of the file
struct Sc { hunks: Vec<(u32, u32, u32, usize, usize)>, file: String, ranges: Vec<(u32, u32)>, mode: u32, w: bool, nlines: u32 }
fn show_sc(s: &Sc) -> String {
    format!("{}~{}~{}~{}~{}~{}", s.hunks.iter().map(|(a, b, o, c, p)| format!("{}-{}@{}#{}/{}", a, b, o, c, p)).collect::<Vec<_>>().join(","), s.file,
        s.ranges.iter().map(|(a, b)| format!("{}-{}", a, b)).collect::<Vec<_>>().join(","), s.mode, s.w as u8, s.nlines)
}
fn parse_sc(s: &str) -> Sc {
    let p: Vec<&str> = s.split('~').collect();
    Sc { hunks: p[0].split(',').filter(|x| !x.is_empty()).map(|h| { let (r, rest) = h.split_once('@').unwrap(); let (a, b) = r.split_once('-').unwrap(); let (o, c) = rest.split_once('#').unwrap(); let (c, p) = c.split_once('/').unwrap(); (a.parse().unwrap(), b.parse().unwrap(), o.parse().unwrap(), c.parse().unwrap(), p.parse().unwrap()) }).collect(),
         file: p[1].to_string(), ranges: p[2].split(',').filter(|x| !x.is_empty()).map(|r| { let (a, b) = r.split_once('-').unwrap(); (a.parse().unwrap(), b.parse().unwrap()) }).collect(),
         mode: p[3].parse().unwrap(), w: p[4] == "1", nlines: p[5].parse().unwrap() }
}
fn mk_opts() -> GitAiBlameOptions {
    GitAiBlameOptions { line_ranges: vec![], newest_commit: None, oldest_commit: None, oldest_date: None, porcelain: false, line_porcelain: false, incremental: false, show_name: false, show_number: false, show_email: false, suppress_author: false, show_stats: false, long_rev: false, raw_timestamp: false, abbrev: None, blank_boundary: false, show_root: false, detect_moves: false, detect_copies: 0, move_threshold: None, ignore_revs: vec![], ignore_revs_file: None, no_ignore_revs_file: false, color_lines: false, color_by_age: false, progress: false, date_format: None, contents_file: None, reverse: None, first_parent: false, encoding: None, contents_data: None, use_prompt_hashes_as_names: false, return_human_authors_as_human: false, no_output: false, ignore_whitespace: false, json: false, mark_unknown: false, show_prompt: false, split_hunks_by_ai_author: true }
}
/// what git-blame(1) says about line l: (full commit, original line, first line of its group?, lines in the group, path)
fn o_line(s: &Sc, l: u32) -> Option<(String, u32, bool, u32, String)> {
    // the group of l: the raw hunk that covers it, restricted to the -L range that asks for l
    let (a, b, orig, c, p) = *s.hunks.iter().find(|(a, b, _, _, _)| *a <= l && l <= *b)?;
    let (ra, rb) = *s.ranges.iter().find(|(x, y)| *x <= l && l <= *y)?;
    let (gs, ge) = (a.max(ra), b.min(rb));
    Some((SHAS[c].to_string(), orig + (l - a), l == gs, ge - gs + 1, if HPATHS[p].is_empty() { s.file.clone() } else { HPATHS[p].to_string() }))
}
fn is_header(line: &str) -> Option<(String, Vec<u32>)> {
    let mut it = line.split(' ');
    let sha = it.next()?;
    if !(sha.len() >= 2 && sha.chars().all(|c| c.is_ascii_hexdigit())) || line.starts_with('\t') { return None; }
    let nums: Option<Vec<u32>> = it.map(|x| x.parse().ok()).collect();
    let nums = nums?; if nums.len() == 2 || nums.len() == 3 { Some((sha.to_string(), nums)) } else { None }
}
fn chk(c: &mut Ctx, s: &Sc) {
    c.evaluated += 1;
    let fname = if s.mode == 2 { "output_incremental_format" } else { "output_porcelain_format" };
    let input = show_sc(s);
    RAW.with(|r| *r.borrow_mut() = s.hunks.iter().map(|(a, b, o, cc, p)| mk_hunk((*a, *b), *o, *cc, *p)).collect());
    WANT_W.with(|w| *w.borrow_mut() = s.w);
    OUT.with(|o| o.borrow_mut().clear());
    let text: Vec<String> = (1..=s.nlines).map(|i| format!("text of line {}", i)).collect();
    let lines: Vec<&str> = text.iter().map(|x| x.as_str()).collect();
    let mut po = mk_opts(); po.ignore_whitespace = s.w;
    match s.mode { 0 => po.porcelain = true, 1 => { po.porcelain = true; po.line_porcelain = true; } _ => po.incremental = true }
    let repo = Repository { _opaque: () }; let la: HashMap<u32, String> = HashMap::new();
    let r = guarded(|| if s.mode == 2 { output_incremental_format(&repo, &la, &s.file, &lines, &s.ranges, &po) } else { output_porcelain_format(&repo, &la, &s.file, &lines, &s.ranges, &po) });
    let out = OUT.with(|o| o.borrow().clone());
    match r { Err(p) => { c.fail(fname, "safety", input, p, "no panic".into()); return; } Ok(Err(e)) => { c.fail(fname, "ensures#0", input, format!("{:?}", e), "Ok".into()); return; } Ok(Ok(())) => {} }
    // split the output into entries: a header line and what follows it up to the next header
    let mut entries: Vec<((String, Vec<u32>), Vec<String>)> = vec![];
    for l in &out { if let Some(h) = is_header(l) { entries.push((h, vec![])); } else if let Some(e) = entries.last_mut() { e.1.push(l.clone()); } else { c.fail(fname, "ensures#0", input.clone(), l.clone(), "output starts with a header line".into()); return; } }
    let requested: Vec<u32> = (1..=s.hunks.iter().map(|h| h.1).max().unwrap_or(0)).filter(|l| o_line(s, *l).is_some()).collect();
    if s.mode != 2 {
        let got: Vec<u32> = entries.iter().map(|e| e.0.1[1]).collect();
        if got != requested { c.fail(fname, "ensures#0", input.clone(), format!("lines {:?}", got), format!("exactly the requested lines, each once, in order: {:?}", requested)); return; }
        let mut seen: HashSet<String> = HashSet::new();
        for ((sha, nums), rest) in &entries {
            let l = nums[1]; let (osha, oorig, first, cnt, path) = o_line(s, l).unwrap();
            let want_hdr = if first { format!("{} {} {} {}", osha, oorig, l, cnt) } else { format!("{} {} {}", osha, oorig, l) };
            let got_hdr = format!("{} {}", sha, nums.iter().map(|n| n.to_string()).collect::<Vec<_>>().join(" "));
            if got_hdr != want_hdr { c.fail(fname, "ensures#0", input.clone(), got_hdr, format!("header `{}` (full commit id, original line, final line, group size on the group's first line)", want_hdr)); }
            if rest.last().map(|x| x.as_str()) != Some(&format!("\t{}", text[(l - 1) as usize])) { c.fail(fname, "ensures#0", input.clone(), format!("{:?}", rest.last()), format!("TAB + line {} of the file", l)); }
            let fnames: Vec<&String> = rest.iter().filter(|x| x.starts_with("filename ")).collect();
            let has_author = rest.iter().any(|x| x == &format!("author author{}", SHAS.iter().position(|x| *x == osha).unwrap() + 1));
            let full = s.mode == 1 || (first && !seen.contains(&osha));
            if full {
                if !has_author || fnames.len() != 1 || !rest.iter().any(|x| x.starts_with("summary ")) { c.fail(fname, "ensures#0", input.clone(), format!("{:?}", rest), "the commit information (author .. summary, filename) of the line's commit".into()); }
                else if fnames[0] != &format!("filename {}", path) { c.fail(fname, "ensures#0", input.clone(), fnames[0].clone(), format!("filename {} (the path in the commit the line is attributed to)", path)); }
            } else if rest.len() != 1 { c.fail(fname, "ensures#0", input.clone(), format!("{:?}", rest), "only the content line (commit already shown)".into()); }
            seen.insert(osha);
        }
    } else {
        // one entry per group, in any order: (commit, orig_start, final_start, count), each followed by its filename line
        let mut want: Vec<(String, String)> = requested.iter().filter_map(|l| { let (sha, o, first, cnt, path) = o_line(s, *l).unwrap(); if first { Some((format!("{} {} {} {}", sha, o, l, cnt), format!("filename {}", path))) } else { None } }).collect();
        let mut got: Vec<(String, String)> = entries.iter().map(|((sha, nums), rest)| (format!("{} {}", sha, nums.iter().map(|n| n.to_string()).collect::<Vec<_>>().join(" ")), rest.last().cloned().unwrap_or_default())).collect();
        want.sort(); got.sort();
        if want != got { c.fail(fname, "ensures#0", input.clone(), format!("{:?}", got), format!("one entry per group `<sha> <orig start> <final start> <count>` ending in its filename line: {:?}", want)); }
        if out.iter().any(|l| l.starts_with('\t')) { c.fail(fname, "ensures#0", input.clone(), "a content line".into(), "no content lines in the incremental format".into()); }
    }
}
fn gen_sc(g: &mut Rng) -> Sc {
    let n = 1 + g.below(4) as usize; let mut hunks = vec![]; let mut at = 1u32;
    for _ in 0..n { let len = 1 + g.below(4) as u32; hunks.push((at, at + len - 1, 1 + g.below(9) as u32, g.below(3) as usize, g.below(3) as usize)); at += len; }
    let total = at - 1;
    let ranges = match g.below(3) { 0 => vec![(1, total)], 1 => { let a = 1 + g.below(total as u64) as u32; vec![(a, a + g.below((total - a + 1) as u64) as u32)] }
        _ => { let a = 1 + g.below(total as u64) as u32; let b = a + g.below((total - a + 1) as u64) as u32; if b + 1 < total { vec![(a, b), (b + 2, total)] } else { vec![(a, b)] } } };
    Sc { hunks, file: "f.rs".into(), ranges, mode: g.below(3) as u32, w: g.below(2) == 1, nlines: total + g.below(2) as u32 }
}

// ---------------------------------------------------------------- parse_blame_args
/// git-blame(1), OPTIONS - the forms git AND git-ai accept, read in the most obvious way: what the command line asks for
#[derive(Debug, PartialEq, Default)]
struct Asked { file: String, ranges: Vec<String>, porcelain: bool, line_porcelain: bool, incremental: bool, json: bool, moves: bool, copies: u32, ignore_revs: Vec<String>, ignore_revs_file: Option<String>, no_ignore_revs_file: bool, abbrev: Option<u32>, long: bool, root: bool, s: bool, e: bool, date: Option<String> }
fn o_args(a: &[String]) -> Result<Asked, String> {
    let mut r = Asked::default(); let mut file: Option<String> = None; let mut i = 0;
    let val = |i: usize| -> Result<String, String> { a.get(i + 1).cloned().ok_or("missing value".to_string()) };
    while i < a.len() {
        match a[i].as_str() {
            "-L" => { r.ranges.push(val(i)?); i += 1; }
            "--porcelain" => r.porcelain = true, "--line-porcelain" => r.line_porcelain = true, "--incremental" => r.incremental = true, "--json" => r.json = true,
            "-M" => r.moves = true, "-C" => r.copies = (r.copies + 1).min(3),
            "--ignore-rev" => { r.ignore_revs.push(val(i)?); i += 1; }
            "--ignore-revs-file" => { r.ignore_revs_file = Some(val(i)?); i += 1; }
            "--no-ignore-revs-file" => r.no_ignore_revs_file = true,
            "--abbrev" => { r.abbrev = Some(val(i)?.parse::<u32>().map_err(|_| "bad number")?); i += 1; }
            "-l" => r.long = true, "--root" => r.root = true, "-s" => r.s = true, "-e" => r.e = true,
            "--date" => { r.date = Some(val(i)?); i += 1; }
            x if x.starts_with('-') => return Err(format!("unknown option {}", x)),
            x => { if file.is_some() { return Err("second path".into()); } file = Some(x.to_string()); }
        }
        i += 1;
    }
    r.file = file.ok_or("no path")?; Ok(r)
}
/// git's reading of one -L argument, for the forms of the pool (n, n,m, n,+k, n,)
fn o_range(s: &str) -> Option<(u32, u32)> {
    let num = |x: &str| -> Option<u32> { if !x.is_empty() && x.chars().all(|c| c.is_ascii_digit()) { x.parse().ok() } else { None } };
    match s.split_once(',') { None => Some((num(s)?, u32::MAX)), Some((a, "")) => Some((num(a)?, u32::MAX)),
        Some((a, b)) => if let Some(k) = b.strip_prefix('+') { let (a, k) = (num(a)?, num(k)?); if k == 0 { None } else { Some((a, a.checked_add(k - 1)?)) } } else { Some((num(a)?, num(b)?)) } }
}
fn chk_args(c: &mut Ctx, a: &[String]) {
    c.evaluated += 1;
    let f = "parse_blame_args"; let input = a.join(" ");
    let got = match guarded(|| parse_blame_args(a)) { Err(p) => { c.fail(f, "safety", input, p, "no panic".into()); return; } Ok(r) => r };
    // the two forms where git-ai's reading of `-M <n>` / `-C <n>` (a detached number is the threshold) differs from git's (the number is the next argument): not compared
    if a.windows(2).any(|w| (w[0] == "-M" || w[0] == "-C") && w[1].parse::<u32>().is_ok()) { return; }
    let want = o_args(a).and_then(|w| { let rs: Option<Vec<(u32, u32)>> = w.ranges.iter().map(|s| o_range(s)).collect(); match rs { Some(rs) => Ok((w, rs)), None => Err("bad range".into()) } });
    match (got, want) {
        (Err(_), Err(_)) => {}
        (Ok((p, o)), Err(e)) => c.fail(f, "ensures#0", input, format!("Ok(path {:?})", p), format!("an error: {}", e)),
        (Err(e), Ok(_)) => c.fail(f, "ensures#0", input, format!("{:?}", e), "accepted".into()),
        (Ok((p, o)), Ok((w, rs))) => {
            let seen = ((p.clone(), o.line_ranges.clone(), o.porcelain || o.line_porcelain, o.line_porcelain, o.incremental, o.json), (o.detect_moves, o.detect_copies, o.ignore_revs.clone(), o.ignore_revs_file.clone(), o.no_ignore_revs_file), (o.abbrev, o.long_rev, o.show_root, o.suppress_author, o.show_email, o.date_format.clone()));
            let asked = ((w.file.clone(), rs, w.porcelain || w.line_porcelain, w.line_porcelain, w.incremental, w.json), (w.moves, w.copies, w.ignore_revs.clone(), w.ignore_revs_file.clone(), w.no_ignore_revs_file), (w.abbrev, w.long, w.root, w.s, w.e, w.date.clone()));
            if seen != asked { c.fail(f, "ensures#0", input, format!("{:?}", seen), format!("{:?}", asked)); }
            if o.ignore_whitespace || !o.split_hunks_by_ai_author || o.newest_commit.is_some() || o.no_output { c.fail(f, "ensures#1", a.join(" "), "an option nobody asked for is set".into(), "defaults".into()); }
        }
    }
}
const POOL: &[&str] = &["f.rs", "-L", "2,5", "3", "4,+2", "7,", "--porcelain", "--line-porcelain", "--incremental", "--json", "-M", "-C", "--ignore-rev", "abc123", "--ignore-revs-file", "revs.txt", "--no-ignore-revs-file", "--abbrev", "12", "-l", "--root", "-s", "-e", "--date", "iso", "-w", "--", "--bogus", "g.rs", "x,1", "-L2,3", "--abbrev=9", "5"];

fn main() {
    std::panic::set_hook(Box::new(|_| {}));
    let a: Vec<String> = std::env::args().collect();
    let mut c = Ctx { evaluated: 0, failed: Default::default() };
    let want = |f: &str| a[2] == "*" || a[2] == f || f.ends_with(a[2].as_str());
    if a[1] == "search" {
        let mut g = Rng(a[3].parse::<u64>().unwrap_or(0).wrapping_mul(0x9E3779B97F4A7C15) ^ 0x6a09e667f3bcc909);
        if want("output_porcelain_format") || want("output_incremental_format") {
            // exhaustive-small: two hunks, every original start / path / commit pairing, with and without -L, all three modes
            for mode in 0..3u32 { for orig in [1u32, 3] { for hp in 0..3usize { for c2 in 0..3usize { for w in [false, true] {
                for ranges in [vec![(1u32, 5u32)], vec![(2, 4)], vec![(1, 1), (4, 5)], vec![(3, 3)]] {
                    chk(&mut c, &Sc { hunks: vec![(1, 3, orig, 0, hp), (4, 5, 2, c2, (hp + 1) % 3)], file: "f.rs".into(), ranges: ranges.clone(), mode, w, nlines: 5 });
                    chk(&mut c, &Sc { hunks: vec![(1, 2, 1, c2, 0), (3, 5, orig, 0, hp)], file: "f.rs".into(), ranges: ranges.clone(), mode, w, nlines: 5 });
                    chk(&mut c, &Sc { hunks: vec![(1, 2, orig, 0, hp), (3, 3, 7, 1, 0), (4, 5, orig + 2, 0, hp)], file: "f.rs".into(), ranges, mode, w, nlines: 5 });
                }
            } } } } }
            for mode in 0..3u32 { chk(&mut c, &Sc { hunks: vec![], file: "f.rs".into(), ranges: vec![], mode, w: false, nlines: 0 }); }
            for _ in 0..4000 { let s = gen_sc(&mut g); chk(&mut c, &s); }
        }
        if want("parse_blame_args") {
            let v = |xs: &[&str]| -> Vec<String> { xs.iter().map(|x| x.to_string()).collect() };
            chk_args(&mut c, &v(&[]));
            for x in POOL { chk_args(&mut c, &v(&[x])); for y in POOL { chk_args(&mut c, &v(&[x, y])); chk_args(&mut c, &v(&["f.rs", x, y])); chk_args(&mut c, &v(&[x, y, "f.rs"])); chk_args(&mut c, &v(&[x, "f.rs", y])); } }
            // accumulation: two -L / two --ignore-rev, before, around and after the path
            for r1 in ["2,5", "3", "4,+2", "7,"] { for r2 in ["2,5", "1,1", "9,"] {
                chk_args(&mut c, &v(&["-L", r1, "-L", r2, "f.rs"])); chk_args(&mut c, &v(&["-L", r1, "f.rs", "-L", r2])); chk_args(&mut c, &v(&["f.rs", "-L", r1, "--porcelain", "-L", r2]));
                chk_args(&mut c, &v(&["--ignore-rev", r1, "--ignore-rev", r2, "f.rs"])); chk_args(&mut c, &v(&["--ignore-revs-file", r1, "--ignore-revs-file", r2, "f.rs", "-L", r1]));
            } }
            for _ in 0..6000 { let n = 1 + g.below(7) as usize; let xs: Vec<String> = (0..n).map(|_| POOL[g.below(POOL.len() as u64) as usize].to_string()).collect(); chk_args(&mut c, &xs); }
        }
    } else {
        match a[2].as_str() {
            "parse_blame_args" => { let xs: Vec<String> = a[3].split(' ').filter(|x| !x.is_empty()).map(|x| x.to_string()).collect(); chk_args(&mut c, &xs); }
            _ => chk(&mut c, &parse_sc(&a[3])),
        }
    }
    std::println!("DONE evaluated={}", c.evaluated);
}
