// End-to-end demonstration (real binary through the repository's own test harness) of the two deviations of `git-ai blame
// --porcelain / --line-porcelain / --incremental` from git-blame(1) found while putting the two porcelain-style writers under
// contract (unit blamewriters, REPORT.md findings 1 and 2):
//   1. the header line `<sha> <sourceline> <resultline> [<num-lines>]` carries the FINAL line number in the <sourceline> slot
//      (git: the line's number in the file of the commit it is attributed to);
//   2. the `filename` line names the path given on the command line (git: the path in the commit the line is attributed to);
//   3. `--porcelain --incremental` (either order) prints the porcelain format; git prints the incremental format (no content lines).
// Every case compares `git-ai blame <args>` with plain `git blame <args>`: the header lines (commit, source line, result line, group
// size), the `filename` lines and the content lines must be the same, in the same order (for --incremental: the same set of
// entries).  Cases named control_* pass on the unchanged tree.
#[macro_use]
mod repos;
use repos::test_file::ExpectedLineExt;
use repos::test_repo::TestRepo;

fn is_header(l: &str) -> bool {
    let mut it = l.split(' ');
    let sha = it.next().unwrap_or("");
    sha.len() == 40 && sha.chars().all(|c| c.is_ascii_hexdigit()) && it.clone().count() >= 2 && it.all(|x| x.parse::<u32>().is_ok())
}
/// what C09 and git-blame(1) fix of a porcelain-style output: header lines, `filename` lines, content lines (in order)
fn skeleton(out: &str) -> Vec<String> {
    out.lines().filter(|l| is_header(l) || l.starts_with("filename ") || l.starts_with('\t')).map(|l| l.to_string()).collect()
}
/// the incremental format: one (header, filename) pair per entry; git emits the entries in the order it finds them
fn entries(out: &str) -> Vec<(String, String)> {
    let mut v: Vec<(String, String)> = vec![];
    for l in out.lines() {
        if is_header(l) { v.push((l.to_string(), String::new())); } else if l.starts_with("filename ") { if let Some(e) = v.last_mut() { e.1 = l.to_string(); } }
    }
    v.sort();
    v
}
fn assert_same_skeleton_as_git(repo: &TestRepo, args: &[&str]) {
    let git = repo.git_og(args).unwrap_or_else(|e| panic!("git {:?} failed: {}", args, e));
    let ours = repo.git_ai(args).unwrap_or_else(|e| panic!("git-ai {:?} failed where git succeeds: {}", args, e));
    eprintln!("git:\n{}\ngit-ai:\n{}", git, ours);
    if args.contains(&"--incremental") {
        assert_eq!(entries(&ours), entries(&git), "git-ai {:?}: other entries (commit, source line, result line, count, filename) than git", args);
    } else {
        assert_eq!(skeleton(&ours), skeleton(&git), "git-ai {:?}: other header / filename / content lines than git", args);
    }
}
/// f.txt: three lines committed; then two lines inserted ABOVE them by the agent and committed: the old lines are now 3-5
/// but are lines 1-3 of the commit they are attributed to
fn repo_with_shifted_lines() -> TestRepo {
    let repo = TestRepo::new();
    let mut f = repo.filename("f.txt");
    f.set_contents(lines!["a", "b", "c"]);
    repo.stage_all_and_commit("base").unwrap();
    f.insert_at(0, lines!["x".ai(), "y".ai()]);
    repo.stage_all_and_commit("ai inserts above").unwrap();
    repo
}
/// a.txt committed, then renamed to b.txt without an edit
fn repo_with_rename() -> TestRepo {
    let repo = TestRepo::new();
    let mut f = repo.filename("a.txt");
    f.set_contents(lines!["a", "b", "c"]);
    repo.stage_all_and_commit("base").unwrap();
    repo.git(&["mv", "a.txt", "b.txt"]).unwrap();
    repo.git(&["commit", "-m", "rename only"]).unwrap();
    repo
}

// ---------------------------------------------------------------- controls: nothing moved, nothing renamed
#[test]
fn control_porcelain_of_an_unshifted_file_matches_git() {
    let repo = TestRepo::new();
    let mut f = repo.filename("f.txt");
    f.set_contents(lines!["a", "b", "c"]);
    repo.stage_all_and_commit("base").unwrap();
    f.insert_at(3, lines!["x".ai(), "y".ai()]);
    repo.stage_all_and_commit("ai appends").unwrap();
    assert_same_skeleton_as_git(&repo, &["blame", "--porcelain", "f.txt"]);
    assert_same_skeleton_as_git(&repo, &["blame", "--line-porcelain", "f.txt"]);
    assert_same_skeleton_as_git(&repo, &["blame", "--incremental", "f.txt"]);
    assert_same_skeleton_as_git(&repo, &["blame", "--porcelain", "-L", "2,4", "f.txt"]);
}

// ---------------------------------------------------------------- 1. the <sourceline> field
#[test]
fn porcelain_header_names_the_original_line_number() {
    assert_same_skeleton_as_git(&repo_with_shifted_lines(), &["blame", "--porcelain", "f.txt"]);
}
#[test]
fn line_porcelain_header_names_the_original_line_number() {
    assert_same_skeleton_as_git(&repo_with_shifted_lines(), &["blame", "--line-porcelain", "f.txt"]);
}
#[test]
fn porcelain_header_under_a_line_range_names_the_original_line_number() {
    assert_same_skeleton_as_git(&repo_with_shifted_lines(), &["blame", "--porcelain", "-L", "4,5", "f.txt"]);
}
#[test]
fn incremental_entry_names_the_original_start() {
    assert_same_skeleton_as_git(&repo_with_shifted_lines(), &["blame", "--incremental", "f.txt"]);
}

// ---------------------------------------------------------------- 2. the `filename` line
#[test]
fn porcelain_filename_is_the_path_in_the_originating_commit() {
    assert_same_skeleton_as_git(&repo_with_rename(), &["blame", "--porcelain", "b.txt"]);
}
#[test]
fn line_porcelain_filename_is_the_path_in_the_originating_commit() {
    assert_same_skeleton_as_git(&repo_with_rename(), &["blame", "--line-porcelain", "b.txt"]);
}
#[test]
fn incremental_filename_is_the_path_in_the_originating_commit() {
    assert_same_skeleton_as_git(&repo_with_rename(), &["blame", "--incremental", "b.txt"]);
}

// ---------------------------------------------------------------- 3. --incremental together with --porcelain
#[test]
fn incremental_wins_over_porcelain_as_in_git() {
    let repo = repo_with_shifted_lines();
    for args in [["blame", "--porcelain", "--incremental", "f.txt"], ["blame", "--incremental", "--porcelain", "f.txt"]] {
        let git = repo.git_og(&args).unwrap();
        let ours = repo.git_ai(&args).unwrap();
        eprintln!("git:\n{}\ngit-ai:\n{}", git, ours);
        assert!(!git.lines().any(|l| l.starts_with('\t')), "git prints content lines for {:?}", args);
        assert!(!ours.lines().any(|l| l.starts_with('\t')), "git-ai {:?} prints the porcelain format (content lines); git prints the incremental format", args);
        assert_eq!(entries(&ours), entries(&git), "git-ai {:?}: other entries than git", args);
    }
}
