// Replay driver for unit rawparse: the ORIGINAL text of parse_porcelain_v2 (git status --porcelain=v2 -z) and parse_diff_raw
// (git diff --raw -z) run on streams RENDERED FROM RECORD LISTS in the documented formats (git-status(1), git-diff(1)); the
// expected result is the record list itself (paths verbatim, one entry per record, in order).  Totality is swept on garbage
// byte strings and on every truncation of valid streams.
// Deliberately outside the oracle (REPORT.md observations 1-4, decided by the coordinator): the path and kind of a `u` record,
// the two paths of an R/C diff record (everything else of those records, and the records after them, IS checked), and garbage
// inputs whose XY / status field starts with a multi-byte character (the functions' stated precondition).
#![allow(dead_code, unused)]
use std::path::{Path, PathBuf};
use std::str;
#[derive(Debug)]
pub enum GitAiError { Generic(String), Utf8(std::str::Utf8Error) }
impl From<std::str::Utf8Error> for GitAiError { fn from(e: std::str::Utf8Error) -> Self { GitAiError::Utf8(e) } }
use std::collections::HashSet;
/// stand-in for crate::git::repository::Repository: only its global arguments are read
pub struct Repository { pub _opaque: () }
impl Repository { pub fn global_args_for_exec(&self) -> Vec<String> { vec!["-C".to_string(), "/work tree".to_string()] } }
include!("@ITEMS@");
use std::panic::{catch_unwind, AssertUnwindSafe};
struct Ctx { evaluated: u64, failed: std::collections::HashSet<String> }
impl Ctx {
    fn fail(&mut self, f: &str, clause: &str, input: String, observed: String, expected: String) {
        if self.failed.insert(format!("{}::{}", f, clause)) { println!("FAIL fn=[[{}]] clause=[[{}]] input=[[{}]] observed=[[{}]] expected=[[{}]]", f, clause, input, observed, expected); }
    }
}
fn guarded<T>(f: impl FnOnce() -> T) -> Result<T, String> {
    catch_unwind(AssertUnwindSafe(f)).map_err(|e| { let m = e.downcast_ref::<String>().cloned().or_else(|| e.downcast_ref::<&str>().map(|s| s.to_string())).unwrap_or_default(); format!("panic: {}", m) })
}
struct Rng(u64);
impl Rng { fn next(&mut self) -> u64 { self.0 ^= self.0 << 13; self.0 ^= self.0 >> 7; self.0 ^= self.0 << 17; self.0 } fn below(&mut self, n: u64) -> u64 { self.next() % n } }
fn esc(s: &str) -> String { s.chars().map(|c| if c.is_ascii_alphanumeric() || "./-_:".contains(c) { c.to_string() } else { format!("\\u{{{:x}}}", c as u32) }).collect() }
fn unesc(s: &str) -> String {
    let mut out = String::new(); let mut it = s.chars().peekable();
    while let Some(c) = it.next() {
        if c == '\\' && it.peek() == Some(&'u') { it.next(); it.next(); let mut h = String::new(); while let Some(&d) = it.peek() { it.next(); if d == '}' { break; } h.push(d); } out.push(char::from_u32(u32::from_str_radix(&h, 16).unwrap()).unwrap()); }
        else { out.push(c); }
    }
    out
}
fn hex(b: &[u8]) -> String { b.iter().map(|x| format!("{:02x}", x)).collect() }
fn unhex(s: &str) -> Vec<u8> { (0..s.len() / 2).map(|i| u8::from_str_radix(&s[2 * i..2 * i + 2], 16).unwrap()).collect() }

/// paths git may print between NULs: anything but NUL and the empty string
const PATHS: &[&str] = &["a", "src/lib.rs", "dir with spaces/new file.txt", "\"quoted\".txt", "tab\there", "line\nbreak", "caf\u{e9}/\u{65e5}\u{672c}.txt",
    "? looks untracked", "1 MM N... 100644 100644 100644 aaaa bbbb looks-like-a-record", ":100644 100644 a b M", " leading and trailing ", "a  b   c", "u", "2", "!", "R100", "back\\slash", "x\u{a0}y"];
fn rand_path(g: &mut Rng) -> String {
    if g.below(3) > 0 { return PATHS[g.below(PATHS.len() as u64) as usize].to_string(); }
    const AL: &[char] = &['a', 'b', '/', ' ', ' ', '"', '\t', '\n', '?', '!', ':', '1', '2', 'u', '.', '\u{e9}', '\u{4e16}', '\\', '\'', '-', '>'];
    let n = 1 + g.below(9) as usize;
    (0..n).map(|_| AL[g.below(AL.len() as u64) as usize]).collect()
}

// ---------------------------------------------------------------- git status --porcelain=v2 -z
#[derive(Clone, Debug)]
struct SRec { tag: char, x: char, y: char, path: String, orig: String }
/// git-status(1): `1 <XY> <sub> <mH> <mI> <mW> <hH> <hI> <path>`, `2 <XY> <sub> <mH> <mI> <mW> <hH> <hI> <X><score> <path>\0<origPath>`,
/// `u <XY> <sub> <m1> <m2> <m3> <mW> <h1> <h2> <h3> <path>`, `? <path>`, `! <path>`; every record is followed by NUL
fn render_status(rs: &[SRec]) -> Vec<u8> {
    let mut out: Vec<u8> = vec![];
    let h = ["1111111111111111111111111111111111111111", "2222222222222222222222222222222222222222", "3333333333333333333333333333333333333333"];
    for r in rs {
        let line = match r.tag {
            '1' => format!("1 {}{} N... 100644 100644 100755 {} {} {}", r.x, r.y, h[0], h[1], r.path),
            '2' => format!("2 {}{} N... 100644 100644 100644 {} {} {}87 {}", r.x, r.y, h[0], h[1], r.x, r.path),
            'u' => format!("u {}{} N... 100644 100644 100644 100644 {} {} {} {}", r.x, r.y, h[0], h[1], h[2], r.path),
            t => format!("{} {}", t, r.path),
        };
        out.extend_from_slice(line.as_bytes()); out.push(0);
        if r.tag == '2' { out.extend_from_slice(r.orig.as_bytes()); out.push(0); }
    }
    out
}
fn code_name(c: char) -> String {
    for (l, n) in [('.', "Unmodified"), ('M', "Modified"), ('A', "Added"), ('D', "Deleted"), ('R', "Renamed"), ('C', "Copied"), ('U', "Unmerged"), ('?', "Untracked"), ('!', "Ignored")] { if c == l { return n.to_string(); } }
    format!("Unknown({:?})", c)
}
fn enc_srecs(rs: &[SRec]) -> String { rs.iter().map(|r| format!("{}~{}{}~{}~{}", r.tag, r.x, r.y, esc(&r.path), esc(&r.orig))).collect::<Vec<_>>().join("|") }
fn dec_srecs(s: &str) -> Vec<SRec> {
    s.split('|').filter(|x| !x.is_empty()).map(|x| { let q: Vec<&str> = x.split('~').collect(); let xy: Vec<char> = q[1].chars().collect();
        SRec { tag: q[0].chars().next().unwrap(), x: xy[0], y: xy[1], path: unesc(q[2]), orig: unesc(q.get(3).copied().unwrap_or("")) } }).collect()
}
fn chk_status(c: &mut Ctx, rs: &[SRec]) {
    c.evaluated += 1;
    let data = render_status(rs);
    let f = "parse_porcelain_v2";
    match guarded(|| parse_porcelain_v2(&data)) {
        Err(p) => c.fail(f, "safety", enc_srecs(rs), p, "no panic".into()),
        Ok(Err(e)) => c.fail(f, "ensures#0", enc_srecs(rs), format!("Err({:?})", e), "Ok: every record is in the documented format".into()),
        Ok(Ok(es)) => {
            if es.len() != rs.len() { c.fail(f, "ensures#0", enc_srecs(rs), format!("{} entries: {:?}", es.len(), es.iter().map(|e| e.path.clone()).collect::<Vec<_>>()), format!("{} entries, one per record", rs.len())); return; }
            for (k, (e, r)) in es.iter().zip(rs.iter()).enumerate() {
                let (ws, wu) = match r.tag { '?' => ("Unmodified".to_string(), "Untracked".to_string()), '!' => ("Unmodified".to_string(), "Ignored".to_string()), _ => (code_name(r.x), code_name(r.y)) };
                let worig = if r.tag == '2' { Some(r.orig.clone()) } else { None };
                let mut bad = format!("{:?}", e.staged) != ws || format!("{:?}", e.unstaged) != wu || e.orig_path != worig;
                let mut want = format!("record {}: staged {} unstaged {} orig_path {:?}", k, ws, wu, worig);
                if r.tag != 'u' {
                    let wk = match r.tag { '?' => "Untracked", '!' => "Ignored", '2' if r.x == 'R' => "Rename", '2' if r.x == 'C' => "Copy", _ => "Ordinary" };
                    bad = bad || e.path != r.path || format!("{:?}", e.kind) != wk;
                    want += &format!(" path {:?} (verbatim) kind {}", r.path, wk);
                }
                if bad { c.fail(f, "ensures#0", enc_srecs(rs), format!("record {}: {:?}", k, e), want); return; }
            }
        }
    }
}
/// the stated precondition of parse_porcelain_v2 (REPORT.md observation 3): no 1/2/u record whose XY field is ONE two-byte character
fn status_pre(data: &[u8]) -> bool {
    data.split(|b| *b == 0).filter(|s| !s.is_empty()).all(|seg| match str::from_utf8(seg) {
        Ok(s) if s.starts_with('1') || s.starts_with('2') || s.starts_with('u') => match s.split(' ').nth(1) { Some(xy) => !(xy.len() == 2 && xy.chars().count() < 2), None => true },
        _ => true })
}
fn chk_status_total(c: &mut Ctx, data: &[u8]) {
    if !status_pre(data) { return; }
    c.evaluated += 1;
    if let Err(p) = guarded(|| { let _ = parse_porcelain_v2(data); }) { c.fail("parse_porcelain_v2", "safety", format!("hex:{}", hex(data)), p, "no panic on any byte string (Ok or Err)".into()); }
}
fn rand_srec(g: &mut Rng) -> SRec {
    const XY: &[char] = &['.', 'M', 'T', 'A', 'D', 'R', 'C'];
    let tag = ['1', '1', '2', '2', 'u', '?', '!'][g.below(7) as usize];
    let (x, y) = match tag { 'u' => [('U', 'U'), ('A', 'A'), ('D', 'D'), ('A', 'U'), ('U', 'D'), ('D', 'U'), ('U', 'A')][g.below(7) as usize], '2' => (['R', 'C'][g.below(2) as usize], XY[g.below(3) as usize]),
        '?' => ('?', '?'), '!' => ('!', '!'), _ => (XY[g.below(7) as usize], XY[g.below(7) as usize]) };
    SRec { tag, x, y, path: rand_path(g), orig: rand_path(g) }
}
fn sweep_status(c: &mut Ctx, g: &mut Rng) {
    chk_status(c, &[]);
    // exhaustive-small: every sequence of up to 2 templates (and up to 3 of a reduced set), every tag with every kind of path
    let mut t: Vec<SRec> = vec![];
    for p in ["a b", "\"q\" \t\n", "caf\u{e9}", "? x", "2 R. x", "u"] {
        t.push(SRec { tag: '1', x: 'M', y: '.', path: p.into(), orig: String::new() });
        t.push(SRec { tag: '2', x: 'R', y: '.', path: p.into(), orig: "1 .M old name".into() });
        t.push(SRec { tag: '2', x: 'C', y: 'M', path: "n".into(), orig: p.into() });
        t.push(SRec { tag: 'u', x: 'U', y: 'U', path: p.into(), orig: String::new() });
        t.push(SRec { tag: '?', x: '?', y: '?', path: p.into(), orig: String::new() });
        t.push(SRec { tag: '!', x: '!', y: '!', path: p.into(), orig: String::new() });
    }
    for a in &t { chk_status(c, &[a.clone()]); for b in &t { chk_status(c, &[a.clone(), b.clone()]); } }
    let small: Vec<SRec> = t.iter().filter(|r| r.path == "a b" || r.orig == "a b" || r.path == "? x").cloned().collect();
    for a in &small { for b in &small { for d in &small { chk_status(c, &[a.clone(), b.clone(), d.clone()]); } } }
    for x in ['.', 'M', 'T', 'A', 'D', 'R', 'C'] { for y in ['.', 'M', 'T', 'A', 'D', 'R', 'C'] { chk_status(c, &[SRec { tag: '1', x, y, path: "p q".into(), orig: String::new() }]); } }
    for _ in 0..4000 { let n = g.below(6) as usize; let rs: Vec<SRec> = (0..n).map(|_| rand_srec(g)).collect(); chk_status(c, &rs); }
    // totality: every truncation of valid streams, then garbage
    for _ in 0..60 { let rs: Vec<SRec> = (0..3).map(|_| rand_srec(g)).collect(); let d = render_status(&rs); for k in 0..=d.len() { chk_status_total(c, &d[..k]); } }
    const AL: &[u8] = &[0, 0, b' ', b' ', b'1', b'2', b'u', b'?', b'!', b'#', b'M', b'.', b'R', b'a', b'\n', 0xc3, 0xa9, 0xff, b'9'];
    for n in 0..=4usize { let mut idx = vec![0usize; n]; loop { let d: Vec<u8> = idx.iter().map(|&i| [0u8, b' ', b'1', b'2', b'?', b'M', 0xc3][i]).collect(); chk_status_total(c, &d);
        let mut k = 0; while k < n { idx[k] += 1; if idx[k] < 7 { break; } idx[k] = 0; k += 1; } if k == n { break; } } }
    for _ in 0..6000 { let n = g.below(40) as usize; let d: Vec<u8> = (0..n).map(|_| AL[g.below(AL.len() as u64) as usize]).collect(); chk_status_total(c, &d); }
    // garbage with many spaces after a tag, so that the field loops are reached
    for _ in 0..3000 { let mut d: Vec<u8> = vec![[b'1', b'2', b'u'][g.below(3) as usize]]; let n = g.below(14) as usize; for _ in 0..n { d.push(b' '); let m = g.below(3) as usize; for _ in 0..m { d.push(AL[4 + g.below(AL.len() as u64 - 4) as usize]); } } if g.below(2) == 0 { d.push(0); d.push(b'x'); } chk_status_total(c, &d); }
}

// ---------------------------------------------------------------- git diff --raw -z
#[derive(Clone, Debug)]
struct DRec { st: char, score: String, path: String, path2: String, m1: String, m2: String }
/// git-diff(1) RAW OUTPUT FORMAT with -z: `:<srcmode> <dstmode> <srcsha> <dstsha> <status>[<score>]\0<path>\0`, for R and C
/// `...\0<src path>\0<dst path>\0`
fn render_diff(rs: &[DRec]) -> Vec<u8> {
    let mut out: Vec<u8> = vec![];
    for r in rs {
        out.extend_from_slice(format!(":{} {} {} {} {}{}", r.m1, r.m2, "5716ca5987cbf97d6bb54920bea6adde242d87e6", "8f94139338f9404f26296befa88755fc2598c289", r.st, r.score).as_bytes()); out.push(0);
        out.extend_from_slice(r.path.as_bytes()); out.push(0);
        if r.st == 'R' || r.st == 'C' { out.extend_from_slice(r.path2.as_bytes()); out.push(0); }
    }
    out
}
fn enc_drecs(rs: &[DRec]) -> String { rs.iter().map(|r| format!("{}~{}~{}~{}~{}~{}", r.st, r.score, esc(&r.path), esc(&r.path2), r.m1, r.m2)).collect::<Vec<_>>().join("|") }
fn dec_drecs(s: &str) -> Vec<DRec> {
    s.split('|').filter(|x| !x.is_empty()).map(|x| { let q: Vec<&str> = x.split('~').collect();
        DRec { st: q[0].chars().next().unwrap(), score: q[1].to_string(), path: unesc(q[2]), path2: unesc(q[3]), m1: q[4].to_string(), m2: q[5].to_string() } }).collect()
}
fn chk_diff(c: &mut Ctx, rs: &[DRec]) {
    c.evaluated += 1;
    let data = render_diff(rs);
    let f = "parse_diff_raw";
    match guarded(|| parse_diff_raw(&data)) {
        Err(p) => c.fail(f, "safety", enc_drecs(rs), p, "no panic".into()),
        Ok(Err(e)) => c.fail(f, "ensures#0", enc_drecs(rs), format!("Err({:?})", e), "Ok: every record is in the documented format".into()),
        Ok(Ok(ds)) => {
            if ds.len() != rs.len() { c.fail(f, "ensures#0", enc_drecs(rs), format!("{} deltas", ds.len()), format!("{} deltas, one per record", rs.len())); return; }
            for (k, (d, r)) in ds.iter().zip(rs.iter()).enumerate() {
                let ws = match r.st { 'A' => "Added", 'D' => "Deleted", 'M' => "Modified", 'R' => "Renamed", 'C' => "Copied", 'T' => "TypeChange", 'U' => "Unmerged", _ => "Unknown" };
                let two = r.st == 'R' || r.st == 'C';
                let wsim: u32 = if r.score.is_empty() { 0 } else { r.score.parse().unwrap() };
                let mut bad = format!("{:?}", d.status) != ws || d.old_file.mode != r.m1 || d.new_file.mode != r.m2 || d.old_file.oid != "5716ca5987cbf97d6bb54920bea6adde242d87e6" || d.new_file.oid != "8f94139338f9404f26296befa88755fc2598c289" || d.similarity != wsim;
                let mut want = format!("record {}: status {} modes {} {} similarity {}", k, ws, r.m1, r.m2, wsim);
                if !two {
                    bad = bad || d.new_file.path.as_deref() != Some(Path::new(&r.path)) || d.old_file.path.as_deref() != Some(Path::new(&r.path));
                    want += &format!(" old and new path {:?} (verbatim)", r.path);
                }
                if bad { c.fail(f, "ensures#0", enc_drecs(rs), format!("record {}: {:?}", k, d), want); return; }
            }
        }
    }
}
/// the stated precondition of parse_diff_raw (REPORT.md observation 4): the status field of a five-field header does not start with a
/// multi-byte character
fn diff_pre(data: &[u8]) -> bool {
    data.split(|b| *b == 0).filter(|s| !s.is_empty()).all(|seg| match str::from_utf8(seg) {
        Ok(s) if s.starts_with(':') => match s[1..].split_whitespace().nth(4) { Some(st) => !(st.len() > 1 && !st.chars().next().unwrap().is_ascii()), None => true },
        _ => true })
}
fn chk_diff_total(c: &mut Ctx, data: &[u8]) {
    if !diff_pre(data) { return; }
    c.evaluated += 1;
    if let Err(p) = guarded(|| { let _ = parse_diff_raw(data); }) { c.fail("parse_diff_raw", "safety", format!("hex:{}", hex(data)), p, "no panic on any byte string (Ok or Err)".into()); }
}
fn rand_drec(g: &mut Rng) -> DRec {
    let st = ['A', 'M', 'D', 'T', 'M', 'M', 'R', 'C'][g.below(8) as usize];
    let score = if st == 'R' || st == 'C' { ["100", "95", "050", "7"][g.below(4) as usize].to_string() } else { String::new() };
    let (m1, m2) = match st { 'A' => ("000000", "100644"), 'D' => ("100644", "000000"), 'T' => ("100644", "120000"), _ => ("100644", "100755") };
    DRec { st, score, path: rand_path(g), path2: rand_path(g), m1: m1.into(), m2: m2.into() }
}
fn sweep_diff(c: &mut Ctx, g: &mut Rng) {
    chk_diff(c, &[]);
    let mut t: Vec<DRec> = vec![];
    for p in ["a b", "\"q\" \t\n", "caf\u{e9}", ":100644 100644 a b M", "R100", " x "] {
        for st in ['A', 'M', 'D', 'T'] { t.push(DRec { st, score: String::new(), path: p.into(), path2: String::new(), m1: "100644".into(), m2: "100644".into() }); }
        t.push(DRec { st: 'R', score: "100".into(), path: p.into(), path2: ":000000 100644 x y A".into(), m1: "100644".into(), m2: "100644".into() });
        t.push(DRec { st: 'C', score: "75".into(), path: "src".into(), path2: p.into(), m1: "100644".into(), m2: "100644".into() });
    }
    for a in &t { chk_diff(c, &[a.clone()]); for b in &t { chk_diff(c, &[a.clone(), b.clone()]); } }
    let small: Vec<DRec> = t.iter().filter(|r| r.path == "a b" || r.path2 == "a b" || r.path.starts_with(':')).cloned().collect();
    for a in &small { for b in &small { for d in &small { chk_diff(c, &[a.clone(), b.clone(), d.clone()]); } } }
    for _ in 0..4000 { let n = g.below(6) as usize; let rs: Vec<DRec> = (0..n).map(|_| rand_drec(g)).collect(); chk_diff(c, &rs); }
    for _ in 0..60 { let rs: Vec<DRec> = (0..3).map(|_| rand_drec(g)).collect(); let d = render_diff(&rs); for k in 0..=d.len() { chk_diff_total(c, &d[..k]); } }
    const AL: &[u8] = &[0, 0, b' ', b' ', b':', b':', b'R', b'C', b'M', b'9', b'a', b'\t', b'\n', 0xc3, 0xa9, 0xff];
    for n in 0..=4usize { let mut idx = vec![0usize; n]; loop { let d: Vec<u8> = idx.iter().map(|&i| [0u8, b' ', b':', b'R', b'a', 0xc3, 0xa9][i]).collect(); chk_diff_total(c, &d);
        let mut k = 0; while k < n { idx[k] += 1; if idx[k] < 7 { break; } idx[k] = 0; k += 1; } if k == n { break; } } }
    for _ in 0..6000 { let n = g.below(40) as usize; let d: Vec<u8> = (0..n).map(|_| AL[g.below(AL.len() as u64) as usize]).collect(); chk_diff_total(c, &d); }
    // garbage headers with about five fields, so that the status / score code is reached
    for _ in 0..4000 { let mut d: Vec<u8> = vec![b':']; let n = 3 + g.below(4) as usize; for k in 0..n { if k > 0 { d.push(b' '); } let m = 1 + g.below(3) as usize; for _ in 0..m { d.push(AL[6 + g.below(AL.len() as u64 - 6) as usize]); } }
        let tail = g.below(4); if tail > 0 { d.push(0); d.push(b'p'); } if tail > 1 { d.push(0); d.push(b'q'); } if tail > 2 { d.push(0); } chk_diff_total(c, &d); }
}

// ---------------------------------------------------------------- the argument vector of diff_tree_to_tree
/// n = None: no pathspecs; Some(n): the n pathspecs "dir k/file k.rs"
fn chk_args(c: &mut Ctx, old: &str, new: &str, n: Option<usize>) {
    c.evaluated += 1;
    let input = format!("{}~{}~{}", esc(old), esc(new), n.map(|k| k.to_string()).unwrap_or("-".into()));
    let set: Option<HashSet<String>> = n.map(|k| (0..k).map(|i| format!("dir {}/file {}.rs", i, i)).collect());
    let repo = Repository { _opaque: () };
    let f = "region_dt_args";
    match guarded(|| repo.region_dt_args(old.to_string(), new.to_string(), set.as_ref())) {
        Err(p) => c.fail(f, "safety", input, p, "no panic".into()),
        Ok((args, post)) => {
            let mut want: Vec<String> = ["-C", "/work tree", "diff", "--raw", "-z", "--no-abbrev", "--no-renames", old, new].iter().map(|s| s.to_string()).collect();
            let wpost = n.map(|k| k > 1000).unwrap_or(false);
            let fixed = want.len();
            let mut tail: Vec<String> = vec![];
            if let (Some(s), false) = (&set, wpost) { want.push("--".into()); tail = s.iter().cloned().collect(); tail.sort(); }
            let head_ok = args.len() >= want.len() && args[..want.len()] == want[..];
            let mut got_tail: Vec<String> = if head_ok { args[want.len()..].to_vec() } else { vec![] }; got_tail.sort();
            if post != wpost { c.fail(f, "ensures#0", input.clone(), format!("needs_post_filter {}", post), format!("{}", wpost)); }
            if !head_ok || got_tail != tail { c.fail(f, "ensures#1", input, format!("{:?}", &args[..args.len().min(fixed + 3)]), format!("{:?} then the pathspecs (any order)", want)); }
        }
    }
}
fn sweep_args(c: &mut Ctx) {
    for (o, n) in [("4b825dc642cb6eb9a060e54bf8d69288fbee4904", "0fdf397db08b5cecda1b6394d4fef7395c1933ba"), ("a", "b"), ("--", "-x y")] {
        for k in [None, Some(0), Some(1), Some(2), Some(7), Some(999), Some(1000), Some(1001), Some(1500)] { chk_args(c, o, n, k); }
    }
}

fn main() {
    std::panic::set_hook(Box::new(|_| {}));
    let a: Vec<String> = std::env::args().collect();
    let mut c = Ctx { evaluated: 0, failed: Default::default() };
    let want = |f: &str| a[2] == "*" || a[2] == f;
    if a[1] == "search" {
        let mut g = Rng(a[3].parse::<u64>().unwrap_or(0).wrapping_mul(0x9E3779B97F4A7C15) ^ 0x6a09e667f3bcc909);
        // StatusCode::from / DiffStatus::from_char are exercised through the parsers (every documented letter)
        if want("parse_porcelain_v2") || want("StatusCode::from") || want("from") { sweep_status(&mut c, &mut g); }
        if want("parse_diff_raw") || want("DiffStatus::from_char") || want("from_char") { sweep_diff(&mut c, &mut g); }
        if want("region_dt_args") { sweep_args(&mut c); }
    } else {
        let inp = a[3].as_str();
        match a[2].as_str() {
            "parse_porcelain_v2" | "StatusCode::from" | "from" => { if let Some(h) = inp.strip_prefix("hex:") { chk_status_total(&mut c, &unhex(h)); } else { chk_status(&mut c, &dec_srecs(inp)); } }
            "parse_diff_raw" | "DiffStatus::from_char" | "from_char" => { if let Some(h) = inp.strip_prefix("hex:") { chk_diff_total(&mut c, &unhex(h)); } else { chk_diff(&mut c, &dec_drecs(inp)); } }
            "region_dt_args" => { let q: Vec<&str> = inp.split('~').collect(); chk_args(&mut c, &unesc(q[0]), &unesc(q[1]), q[2].parse::<usize>().ok()); }
            _ => {}
        }
    }
    println!("DONE evaluated={}", c.evaluated);
}
