// Unit rawparse - property C12 (results do not depend on git configuration / invocation context), mechanism "NUL-separated
// machine formats for path lists": the parsers of `git status --porcelain=v2 -z` (parse_porcelain_v2) and of
// `git diff --raw -z` (parse_diff_raw).  A path is taken verbatim between NULs whatever it contains; the second path of a
// rename/copy record is consumed so that the record stream stays in step.  Specs are written from git's documentation
// (git-status(1) "Porcelain Format Version 2", git-diff(1) "RAW OUTPUT FORMAT"), see REPORT.md.
use vstd::prelude::*;
use vstd::utf8::*;
use vstd::std_specs::iter::IteratorSpec;
verus! {

/// stand-in for crate::error::GitAiError (only constructed, never inspected)
pub enum GitAiError { Generic(String) }

// ================================================================ shared: the -z framing and the std helpers (documented behaviour)
/// `data.split(|b| *b == 0).filter(|s| !s.is_empty())`: the maximal NUL-free runs of `data`, empty runs dropped, in order
pub open spec fn nz_acc(s: Seq<u8>, cur: Seq<u8>) -> Seq<Seq<u8>>
    decreases s.len()
{
    if s.len() == 0 { if cur.len() > 0 { seq![cur] } else { Seq::empty() } }
    else if s[0] == 0 { (if cur.len() > 0 { seq![cur] } else { Seq::<Seq<u8>>::empty() }) + nz_acc(s.skip(1), Seq::empty()) }
    else { nz_acc(s.skip(1), cur.push(s[0])) }
}
pub open spec fn nz_split(s: Seq<u8>) -> Seq<Seq<u8>> { nz_acc(s, Seq::empty()) }
/// `s.splitn(n, ' ')` (n >= 1): at most n pieces, cut at the first n-1 spaces, the LAST piece is the remainder verbatim
pub open spec fn splitn_acc(s: Seq<char>, n: int, cur: Seq<char>) -> Seq<Seq<char>>
    decreases s.len()
{
    if n <= 1 { seq![cur + s] }
    else if s.len() == 0 { seq![cur] }
    else if s[0] == ' ' { seq![cur] + splitn_acc(s.skip(1), n - 1, Seq::empty()) }
    else { splitn_acc(s.skip(1), n, cur.push(s[0])) }
}
pub open spec fn splitn_sp(s: Seq<char>, n: int) -> Seq<Seq<char>> { splitn_acc(s, n, Seq::empty()) }

/// stand-in for Peekable<Filter<Split<u8, _>, _>>: the segments and how many were taken
#[verifier::external_body]
pub struct Parts<'a> { _p: core::marker::PhantomData<&'a [u8]> }
pub uninterp spec fn p_segs(p: Parts) -> Seq<Seq<u8>>;
pub uninterp spec fn p_pos(p: Parts) -> int;
#[verifier::external_body]
fn opq_parts<'a>(data: &'a [u8]) -> (r: Parts<'a>)
    ensures p_segs(r) == nz_split(data@), p_pos(r) == 0,
{ unimplemented!() }
#[verifier::external_body]
fn opq_part<'a>(p: &mut Parts<'a>) -> (r: Option<&'a [u8]>)
    requires 0 <= p_pos(*old(p)) <= p_segs(*old(p)).len(),
    ensures p_segs(*final(p)) == p_segs(*old(p)),
        r is Some <==> p_pos(*old(p)) < p_segs(*old(p)).len(),
        r is Some ==> r->Some_0@ == p_segs(*old(p))[p_pos(*old(p))] && p_pos(*final(p)) == p_pos(*old(p)) + 1,
        r is None ==> p_pos(*final(p)) == p_pos(*old(p)),
{ unimplemented!() }
/// `parts.next().ok_or_else(|| GitAiError::Generic(..))`
#[verifier::external_body]
fn opq_part_or_err<'a>(p: &mut Parts<'a>) -> (r: Result<&'a [u8], GitAiError>)
    requires 0 <= p_pos(*old(p)) <= p_segs(*old(p)).len(),
    ensures p_segs(*final(p)) == p_segs(*old(p)),
        r is Ok <==> p_pos(*old(p)) < p_segs(*old(p)).len(),
        r is Ok ==> r->Ok_0@ == p_segs(*old(p))[p_pos(*old(p))] && p_pos(*final(p)) == p_pos(*old(p)) + 1,
        r is Err ==> p_pos(*final(p)) == p_pos(*old(p)),
{ unimplemented!() }
/// `str::from_utf8(b)` (+ the `?` conversion of Utf8Error into GitAiError)
#[verifier::external_body]
fn opq_utf8<'a>(b: &'a [u8]) -> (r: Result<&'a str, GitAiError>)
    ensures r is Ok <==> valid_utf8(b@), r is Ok ==> r->Ok_0@ == decode_utf8(b@),
{ unimplemented!() }
/// stand-in for std::str::Chars
#[verifier::external_body]
pub struct CharsIt<'a> { _p: core::marker::PhantomData<&'a str> }
pub uninterp spec fn c_rest(c: CharsIt) -> Seq<char>;
#[verifier::external_body]
fn opq_chars<'a>(s: &'a str) -> (r: CharsIt<'a>)
    ensures c_rest(r) == s@,
{ unimplemented!() }
/// `chars.next().ok_or_else(|| GitAiError::Generic(..))`
#[verifier::external_body]
fn opq_first_or_err<'a>(c: &mut CharsIt<'a>) -> (r: Result<char, GitAiError>)
    ensures r is Ok <==> c_rest(*old(c)).len() > 0, r is Ok ==> r->Ok_0 == c_rest(*old(c))[0] && c_rest(*final(c)) == c_rest(*old(c)).skip(1),
{ unimplemented!() }
/// stand-in for std::str::SplitN<char>: the pieces and how many were taken
#[verifier::external_body]
pub struct Fields<'a> { _p: core::marker::PhantomData<&'a str> }
pub uninterp spec fn f_toks(f: Fields) -> Seq<Seq<char>>;
pub uninterp spec fn f_pos(f: Fields) -> int;
#[verifier::external_body]
fn opq_splitn<'a>(s: &'a str, n: usize) -> (r: Fields<'a>)
    requires n >= 1,
    ensures f_toks(r) == splitn_sp(s@, n as int), f_pos(r) == 0,
{ unimplemented!() }
#[verifier::external_body]
fn opq_field<'a>(f: &mut Fields<'a>) -> (r: Option<&'a str>)
    requires f_pos(*old(f)) >= 0,
    ensures f_toks(*final(f)) == f_toks(*old(f)), f_pos(*final(f)) == f_pos(*old(f)) + 1,
        r is Some <==> f_pos(*old(f)) < f_toks(*old(f)).len(), r is Some ==> r->Some_0@ == f_toks(*old(f))[f_pos(*old(f))],
{ unimplemented!() }
/// `fields.next().ok_or_else(|| GitAiError::Generic(..))`
#[verifier::external_body]
fn opq_field_or_err<'a>(f: &mut Fields<'a>, which: u8) -> (r: Result<&'a str, GitAiError>)
    requires f_pos(*old(f)) >= 0,
    ensures f_toks(*final(f)) == f_toks(*old(f)), f_pos(*final(f)) == f_pos(*old(f)) + 1,
        r is Ok <==> f_pos(*old(f)) < f_toks(*old(f)).len(), r is Ok ==> r->Ok_0@ == f_toks(*old(f))[f_pos(*old(f))],
{ unimplemented!() }
/// `s.len()` of a str: its length in BYTES
#[verifier::external_body]
fn opq_byte_len(s: &str) -> (r: usize)
    ensures r == encode_utf8(s@).len(),
{ unimplemented!() }
/// `s.chars().next().unwrap()` / `s.chars().nth(1).unwrap()`: panics when the string has no such CHARACTER - the requires
#[verifier::external_body]
fn opq_char_at(s: &str, i: usize) -> (r: char)
    requires i < s@.len(),
    ensures r == s@[i as int],
{ unimplemented!() }
/// an error value built with format! (never inspected)
#[verifier::external_body]
fn opq_err(which: u8) -> (r: GitAiError)
{ unimplemented!() }
pub open spec fn strip_tag(s: Seq<char>, t: char) -> Seq<char> { if s.len() >= 2 && s[0] == t && s[1] == ' ' { s.skip(2) } else { s } }
/// `s.strip_prefix("<t> ").unwrap_or(s)`
#[verifier::external_body]
fn opq_strip_tag<'a>(s: &'a str, t: char) -> (r: &'a str)
    ensures r@ == strip_tag(s@, t),
{ unimplemented!() }

// ================================================================ git status --porcelain=v2 -z
//#item file=src/git/status.rs kind=enum name=StatusCode derive=PartialEq,Eq,Clone,Copy
pub enum StatusCode {
    Unmodified,
    Modified,
    Added,
    Deleted,
    Renamed,
    Copied,
    Unmerged,
    Untracked,
    Ignored,
    Unknown(char),
}
//#end
//#item file=src/git/status.rs kind=enum name=EntryKind derive=PartialEq,Eq,Clone,Copy
pub enum EntryKind {
    Ordinary,
    Rename,
    Copy,
    Unmerged,
    Untracked,
    Ignored,
}
//#end
//#item file=src/git/status.rs kind=struct name=StatusEntry
pub struct StatusEntry {
    pub path: String,
    pub staged: StatusCode,
    pub unstaged: StatusCode,
    pub kind: EntryKind,
    pub orig_path: Option<String>,
}
//#end
/// the XY letters of git-status(1): '.' unmodified, M A D R C, U unmerged, '?' untracked, '!' ignored; anything else (e.g. T,
/// type change, for which the enum has no variant) is kept as Unknown(letter)
pub open spec fn code_of(c: char) -> StatusCode {
    if c == '.' { StatusCode::Unmodified } else if c == 'M' { StatusCode::Modified } else if c == 'A' { StatusCode::Added }
    else if c == 'D' { StatusCode::Deleted } else if c == 'R' { StatusCode::Renamed } else if c == 'C' { StatusCode::Copied }
    else if c == 'U' { StatusCode::Unmerged } else if c == '?' { StatusCode::Untracked } else if c == '!' { StatusCode::Ignored }
    else { StatusCode::Unknown(c) }
}
impl vstd::std_specs::convert::FromSpecImpl<char> for StatusCode {
    open spec fn obeys_from_spec() -> bool { true }
    open spec fn from_spec(v: char) -> StatusCode { code_of(v) }
}
impl From<char> for StatusCode {
//#item file=src/git/status.rs kind=fn name=from impl="From<char> for StatusCode"
    fn from(value: char) -> (r_: Self)
    //@     ensures r_ == code_of(value),
    {
        match value {
            '.' => StatusCode::Unmodified,
            'M' => StatusCode::Modified,
            'A' => StatusCode::Added,
            'D' => StatusCode::Deleted,
            'R' => StatusCode::Renamed,
            'C' => StatusCode::Copied,
            'U' => StatusCode::Unmerged,
            '?' => StatusCode::Untracked,
            '!' => StatusCode::Ignored,
            other => StatusCode::Unknown(other),
        }
    }
//#end
}

// ---------------------------------------------------------------- the record fold (git-status(1), "Porcelain Format Version 2", with -z)
//   1 <XY> <sub> <mH> <mI> <mW> <hH> <hI> <path>                          9 space-separated fields, the path is the REMAINDER
//   2 <XY> <sub> <mH> <mI> <mW> <hH> <hI> <X><score> <path> NUL <origPath> 10 fields, then the original path as its own segment
//   u <XY> <sub> <m1> <m2> <m3> <mW> <h1> <h2> <h3> <path>                11 fields (path of a `u` record: NOT specified here, see REPORT.md)
//   ? <path>        ! <path>
// "pathnames ... with -z are printed verbatim, without quoting and without backslash escapes"
pub struct SEntry { pub tag: char, pub path: Seq<char>, pub staged: StatusCode, pub unstaged: StatusCode, pub kind: EntryKind, pub orig: Option<Seq<char>> }
pub open spec fn xy_entry(tag: char, f: Seq<Seq<char>>, path_at: int, orig: Option<Seq<char>>) -> SEntry {
    let x = code_of(f[1][0]); let y = code_of(f[1][1]);
    SEntry { tag, path: f[path_at], staged: x, unstaged: y, orig,
        kind: if tag == '2' { if x == StatusCode::Renamed { EntryKind::Rename } else if x == StatusCode::Copied { EntryKind::Copy } else { EntryKind::Ordinary } }
              else if tag == 'u' || x == StatusCode::Unmerged || y == StatusCode::Unmerged { EntryKind::Unmerged } else { EntryKind::Ordinary } }
}
/// the record that starts at segment i: the entry and whether it occupies two segments; None = the stream is rejected
pub open spec fn rec_at(segs: Seq<Seq<u8>>, i: int) -> Option<(SEntry, bool)> {
    if !valid_utf8(segs[i]) { None } else {
    let rec = decode_utf8(segs[i]);
    if rec.len() == 0 { None } else {
    let tag = rec[0];
    if tag == '1' || tag == 'u' {
        let f = splitn_sp(rec, 9);
        if f.len() < 9 || encode_utf8(f[1]).len() != 2 { None } else { Some((xy_entry(tag, f, 8, None), false)) }
    } else if tag == '2' {
        let f = splitn_sp(rec, 10);
        if f.len() < 10 || encode_utf8(f[1]).len() != 2 || i + 1 >= segs.len() || !valid_utf8(segs[i + 1]) { None }
        else { Some((xy_entry(tag, f, 9, Some(decode_utf8(segs[i + 1]))), true)) }
    } else if tag == '?' {
        Some((SEntry { tag, path: strip_tag(rec, '?'), staged: StatusCode::Unmodified, unstaged: StatusCode::Untracked, kind: EntryKind::Untracked, orig: None }, false))
    } else if tag == '!' {
        Some((SEntry { tag, path: strip_tag(rec, '!'), staged: StatusCode::Unmodified, unstaged: StatusCode::Ignored, kind: EntryKind::Ignored, orig: None }, false))
    } else { None } } }
}
pub open spec fn cons_opt(e: SEntry, o: Option<Seq<SEntry>>) -> Option<Seq<SEntry>> { match o { Some(v) => Some(seq![e] + v), None => None } }
pub open spec fn prepend(acc: Seq<SEntry>, o: Option<Seq<SEntry>>) -> Option<Seq<SEntry>> { match o { Some(v) => Some(acc + v), None => None } }
pub open spec fn parse_from(segs: Seq<Seq<u8>>, i: int) -> Option<Seq<SEntry>>
    decreases segs.len() - i
{
    if i >= segs.len() || i < 0 { Some(Seq::empty()) }
    else { match rec_at(segs, i) { None => None, Some((e, two)) => cons_opt(e, parse_from(segs, if two { i + 2 } else { i + 1 })) } }
}
pub open spec fn opt_str(o: Option<String>) -> Option<Seq<char>> { match o { Some(s) => Some(s@), None => None } }
/// the entry the code built is the entry of the fold (path and kind of a `u` record are left open)
pub open spec fn ent_is(e: StatusEntry, s: SEntry) -> bool {
    e.staged == s.staged && e.unstaged == s.unstaged && opt_str(e.orig_path) == s.orig && (s.tag != 'u' ==> e.path@ == s.path && e.kind == s.kind)
}
pub open spec fn ents_match(es: Seq<StatusEntry>, ss: Seq<SEntry>) -> bool { es.len() == ss.len() && forall|i: int| 0 <= i < es.len() ==> ent_is(#[trigger] es[i], ss[i]) }
/// ASSUMED of the input (see REPORT.md, observation 3): the XY field of a 1/2/u record is never a single two-byte character
pub open spec fn xy_two(f: Seq<Seq<char>>) -> bool { f.len() >= 2 && encode_utf8(f[1]).len() == 2 ==> f[1].len() == 2 }
pub open spec fn xy_seg(seg: Seq<u8>) -> bool {
    valid_utf8(seg) && decode_utf8(seg).len() > 0 ==> {
        let rec = decode_utf8(seg);
        &&& (rec[0] == '1' || rec[0] == 'u') ==> xy_two(splitn_sp(rec, 9))
        &&& rec[0] == '2' ==> xy_two(splitn_sp(rec, 10)) }
}
pub open spec fn xy_chars(segs: Seq<Seq<u8>>) -> bool { forall|i: int| 0 <= i < segs.len() ==> xy_seg(#[trigger] segs[i]) }
proof fn lemma_prepend_push(acc: Seq<SEntry>, e: SEntry, o: Option<Seq<SEntry>>)
    ensures prepend(acc, cons_opt(e, o)) == prepend(acc.push(e), o),
{
    if let Some(v) = o { assert(acc + (seq![e] + v) =~= acc.push(e) + v); }
}
proof fn lemma_match_push(es: Seq<StatusEntry>, ss: Seq<SEntry>, e: StatusEntry, s: SEntry)
    requires ents_match(es, ss), ent_is(e, s),
    ensures ents_match(es.push(e), ss.push(s)),
{
    let es2 = es.push(e); let ss2 = ss.push(s);
    assert forall|i: int| 0 <= i < es2.len() implies ent_is(#[trigger] es2[i], ss2[i]) by { if i < es.len() { assert(es2[i] == es[i] && ss2[i] == ss[i]); } }
}
/// the loop's step: one record consumed
proof fn lemma_step(segs: Seq<Seq<u8>>, acc: Seq<SEntry>, i: int)
    requires 0 <= i < segs.len(), rec_at(segs, i) is Some,
    ensures prepend(acc, parse_from(segs, i)) == prepend(acc.push(rec_at(segs, i)->Some_0.0), parse_from(segs, if rec_at(segs, i)->Some_0.1 { i + 2 } else { i + 1 })),
{
    let (e, two) = rec_at(segs, i)->Some_0;
    lemma_prepend_push(acc, e, parse_from(segs, if two { i + 2 } else { i + 1 }));
}

//#item file=src/git/status.rs kind=fn name=parse_porcelain_v2 opaque='[{"expr": "data.split(|byte| *byte == 0).filter(|slice| !slice.is_empty()).peekable()", "call": "opq_parts(data)"}, {"expr": "parts.next().ok_or_else(|| { GitAiError::Generic(\"Missing original path for rename/copy\".into()) })", "call": "opq_part_or_err(&mut parts)"}, {"expr": "parts.next()", "call": "opq_part(&mut parts)"}, {"expr": "str::from_utf8(raw)", "call": "opq_utf8(raw)"}, {"expr": "str::from_utf8(orig_path_bytes)", "call": "opq_utf8(orig_path_bytes)"}, {"expr": "record.chars()", "call": "opq_chars(record)"}, {"expr": "chars.next().ok_or_else(|| GitAiError::Generic(\"Unexpected empty porcelain v2 record\".into()))", "call": "opq_first_or_err(&mut chars)"}, {"expr": "record.splitn(9, \u0027 \u0027)", "call": "opq_splitn(record, 9)"}, {"expr": "record.splitn(10, \u0027 \u0027)", "call": "opq_splitn(record, 10)"}, {"expr": "fields.next().ok_or_else(|| GitAiError::Generic(\"Missing XY field\".into()))", "call": "opq_field_or_err(&mut fields, 1)"}, {"expr": "fields.next().ok_or_else(|| GitAiError::Generic(\"Missing path field\".into()))", "call": "opq_field_or_err(&mut fields, 2)"}, {"expr": "fields.next()", "call": "opq_field(&mut fields)"}, {"expr": "xy.len()", "call": "opq_byte_len(xy)"}, {"expr": "xy.chars().next().unwrap()", "call": "opq_char_at(xy, 0)"}, {"expr": "xy.chars().nth(1).unwrap()", "call": "opq_char_at(xy, 1)"}, {"expr": "GitAiError::Generic(format!(\"Unexpected XY field length: {}\", xy))", "call": "opq_err(1)"}, {"expr": "GitAiError::Generic(format!(\"Unsupported porcelain v2 record tag: {}\", other))", "call": "opq_err(2)"}, {"expr": "record.strip_prefix(\"? \").unwrap_or(record)", "call": "opq_strip_tag(record, \u0027?\u0027)"}, {"expr": "record.strip_prefix(\"! \").unwrap_or(record)", "call": "opq_strip_tag(record, \u0027!\u0027)"}]'
fn parse_porcelain_v2(data: &[u8]) -> (r_: Result<Vec<StatusEntry>, GitAiError>)
//@     requires xy_chars(nz_split(data@)),
//@     ensures
//@         // the result is the record fold over the NUL-separated segments: Ok with exactly the fold's entries, in order, or Err
//@         // exactly when the fold rejects the stream
//@         match parse_from(nz_split(data@), 0) { Some(v) => r_ is Ok && ents_match(r_->Ok_0@, v), None => r_ is Err },
{
    let mut entries = Vec::new();
    let mut parts = opq_parts(data);
//@ let ghost segs = nz_split(data@);
//@ let ghost mut acc: Seq<SEntry> = Seq::empty();

    while let Some(raw) = opq_part(&mut parts)
//@     invariant
//@         segs == nz_split(data@), xy_chars(segs), p_segs(parts) == segs, 0 <= p_pos(parts) <= segs.len(),
//@         ents_match(entries@, acc),
//@         parse_from(segs, 0) == prepend(acc, parse_from(segs, p_pos(parts))),
//@     ensures p_pos(parts) == segs.len(),
//@     decreases segs.len() - p_pos(parts),
    {
//@ let ghost i = p_pos(parts) - 1;
//@ let ghost e0 = entries@;
//@ proof { assert(raw@ == segs[i]); assert(xy_seg(segs[i])); }
        let record = opq_utf8(raw)?;
        let mut chars = opq_chars(record);
        let tag = opq_first_or_err(&mut chars)?;

        match tag {
            '1' | 'u' => {
                let mut fields = opq_splitn(record, 9);
//@ let ghost f = splitn_sp(record@, 9);
                let _ = opq_field(&mut fields); // tag
                let xy = opq_field_or_err(&mut fields, 1)?;
                if opq_byte_len(xy) != 2 {
                    return Err(opq_err(1));
                }
                let staged = StatusCode::from(opq_char_at(xy, 0));
                let unstaged = StatusCode::from(opq_char_at(xy, 1));

                // skip submodule/metadata fields to capture path
                for _ in it_1: 0..6
//@     invariant f_toks(fields) == f, f_pos(fields) == 2 + it_1.index@,
                {
                    opq_field(&mut fields);
                }

                let path = opq_field_or_err(&mut fields, 2)?
                    .to_string();

                entries.push(StatusEntry {
                    path,
                    staged,
                    unstaged,
                    kind: if matches!(staged, StatusCode::Unmerged)
                        || matches!(unstaged, StatusCode::Unmerged)
                    {
                        EntryKind::Unmerged
                    } else {
                        EntryKind::Ordinary
                    },
                    orig_path: None,
                });
//@ proof {
//@     let s = rec_at(segs, i)->Some_0.0;
//@     assert(s == xy_entry(tag, f, 8, None));
//@     lemma_match_push(e0, acc, entries@[e0.len() as int], s); lemma_step(segs, acc, i); acc = acc.push(s);
//@ }
            }
            '2' => {
                let mut fields = opq_splitn(record, 10);
//@ let ghost f = splitn_sp(record@, 10);
                let _ = opq_field(&mut fields); // tag
                let xy = opq_field_or_err(&mut fields, 1)?;
                if opq_byte_len(xy) != 2 {
                    return Err(opq_err(1));
                }
                let staged = StatusCode::from(opq_char_at(xy, 0));
                let unstaged = StatusCode::from(opq_char_at(xy, 1));

                // skip submodule/metadata fields
                for _ in it_2: 0..7
//@     invariant f_toks(fields) == f, f_pos(fields) == 2 + it_2.index@,
                {
                    opq_field(&mut fields);
                }

                let path = opq_field_or_err(&mut fields, 2)?
                    .to_string();

                let orig_path_bytes = opq_part_or_err(&mut parts)?;
                let orig_path = opq_utf8(orig_path_bytes)?.to_string();

                let kind = match staged {
                    StatusCode::Renamed => EntryKind::Rename,
                    StatusCode::Copied => EntryKind::Copy,
                    _ => EntryKind::Ordinary,
                };

                entries.push(StatusEntry {
                    path,
                    staged,
                    unstaged,
                    kind,
                    orig_path: Some(orig_path),
                });
//@ proof {
//@     let s = rec_at(segs, i)->Some_0.0;
//@     assert(s == xy_entry(tag, f, 9, Some(decode_utf8(segs[i + 1]))));
//@     lemma_match_push(e0, acc, entries@[e0.len() as int], s); lemma_step(segs, acc, i); acc = acc.push(s);
//@ }
            }
            '?' => {
                let path = opq_strip_tag(record, '?').to_string();

                entries.push(StatusEntry {
                    path,
                    staged: StatusCode::Unmodified,
                    unstaged: StatusCode::Untracked,
                    kind: EntryKind::Untracked,
                    orig_path: None,
                });
//@ proof {
//@     let s = rec_at(segs, i)->Some_0.0;
//@     lemma_match_push(e0, acc, entries@[e0.len() as int], s); lemma_step(segs, acc, i); acc = acc.push(s);
//@ }
            }
            '!' => {
                let path = opq_strip_tag(record, '!').to_string();

                entries.push(StatusEntry {
                    path,
                    staged: StatusCode::Unmodified,
                    unstaged: StatusCode::Ignored,
                    kind: EntryKind::Ignored,
                    orig_path: None,
                });
//@ proof {
//@     let s = rec_at(segs, i)->Some_0.0;
//@     lemma_match_push(e0, acc, entries@[e0.len() as int], s); lemma_step(segs, acc, i); acc = acc.push(s);
//@ }
            }
            other => {
                return Err(opq_err(2));
            }
        }
    }

//@ proof { assert(acc + Seq::<SEntry>::empty() =~= acc); }
    Ok(entries)
}
//#end

// ---------------------------------------------------------------- what the fold means on git's output (status)
/// a documented record: tag 1 / 2 / ? / !, the XY letters, the space-free middle fields (sub mH mI mW hH hI [Xscore]) and the
/// path(s) - ARBITRARY character strings (spaces, quotes, tabs, newlines, non-ASCII ...)
pub struct SRec { pub tag: char, pub x: char, pub y: char, pub mid: Seq<Seq<char>>, pub path: Seq<char>, pub orig: Seq<char> }
pub open spec fn no_space(s: Seq<char>) -> bool { forall|i: int| 0 <= i < s.len() ==> s[i] != ' ' }
pub open spec fn all_no_space(fs: Seq<Seq<char>>) -> bool { forall|i: int| 0 <= i < fs.len() ==> no_space(#[trigger] fs[i]) }
pub open spec fn join_sp(fields: Seq<Seq<char>>, last: Seq<char>) -> Seq<char>
    decreases fields.len()
{
    if fields.len() == 0 { last } else { fields[0] + seq![' '] + join_sp(fields.skip(1), last) }
}
pub open spec fn srec_fields(r: SRec) -> Seq<Seq<char>> { seq![seq![r.tag], seq![r.x, r.y]] + r.mid }
pub open spec fn line_of(r: SRec) -> Seq<char> { if r.tag == '?' || r.tag == '!' { seq![r.tag, ' '] + r.path } else { join_sp(srec_fields(r), r.path) } }
pub open spec fn xy_letter(c: char) -> bool { c == '.' || c == 'M' || c == 'T' || c == 'A' || c == 'D' || c == 'R' || c == 'C' }
pub open spec fn srec_wf(r: SRec) -> bool {
    &&& r.tag == '1' || r.tag == '2' || r.tag == '?' || r.tag == '!'
    &&& r.tag == '1' ==> r.mid.len() == 6 && xy_letter(r.x) && xy_letter(r.y) && all_no_space(r.mid)
    &&& r.tag == '2' ==> r.mid.len() == 7 && xy_letter(r.x) && xy_letter(r.y) && all_no_space(r.mid)
}
/// the texts of the segments git prints for the records k.. : one per record, two for a rename/copy record
pub open spec fn lines_from(recs: Seq<SRec>, k: int) -> Seq<Seq<char>>
    decreases recs.len() - k
{
    if k >= recs.len() || k < 0 { Seq::empty() }
    else if recs[k].tag == '2' { seq![line_of(recs[k]), recs[k].orig] + lines_from(recs, k + 1) }
    else { seq![line_of(recs[k])] + lines_from(recs, k + 1) }
}
pub open spec fn ent_of(r: SRec) -> SEntry {
    SEntry { tag: r.tag, path: r.path,
        staged: if r.tag == '?' || r.tag == '!' { StatusCode::Unmodified } else { code_of(r.x) },
        unstaged: if r.tag == '?' { StatusCode::Untracked } else if r.tag == '!' { StatusCode::Ignored } else { code_of(r.y) },
        kind: if r.tag == '?' { EntryKind::Untracked } else if r.tag == '!' { EntryKind::Ignored }
              else if r.tag == '2' && r.x == 'R' { EntryKind::Rename } else if r.tag == '2' && r.x == 'C' { EntryKind::Copy } else { EntryKind::Ordinary },
        orig: if r.tag == '2' { Some(r.orig) } else { None } }
}
pub open spec fn ents_from(recs: Seq<SRec>, k: int) -> Seq<SEntry>
    decreases recs.len() - k
{
    if k >= recs.len() || k < 0 { Seq::empty() } else { seq![ent_of(recs[k])] + ents_from(recs, k + 1) }
}
pub open spec fn nul_free(s: Seq<u8>) -> bool { forall|i: int| 0 <= i < s.len() ==> s[i] != 0 }
/// the byte stream: every segment followed by a NUL
pub open spec fn flat_from(segs: Seq<Seq<u8>>, k: int) -> Seq<u8>
    decreases segs.len() - k
{
    if k >= segs.len() || k < 0 { Seq::empty() } else { segs[k] + seq![0u8] + flat_from(segs, k + 1) }
}
/// segment j is some valid, non-empty, NUL-free UTF-8 byte string whose text is the j-th line
pub open spec fn seg_says(seg: Seq<u8>, text: Seq<char>) -> bool { seg.len() > 0 && nul_free(seg) && valid_utf8(seg) && decode_utf8(seg) == text }

proof fn lemma_nz_seg(x: Seq<u8>, rest: Seq<u8>, cur: Seq<u8>)
    requires nul_free(x),
    ensures nz_acc(x + seq![0u8] + rest, cur) == (if (cur + x).len() > 0 { seq![cur + x] } else { Seq::<Seq<u8>>::empty() }) + nz_acc(rest, Seq::empty()),
    decreases x.len()
{
    let s = x + seq![0u8] + rest;
    if x.len() == 0 {
        assert(s.skip(1) =~= rest); assert(cur + x =~= cur);
    } else {
        assert(s[0] == x[0]);
        assert(s.skip(1) =~= x.skip(1) + seq![0u8] + rest);
        lemma_nz_seg(x.skip(1), rest, cur.push(x[0]));
        assert(cur.push(x[0]) + x.skip(1) =~= cur + x);
    }
}
/// -z framing: splitting the stream at the NULs gives back exactly the segments, whatever other bytes they contain
proof fn lemma_nz_flat(segs: Seq<Seq<u8>>, k: int)
    requires 0 <= k <= segs.len(), forall|j: int| 0 <= j < segs.len() ==> (#[trigger] segs[j]).len() > 0 && nul_free(segs[j]),
    ensures nz_split(flat_from(segs, k)) =~= segs.skip(k),
    decreases segs.len() - k
{
    if k < segs.len() {
        lemma_nz_flat(segs, k + 1);
        lemma_nz_seg(segs[k], flat_from(segs, k + 1), Seq::empty());
        assert(Seq::<u8>::empty() + segs[k] =~= segs[k]);
        assert(seq![segs[k]] + segs.skip(k + 1) =~= segs.skip(k));
    }
}
proof fn lemma_splitn_field(x: Seq<char>, rest: Seq<char>, n: int, cur: Seq<char>)
    requires n >= 2, no_space(x),
    ensures splitn_acc(x + seq![' '] + rest, n, cur) == seq![cur + x] + splitn_acc(rest, n - 1, Seq::empty()),
    decreases x.len()
{
    let s = x + seq![' '] + rest;
    if x.len() == 0 {
        assert(s.skip(1) =~= rest); assert(cur + x =~= cur);
    } else {
        assert(s[0] == x[0]);
        assert(s.skip(1) =~= x.skip(1) + seq![' '] + rest);
        lemma_splitn_field(x.skip(1), rest, n, cur.push(x[0]));
        assert(cur.push(x[0]) + x.skip(1) =~= cur + x);
    }
}
/// a fixed field count keeps the path whole: splitting `f1 f2 .. fk <path>` into k+1 pieces gives the k fields and the path
/// VERBATIM, whatever the path contains (spaces included)
proof fn lemma_splitn_join(fields: Seq<Seq<char>>, last: Seq<char>)
    requires all_no_space(fields),
    ensures splitn_sp(join_sp(fields, last), fields.len() as int + 1) =~= fields.push(last),
    decreases fields.len()
{
    if fields.len() == 0 {
        assert(Seq::<char>::empty() + last =~= last);
    } else {
        let t = fields.skip(1);
        assert(all_no_space(t)) by { assert forall|i: int| 0 <= i < t.len() implies no_space(#[trigger] t[i]) by { assert(t[i] == fields[i + 1]); } }
        lemma_splitn_join(t, last);
        assert(no_space(fields[0]));
        lemma_splitn_field(fields[0], join_sp(t, last), fields.len() as int + 1, Seq::empty());
        assert(Seq::<char>::empty() + fields[0] =~= fields[0]);
        assert(seq![fields[0]] + t.push(last) =~= fields.push(last));
    }
}
/// one documented record is read back as itself
proof fn lemma_rec_at(segs: Seq<Seq<u8>>, i: int, r: SRec)
    requires srec_wf(r), 0 <= i < segs.len(), seg_says(segs[i], line_of(r)),
        r.tag == '2' ==> i + 1 < segs.len() && seg_says(segs[i + 1], r.orig),
    ensures rec_at(segs, i) == Some((ent_of(r), r.tag == '2')),
{
    let rec = decode_utf8(segs[i]);
    if r.tag == '?' || r.tag == '!' {
        assert(rec[0] == r.tag && rec[1] == ' ' && rec.len() >= 2);
        assert(strip_tag(rec, r.tag) =~= r.path);
    } else {
        let fs = srec_fields(r);
        assert(all_no_space(fs)) by {
            assert forall|j: int| 0 <= j < fs.len() implies no_space(#[trigger] fs[j]) by { if j >= 2 { assert(fs[j] == r.mid[j - 2]); } }
        }
        lemma_splitn_join(fs, r.path);
        let f = splitn_sp(rec, fs.len() as int + 1);
        assert(f[1] == seq![r.x, r.y]);
        is_ascii_chars_encode_utf8(seq![r.x, r.y]);
        assert(fs[0] == seq![r.tag]);
        assert(rec =~= fs[0] + seq![' '] + join_sp(fs.skip(1), r.path));
        assert(rec[0] == r.tag);
    }
}
proof fn lemma_parse_records(segs: Seq<Seq<u8>>, recs: Seq<SRec>, k: int, i: int)
    requires 0 <= k <= recs.len(), 0 <= i, segs.len() == i + lines_from(recs, k).len(),
        forall|j: int| 0 <= j < recs.len() ==> srec_wf(#[trigger] recs[j]),
        forall|j: int| 0 <= j < lines_from(recs, k).len() ==> seg_says(#[trigger] segs[i + j], lines_from(recs, k)[j]),
    ensures parse_from(segs, i) == Some(ents_from(recs, k)),
    decreases recs.len() - k
{
    if k < recs.len() {
        let r = recs[k]; let w: int = if r.tag == '2' { 2 } else { 1 };
        let ls = lines_from(recs, k); let ls2 = lines_from(recs, k + 1);
        assert(srec_wf(r));
        assert(ls.len() == w + ls2.len());
        assert(seg_says(segs[i + 0], ls[0])); assert(ls[0] == line_of(r));
        if r.tag == '2' { assert(seg_says(segs[i + 1], ls[1])); assert(ls[1] == r.orig); }
        lemma_rec_at(segs, i, r);
        assert forall|j: int| 0 <= j < ls2.len() implies seg_says(#[trigger] segs[i + w + j], ls2[j]) by { assert(seg_says(segs[i + (w + j)], ls[w + j])); assert(ls[w + j] == ls2[j]); }
        lemma_parse_records(segs, recs, k + 1, i + w);
    }
}
/// THEOREM (status): for every list of documented records (tags 1, 2, ?, !) printed with -z - each segment any valid NUL-free
/// UTF-8 byte string - the fold yields exactly those records, in order, with the paths verbatim and the original path of a
/// rename/copy record consumed (never read as a record of its own).  parse_porcelain_v2's postcondition makes it the fold.
proof fn theorem_status_round_trip(segs: Seq<Seq<u8>>, recs: Seq<SRec>)
    requires forall|j: int| 0 <= j < recs.len() ==> srec_wf(#[trigger] recs[j]),
        segs.len() == lines_from(recs, 0).len(),
        forall|j: int| 0 <= j < segs.len() ==> seg_says(#[trigger] segs[j], lines_from(recs, 0)[j]),
    ensures parse_from(nz_split(flat_from(segs, 0)), 0) == Some(ents_from(recs, 0)),
        ents_from(recs, 0).len() == recs.len(),
        forall|k: int| 0 <= k < recs.len() ==> (#[trigger] ents_from(recs, 0)[k]).path == recs[k].path && (recs[k].tag == '2' ==> ents_from(recs, 0)[k].orig == Some(recs[k].orig)),
{
    lemma_nz_flat(segs, 0);
    assert(segs.skip(0) =~= segs);
    assert forall|j: int| 0 <= j < lines_from(recs, 0).len() implies seg_says(#[trigger] segs[0 + j], lines_from(recs, 0)[j]) by { }
    lemma_parse_records(segs, recs, 0, 0);
    lemma_ents_index(recs, 0);
}
proof fn lemma_ents_index(recs: Seq<SRec>, k: int)
    requires 0 <= k <= recs.len(),
    ensures ents_from(recs, k).len() == recs.len() - k, forall|j: int| 0 <= j < recs.len() - k ==> (#[trigger] ents_from(recs, k)[j]) == ent_of(recs[k + j]),
    decreases recs.len() - k
{
    if k < recs.len() { lemma_ents_index(recs, k + 1); assert forall|j: int| 0 <= j < recs.len() - k implies (#[trigger] ents_from(recs, k)[j]) == ent_of(recs[k + j]) by { if j > 0 { assert(ents_from(recs, k)[j] == ents_from(recs, k + 1)[j - 1]); } } }
}

// ================================================================ git diff --raw -z
// git-diff(1), RAW OUTPUT FORMAT with -z:   :<srcmode> <dstmode> <srcsha> <dstsha> <status>[<score>] NUL <path> NUL
// and for status R / C two paths follow:    ... R<score> NUL <src path> NUL <dst path> NUL        (paths verbatim, never quoted)
/// stand-in for std::path::PathBuf: the string it was built from
#[verifier::external_body]
pub struct PathBuf { _o: () }
pub uninterp spec fn pb_str(p: PathBuf) -> Seq<char>;
#[verifier::external_body]
fn opq_pathbuf(s: String) -> (r: PathBuf)
    ensures pb_str(r) == s@,
{ unimplemented!() }
/// `old_path.or_else(|| Some(new_path.clone())).map(PathBuf::from)` (both branches of the closure's `if` are the same expression)
#[verifier::external_body]
fn opq_path_or(old_path: Option<String>, new_path: &String) -> (r: Option<PathBuf>)
    ensures r is Some, pb_str(r->Some_0) == (match old_path { Some(s) => s@, None => new_path@ }),
{ unimplemented!() }
#[verifier::external_body]
fn opq_starts_colon(s: &str) -> (r: bool)
    ensures r == (s@.len() > 0 && s@[0] == ':'),
{ unimplemented!() }
/// char::is_whitespace: the ASCII ones by name (U+0009..U+000D, U+0020); the other Unicode White_Space characters (all >= U+0085)
/// uninterpreted
pub uninterp spec fn other_ws(c: char) -> bool;
pub open spec fn is_ws(c: char) -> bool { c == ' ' || c == '\t' || c == '\n' || c == '\r' || c == '\x0b' || c == '\x0c' || ((c as u32) >= 128 && other_ws(c)) }
/// `s.split_whitespace()`: the maximal whitespace-free runs, in order
pub open spec fn ws_acc(s: Seq<char>, cur: Seq<char>) -> Seq<Seq<char>>
    decreases s.len()
{
    if s.len() == 0 { if cur.len() > 0 { seq![cur] } else { Seq::empty() } }
    else if is_ws(s[0]) { (if cur.len() > 0 { seq![cur] } else { Seq::<Seq<char>>::empty() }) + ws_acc(s.skip(1), Seq::empty()) }
    else { ws_acc(s.skip(1), cur.push(s[0])) }
}
pub open spec fn ws_split(s: Seq<char>) -> Seq<Seq<char>> { ws_acc(s, Seq::empty()) }
/// `metadata[1..].split_whitespace()`: byte index 1 must be a char boundary - true when the first character is ':' (the requires)
#[verifier::external_body]
fn opq_ws_fields<'a>(s: &'a str) -> (r: Fields<'a>)
    requires s@.len() > 0 && s@[0] == ':',
    ensures f_toks(r) == ws_split(s@.skip(1)), f_pos(r) == 0,
{ unimplemented!() }
pub open spec fn first_or(s: Seq<char>, d: char) -> char { if s.len() > 0 { s[0] } else { d } }
#[verifier::external_body]
fn opq_first_or(s: &str, d: char) -> (r: char)
    ensures r == first_or(s@, d),
{ unimplemented!() }
/// `t.parse::<u32>().unwrap_or(0)`: uninterpreted
pub uninterp spec fn num_or0(t: Seq<char>) -> u32;
/// `s[1..].parse::<u32>().unwrap_or(0)`: byte index 1 must be a char boundary - the requires (first character is one byte long)
#[verifier::external_body]
fn opq_score(s: &str) -> (r: u32)
    requires s@.len() > 0 && (s@[0] as u32) < 128,
    ensures r == num_or0(s@.skip(1)),
{ unimplemented!() }

//#item file=src/git/diff_tree_to_tree.rs kind=enum name=DiffStatus derive=PartialEq,Eq,Clone,Copy
pub enum DiffStatus {
    Added,
    Deleted,
    Modified,
    Renamed,
    Copied,
    TypeChange,
    Unmerged,
    Unknown,
}
//#end
//#item file=src/git/diff_tree_to_tree.rs kind=struct name=DiffFile
pub struct DiffFile {
    path: Option<PathBuf>,
    mode: String,
    oid: String,
}
//#end
//#item file=src/git/diff_tree_to_tree.rs kind=struct name=DiffDelta
pub struct DiffDelta {
    status: DiffStatus,
    old_file: DiffFile,
    new_file: DiffFile,
    similarity: u32,
}
//#end
/// the status letters of git-diff(1): A D M R C T U; X ("unknown") and anything else is Unknown
pub open spec fn dstat_of(c: char) -> DiffStatus {
    if c == 'A' { DiffStatus::Added } else if c == 'D' { DiffStatus::Deleted } else if c == 'M' { DiffStatus::Modified } else if c == 'R' { DiffStatus::Renamed }
    else if c == 'C' { DiffStatus::Copied } else if c == 'T' { DiffStatus::TypeChange } else if c == 'U' { DiffStatus::Unmerged } else { DiffStatus::Unknown }
}
impl DiffStatus {
//#item file=src/git/diff_tree_to_tree.rs kind=fn name=from_char impl="DiffStatus"
    fn from_char(c: char) -> (r_: Self)
    //@     ensures r_ == dstat_of(c),
    {
        match c {
            'A' => DiffStatus::Added,
            'D' => DiffStatus::Deleted,
            'M' => DiffStatus::Modified,
            'R' => DiffStatus::Renamed,
            'C' => DiffStatus::Copied,
            'T' => DiffStatus::TypeChange,
            'U' => DiffStatus::Unmerged,
            _ => DiffStatus::Unknown,
        }
    }
//#end
}
pub struct SDelta { pub status: DiffStatus, pub old_mode: Seq<char>, pub new_mode: Seq<char>, pub old_oid: Seq<char>, pub new_oid: Seq<char>, pub similarity: u32,
    pub path: Seq<char>, pub path2: Option<Seq<char>> }
pub enum DStep { Reject, Skip1, Skip2, Rec2(SDelta), Rec3(SDelta) }
pub open spec fn two_paths(st: DiffStatus) -> bool { st == DiffStatus::Renamed || st == DiffStatus::Copied }
pub open spec fn sim_of(f5: Seq<char>) -> u32 { if encode_utf8(f5).len() > 1 { num_or0(f5.skip(1)) } else { 0 } }
/// the record that starts at segment i.  Segments that do not start with ':' are passed over; a header with fewer than five
/// fields is passed over together with its path; invalid UTF-8 and a missing second path reject the stream
pub open spec fn drec_at(segs: Seq<Seq<u8>>, i: int) -> DStep {
    if !valid_utf8(segs[i]) { DStep::Reject } else {
    let meta = decode_utf8(segs[i]);
    if meta.len() == 0 || meta[0] != ':' || i + 1 >= segs.len() { DStep::Skip1 }
    else if !valid_utf8(segs[i + 1]) { DStep::Reject }
    else {
        let path = decode_utf8(segs[i + 1]);
        let f = ws_split(meta.skip(1));
        if path.len() == 0 || f.len() < 5 { DStep::Skip2 } else {
        let st = dstat_of(first_or(f[4], 'M'));
        let d = SDelta { status: st, old_mode: f[0], new_mode: f[1], old_oid: f[2], new_oid: f[3], similarity: sim_of(f[4]), path, path2: None };
        if two_paths(st) {
            if i + 2 >= segs.len() || !valid_utf8(segs[i + 2]) { DStep::Reject } else { DStep::Rec3(SDelta { path2: Some(decode_utf8(segs[i + 2])), ..d }) }
        } else { DStep::Rec2(d) } } } }
}
pub open spec fn dcons(e: SDelta, o: Option<Seq<SDelta>>) -> Option<Seq<SDelta>> { match o { Some(v) => Some(seq![e] + v), None => None } }
pub open spec fn dprepend(acc: Seq<SDelta>, o: Option<Seq<SDelta>>) -> Option<Seq<SDelta>> { match o { Some(v) => Some(acc + v), None => None } }
pub open spec fn dparse_from(segs: Seq<Seq<u8>>, i: int) -> Option<Seq<SDelta>>
    decreases segs.len() - i
{
    if i >= segs.len() || i < 0 { Some(Seq::empty()) }
    else { match drec_at(segs, i) {
        DStep::Reject => None,
        DStep::Skip1 => dparse_from(segs, i + 1),
        DStep::Skip2 => dparse_from(segs, i + 2),
        DStep::Rec2(e) => dcons(e, dparse_from(segs, i + 2)),
        DStep::Rec3(e) => dcons(e, dparse_from(segs, i + 3)) } }
}
/// the delta the code built is the delta of the fold.  For a one-path record (A M D T ..) old and new file carry that path; the
/// two paths of an R / C record are NOT specified here (see REPORT.md, observation 1) - only that both segments are consumed
spec fn delta_is(d: DiffDelta, s: SDelta) -> bool {
    &&& d.status == s.status && d.similarity == s.similarity
    &&& d.old_file.mode@ == s.old_mode && d.new_file.mode@ == s.new_mode && d.old_file.oid@ == s.old_oid && d.new_file.oid@ == s.new_oid
    &&& d.old_file.path is Some && d.new_file.path is Some
    &&& s.path2 is None ==> pb_str(d.old_file.path->Some_0) == s.path && pb_str(d.new_file.path->Some_0) == s.path
}
spec fn deltas_match(ds: Seq<DiffDelta>, ss: Seq<SDelta>) -> bool { ds.len() == ss.len() && forall|i: int| 0 <= i < ds.len() ==> delta_is(#[trigger] ds[i], ss[i]) }
/// ASSUMED of the input (see REPORT.md, observation 4): the status field of a five-field header does not start with a multi-byte character
pub open spec fn st_seg(seg: Seq<u8>) -> bool {
    valid_utf8(seg) && decode_utf8(seg).len() > 0 && decode_utf8(seg)[0] == ':' ==> {
        let f = ws_split(decode_utf8(seg).skip(1));
        f.len() >= 5 && encode_utf8(f[4]).len() > 1 ==> f[4].len() > 0 && (f[4][0] as u32) < 128 }
}
pub open spec fn st_ascii(segs: Seq<Seq<u8>>) -> bool { forall|i: int| 0 <= i < segs.len() ==> st_seg(#[trigger] segs[i]) }
proof fn lemma_dprepend_push(acc: Seq<SDelta>, e: SDelta, o: Option<Seq<SDelta>>)
    ensures dprepend(acc, dcons(e, o)) == dprepend(acc.push(e), o),
{
    if let Some(v) = o { assert(acc + (seq![e] + v) =~= acc.push(e) + v); }
}
proof fn lemma_dmatch_push(ds: Seq<DiffDelta>, ss: Seq<SDelta>, d: DiffDelta, s: SDelta)
    requires deltas_match(ds, ss), delta_is(d, s),
    ensures deltas_match(ds.push(d), ss.push(s)),
{
    let ds2 = ds.push(d); let ss2 = ss.push(s);
    assert forall|i: int| 0 <= i < ds2.len() implies delta_is(#[trigger] ds2[i], ss2[i]) by { if i < ds.len() { assert(ds2[i] == ds[i] && ss2[i] == ss[i]); } }
}

//#item file=src/git/diff_tree_to_tree.rs kind=fn name=parse_diff_raw opaque='[{"expr": "data.split(|byte| *byte == 0).filter(|slice| !slice.is_empty()).peekable()", "call": "opq_parts(data)"}, {"expr": "parts.next().ok_or_else(|| GitAiError::Generic(\"Missing old path for rename/copy\".into()))", "call": "opq_part_or_err(&mut parts)"}, {"expr": "parts.next()", "call": "opq_part(&mut parts)"}, {"expr": "std::str::from_utf8(raw)", "call": "opq_utf8(raw)"}, {"expr": "std::str::from_utf8(p)", "call": "opq_utf8(p)"}, {"expr": "std::str::from_utf8(old_path_bytes)", "call": "opq_utf8(old_path_bytes)"}, {"expr": "metadata.starts_with(\u0027:\u0027)", "call": "opq_starts_colon(metadata)"}, {"expr": "metadata[1..].split_whitespace()", "call": "opq_ws_fields(metadata)"}, {"expr": "fields.next()", "call": "opq_field(&mut fields)"}, {"expr": "status_str.chars().next().unwrap_or(\u0027M\u0027)", "call": "opq_first_or(status_str, \u0027M\u0027)"}, {"expr": "status_str.len()", "call": "opq_byte_len(status_str)"}, {"expr": "status_str[1..].parse::<u32>().unwrap_or(0)", "call": "opq_score(status_str)"}, {"expr": "old_path.or_else(|| { if matches!(status, DiffStatus::Deleted) { Some(new_path.clone()) } else { Some(new_path.clone()) } }).map(PathBuf::from)", "call": "opq_path_or(old_path, &new_path)"}, {"expr": "PathBuf::from(new_path.clone())", "call": "opq_pathbuf(new_path.clone())"}]'
fn parse_diff_raw(data: &[u8]) -> (r_: Result<Vec<DiffDelta>, GitAiError>)
//@     requires st_ascii(nz_split(data@)),
//@     ensures
//@         // the result is the record fold over the NUL-separated segments
//@         match dparse_from(nz_split(data@), 0) { Some(v) => r_ is Ok && deltas_match(r_->Ok_0@, v), None => r_ is Err },
{
    let mut deltas = Vec::new();
    let mut parts = opq_parts(data);
//@ let ghost segs = nz_split(data@);
//@ let ghost mut acc: Seq<SDelta> = Seq::empty();

    while let Some(raw) = opq_part(&mut parts)
//@     invariant
//@         segs == nz_split(data@), st_ascii(segs), p_segs(parts) == segs, 0 <= p_pos(parts) <= segs.len(),
//@         deltas_match(deltas@, acc),
//@         dparse_from(segs, 0) == dprepend(acc, dparse_from(segs, p_pos(parts))),
//@     ensures p_pos(parts) == segs.len(),
//@     decreases segs.len() - p_pos(parts),
    {
//@ let ghost i = p_pos(parts) - 1;
//@ let ghost d0 = deltas@;
//@ proof { assert(raw@ == segs[i]); assert(st_seg(segs[i])); }
        let metadata = opq_utf8(raw)?;

        // Skip if the record doesn't start with ':' or is empty
        if !opq_starts_colon(metadata) || metadata.is_empty() {
            continue;
        }

        // When using -z, the path is the NEXT part after the NUL separator
        let path = match opq_part(&mut parts) {
            Some(p) => {
                let path_str = opq_utf8(p)?;
                if path_str.is_empty() {
                    continue; // Skip records without a path
                }
                path_str
            }
            None => continue, // No path found
        };

        // Parse metadata: :<old_mode> <new_mode> <old_hash> <new_hash> <status>
//@ let ghost f = ws_split(metadata@.skip(1));
//@ proof { assert(p_pos(parts) == i + 2); assert(f.len() < 5 ==> drec_at(segs, i) == DStep::Skip2); }
        let mut fields = opq_ws_fields(metadata); // Skip the leading ':'
        let old_mode = match opq_field(&mut fields) {
            Some(m) => m,
            None => continue, // Skip if metadata is incomplete
        };
        let new_mode = match opq_field(&mut fields) {
            Some(m) => m,
            None => continue,
        };
        let old_hash = match opq_field(&mut fields) {
            Some(h) => h,
            None => continue,
        };
        let new_hash = match opq_field(&mut fields) {
            Some(h) => h,
            None => continue,
        };
        let status_str = match opq_field(&mut fields) {
            Some(s) => s,
            None => continue,
        };

        // Parse status (may include similarity score for R/C)
        let status_char = opq_first_or(status_str, 'M');
        let status = DiffStatus::from_char(status_char);

        // Extract similarity score if present (e.g., "R95" -> 95)
        let similarity = if opq_byte_len(status_str) > 1 {
            opq_score(status_str)
        } else {
            0
        };

        // For renames and copies, there are two paths
        let (new_path, old_path) = if matches!(status, DiffStatus::Renamed | DiffStatus::Copied) {
            let old_path_bytes = opq_part_or_err(&mut parts)?;
            let old_path_str = opq_utf8(old_path_bytes)?;
            (path.to_string(), Some(old_path_str.to_string()))
        } else {
            (path.to_string(), None)
        };

        // Construct the old_file and new_file
        let old_file = DiffFile {
            path: opq_path_or(old_path, &new_path),
            mode: old_mode.to_string(),
            oid: old_hash.to_string(),
        };

        let new_file = DiffFile {
            path: Some(opq_pathbuf(new_path.clone())),
            mode: new_mode.to_string(),
            oid: new_hash.to_string(),
        };

        deltas.push(DiffDelta {
            status,
            old_file,
            new_file,
            similarity,
        });
//@ proof {
//@     let s = match drec_at(segs, i) { DStep::Rec2(e) => e, DStep::Rec3(e) => e, _ => arbitrary() };
//@     lemma_dmatch_push(d0, acc, deltas@[d0.len() as int], s);
//@     lemma_dprepend_push(acc, s, dparse_from(segs, p_pos(parts)));
//@     acc = acc.push(s);
//@ }
    }

//@ proof { assert(acc + Seq::<SDelta>::empty() =~= acc); }
    Ok(deltas)
}
//#end

// ---------------------------------------------------------------- what the fold means on git's output (diff --raw -z)
/// a documented record: modes and object names (non-empty, whitespace-free), status letter A M D T (one path) or R C (score, two
/// paths: source then destination); the paths are ARBITRARY non-empty character strings
pub struct DRec { pub m1: Seq<char>, pub m2: Seq<char>, pub h1: Seq<char>, pub h2: Seq<char>, pub st: char, pub score: Seq<char>, pub path: Seq<char>, pub path2: Seq<char> }
pub open spec fn ws_free(s: Seq<char>) -> bool { forall|i: int| 0 <= i < s.len() ==> !is_ws(s[i]) }
pub open spec fn drec_two(r: DRec) -> bool { r.st == 'R' || r.st == 'C' }
pub open spec fn drec_wf(r: DRec) -> bool {
    &&& r.m1.len() > 0 && r.m2.len() > 0 && r.h1.len() > 0 && r.h2.len() > 0 && ws_free(r.m1) && ws_free(r.m2) && ws_free(r.h1) && ws_free(r.h2) && ws_free(r.score)
    &&& r.st == 'A' || r.st == 'M' || r.st == 'D' || r.st == 'T' || r.st == 'R' || r.st == 'C'
    &&& r.path.len() > 0
}
pub open spec fn dfield5(r: DRec) -> Seq<char> { seq![r.st] + r.score }
pub open spec fn dmeta(r: DRec) -> Seq<char> { seq![':'] + r.m1 + seq![' '] + r.m2 + seq![' '] + r.h1 + seq![' '] + r.h2 + seq![' '] + dfield5(r) }
pub open spec fn dlines_from(recs: Seq<DRec>, k: int) -> Seq<Seq<char>>
    decreases recs.len() - k
{
    if k >= recs.len() || k < 0 { Seq::empty() }
    else if drec_two(recs[k]) { seq![dmeta(recs[k]), recs[k].path, recs[k].path2] + dlines_from(recs, k + 1) }
    else { seq![dmeta(recs[k]), recs[k].path] + dlines_from(recs, k + 1) }
}
pub open spec fn dent_of(r: DRec) -> SDelta {
    SDelta { status: dstat_of(r.st), old_mode: r.m1, new_mode: r.m2, old_oid: r.h1, new_oid: r.h2, similarity: sim_of(dfield5(r)), path: r.path,
        path2: if drec_two(r) { Some(r.path2) } else { None } }
}
pub open spec fn dents_from(recs: Seq<DRec>, k: int) -> Seq<SDelta>
    decreases recs.len() - k
{
    if k >= recs.len() || k < 0 { Seq::empty() } else { seq![dent_of(recs[k])] + dents_from(recs, k + 1) }
}
proof fn lemma_ws_last(x: Seq<char>, cur: Seq<char>)
    requires ws_free(x), (cur + x).len() > 0,
    ensures ws_acc(x, cur) == seq![cur + x],
    decreases x.len()
{
    if x.len() == 0 { assert(cur + x =~= cur); }
    else { assert(!is_ws(x[0])); lemma_ws_last(x.skip(1), cur.push(x[0])); assert(cur.push(x[0]) + x.skip(1) =~= cur + x); }
}
proof fn lemma_ws_field(x: Seq<char>, rest: Seq<char>, cur: Seq<char>)
    requires ws_free(x), (cur + x).len() > 0,
    ensures ws_acc(x + seq![' '] + rest, cur) == seq![cur + x] + ws_acc(rest, Seq::empty()),
    decreases x.len()
{
    let s = x + seq![' '] + rest;
    if x.len() == 0 { assert(s.skip(1) =~= rest); assert(cur + x =~= cur); }
    else {
        assert(s[0] == x[0]); assert(!is_ws(x[0]));
        assert(s.skip(1) =~= x.skip(1) + seq![' '] + rest);
        lemma_ws_field(x.skip(1), rest, cur.push(x[0]));
        assert(cur.push(x[0]) + x.skip(1) =~= cur + x);
    }
}
/// the five header fields are read back, whatever follows in the path segments
proof fn lemma_dmeta_fields(r: DRec)
    requires drec_wf(r),
    ensures ws_split(dmeta(r).skip(1)) =~= seq![r.m1, r.m2, r.h1, r.h2, dfield5(r)], dmeta(r).len() > 0, dmeta(r)[0] == ':',
{
    let e = Seq::<char>::empty(); let sp = seq![' ']; let f5 = dfield5(r);
    let t4 = f5; let t3 = r.h2 + sp + t4; let t2 = r.h1 + sp + t3; let t1 = r.m2 + sp + t2; let t0 = r.m1 + sp + t1;
    assert(dmeta(r).skip(1) =~= t0);
    assert(ws_free(f5)) by { assert forall|i: int| 0 <= i < f5.len() implies !is_ws(f5[i]) by { if i > 0 { assert(f5[i] == r.score[i - 1]); } } }
    lemma_ws_field(r.m1, t1, e); lemma_ws_field(r.m2, t2, e); lemma_ws_field(r.h1, t3, e); lemma_ws_field(r.h2, t4, e); lemma_ws_last(f5, e);
    assert(e + r.m1 =~= r.m1 && e + r.m2 =~= r.m2 && e + r.h1 =~= r.h1 && e + r.h2 =~= r.h2 && e + f5 =~= f5);
}
proof fn lemma_drec_at(segs: Seq<Seq<u8>>, i: int, r: DRec)
    requires drec_wf(r), 0 <= i, i + 1 < segs.len(), seg_says(segs[i], dmeta(r)), seg_says(segs[i + 1], r.path),
        drec_two(r) ==> i + 2 < segs.len() && seg_says(segs[i + 2], r.path2),
    ensures drec_at(segs, i) == (if drec_two(r) { DStep::Rec3(dent_of(r)) } else { DStep::Rec2(dent_of(r)) }),
{
    lemma_dmeta_fields(r);
    let f = ws_split(decode_utf8(segs[i]).skip(1));
    assert(f[4] == dfield5(r) && f[4][0] == r.st);
}
proof fn lemma_dparse_records(segs: Seq<Seq<u8>>, recs: Seq<DRec>, k: int, i: int)
    requires 0 <= k <= recs.len(), 0 <= i, segs.len() == i + dlines_from(recs, k).len(),
        forall|j: int| 0 <= j < recs.len() ==> drec_wf(#[trigger] recs[j]),
        forall|j: int| 0 <= j < dlines_from(recs, k).len() ==> seg_says(#[trigger] segs[i + j], dlines_from(recs, k)[j]),
    ensures dparse_from(segs, i) == Some(dents_from(recs, k)),
    decreases recs.len() - k
{
    if k < recs.len() {
        let r = recs[k]; let w: int = if drec_two(r) { 3 } else { 2 };
        let ls = dlines_from(recs, k); let ls2 = dlines_from(recs, k + 1);
        assert(drec_wf(r));
        assert(ls.len() == w + ls2.len());
        assert(seg_says(segs[i + 0], ls[0])); assert(ls[0] == dmeta(r));
        assert(seg_says(segs[i + 1], ls[1])); assert(ls[1] == r.path);
        if drec_two(r) { assert(seg_says(segs[i + 2], ls[2])); assert(ls[2] == r.path2); }
        lemma_drec_at(segs, i, r);
        assert forall|j: int| 0 <= j < ls2.len() implies seg_says(#[trigger] segs[i + w + j], ls2[j]) by { assert(seg_says(segs[i + (w + j)], ls[w + j])); assert(ls[w + j] == ls2[j]); }
        lemma_dparse_records(segs, recs, k + 1, i + w);
    }
}
proof fn lemma_dents_index(recs: Seq<DRec>, k: int)
    requires 0 <= k <= recs.len(),
    ensures dents_from(recs, k).len() == recs.len() - k, forall|j: int| 0 <= j < recs.len() - k ==> (#[trigger] dents_from(recs, k)[j]) == dent_of(recs[k + j]),
    decreases recs.len() - k
{
    if k < recs.len() { lemma_dents_index(recs, k + 1); assert forall|j: int| 0 <= j < recs.len() - k implies (#[trigger] dents_from(recs, k)[j]) == dent_of(recs[k + j]) by { if j > 0 { assert(dents_from(recs, k)[j] == dents_from(recs, k + 1)[j - 1]); } } }
}
/// THEOREM (diff --raw -z): for every list of documented records printed with -z - every segment any valid NUL-free UTF-8 byte
/// string - the fold yields exactly one delta per record, in order, with status, modes and object names of that record and
/// (one-path records) the path verbatim; both path segments of an R / C record are consumed, so the records after it stay in step.
proof fn theorem_diff_round_trip(segs: Seq<Seq<u8>>, recs: Seq<DRec>)
    requires forall|j: int| 0 <= j < recs.len() ==> drec_wf(#[trigger] recs[j]),
        segs.len() == dlines_from(recs, 0).len(),
        forall|j: int| 0 <= j < segs.len() ==> seg_says(#[trigger] segs[j], dlines_from(recs, 0)[j]),
    ensures dparse_from(nz_split(flat_from(segs, 0)), 0) == Some(dents_from(recs, 0)),
        dents_from(recs, 0).len() == recs.len(),
        forall|k: int| 0 <= k < recs.len() ==> (#[trigger] dents_from(recs, 0)[k]).path == recs[k].path && dents_from(recs, 0)[k].status == dstat_of(recs[k].st),
{
    lemma_nz_flat(segs, 0);
    assert(segs.skip(0) =~= segs);
    assert forall|j: int| 0 <= j < dlines_from(recs, 0).len() implies seg_says(#[trigger] segs[0 + j], dlines_from(recs, 0)[j]) by { }
    lemma_dparse_records(segs, recs, 0, 0);
    lemma_dents_index(recs, 0);
}

// ================================================================ the invocation whose output parse_diff_raw reads
/// the argument vector of Repository::diff_tree_to_tree: raw format, NUL-separated, full object names and - whatever the user's
/// diff.renames says - NO rename detection (so that only one-path records A M D T reach parse_diff_raw), then exactly the two
/// trees; the pathspecs, when given and at most MAX_PATHSPEC_ARGS, after a `--`
pub open spec fn views(v: Seq<String>) -> Seq<Seq<char>> { Seq::new(v.len(), |i: int| v[i]@) }
pub uninterp spec fn global_args() -> Seq<Seq<char>>;      // self.global_args_for_exec()
#[verifier::external_body]
fn opq_global_args() -> (r: Vec<String>)
    ensures views(r@) == global_args(),
{ unimplemented!() }
/// stand-in for HashSet<String>: its size and the order in which `for path in paths` enumerates it (uninterpreted)
#[verifier::external_body]
pub struct PathSet { _o: () }
pub uninterp spec fn set_enum(s: PathSet) -> Seq<Seq<char>>;
#[verifier::external_body]
fn opq_set_len(s: &PathSet) -> (r: usize)
    ensures r == set_enum(*s).len(),
{ unimplemented!() }
/// `for path in paths { args.push(path.clone()); }`
#[verifier::external_body]
fn opq_push_all(args: &mut Vec<String>, s: &PathSet)
    ensures views(final(args)@) == views(old(args)@) + set_enum(*s),
{ unimplemented!() }
//#item file=src/git/status.rs kind=const name=MAX_PATHSPEC_ARGS
pub const MAX_PATHSPEC_ARGS: usize = 1000;
//#end
pub open spec fn dt_fixed(old_oid: Seq<char>, new_oid: Seq<char>) -> Seq<Seq<char>> {
    global_args() + seq!["diff"@, "--raw"@, "-z"@, "--no-abbrev"@, "--no-renames"@] + seq![old_oid, new_oid]
}
//#item file=src/git/diff_tree_to_tree.rs kind=region name=dt_args in=diff_tree_to_tree from="let mut args = self.global_args_for_exec();" to="let output = exec_git_with_profile(&args, InternalGitProfile::RawDiffParse)?;" from_nth=1 to_nth=0 impl="Repository" to_exclusive=yes opaque='[{"expr": "self.global_args_for_exec()", "call": "opq_global_args()"}, {"expr": "paths.len()", "call": "opq_set_len(paths)"}, {"stmt_from": "for path in paths {", "call": "opq_push_all(&mut args, paths);"}]'
//@ fn region_dt_args(old_oid: String, new_oid: String, pathspecs: Option<&PathSet>) -> (r_: (Vec<String>, bool))
//@     ensures
//@         r_.1 == (pathspecs is Some && set_enum(*pathspecs->Some_0).len() > 1000),
//@         views(r_.0@) == dt_fixed(old_oid@, new_oid@) + (if pathspecs is Some && !r_.1 { seq!["--"@] + set_enum(*pathspecs->Some_0) } else { Seq::<Seq<char>>::empty() }),
//@ {
        let mut args = opq_global_args();
        args.push("diff".to_string());
        args.push("--raw".to_string());
        args.push("-z".to_string());
        args.push("--no-abbrev".to_string());
        // Never let the user's diff.renames setting decide whether a moved file is reported as one
        // rename record or as a delete plus an add (the other internal diff invocations pin this too).
        args.push("--no-renames".to_string());
        args.push(old_oid);
        args.push(new_oid);
//@     proof { assert(views(args@) =~= dt_fixed(old_oid@, new_oid@)); }
//@     let ghost a0 = args@;

        // Add pathspecs if provided (only as CLI args when under threshold)
        let needs_post_filter = if let Some(paths) = pathspecs {
            if opq_set_len(paths) > MAX_PATHSPEC_ARGS {
                true
            } else {
                args.push("--".to_string());
//@             proof { assert(views(args@) =~= views(a0) + seq!["--"@]); }
                opq_push_all(&mut args, paths);
//@             proof { assert(views(args@) =~= dt_fixed(old_oid@, new_oid@) + (seq!["--"@] + set_enum(*paths))); }
                false
            }
        } else {
            false
        };
//@     proof { if pathspecs is None || needs_post_filter { assert(views(args@) =~= dt_fixed(old_oid@, new_oid@) + Seq::<Seq<char>>::empty()); } }
//@     (args, needs_post_filter)
//@ }
//#end

} // verus!
fn main() {}
