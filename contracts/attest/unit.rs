// Unit attest — property C05: the line ranges a note lists per session are sorted, non-overlapping (canonical) and are
// exactly the lines of that session's line attributions; a human author is never listed.  Covers the two note builders
// that go from LineAttributions to attestation entries: build_file_attestation_from_line_attributions (rebase /
// cherry-pick / CI rewrite path) and VirtualAttributions::to_authorship_log (amend, stash, squash path).
use vstd::prelude::*;
use vstd::std_specs::iter::IteratorSpec;
use vstd::std_specs::cmp::OrdSpec;
use core::cmp::Ordering;
verus! {

//#include ../_shared/cmp_shims.inc.rs
//#include ../_shared/linerange_type.inc.rs
//#include ../_shared/linerange_specs.inc.rs
//#include ../_shared/checkpoint_kind.inc.rs

// the text names these types by their crate paths
pub mod authorship {
    pub mod working_log { pub use crate::CheckpointKind; }
    pub mod authorship_log { pub use crate::LineRange; }
    pub mod attribution_tracker { pub use crate::LineAttribution; }
    pub mod authorship_log_serialization { pub use crate::FileAttestation; }
}

//#item file=src/authorship/attribution_tracker.rs kind=struct name=LineAttribution
pub struct LineAttribution {
    pub start_line: u32,
    pub end_line: u32,
    pub author_id: String,
    pub overrode: Option<String>,
}
//#end

// ---------------------------------------------------------------- grouping by author
/// Stand-in for std::collections::HashMap<String, Vec<(u32, u32)>> (the entry API is outside the Verus subset).  What is
/// ASSUMED of it is the documented behaviour of `HashMap::new()` and `entry(k).or_default().push(x)` with keys compared
/// by their characters, stated on the two O1 stubs below.
#[verifier::external_body]
#[verifier::reject_recursive_types(K)]
#[verifier::reject_recursive_types(V)]
pub struct HashMap<K, V> { _p: core::marker::PhantomData<(K, V)> }
pub uninterp spec fn gm_get(m: HashMap<String, Vec<(u32, u32)>>, a: Seq<char>) -> Option<Seq<(u32, u32)>>;
#[verifier::external_body]
fn opq_group_new() -> (r: HashMap<String, Vec<(u32, u32)>>)
    ensures forall|a: Seq<char>| (#[trigger] gm_get(r, a)) is None,
{ unimplemented!() }
#[verifier::external_body]
fn opq_group_push(m: &mut HashMap<String, Vec<(u32, u32)>>, key: &String, s: u32, e: u32)
    ensures forall|a: Seq<char>| #[trigger] gm_get(*final(m), a) == (if a == key@ {
            Some(match gm_get(*old(m), a) { Some(v) => v.push((s, e)), None => seq![(s, e)] })
        } else { gm_get(*old(m), a) }),
{ unimplemented!() }

/// the (start, end) pairs of the first n line attributions whose author is a, in order
pub open spec fn grouped(la: Seq<LineAttribution>, n: int, a: Seq<char>) -> Seq<(u32, u32)>
    decreases n
{
    if n <= 0 { Seq::empty() } else {
        let r = grouped(la, n - 1, a);
        if la[n - 1].author_id@ == a { r.push((la[n - 1].start_line, la[n - 1].end_line)) } else { r }
    }
}
/// the map holds exactly the AI authors of the first n line attributions, each with his ranges in order
pub open spec fn group_inv(m: HashMap<String, Vec<(u32, u32)>>, la: Seq<LineAttribution>, n: int) -> bool {
    forall|a: Seq<char>| #![trigger gm_get(m, a)]
        (gm_get(m, a) is Some <==> (a != human_str() && grouped(la, n, a).len() > 0))
        && (gm_get(m, a) is Some ==> gm_get(m, a).unwrap() == grouped(la, n, a))
}

// ---------------------------------------------------------------- merging one author's ranges
/// line x lies in one of the first n inclusive ranges
pub open spec fn inc_have(rs: Seq<(u32, u32)>, n: int, x: int) -> bool { exists|i: int| 0 <= i < n && (#[trigger] rs[i]).0 <= x <= rs[i].1 }
pub open spec fn all_forward(rs: Seq<(u32, u32)>) -> bool { forall|i: int| 0 <= i < rs.len() ==> (#[trigger] rs[i]).0 <= rs[i].1 }
pub open spec fn starts_sorted(rs: Seq<(u32, u32)>) -> bool { forall|i: int, j: int| 0 <= i < j < rs.len() ==> (#[trigger] rs[i]).0 <= (#[trigger] rs[j]).0 }
/// forward, sorted, pairwise separated by at least one line (neither overlapping nor adjacent)
pub open spec fn merged_canonical(v: Seq<(u32, u32)>) -> bool {
    &&& all_forward(v)
    &&& forall|i: int, j: int| 0 <= i < j < v.len() ==> (#[trigger] v[i]).1 + 1 < (#[trigger] v[j]).0
}
/// O1 stub for `ranges.sort_by_key(|(start, end)| (*start, *end))`.  ASSUMED (documented behaviour of slice::sort_by_key,
/// as far as the proof needs it): the same elements, ordered by start
#[verifier::external_body]
fn opq_sort_ranges(v: &mut Vec<(u32, u32)>)
    ensures
        final(v)@.len() == old(v)@.len(),
        forall|e: (u32, u32)| #![trigger final(v)@.contains(e)] #![trigger old(v)@.contains(e)] final(v)@.contains(e) <==> old(v)@.contains(e),
        starts_sorted(final(v)@),
{ unimplemented!() }
/// what the `.into_iter().map(|(start, end)| if start == end { Single(start) } else { Range(start, end) }).collect()`
/// of the two builders yields (the closure text is part of the O1 expression, so a change to it is noticed)
pub open spec fn to_lr(r: (u32, u32)) -> LineRange { if r.0 == r.1 { LineRange::Single(r.0) } else { LineRange::Range(r.0, r.1) } }
#[verifier::external_body]
fn opq_to_line_ranges(v: Vec<(u32, u32)>) -> (r: Vec<LineRange>)
    ensures r@ == v@.map_values(|x: (u32, u32)| to_lr(x)),
{ unimplemented!() }

proof fn lemma_inc_step(rs: Seq<(u32, u32)>, k: int, x: int)
    requires 0 <= k < rs.len()
    ensures inc_have(rs, k + 1, x) <==> (inc_have(rs, k, x) || rs[k].0 <= x <= rs[k].1)
{
    if inc_have(rs, k + 1, x) { let i = choose|i: int| 0 <= i < k + 1 && (#[trigger] rs[i]).0 <= x <= rs[i].1; if i < k { assert(0 <= i < k && rs[i].0 <= x <= rs[i].1); } }
    if inc_have(rs, k, x) { let i = choose|i: int| 0 <= i < k && (#[trigger] rs[i]).0 <= x <= rs[i].1; assert(0 <= i < k + 1 && rs[i].0 <= x <= rs[i].1); }
    if rs[k].0 <= x <= rs[k].1 { assert(0 <= k < k + 1 && rs[k].0 <= x <= rs[k].1); }
}
proof fn lemma_inc_push(v: Seq<(u32, u32)>, r: (u32, u32), x: int)
    ensures inc_have(v.push(r), v.len() as int + 1, x) <==> (inc_have(v, v.len() as int, x) || r.0 <= x <= r.1)
{
    let w = v.push(r);
    if inc_have(w, w.len() as int, x) { let i = choose|i: int| 0 <= i < w.len() && (#[trigger] w[i]).0 <= x <= w[i].1; if i < v.len() { assert(w[i] == v[i]); assert(0 <= i < v.len() && v[i].0 <= x <= v[i].1); } else { assert(w[i] == r); } }
    if inc_have(v, v.len() as int, x) { let i = choose|i: int| 0 <= i < v.len() && (#[trigger] v[i]).0 <= x <= v[i].1; assert(w[i] == v[i]); assert(0 <= i < w.len() && w[i].0 <= x <= w[i].1); }
    if r.0 <= x <= r.1 { let i = v.len() as int; assert(w[i] == r); assert(0 <= i < w.len() && w[i].0 <= x <= w[i].1); }
}
/// only the end of the last range grew: the covered lines grow by (old end, new end]
proof fn lemma_inc_grow_last(v: Seq<(u32, u32)>, w: Seq<(u32, u32)>, x: int)
    requires v.len() > 0, w.len() == v.len(), forall|i: int| 0 <= i < v.len() - 1 ==> w[i] == v[i], w.last().0 == v.last().0, w.last().1 >= v.last().1, v.last().0 <= v.last().1,
    ensures inc_have(w, w.len() as int, x) <==> (inc_have(v, v.len() as int, x) || v.last().1 < x <= w.last().1)
{
    let n = v.len() as int;
    if inc_have(w, n, x) { let i = choose|i: int| 0 <= i < n && (#[trigger] w[i]).0 <= x <= w[i].1; if i < n - 1 { assert(w[i] == v[i]); assert(0 <= i < n && v[i].0 <= x <= v[i].1); } else { if x <= v.last().1 { assert(0 <= n - 1 < n && v[n - 1].0 <= x <= v[n - 1].1); } } }
    if inc_have(v, n, x) { let i = choose|i: int| 0 <= i < n && (#[trigger] v[i]).0 <= x <= v[i].1; if i < n - 1 { assert(w[i] == v[i]); assert(0 <= i < n && w[i].0 <= x <= w[i].1); } else { assert(0 <= n - 1 < n && w[n - 1].0 <= x <= w[n - 1].1); } }
    if v.last().1 < x <= w.last().1 { assert(0 <= n - 1 < n && w[n - 1].0 <= x <= w[n - 1].1); }
}
/// sorting keeps the covered lines and forwardness (membership form of "permutation")
proof fn lemma_sorted_same(a: Seq<(u32, u32)>, b: Seq<(u32, u32)>)
    requires a.len() == b.len(), forall|e: (u32, u32)| #![trigger a.contains(e)] #![trigger b.contains(e)] a.contains(e) <==> b.contains(e),
    ensures all_forward(b) ==> all_forward(a), forall|x: int| inc_have(a, a.len() as int, x) <==> inc_have(b, b.len() as int, x),
{
    if all_forward(b) {
        assert forall|i: int| 0 <= i < a.len() implies (#[trigger] a[i]).0 <= a[i].1 by {
            assert(a.contains(a[i])); assert(b.contains(a[i])); let j = choose|j: int| 0 <= j < b.len() && b[j] == a[i]; assert(b[j].0 <= b[j].1);
        }
    }
    assert forall|x: int| inc_have(a, a.len() as int, x) <==> inc_have(b, b.len() as int, x) by {
        if inc_have(a, a.len() as int, x) { let i = choose|i: int| 0 <= i < a.len() && (#[trigger] a[i]).0 <= x <= a[i].1; assert(a.contains(a[i])); assert(b.contains(a[i])); let j = choose|j: int| 0 <= j < b.len() && b[j] == a[i]; assert(0 <= j < b.len() && b[j].0 <= x <= b[j].1); }
        if inc_have(b, b.len() as int, x) { let i = choose|i: int| 0 <= i < b.len() && (#[trigger] b[i]).0 <= x <= b[i].1; assert(b.contains(b[i])); assert(a.contains(b[i])); let j = choose|j: int| 0 <= j < a.len() && a[j] == b[i]; assert(0 <= j < a.len() && a[j].0 <= x <= a[j].1); }
    }
}
/// the conversion to LineRange keeps canonicity and the covered lines
proof fn lemma_to_lr(m: Seq<(u32, u32)>, r: Seq<LineRange>)
    requires merged_canonical(m), r == m.map_values(|x: (u32, u32)| to_lr(x)),
    ensures ranges_canonical(r), forall|x: int| ranges_have(r, x) <==> inc_have(m, m.len() as int, x),
{
    assert forall|i: int| 0 <= i < r.len() implies lr_wf(#[trigger] r[i]) && lr_lo(r[i]) == m[i].0 && lr_hi(r[i]) == m[i].1 by { assert(r[i] == to_lr(m[i])); assert(m[i].0 <= m[i].1); }
    assert forall|i: int, j: int| 0 <= i < j < r.len() implies lr_hi(#[trigger] r[i]) + 1 < lr_lo(#[trigger] r[j]) by { assert(r[i] == to_lr(m[i]) && r[j] == to_lr(m[j])); assert(m[i].1 + 1 < m[j].0); assert(m[i].0 <= m[i].1 && m[j].0 <= m[j].1); }
    assert forall|x: int| ranges_have(r, x) <==> inc_have(m, m.len() as int, x) by {
        if ranges_have(r, x) { let i = choose|i: int| 0 <= i < r.len() && lr_has(#[trigger] r[i], x); assert(r[i] == to_lr(m[i])); assert(m[i].0 <= m[i].1); assert(0 <= i < m.len() && m[i].0 <= x <= m[i].1); }
        if inc_have(m, m.len() as int, x) { let i = choose|i: int| 0 <= i < m.len() && (#[trigger] m[i]).0 <= x <= m[i].1; assert(r[i] == to_lr(m[i])); assert(lr_has(r[i], x)); }
    }
}

// ---------------------------------------------------------------- build_file_attestation_from_line_attributions (rebase_authorship.rs)
//#item file=src/authorship/rebase_authorship.rs kind=region name=bf_group in=build_file_attestation_from_line_attributions from="let mut by_author: HashMap" to="if by_author.is_empty() {" from_nth=0 to_nth=0 to_exclusive=yes opaque='[{"expr": "by_author.entry(line_attr.author_id.clone()).or_default().push((line_attr.start_line, line_attr.end_line))", "call": "opq_group_push(&mut by_author, &line_attr.author_id, line_attr.start_line, line_attr.end_line)"}, {"expr": "HashMap::new()", "call": "opq_group_new()"}]'
//@ fn region_bf_group(line_attrs: &[LineAttribution]) -> (r_: HashMap<String, Vec<(u32, u32)>>)
//@     ensures
//@         // a human author is never listed; every AI author of a line attribution is, with exactly his ranges in order
//@         group_inv(r_, line_attrs@, line_attrs@.len() as int),
//@ {
//@     let ghost la = line_attrs@;
    let mut by_author: HashMap<String, Vec<(u32, u32)>> = opq_group_new();
    //@ proof { assert forall|a: Seq<char>| #![trigger gm_get(by_author, a)] grouped(la, 0, a).len() == 0 by {} }
    for line_attr in it_0: line_attrs
    //@     invariant
    //@         la == line_attrs@, it_0.snapshot@.remaining().len() == la.len(), forall|j: int| 0 <= j < la.len() ==> *(#[trigger] it_0.snapshot@.remaining()[j]) == la[j],
    //@         group_inv(by_author, la, it_0.index@),
    {
        //@ let ghost k = it_0.index@;
        //@ let ghost m0 = by_author;
        //@ proof { assert(*line_attr == la[k]); }
        if !(line_attr.author_id == crate::authorship::working_log::CheckpointKind::Human.to_str()) {
        opq_group_push(&mut by_author, &line_attr.author_id, line_attr.start_line, line_attr.end_line);
    }
        //@ proof {
        //@     assert forall|a: Seq<char>| #![trigger gm_get(by_author, a)]
        //@         (gm_get(by_author, a) is Some <==> (a != human_str() && grouped(la, k + 1, a).len() > 0))
        //@         && (gm_get(by_author, a) is Some ==> gm_get(by_author, a).unwrap() == grouped(la, k + 1, a)) by {
        //@         let g0 = gm_get(m0, a);
        //@         assert(g0 is Some <==> (a != human_str() && grouped(la, k, a).len() > 0));
        //@     }
        //@ }
    }
//@     by_author
//@ }
//#end

//#item file=src/authorship/rebase_authorship.rs kind=region name=bf_merge in=build_file_attestation_from_line_attributions from="ranges.sort_by_key(" to="if !line_ranges.is_empty() {" from_nth=0 to_nth=0 to_exclusive=yes opaque='[{"expr": "ranges.sort_by_key(|(start, end)| (*start, *end))", "call": "opq_sort_ranges(&mut ranges)"}, {"expr": "merged.into_iter().map(|(start, end)| { if start == end { crate::authorship::authorship_log::LineRange::Single(start) } else { crate::authorship::authorship_log::LineRange::Range(start, end) } }).collect::<Vec<_>>()", "call": "opq_to_line_ranges(merged)"}]'
//@ fn region_bf_merge(ranges0: Vec<(u32, u32)>) -> (r_: Vec<LineRange>)
//@     requires all_forward(ranges0@),
//@     ensures
//@         // what the note lists for this session: sorted, non-overlapping, non-adjacent, every Range spans two lines or more
//@         ranges_canonical(r_@),
//@         // and exactly the lines of the session's line attributions
//@         forall|x: int| ranges_have(r_@, x) <==> inc_have(ranges0@, ranges0@.len() as int, x),
//@ {
//@     let mut ranges = ranges0;
        opq_sort_ranges(&mut ranges);
//@     let ghost rs = ranges@;
//@     proof { lemma_sorted_same(rs, ranges0@); }

        let mut merged: Vec<(u32, u32)> = Vec::new();
        for (start, end) in it_0: ranges
        //@     invariant
        //@         it_0.snapshot@.remaining() =~= rs, starts_sorted(rs), all_forward(rs),
        //@         merged_canonical(merged@),
        //@         merged@.len() > 0 ==> (forall|j: int| it_0.index@ <= j < rs.len() ==> merged@.last().0 <= (#[trigger] rs[j]).0),
        //@         forall|x: int| #![trigger inc_have(merged@, merged@.len() as int, x)] #![trigger inc_have(rs, it_0.index@, x)] inc_have(merged@, merged@.len() as int, x) <==> inc_have(rs, it_0.index@, x),
        {
            //@ let ghost k = it_0.index@;
            //@ let ghost before = merged@;
            //@ proof { assert((start, end) == rs[k]); assert(start <= end); }
            match merged.last_mut() {
                Some((_, last_end)) => {
                    if start <= last_end.saturating_add(1) {
                        *last_end = (*last_end).max(end);
                    } else {
                        merged.push((start, end));
                    }
                }
                None => merged.push((start, end)),
            }
            //@ proof {
            //@     assert forall|x: int| #![trigger inc_have(merged@, merged@.len() as int, x)] #![trigger inc_have(rs, k + 1, x)] inc_have(merged@, merged@.len() as int, x) <==> inc_have(rs, k + 1, x) by {
            //@         lemma_inc_step(rs, k, x);
            //@         assert(inc_have(before, before.len() as int, x) <==> inc_have(rs, k, x));
            //@         if merged@.len() > before.len() { lemma_inc_push(before, merged@[before.len() as int], x); assert(merged@ =~= before.push(merged@[before.len() as int])); }
            //@         else { lemma_inc_grow_last(before, merged@, x); }
            //@     }
            //@ }
        }

        //@ let ghost mg = merged@;
        let line_ranges = opq_to_line_ranges(merged);
//@     proof { lemma_to_lr(mg, line_ranges@); assert(rs.subrange(0, rs.len() as int) =~= rs); }
//@     line_ranges
//@ }
//#end

// ---------------------------------------------------------------- VirtualAttributions::to_authorship_log (virtual_attribution.rs): the same two steps
//#item file=src/authorship/virtual_attribution.rs kind=region name=va_group in=to_authorship_log from="let mut author_ranges: HashMap" to="// Create attestation entries for each author" from_nth=0 to_nth=0 impl="VirtualAttributions" to_exclusive=yes opaque='[{"expr": "author_ranges.entry(line_attr.author_id.clone()).or_default().push((line_attr.start_line, line_attr.end_line))", "call": "opq_group_push(&mut author_ranges, &line_attr.author_id, line_attr.start_line, line_attr.end_line)"}, {"expr": "HashMap::new()", "call": "opq_group_new()"}]'
//@ fn region_va_group(line_attrs: &Vec<LineAttribution>) -> (r_: HashMap<String, Vec<(u32, u32)>>)
//@     ensures
//@         // a human author is never listed; every AI author of a line attribution is, with exactly his ranges in order
//@         group_inv(r_, line_attrs@, line_attrs@.len() as int),
//@ {
//@     let ghost la = line_attrs@;
            let mut author_ranges: HashMap<String, Vec<(u32, u32)>> = opq_group_new();
            //@ proof { assert forall|a: Seq<char>| #![trigger gm_get(author_ranges, a)] grouped(la, 0, a).len() == 0 by {} }
            for line_attr in it_0: line_attrs
            //@     invariant
            //@         la == line_attrs@, it_0.snapshot@.remaining().len() == la.len(), forall|j: int| 0 <= j < la.len() ==> *(#[trigger] it_0.snapshot@.remaining()[j]) == la[j],
            //@         group_inv(author_ranges, la, it_0.index@),
            {
                //@ let ghost k = it_0.index@;
                //@ let ghost m0 = author_ranges;
                //@ proof { assert(*line_attr == la[k]); }
                // Skip human attributions - we only track AI attributions
                if !(line_attr.author_id == CheckpointKind::Human.to_str()) {

                opq_group_push(&mut author_ranges, &line_attr.author_id, line_attr.start_line, line_attr.end_line);
            }
                //@ proof {
                //@     assert forall|a: Seq<char>| #![trigger gm_get(author_ranges, a)]
                //@         (gm_get(author_ranges, a) is Some <==> (a != human_str() && grouped(la, k + 1, a).len() > 0))
                //@         && (gm_get(author_ranges, a) is Some ==> gm_get(author_ranges, a).unwrap() == grouped(la, k + 1, a)) by {
                //@         let g0 = gm_get(m0, a);
                //@         assert(g0 is Some <==> (a != human_str() && grouped(la, k, a).len() > 0));
                //@     }
                //@ }
            }
//@     author_ranges
//@ }
//#end

//#item file=src/authorship/virtual_attribution.rs kind=region name=va_merge in=to_authorship_log from="ranges.sort_by_key(" to="// Create attestation entry" from_nth=0 to_nth=0 impl="VirtualAttributions" to_exclusive=yes opaque='[{"expr": "ranges.sort_by_key(|(start, end)| (*start, *end))", "call": "opq_sort_ranges(&mut ranges)"}, {"expr": "merged.into_iter().map(|(start, end)| { if start == end { crate::authorship::authorship_log::LineRange::Single(start) } else { crate::authorship::authorship_log::LineRange::Range(start, end) } }).collect()", "call": "opq_to_line_ranges(merged)"}]'
//@ fn region_va_merge(ranges0: Vec<(u32, u32)>) -> (r_: Vec<LineRange>)
//@     requires all_forward(ranges0@),
//@     ensures
//@         ranges_canonical(r_@),
//@         forall|x: int| ranges_have(r_@, x) <==> inc_have(ranges0@, ranges0@.len() as int, x),
//@ {
//@     let mut ranges = ranges0;
                opq_sort_ranges(&mut ranges);
//@     let ghost rs = ranges@;
//@     proof { lemma_sorted_same(rs, ranges0@); }

                let mut merged: Vec<(u32, u32)> = Vec::new();
                for (start, end) in it_0: ranges
                //@     invariant
                //@         it_0.snapshot@.remaining() =~= rs, starts_sorted(rs), all_forward(rs),
                //@         merged_canonical(merged@),
                //@         merged@.len() > 0 ==> (forall|j: int| it_0.index@ <= j < rs.len() ==> merged@.last().0 <= (#[trigger] rs[j]).0),
                //@         forall|x: int| #![trigger inc_have(merged@, merged@.len() as int, x)] #![trigger inc_have(rs, it_0.index@, x)] inc_have(merged@, merged@.len() as int, x) <==> inc_have(rs, it_0.index@, x),
                {
                    //@ let ghost k = it_0.index@;
                    //@ let ghost before = merged@;
                    //@ proof { assert((start, end) == rs[k]); assert(start <= end); }
                    match merged.last_mut() {
                        Some((_, last_end)) => { if start <= last_end.saturating_add(1) {
                            *last_end = (*last_end).max(end);
                        } else { merged.push((start, end)); } }
                        _ => merged.push((start, end)),
                    }
                    //@ proof {
                    //@     assert forall|x: int| #![trigger inc_have(merged@, merged@.len() as int, x)] #![trigger inc_have(rs, k + 1, x)] inc_have(merged@, merged@.len() as int, x) <==> inc_have(rs, k + 1, x) by {
                    //@         lemma_inc_step(rs, k, x);
                    //@         assert(inc_have(before, before.len() as int, x) <==> inc_have(rs, k, x));
                    //@         if merged@.len() > before.len() { lemma_inc_push(before, merged@[before.len() as int], x); assert(merged@ =~= before.push(merged@[before.len() as int])); }
                    //@         else { lemma_inc_grow_last(before, merged@, x); }
                    //@     }
                    //@ }
                }

                //@ let ghost mg = merged@;
                let line_ranges = opq_to_line_ranges(merged);
//@     proof { lemma_to_lr(mg, line_ranges@); assert(rs.subrange(0, rs.len() as int) =~= rs); }
//@     line_ranges
//@ }
//#end

// ---------------------------------------------------------------- the attestation containers and upsert_file_attestation
#[verifier::external_body] pub struct AuthorshipMetadata { _o: () }   // stand-in: never inspected by the verified text
//#item file=src/authorship/authorship_log_serialization.rs kind=struct name=AttestationEntry
pub struct AttestationEntry {
    pub hash: String,
    pub line_ranges: Vec<LineRange>,
}
//#end
//#item file=src/authorship/authorship_log_serialization.rs kind=struct name=FileAttestation
pub struct FileAttestation {
    pub file_path: String,
    pub entries: Vec<AttestationEntry>,
}
//#end
//#item file=src/authorship/authorship_log_serialization.rs kind=struct name=AuthorshipLog
pub struct AuthorshipLog {
    pub attestations: Vec<FileAttestation>,
    pub metadata: AuthorshipMetadata,
}
//#end
impl AttestationEntry {
//#item file=src/authorship/authorship_log_serialization.rs kind=fn name=new impl="AttestationEntry"
    pub fn new(hash: String, line_ranges: Vec<LineRange>) -> (r_: Self)
    //@     ensures r_.hash == hash, r_.line_ranges == line_ranges,
    {
        Self { hash, line_ranges }
    }
//#end
}
impl FileAttestation {
//#item file=src/authorship/authorship_log_serialization.rs kind=fn name=new impl="FileAttestation"
    pub fn new(file_path: String) -> (r_: Self)
    //@     ensures r_.file_path == file_path, r_.entries@.len() == 0,
    {
        Self {
            file_path,
            entries: Vec::new(),
        }
    }
//#end
//#item file=src/authorship/authorship_log_serialization.rs kind=fn name=add_entry impl="FileAttestation"
    pub fn add_entry(&mut self, entry: AttestationEntry)
    //@     ensures final(self).file_path == old(self).file_path, final(self).entries@ == old(self).entries@.push(entry),
    {
        self.entries.push(entry);
    }
//#end
}
/// the attestations of every other file, in order
pub open spec fn others(s: Seq<FileAttestation>, fp: Seq<char>) -> Seq<FileAttestation> { s.filter(|a: FileAttestation| a.file_path@ != fp) }
/// O1 stub for `authorship_log.attestations.retain(|attestation| attestation.file_path != file_path)` (documented behaviour of Vec::retain)
#[verifier::external_body]
fn opq_retain_other_files(v: &mut Vec<FileAttestation>, file_path: &str)
    ensures final(v)@ == others(old(v)@, file_path@),
{ unimplemented!() }
/// what build_file_attestation_from_line_attributions returns (the whole function is outside the Verus subset: by-value HashMap
/// iteration; its two computational steps are the regions bf_group / bf_merge above)
pub uninterp spec fn built(fp: Seq<char>, la: Seq<LineAttribution>) -> Option<FileAttestation>;
//#item file=src/authorship/rebase_authorship.rs kind=fn name=build_file_attestation_from_line_attributions body=opaque
//@ #[verifier::external_body]
fn build_file_attestation_from_line_attributions(
    file_path: &str,
    line_attrs: &[crate::authorship::attribution_tracker::LineAttribution],
) -> (r_: Option<crate::authorship::authorship_log_serialization::FileAttestation>)
//@     ensures r_ == built(file_path@, line_attrs@), r_ is Some ==> r_.unwrap().file_path@ == file_path@,
{ unimplemented!() }
//#end
//#item file=src/authorship/rebase_authorship.rs kind=fn name=upsert_file_attestation opaque='[{"expr": "authorship_log.attestations.retain(|attestation| attestation.file_path != file_path)", "call": "opq_retain_other_files(&mut authorship_log.attestations, file_path)"}]'
fn upsert_file_attestation(
    authorship_log: &mut AuthorshipLog,
    file_path: &str,
    line_attrs: &[crate::authorship::attribution_tracker::LineAttribution],
    file_exists: bool,
)
//@     ensures
//@         // the attestations of all other files are kept, in order; the file itself is listed at most once, rebuilt from the
//@         // given line attributions, and not at all when it does not exist in the commit
//@         final(authorship_log).attestations@ == others(old(authorship_log).attestations@, file_path@)
//@             + (if file_exists && built(file_path@, line_attrs@) is Some { seq![built(file_path@, line_attrs@).unwrap()] } else { Seq::<FileAttestation>::empty() }),
{
    opq_retain_other_files(&mut authorship_log.attestations, file_path);
    if !file_exists {
        //@ proof { assert(authorship_log.attestations@ + Seq::<FileAttestation>::empty() =~= authorship_log.attestations@); }
        return;
    }
    //@ let ghost a0 = authorship_log.attestations@;
    if let Some(file_attestation) =
        build_file_attestation_from_line_attributions(file_path, line_attrs)
    {
        authorship_log.attestations.push(file_attestation);
        //@ proof { assert(authorship_log.attestations@ =~= a0 + seq![file_attestation]); }
    }
    //@ proof { assert(a0 + Seq::<FileAttestation>::empty() =~= a0); }
}
//#end

} // verus!
fn main() {}
