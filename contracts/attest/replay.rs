// Replay driver for unit attest: the ORIGINAL build_file_attestation_from_line_attributions / upsert_file_attestation
// (whole functions) and the ORIGINAL region text of VirtualAttributions::to_authorship_log between plain-Rust wrappers.
#![allow(dead_code, unused)]
use std::collections::{HashMap, BTreeMap, BTreeSet};
#[derive(Clone, PartialEq, Debug, Default)]
pub struct AuthorshipMetadata { pub _opaque: () }
pub mod authorship {
    pub mod working_log { pub use crate::CheckpointKind; }
    pub mod authorship_log { pub use crate::LineRange; }
    pub mod attribution_tracker { pub use crate::LineAttribution; }
    pub mod authorship_log_serialization { pub use crate::{FileAttestation, AttestationEntry}; }
}
include!("@ITEMS@");
use std::panic::{catch_unwind, AssertUnwindSafe};
struct Ctx { evaluated: u64, failed: std::collections::HashSet<String> }
impl Ctx {
    fn fail(&mut self, f: &str, clause: &str, input: String, observed: String, expected: String) {
        if self.failed.insert(format!("{}::{}", f, clause)) { println!("FAIL fn=[[{}]] clause=[[{}]] input=[[{}]] observed=[[{}]] expected=[[{}]]", f, clause, input, observed, expected); }
    }
}
fn guarded<T>(f: impl FnOnce() -> T) -> Result<T, String> {
    catch_unwind(AssertUnwindSafe(f)).map_err(|e| { let m = e.downcast_ref::<String>().cloned().or_else(|| e.downcast_ref::<&str>().map(|s| s.to_string())).unwrap_or_default(); format!("panic: {}", m) })
}
struct Rng(u64);
impl Rng { fn next(&mut self) -> u64 { self.0 ^= self.0 << 13; self.0 ^= self.0 >> 7; self.0 ^= self.0 << 17; self.0 } fn below(&mut self, n: u64) -> u64 { self.next() % n } }

type LA = (u32, u32, String);
fn mk(la: &[LA]) -> Vec<LineAttribution> { la.iter().map(|x| LineAttribution { start_line: x.0, end_line: x.1, author_id: x.2.clone(), overrode: None }).collect() }
fn show(la: &[LA]) -> String { la.iter().map(|x| format!("{}-{}-{}", x.0, x.1, x.2)).collect::<Vec<_>>().join(" ") }
fn parse(s: &str) -> Vec<LA> { s.split_whitespace().map(|t| { let q: Vec<&str> = t.splitn(3, '-').collect(); (q[0].parse().unwrap(), q[1].parse().unwrap(), q[2].to_string()) }).collect() }
fn lines_of(la: &[LA], a: &str) -> BTreeSet<u32> { la.iter().filter(|x| x.2 == a).flat_map(|x| x.0..=x.1).collect() }
fn lo(r: &LineRange) -> u32 { match r { LineRange::Single(l) => *l, LineRange::Range(s, _) => *s } }
fn hi(r: &LineRange) -> u32 { match r { LineRange::Single(l) => *l, LineRange::Range(_, e) => *e } }
/// the oracle for one session's ranges: canonical + exactly `want`
fn check_ranges(c: &mut Ctx, f: &str, input: &str, rs: &[LineRange], want: &BTreeSet<u32>) {
    for r in rs { if let LineRange::Range(s, e) = r { if s >= e { c.fail(f, "ensures#0", input.into(), format!("{:?}", rs), "every Range spans at least two lines".into()); return; } } }
    for w in rs.windows(2) { if hi(&w[0]) as u64 + 1 >= lo(&w[1]) as u64 { c.fail(f, "ensures#0", input.into(), format!("{:?}", rs), "sorted, non-overlapping, non-adjacent ranges".into()); return; } }
    let got: BTreeSet<u32> = rs.iter().flat_map(|r| lo(r)..=hi(r)).collect();
    if &got != want { c.fail(f, "ensures#1", input.into(), format!("{:?}", rs), format!("exactly the lines {:?}", want)); }
}
fn chk_build(c: &mut Ctx, la: &[LA]) {
    c.evaluated += 1;
    let input = show(la);
    let v = mk(la);
    match guarded(|| build_file_attestation_from_line_attributions("f.rs", &v)) {
        Ok(r) => {
            let authors: BTreeSet<String> = la.iter().filter(|x| x.2 != "human").map(|x| x.2.clone()).collect();
            match r {
                None => if !authors.is_empty() { c.fail("region_bf_group", "ensures#0", input, "None".into(), format!("entries for {:?}", authors)); },
                Some(fa) => {
                    if fa.file_path != "f.rs" { c.fail("upsert_file_attestation", "ensures#0", input.clone(), fa.file_path.clone(), "f.rs".into()); }
                    let listed: Vec<String> = fa.entries.iter().map(|e| e.hash.clone()).collect();
                    if listed.iter().any(|h| h == "human") { c.fail("region_bf_group", "ensures#0", input.clone(), format!("{:?}", listed), "a human author is never listed".into()); return; }
                    let mut sorted = listed.clone(); sorted.sort();
                    if sorted != authors.iter().cloned().collect::<Vec<_>>() { c.fail("region_bf_group", "ensures#0", input.clone(), format!("{:?}", listed), format!("each AI author once: {:?}", authors)); return; }
                    for e in &fa.entries { check_ranges(c, "region_bf_merge", &input, &e.line_ranges, &lines_of(la, &e.hash)); }
                }
            }
        }
        Err(p) => c.fail("region_bf_merge", "safety", input, p, "no panic".into()),
    }
}
fn chk_va(c: &mut Ctx, la: &[LA]) {
    c.evaluated += 1;
    let input = show(la);
    let v = mk(la);
    match guarded(|| region_va_group(&v)) {
        Ok(m) => {
            let authors: BTreeSet<String> = la.iter().filter(|x| x.2 != "human").map(|x| x.2.clone()).collect();
            let keys: BTreeSet<String> = m.keys().cloned().collect();
            if keys != authors { c.fail("region_va_group", "ensures#0", input.clone(), format!("{:?}", keys), format!("exactly the AI authors {:?}", authors)); return; }
            for (a, rs) in m {
                let want: Vec<(u32, u32)> = la.iter().filter(|x| x.2 == a).map(|x| (x.0, x.1)).collect();
                if rs != want { c.fail("region_va_group", "ensures#0", input.clone(), format!("{:?}", rs), format!("{}: {:?}", a, want)); return; }
                match guarded(|| region_va_merge(rs.clone())) {
                    Ok(lr) => check_ranges(c, "region_va_merge", &input, &lr, &lines_of(la, &a)),
                    Err(p) => c.fail("region_va_merge", "safety", input.clone(), p, "no panic".into()),
                }
            }
        }
        Err(p) => c.fail("region_va_group", "safety", input, p, "no panic".into()),
    }
}
fn chk_upsert(c: &mut Ctx, files: &[&str], fp: &str, la: &[LA], exists: bool) {
    c.evaluated += 1;
    let input = format!("{}|{}|{}|{}", files.join(","), fp, exists, show(la));
    let mut log = AuthorshipLog { attestations: files.iter().map(|f| { let mut fa = FileAttestation::new(f.to_string()); fa.add_entry(AttestationEntry::new("s1".into(), vec![LineRange::Single(1)])); fa }).collect(), metadata: Default::default() };
    let v = mk(la);
    let built = build_file_attestation_from_line_attributions(fp, &v);
    match guarded(move || { upsert_file_attestation(&mut log, fp, &v, exists); log }) {
        Ok(log) => {
            let got: Vec<String> = log.attestations.iter().map(|a| a.file_path.clone()).collect();
            let mut want: Vec<String> = files.iter().filter(|f| **f != fp).map(|f| f.to_string()).collect();
            if exists && built.is_some() { want.push(fp.to_string()); }
            if got != want { c.fail("upsert_file_attestation", "ensures#0", input, format!("{:?}", got), format!("{:?}", want)); }
        }
        Err(p) => c.fail("upsert_file_attestation", "safety", input, p, "no panic".into()),
    }
}
fn main() {
    std::panic::set_hook(Box::new(|_| {}));
    let a: Vec<String> = std::env::args().collect();
    let mut c = Ctx { evaluated: 0, failed: Default::default() };
    let want = |f: &str| a[2] == "*" || a[2] == f;
    if a[1] == "search" {
        let iv: Vec<(u32, u32)> = (1..6u32).flat_map(|s| (s..7u32).map(move |e| (s, e))).collect();
        for x in &iv { for y in &iv { for au in ["a", "b", "human"] {
            let la = [(x.0, x.1, "a".to_string()), (y.0, y.1, au.to_string())];
            if want("region_bf_group") || want("region_bf_merge") { chk_build(&mut c, &la); }
            if want("region_va_group") || want("region_va_merge") { chk_va(&mut c, &la); }
        } } }
        chk_build(&mut c, &[]); chk_va(&mut c, &[]);
        chk_build(&mut c, &[(u32::MAX - 1, u32::MAX, "a".into()), (u32::MAX, u32::MAX, "a".into())]);
        chk_va(&mut c, &[(u32::MAX - 1, u32::MAX, "a".into()), (u32::MAX, u32::MAX, "a".into())]);
        let mut g = Rng(a[3].parse::<u64>().unwrap_or(0).wrapping_mul(0x9E3779B97F4A7C15) ^ 0x6a09e667f3bcc909);
        for it in 0..20000u32 {
            let n = g.below(7) as usize;
            let la: Vec<LA> = (0..n).map(|_| { let s = 1 + g.below(12) as u32; (s, s + g.below(4) as u32, ["a", "b", "human", "c"][g.below(4) as usize].to_string()) }).collect();
            if want("region_bf_group") || want("region_bf_merge") { chk_build(&mut c, &la); }
            if want("region_va_group") || want("region_va_merge") { chk_va(&mut c, &la); }
            if want("upsert_file_attestation") && it % 4 == 0 {
                let files: Vec<&str> = ["x.rs", "y.rs", "z.rs"].iter().filter(|_| g.below(2) == 0).cloned().collect();
                chk_upsert(&mut c, &files, ["x.rs", "y.rs", "w.rs"][g.below(3) as usize], &la, g.below(2) == 0);
            }
        }
    } else {
        match a[2].as_str() {
            "region_bf_group" | "region_bf_merge" => chk_build(&mut c, &parse(&a[3])),
            "region_va_group" | "region_va_merge" => chk_va(&mut c, &parse(&a[3])),
            "upsert_file_attestation" => {
                let q: Vec<&str> = a[3].splitn(4, '|').collect();
                if q.len() == 4 { let files: Vec<&str> = q[0].split(',').filter(|s| !s.is_empty()).collect(); chk_upsert(&mut c, &files, q[1], &parse(q[3]), q[2] == "true"); }
                else { chk_build(&mut c, &parse(&a[3])); }
            }
            _ => {}
        }
    }
    println!("DONE evaluated={}", c.evaluated);
}
