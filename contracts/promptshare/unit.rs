// Unit promptshare — property C08, clause 1 (no conversation text reaches the shared notes unless opted in), the decision
// "are prompts excluded for this repository": Config::should_exclude_prompts answers true exactly when the exclusion list has
// the wildcard, or SOME remote of the repository matches SOME pattern of the list.  Glob matching and the remote listing are
// uninterpreted.
use vstd::prelude::*;
verus! {

/// stand-ins: glob::Pattern, the repository handle, and Config (only the exclusion list is read)
#[verifier::external_body] pub struct Pattern { _o: () }
#[verifier::external_body] pub struct Repository { _o: () }
pub struct Config { pub exclude_prompts_in_repositories: Vec<Pattern> }
pub uninterp spec fn is_star(p: Pattern) -> bool;                              // pattern.as_str() == "*"
pub uninterp spec fn pat_matches(p: Pattern, url: Seq<char>) -> bool;          // pattern.matches(url)
pub uninterp spec fn remotes_of(r: Option<Repository>) -> Option<Seq<(String, String)>>;   // remotes_with_urls().ok(), None without a repository
pub open spec fn has_star(ps: Seq<Pattern>) -> bool { exists|j: int| 0 <= j < ps.len() && is_star(#[trigger] ps[j]) }
/// SOME remote matches SOME pattern
pub open spec fn some_remote_matches(rs: Seq<(String, String)>, ps: Seq<Pattern>) -> bool {
    exists|i: int, j: int| 0 <= i < rs.len() && 0 <= j < ps.len() && pat_matches(#[trigger] ps[j], (#[trigger] rs[i]).1@)
}
#[verifier::external_body]
fn opq_has_wildcard(ps: &Vec<Pattern>) -> (r: bool)
    ensures r == has_star(ps@),
{ unimplemented!() }
#[verifier::external_body]
fn opq_remotes(r: &Option<Repository>) -> (o: Option<Vec<(String, String)>>)
    ensures o is Some <==> remotes_of(*r) is Some, o is Some ==> o->Some_0@ == remotes_of(*r)->Some_0,
{ unimplemented!() }
/// `remotes.iter().any(|remote| patterns.iter().any(|pattern| pattern.matches(&remote.1)))` (documented behaviour of Iterator::any)
#[verifier::external_body]
fn opq_any_remote_matches(rs: &Vec<(String, String)>, ps: &Vec<Pattern>) -> (r: bool)
    ensures r == some_remote_matches(rs@, ps@),
{ unimplemented!() }
impl Config {
//#item file=src/config.rs kind=fn name=should_exclude_prompts impl="Config" opaque='[{"expr": "self .exclude_prompts_in_repositories .iter() .any(|pattern| pattern.as_str() == \"*\")", "call": "opq_has_wildcard(&self.exclude_prompts_in_repositories)"}, {"expr": "repository .as_ref() .and_then(|repo| repo.remotes_with_urls().ok())", "call": "opq_remotes(repository)"}, {"expr": "remotes.iter().any(|remote| { self.exclude_prompts_in_repositories .iter() .any(|pattern| pattern.matches(&remote.1)) })", "call": "opq_any_remote_matches(&remotes, &self.exclude_prompts_in_repositories)"}]'
    pub fn should_exclude_prompts(&self, repository: &Option<Repository>) -> (r_: bool)
    //@     ensures
    //@         // excluded exactly when the list is non-empty and either holds the wildcard or some remote matches some pattern;
    //@         // an unknown or empty remote list is excluded by the wildcard only
    //@         r_ == (self.exclude_prompts_in_repositories@.len() > 0 && (has_star(self.exclude_prompts_in_repositories@)
    //@             || (remotes_of(*repository) is Some && some_remote_matches(remotes_of(*repository)->Some_0, self.exclude_prompts_in_repositories@)))),
    {
        // Empty exclusion list = never exclude
        if self.exclude_prompts_in_repositories.is_empty() {
            return false;
        }

        // Check for wildcard "*" pattern - excludes ALL repos including local
        let has_wildcard = opq_has_wildcard(&self.exclude_prompts_in_repositories);
        if has_wildcard {
            return true;
        }

        // Fetch remotes
        let remotes = opq_remotes(repository);

        match remotes {
            Some(remotes) => {
                if remotes.is_empty() {
                    // No remotes = local-only repo, not excluded (unless wildcard, handled above)
                    false
                } else {
                    // Has remotes - check if any match exclusion patterns
                    opq_any_remote_matches(&remotes, &self.exclude_prompts_in_repositories)
                }
            }
            None => false, // Can't get remotes = don't exclude
        }
    }
//#end
}

} // verus!
fn main() {}
