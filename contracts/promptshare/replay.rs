// Replay driver for unit promptshare: the ORIGINAL Config::should_exclude_prompts with stand-ins for glob::Pattern (exact text
// or `prefix*`), Repository (a fixed remote list) and Config.  Oracle: excluded iff the wildcard is listed or SOME remote
// matches SOME pattern.
#![allow(dead_code, unused)]
#[derive(Clone, Debug)]
pub struct Pattern(pub String);
impl Pattern {
    pub fn as_str(&self) -> &str { &self.0 }
    pub fn matches(&self, s: &str) -> bool { match self.0.strip_suffix('*') { Some(p) => s.starts_with(p), None => s == self.0 } }
}
pub struct Repository { pub remotes: Option<Vec<(String, String)>> }
impl Repository { pub fn remotes_with_urls(&self) -> Result<Vec<(String, String)>, String> { self.remotes.clone().ok_or("git failed".to_string()) } }
pub struct Config { pub exclude_prompts_in_repositories: Vec<Pattern> }
include!("@ITEMS@");
struct Ctx { evaluated: u64, failed: std::collections::HashSet<String> }
impl Ctx {
    fn fail(&mut self, f: &str, clause: &str, input: String, observed: String, expected: String) {
        if self.failed.insert(format!("{}::{}", f, clause)) { println!("FAIL fn=[[{}]] clause=[[{}]] input=[[{}]] observed=[[{}]] expected=[[{}]]", f, clause, input, observed, expected); }
    }
}
const PATS: &[&str] = &["*", "https://github.com/acme/*", "git@corp:private.git", "https://mirror/*"];
const URLS: &[&str] = &["https://github.com/acme/app", "git@corp:private.git", "https://gitlab.com/me/x", "https://mirror/app"];
/// input: pattern indices | repo kind (none / fail / list of url indices)
fn chk(c: &mut Ctx, pats: &[usize], repo: &str) {
    c.evaluated += 1;
    let input = format!("{}|{}", pats.iter().map(|i| i.to_string()).collect::<Vec<_>>().join(","), repo);
    let cfg = Config { exclude_prompts_in_repositories: pats.iter().map(|i| Pattern(PATS[*i].to_string())).collect() };
    let urls: Option<Vec<(String, String)>> = match repo { "none" | "fail" => None, l => Some(l.split(',').filter(|x| !x.is_empty()).enumerate().map(|(k, i)| (format!("r{}", k), URLS[i.parse::<usize>().unwrap()].to_string())).collect()) };
    let r = if repo == "none" { None } else { Some(Repository { remotes: urls.clone() }) };
    let got = cfg.should_exclude_prompts(&r);
    let star = pats.iter().any(|i| PATS[*i] == "*");
    let want = !pats.is_empty() && (star || urls.as_ref().map(|u| u.iter().any(|(_, url)| cfg.exclude_prompts_in_repositories.iter().any(|p| p.matches(url)))).unwrap_or(false));
    if got != want { c.fail("Config::should_exclude_prompts", "ensures#0", input, format!("{}", got), format!("{}: excluded iff the wildcard is listed or SOME remote matches SOME pattern", want)); }
}
fn main() {
    let a: Vec<String> = std::env::args().collect();
    let mut c = Ctx { evaluated: 0, failed: Default::default() };
    if a[1] == "search" {
        let pat_sets: Vec<Vec<usize>> = vec![vec![], vec![0], vec![1], vec![2], vec![1, 2], vec![3, 1], vec![2, 0]];
        let repos = ["none", "fail", "", "0", "2", "0,2", "2,0", "2,1", "2,2", "0,1,3", "2,2,3"];
        for p in &pat_sets { for r in repos { chk(&mut c, p, r); } }
    } else { let (p, r) = a[3].split_once('|').unwrap(); let pats: Vec<usize> = p.split(',').filter(|x| !x.is_empty()).map(|x| x.parse().unwrap()).collect(); chk(&mut c, &pats, r); }
    println!("DONE evaluated={}", c.evaluated);
}
