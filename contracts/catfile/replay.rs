// Replay driver for unit catfile: the ORIGINAL batched readers against a stand-in git that answers from tables exactly as
// git-cat-file(1) documents (`<oid> SP <type> SP <size> LF <contents> LF`, `<name> SP missing LF`; --batch-check: header only) and
// records what it is asked.  Oracles are written from the property: every id / commit is paired with ITS OWN object / note.
#![allow(dead_code, unused)]
use std::collections::{HashMap, HashSet, BTreeMap};
use std::cell::RefCell;
#[derive(Debug)]
pub enum GitAiError { Generic(String), Utf8Error(std::str::Utf8Error), FromUtf8Error(std::string::FromUtf8Error) }
impl From<std::str::Utf8Error> for GitAiError { fn from(e: std::str::Utf8Error) -> Self { GitAiError::Utf8Error(e) } }
impl From<std::string::FromUtf8Error> for GitAiError { fn from(e: std::string::FromUtf8Error) -> Self { GitAiError::FromUtf8Error(e) } }
pub struct Output { pub stdout: Vec<u8> }
pub struct Repository { pub _opaque: () }
impl Repository { pub fn global_args_for_exec(&self) -> Vec<String> { vec!["-C".to_string(), "/r".to_string()] } }
const EMPTY_TREE: &str = "4b825dc642cb6eb9a060e54bf8d69288fbee4904";
thread_local! {
    /// object database: full name -> (type, content)
    static DB: RefCell<BTreeMap<String, (String, Vec<u8>)>> = Default::default();
    /// the tree of refs/notes/ai: path -> (type, object name)
    static NOTES: RefCell<BTreeMap<String, (String, String)>> = Default::default();
    static CALLS: RefCell<Vec<(Vec<String>, Vec<u8>)>> = Default::default();
}
fn exec_git(args: &[String]) -> Result<Output, GitAiError> {
    CALLS.with(|c| c.borrow_mut().push((args.to_vec(), vec![])));
    if args.iter().any(|a| a == "--empty-tree") { return Ok(Output { stdout: format!("{}\n", EMPTY_TREE).into_bytes() }); }
    Ok(Output { stdout: vec![] })
}
/// the documented protocol: one answer per input line, in order
fn exec_git_stdin(args: &[String], stdin: &[u8]) -> Result<Output, GitAiError> {
    CALLS.with(|c| c.borrow_mut().push((args.to_vec(), stdin.to_vec())));
    let mut out: Vec<u8> = vec![];
    let text = String::from_utf8_lossy(stdin).to_string();
    let mut names: Vec<&str> = text.split('\n').collect();
    if names.last() == Some(&"") { names.pop(); }
    let check = args.iter().any(|a| a == "--batch-check");
    for name in names {
        if check {
            let hit = name.strip_prefix("refs/notes/ai:").and_then(|p| NOTES.with(|n| n.borrow().get(p).cloned()));
            match hit { Some((ty, oid)) => out.extend_from_slice(format!("{} {} {}\n", oid, ty, 7).as_bytes()), None => out.extend_from_slice(format!("{} missing\n", name).as_bytes()) }
        } else {
            match DB.with(|d| d.borrow().get(name).cloned()) {
                Some((ty, content)) => { out.extend_from_slice(format!("{} {} {}\n", name, ty, content.len()).as_bytes()); out.extend_from_slice(&content); out.push(b'\n'); }
                None => out.extend_from_slice(format!("{} missing\n", name).as_bytes()),
            }
        }
    }
    Ok(Output { stdout: out })
}
include!("@ITEMS@");
use std::panic::{catch_unwind, AssertUnwindSafe};
struct Ctx { evaluated: u64, failed: std::collections::HashSet<String> }
impl Ctx {
    fn fail(&mut self, f: &str, clause: &str, input: String, observed: String, expected: String) {
        if self.failed.insert(format!("{}::{}", f, clause)) { println!("FAIL fn=[[{}]] clause=[[{}]] input=[[{}]] observed=[[{}]] expected=[[{}]]", f, clause, input, observed, expected); }
    }
}
fn guarded<T>(f: impl FnOnce() -> T) -> Result<T, String> {
    catch_unwind(AssertUnwindSafe(f)).map_err(|e| { let m = e.downcast_ref::<String>().cloned().or_else(|| e.downcast_ref::<&str>().map(|s| s.to_string())).unwrap_or_default(); format!("panic: {}", m) })
}
struct Rng(u64);
impl Rng { fn next(&mut self) -> u64 { self.0 ^= self.0 << 13; self.0 ^= self.0 >> 7; self.0 ^= self.0 << 17; self.0 } fn below(&mut self, n: u64) -> u64 { self.next() % n } }
fn hex(b: &[u8]) -> String { b.iter().map(|x| format!("{:02x}", x)).collect() }
fn unhex(s: &str) -> Vec<u8> { (0..s.len() / 2).map(|i| u8::from_str_radix(&s[2 * i..2 * i + 2], 16).unwrap()).collect() }
fn show(b: &[u8]) -> String { String::from_utf8_lossy(b).chars().map(|c| if c.is_ascii_graphic() || c == ' ' { c.to_string() } else { format!("\\u{{{:x}}}", c as u32) }).collect() }
fn oid(k: usize) -> String { let d = ["a", "b", "c", "d", "e", "f", "0", "7"][k % 8]; let mut s = d.repeat(38); s.push_str(&format!("{:02x}", k)); s }
fn fan_of(s: &str) -> String { if s.len() <= 2 { s.to_string() } else { format!("{}/{}", &s[..2], &s[2..]) } }

// ------------------------------------------------------------------------------------------------ parse_cat_file_batch_output_with_oids
/// contents that try to derail a reader that does not count: newlines, NULs, text that looks like an answer, invalid UTF-8
fn contents() -> Vec<Vec<u8>> {
    vec![b"".to_vec(), b"one line\n".to_vec(), b"no newline at end".to_vec(), b"\n".to_vec(), b"\n\n\n".to_vec(), b"a\0b\0\n".to_vec(),
         format!("{} blob 3\nabc\n", oid(5)).into_bytes(), format!("{} missing\n", oid(6)).into_bytes(), format!("x\n{} blob 100000\n", oid(7)).into_bytes(),
         b"\xff\xfe binary \x80\n".to_vec(), "h\u{e9}llo \u{1F600}\n".as_bytes().to_vec(), b"fn main() {\n    println!(\"hi\");\n}\n".to_vec(), b"blob".to_vec(), b" ".to_vec()]
}
/// answers: (name, None = missing | Some(content)); input encoding `name:hex|name:-|..`
fn enc_answers(a: &[(String, Option<Vec<u8>>)]) -> String { a.iter().map(|(n, c)| format!("{}:{}", n, match c { Some(c) => format!("h{}", hex(c)), None => "-".into() })).collect::<Vec<_>>().join("|") }
fn dec_answers(s: &str) -> Vec<(String, Option<Vec<u8>>)> { s.split('|').filter(|x| !x.is_empty()).map(|x| { let (n, c) = x.split_once(':').unwrap(); (n.to_string(), if c == "-" { None } else { Some(unhex(&c[1..])) }) }).collect() }
fn ser_answers(a: &[(String, Option<Vec<u8>>)]) -> Vec<u8> {
    let mut out = vec![];
    for (n, c) in a { match c { Some(c) => { out.extend_from_slice(format!("{} blob {}\n", n, c.len()).as_bytes()); out.extend_from_slice(c); out.push(b'\n'); } None => out.extend_from_slice(format!("{} missing\n", n).as_bytes()) } }
    out
}
fn chk_parse(c: &mut Ctx, a: &[(String, Option<Vec<u8>>)]) {
    c.evaluated += 1;
    let input = enc_answers(a);
    let data = ser_answers(a);
    let r = match guarded(|| parse_cat_file_batch_output_with_oids(&data)) { Err(p) => { c.fail("parse_cat_file_batch_output_with_oids", "safety", input, p, "no panic".into()); return; } Ok(r) => r };
    // expected: every name answered with an object maps to that object's content (a later answer for the same name wins)
    let mut want: BTreeMap<String, String> = BTreeMap::new();
    for (n, ct) in a { if let Some(ct) = ct { want.insert(n.clone(), String::from_utf8_lossy(ct).to_string()); } }
    match r {
        Err(e) => c.fail("parse_cat_file_batch_output_with_oids", "ensures#0", input, format!("Err({:?})", e), "Ok: the stream is well formed".into()),
        Ok(m) => { let got: BTreeMap<String, String> = m.into_iter().collect(); if got != want { c.fail("parse_cat_file_batch_output_with_oids", "ensures#0", input, format!("{:?}", got), format!("{:?}", want)); } }
    }
}
/// any bytes: no panic (an announced size that cannot be added to a position is the documented precondition sizes_fit, skipped)
fn huge_size(data: &[u8]) -> bool {
    String::from_utf8_lossy(data).split(|ch: char| ch.is_whitespace()).any(|w| w.len() >= 15 && w.trim_start_matches('+').chars().all(|ch| ch.is_ascii_digit()))
}
fn chk_parse_raw(c: &mut Ctx, data: &[u8], allow_huge: bool) {
    if !allow_huge && huge_size(data) { return; }
    c.evaluated += 1;
    if let Err(p) = guarded(|| parse_cat_file_batch_output_with_oids(data)) { c.fail("parse_cat_file_batch_output_with_oids", "safety", format!("raw:{}", hex(data)), p, "no panic".into()); }
}

// ------------------------------------------------------------------------------------------------ batch_read_blob_contents
/// input: `ids,..#name:hex|..` (the object database)
fn chk_batch(c: &mut Ctx, ids: &[String], db: &[(String, Option<Vec<u8>>)]) {
    c.evaluated += 1;
    let input = format!("{}#{}", ids.join(","), enc_answers(db));
    DB.with(|d| { let mut d = d.borrow_mut(); d.clear(); for (n, ct) in db { if let Some(ct) = ct { d.insert(n.clone(), ("blob".to_string(), ct.clone())); } } });
    CALLS.with(|c| c.borrow_mut().clear());
    let repo = Repository { _opaque: () };
    let r = match guarded(|| batch_read_blob_contents(&repo, ids)) { Err(p) => { c.fail("batch_read_blob_contents", "safety", input, p, "no panic".into()); return; } Ok(r) => r };
    let calls = CALLS.with(|c| c.borrow().clone());
    if ids.is_empty() { if !calls.is_empty() { c.fail("batch_read_blob_contents", "pre@opq_cat_file_batch#0", input.clone(), format!("{} git calls", calls.len()), "none".into()); } }
    else if calls.len() != 1 { c.fail("batch_read_blob_contents", "pre@opq_cat_file_batch#0", input.clone(), format!("{} git calls", calls.len()), "one".into()); }
    else {
        let want_args: Vec<String> = repo.global_args_for_exec().into_iter().chain(["cat-file".to_string(), "--batch".to_string()]).collect();
        if calls[0].0 != want_args { c.fail("batch_read_blob_contents", "pre@opq_cat_file_batch#0", input.clone(), format!("{:?}", calls[0].0), format!("{:?}", want_args)); }
        let want_stdin: Vec<u8> = ids.iter().flat_map(|i| format!("{}\n", i).into_bytes()).collect();
        if calls[0].1 != want_stdin { c.fail("batch_read_blob_contents", "pre@opq_cat_file_batch#1", input.clone(), show(&calls[0].1), show(&want_stdin)); }
    }
    let mut want: BTreeMap<String, String> = BTreeMap::new();
    for i in ids { if let Some((_, Some(ct))) = db.iter().find(|(n, ct)| n == i && ct.is_some()) { want.insert(i.clone(), String::from_utf8_lossy(ct).to_string()); } }
    match r {
        Err(e) => c.fail("batch_read_blob_contents", "ensures#0", input, format!("Err({:?})", e), "Ok".into()),
        Ok(m) => { let got: BTreeMap<String, String> = m.into_iter().collect(); if got != want { c.fail("batch_read_blob_contents", "ensures#0", input, format!("{:?}", got), format!("{:?}", want)); } }
    }
}

// ------------------------------------------------------------------------------------------------ notes
/// per commit where its note lives: 0 none, 1 flat blob, 2 fan-out blob, 3 both (different blobs; flat wins), 4 flat path is a tree
/// and the fan-out path a blob, 5 fan-out path is a tree (no note).  input: `sha=state,sha=state,..`
fn note_a(k: usize) -> String { let mut s = "1".repeat(38); s.push_str(&format!("{:02x}", k)); s }
fn note_b(k: usize) -> String { let mut s = "2".repeat(38); s.push_str(&format!("{:02x}", k)); s }
fn chk_notes(c: &mut Ctx, cs: &[(String, u8)]) {
    c.evaluated += 1;
    let input = cs.iter().map(|(s, st)| format!("{}={}", s, st)).collect::<Vec<_>>().join(",");
    let mut want: BTreeMap<String, String> = BTreeMap::new();
    // the state of a commit is that of its first mention
    let mut state: BTreeMap<String, (usize, u8)> = BTreeMap::new();
    for (k, (s, st)) in cs.iter().enumerate() { state.entry(s.clone()).or_insert((k, *st)); }
    NOTES.with(|n| { let mut n = n.borrow_mut(); n.clear();
        for (s, (k, st)) in &state {
            let (flat, fan) = (s.clone(), fan_of(s));
            match st {
                1 => { n.insert(flat, ("blob".into(), note_a(*k))); want.insert(s.clone(), note_a(*k)); }
                2 => { n.insert(fan, ("blob".into(), note_b(*k))); want.insert(s.clone(), note_b(*k)); }
                3 => { if flat != fan { n.insert(fan, ("blob".into(), note_b(*k))); } n.insert(flat, ("blob".into(), note_a(*k))); want.insert(s.clone(), note_a(*k)); }
                4 => { if flat != fan { n.insert(flat, ("tree".into(), note_a(*k))); n.insert(fan, ("blob".into(), note_b(*k))); want.insert(s.clone(), note_b(*k)); } }
                5 => { if flat != fan { n.insert(fan, ("tree".into(), note_b(*k))); } }
                _ => {}
            }
        }
    });
    CALLS.with(|c| c.borrow_mut().clear());
    let repo = Repository { _opaque: () };
    let shas: Vec<String> = cs.iter().map(|(s, _)| s.clone()).collect();
    let r = match guarded(|| note_blob_oids_for_commits(&repo, &shas)) { Err(p) => { c.fail("note_blob_oids_for_commits", "safety", input, p, "no panic".into()); return; } Ok(r) => r };
    let calls = CALLS.with(|c| c.borrow().clone());
    if shas.is_empty() { if !calls.is_empty() { c.fail("note_blob_oids_for_commits", "pre@opq_cat_file_check#0", input.clone(), format!("{} git calls", calls.len()), "none".into()); } }
    else if calls.len() != 1 { c.fail("note_blob_oids_for_commits", "pre@opq_cat_file_check#0", input.clone(), format!("{} git calls", calls.len()), "one".into()); }
    else {
        let want_args: Vec<String> = repo.global_args_for_exec().into_iter().chain(["cat-file".to_string(), "--batch-check".to_string()]).collect();
        if calls[0].0 != want_args { c.fail("note_blob_oids_for_commits", "pre@opq_cat_file_check#0", input.clone(), format!("{:?}", calls[0].0), format!("{:?}", want_args)); }
        let want_stdin: Vec<u8> = shas.iter().flat_map(|s| format!("refs/notes/ai:{}\nrefs/notes/ai:{}\n", s, fan_of(s)).into_bytes()).collect();
        if calls[0].1 != want_stdin { c.fail("note_blob_oids_for_commits", "pre@opq_cat_file_check#1", input.clone(), show(&calls[0].1), show(&want_stdin)); }
    }
    match r {
        Err(e) => c.fail("note_blob_oids_for_commits", "ensures#0", input, format!("Err({:?})", e), "Ok".into()),
        Ok(m) => { let got: BTreeMap<String, String> = m.into_iter().collect(); if got != want { c.fail("note_blob_oids_for_commits", "ensures#0", input, format!("{:?}", got), format!("{:?}", want)); } }
    }
}
fn chk_check_line(c: &mut Ctx, line: &str, want: Option<&str>) {
    c.evaluated += 1;
    match guarded(|| parse_batch_check_blob_oid(line)) {
        Err(p) => c.fail("parse_batch_check_blob_oid", "safety", line.to_string(), p, "no panic".into()),
        Ok(r) => if r.as_deref() != want { c.fail("parse_batch_check_blob_oid", "ensures#0", line.to_string(), format!("{:?}", r), format!("{:?}", want)); }
    }
}
fn chk_paths(c: &mut Ctx, s: &str) {
    c.evaluated += 1;
    match guarded(|| (notes_path_for_object(s), flat_note_pathspec_for_commit(s), fanout_note_pathspec_for_commit(s))) {
        Err(p) => c.fail("notes_path_for_object", "safety", s.to_string(), p, "no panic".into()),
        Ok((p, f, g)) => {
            if p != fan_of(s) { c.fail("notes_path_for_object", "ensures#0", s.to_string(), p.clone(), fan_of(s)); }
            if f != format!("refs/notes/ai:{}", s) { c.fail("flat_note_pathspec_for_commit", "ensures#0", s.to_string(), f, format!("refs/notes/ai:{}", s)); }
            if g != format!("refs/notes/ai:{}", fan_of(s)) { c.fail("fanout_note_pathspec_for_commit", "ensures#0", s.to_string(), g, format!("refs/notes/ai:{}", fan_of(s))); }
        }
    }
}

// ------------------------------------------------------------------------------------------------ commit objects (driver only)
/// a commit object per git's object format: header lines `tree`, `parent`*, `author`, `committer`, optional further headers (a
/// continuation line starts with a space), an EMPTY line, then the message.  input: `sha;tree;parent,parent;extra headers;message` joined by `|`, fields hex
#[derive(Clone, Debug)]
struct Cm { sha: String, tree: String, parents: Vec<String>, extra: String, msg: String, ty: String }
fn cm_bytes(m: &Cm) -> Vec<u8> {
    let mut s = format!("tree {}\n", m.tree);
    for p in &m.parents { s.push_str(&format!("parent {}\n", p)); }
    s.push_str("author A U Thor <a@example.com> 1700000000 +0000\ncommitter C O Mitter <c@example.com> 1700000000 +0000\n");
    s.push_str(&m.extra);
    s.push('\n');
    s.push_str(&m.msg);
    s.into_bytes()
}
fn enc_cms(asked: &[String], ms: &[Cm]) -> String {
    format!("{}#{}", asked.join(","), ms.iter().map(|m| format!("{};{};{};{};{};{}", m.sha, m.tree, m.parents.join(","), hex(m.extra.as_bytes()), hex(m.msg.as_bytes()), m.ty)).collect::<Vec<_>>().join("|"))
}
fn dec_cms(s: &str) -> (Vec<String>, Vec<Cm>) {
    let (a, b) = s.split_once('#').unwrap();
    (a.split(',').filter(|x| !x.is_empty()).map(|x| x.to_string()).collect(),
     b.split('|').filter(|x| !x.is_empty()).map(|x| { let f: Vec<&str> = x.split(';').collect(); Cm { sha: f[0].into(), tree: f[1].into(), parents: f[2].split(',').filter(|x| !x.is_empty()).map(|x| x.to_string()).collect(), extra: String::from_utf8(unhex(f[3])).unwrap(), msg: String::from_utf8(unhex(f[4])).unwrap(), ty: f[5].into() } }).collect())
}
fn load_db(ms: &[Cm]) { DB.with(|d| { let mut d = d.borrow_mut(); d.clear(); for m in ms { d.insert(m.sha.clone(), (m.ty.clone(), if m.ty == "commit" { cm_bytes(m) } else { m.msg.clone().into_bytes() })); } }); }
fn chk_meta(c: &mut Ctx, asked: &[String], ms: &[Cm]) {
    c.evaluated += 1;
    let input = enc_cms(asked, ms);
    load_db(ms); CALLS.with(|c| c.borrow_mut().clear());
    let repo = Repository { _opaque: () };
    // the region is the whole function after its early return for an empty list
    let r = match guarded(|| if asked.is_empty() { load_commit_metadata_batch(&repo, asked) } else { region_lm_all(&repo, asked) }) { Err(p) => { c.fail("region_lm_all", "safety", input, p, "no panic".into()); return; } Ok(r) => r };
    let calls = CALLS.with(|c| c.borrow().clone());
    if !asked.is_empty() {
        if calls.len() != 1 { c.fail("region_lm_all", "pre@opq_cat_file_batch#0", input.clone(), format!("{} git calls", calls.len()), "one".into()); }
        else {
            let want_args: Vec<String> = repo.global_args_for_exec().into_iter().chain(["cat-file".to_string(), "--batch".to_string()]).collect();
            if calls[0].0 != want_args { c.fail("region_lm_all", "pre@opq_cat_file_batch#0", input.clone(), format!("{:?}", calls[0].0), format!("{:?}", want_args)); }
            // every commit asked is named on a line of its own, and nothing else is asked (order / repetition are not fixed)
            let text = String::from_utf8_lossy(&calls[0].1).to_string();
            let lines: HashSet<&str> = text.strip_suffix('\n').unwrap_or("\u{0}").split('\n').collect();
            let want: HashSet<&str> = asked.iter().map(|s| s.as_str()).collect();
            if lines != want { c.fail("region_lm_all", "pre@opq_cat_file_batch#1", input.clone(), show(&calls[0].1), format!("one line per commit of {:?}", asked)); }
        }
    }
    let mut want: BTreeMap<String, (String, Option<String>)> = BTreeMap::new();
    for a in asked { if let Some(m) = ms.iter().find(|m| m.sha == *a && m.ty == "commit") { want.insert(a.clone(), (m.tree.clone(), m.parents.first().cloned())); } }
    match r {
        Err(e) => c.fail("region_lm_all", "ensures#0", input, format!("Err({:?})", e), "Ok".into()),
        Ok(m) => { let got: BTreeMap<String, (String, Option<String>)> = m.into_iter().map(|(k, v)| (k, (v.tree_oid, v.first_parent))).collect(); if got != want { c.fail("region_lm_all", "ensures#0", input, format!("{:?}", got), format!("{:?}", want)); } }
    }
}
/// build_first_parent_tree_pairs: per commit asked, in order, (commit, tree of its first parent or the empty tree, its own tree)
fn chk_pairs(c: &mut Ctx, asked: &[String], ms: &[Cm]) {
    c.evaluated += 1;
    let input = enc_cms(asked, ms);
    load_db(ms); CALLS.with(|c| c.borrow_mut().clear());
    let repo = Repository { _opaque: () };
    let r = match guarded(|| build_first_parent_tree_pairs(&repo, asked)) { Err(p) => { c.fail("build_first_parent_tree_pairs", "safety", input, p, "no panic".into()); return; } Ok(r) => r };
    let find = |s: &str| ms.iter().find(|m| m.sha == s && m.ty == "commit");
    let mut want: Option<Vec<(String, String, String)>> = Some(vec![]);
    for a in asked {
        let Some(m) = find(a) else { want = None; break; };
        let pt = match m.parents.first() { None => Some(EMPTY_TREE.to_string()), Some(p) => find(p).map(|pm| pm.tree.clone()) };
        match (pt, &mut want) { (Some(pt), Some(w)) => w.push((a.clone(), pt, m.tree.clone())), _ => { want = None; break; } }
    }
    match (r, want) {
        (Ok(got), Some(w)) => if got != w { c.fail("build_first_parent_tree_pairs", "ensures#0", input, format!("{:?}", got), format!("{:?}", w)); },
        (Err(e), Some(w)) => c.fail("build_first_parent_tree_pairs", "ensures#0", input, format!("Err({:?})", e), format!("{:?}", w)),
        (Ok(got), None) => c.fail("build_first_parent_tree_pairs", "ensures#1", input, format!("{:?}", got), "Err: a commit or a parent is not in the object database".into()),
        (Err(_), None) => {}
    }
}
const EXTRAS: &[&str] = &["", "encoding ISO-8859-1\n", "gpgsig -----BEGIN PGP SIGNATURE-----\n \n tree in a signature\n parent in a signature\n -----END PGP SIGNATURE-----\n", "mergetag object 1234\n type commit\n tag v1\n"];
/// message lines that only LOOK like headers; the two that a parentless commit is known to be misread on are replay-only (REPORT)
const MSGS: &[&str] = &["subject\n", "subject\n\nbody line\n", "", "tree-shaking on\n\n tree x\nparents: none\ntreex y\n", "no newline at end"];
const MSGS_KNOWN: &[&str] = &["initial\n\ntree shaking enabled\n", "initial\n\nparent directory listing fixed\n"];
fn gen_cms(g: &mut Rng, known: bool) -> (Vec<String>, Vec<Cm>) {
    let n = 1 + g.below(4) as usize;
    let mut ms: Vec<Cm> = vec![];
    for k in 0..n {
        let np = if k == 0 { 0 } else { g.below(3) as usize };
        let parents: Vec<String> = (0..np).map(|_| oid(g.below(k as u64) as usize)).collect();
        let msg = if known && parents.is_empty() { MSGS_KNOWN[g.below(2) as usize] } else { MSGS[g.below(MSGS.len() as u64) as usize] };
        // with a parent every message is read correctly (the scan stops at the first parent line): use the header look-alikes there too
        let msg = if !parents.is_empty() && g.below(3) == 0 { MSGS_KNOWN[g.below(2) as usize] } else { msg };
        ms.push(Cm { sha: oid(k), tree: oid(100 + k), parents, extra: EXTRAS[g.below(EXTRAS.len() as u64) as usize].to_string(), msg: msg.to_string(), ty: "commit".into() });
    }
    if g.below(4) == 0 { ms.push(Cm { sha: oid(50), tree: String::new(), parents: vec![], extra: String::new(), msg: "blob content\ntree not a commit\n".into(), ty: "blob".into() }); }
    let mut asked: Vec<String> = vec![];
    for _ in 0..(1 + g.below(5)) { let k = g.below(n as u64 + 2) as usize; asked.push(if k == n + 1 { oid(50) } else { oid(k) }); }   // oid(n): not in the database
    (asked, ms)
}

fn main() {
    std::panic::set_hook(Box::new(|_| {}));
    let a: Vec<String> = std::env::args().collect();
    let mut c = Ctx { evaluated: 0, failed: Default::default() };
    let want = |f: &str| a[2] == "*" || a[2] == f;
    if a[1] == "search" {
        let mut g = Rng(a[3].parse::<u64>().unwrap_or(0).wrapping_mul(0x9E3779B97F4A7C15) ^ 0x6a09e667f3bcc909);
        let cs = contents();
        if want("parse_cat_file_batch_output_with_oids") {
            // every stream of up to 3 answers: answer k is for object k, missing or one of the contents
            chk_parse(&mut c, &[]);
            for n in 1..=3usize { let mut idx = vec![0usize; n]; loop {
                let ans: Vec<(String, Option<Vec<u8>>)> = idx.iter().enumerate().map(|(k, &i)| (oid(k), if i == 0 { None } else { Some(cs[i - 1].clone()) })).collect();
                chk_parse(&mut c, &ans);
                let mut p = 0; while p < n { idx[p] += 1; if idx[p] <= cs.len() { break; } idx[p] = 0; p += 1; } if p == n { break; }
            } }
            for _ in 0..3000 {
                let n = g.below(7) as usize;
                let ans: Vec<(String, Option<Vec<u8>>)> = (0..n).map(|k| (oid(k), if g.below(4) == 0 { None } else if g.below(3) == 0 { Some((0..g.below(40)).map(|_| [b'\n', b' ', 0u8, b'a', b'7', 0xff][g.below(6) as usize]).collect()) } else { Some(cs[g.below(cs.len() as u64) as usize].clone()) })).collect();
                chk_parse(&mut c, &ans);
                // totality on truncated and damaged streams
                let data = ser_answers(&ans);
                if !data.is_empty() { let cut = g.below(data.len() as u64) as usize; chk_parse_raw(&mut c, &data[..cut], false); let mut d = data.clone(); let p = g.below(d.len() as u64) as usize; d[p] = [b'\n', b' ', b'9', 0xff, 0][g.below(5) as usize]; chk_parse_raw(&mut c, &d, false); }
            }
            for raw in [&b"\n"[..], b" \n", b"a\n", b"a b\n", b"a b c\n", b"a b 1\n", b"a b 1\nx", b"a b 0\n", b"a b 0", b"a missing", b"\xff b 1\nx\n", b"a b -1\n", b"a b +1\nx\n"] { chk_parse_raw(&mut c, raw, false); }
        }
        if want("batch_read_blob_contents") {
            chk_batch(&mut c, &[], &[]);
            for n in 1..=3usize { let mut idx = vec![0usize; n]; loop {
                let db: Vec<(String, Option<Vec<u8>>)> = idx.iter().enumerate().map(|(k, &i)| (oid(k), if i == 0 { None } else { Some(cs[(i - 1) * 2 % cs.len()].clone()) })).collect();
                let ids: Vec<String> = (0..n).map(oid).collect();
                chk_batch(&mut c, &ids, &db);
                let mut p = 0; while p < n { idx[p] += 1; if idx[p] <= 7 { break; } idx[p] = 0; p += 1; } if p == n { break; }
            } }
            for _ in 0..2000 {
                let n = 1 + g.below(6) as usize;
                let db: Vec<(String, Option<Vec<u8>>)> = (0..n).map(|k| (oid(k), if g.below(4) == 0 { None } else { Some(cs[g.below(cs.len() as u64) as usize].clone()) })).collect();
                let ids: Vec<String> = (0..1 + g.below(6)).map(|_| oid(g.below(n as u64 + 1) as usize)).collect();
                chk_batch(&mut c, &ids, &db);
            }
        }
        if want("note_blob_oids_for_commits") {
            chk_notes(&mut c, &[]);
            for n in 1..=3usize { let mut idx = vec![0u8; n]; loop {
                let v: Vec<(String, u8)> = idx.iter().enumerate().map(|(k, &i)| (oid(k), i)).collect();
                chk_notes(&mut c, &v);
                let mut p = 0; while p < n { idx[p] += 1; if idx[p] <= 5 { break; } idx[p] = 0; p += 1; } if p == n { break; }
            } }
            for _ in 0..2000 {
                let n = 1 + g.below(6) as usize;
                let v: Vec<(String, u8)> = (0..n).map(|_| { let k = g.below(6) as usize; (if g.below(12) == 0 { ["ab", "c", "abc"][g.below(3) as usize].to_string() } else if g.below(6) == 0 { oid(k).repeat(2)[..64].to_string() } else { oid(k) }, g.below(6) as u8) }).collect();
                chk_notes(&mut c, &v);
            }
        }
        if want("parse_batch_check_blob_oid") {
            let o = oid(3); let o64 = oid(3).repeat(2)[..64].to_string();
            for (l, w) in [(format!("{} blob 12", o), Some(o.as_str())), (format!("{} blob 12", o64), Some(o64.as_str())), (format!("{} tree 12", o), None), (format!("{} commit 12", o), None),
                           (format!("refs/notes/ai:{} missing", o), None), (format!("{} missing", o), None), (String::new(), None), (o.clone(), None),
                           (format!("{}x blob 1", &o[..39]), None), (format!("{} blob 1", &o[..39]), None), (format!("{}a blob 1", o), None), (format!("{}{} blob 1", o, o), None), ("blob blob blob".to_string(), None),
                           (format!("  {}   blob   5  ", o), Some(o.as_str())), (format!("{} blobs 5", o), None)] { chk_check_line(&mut c, &l, w); }
        }
        if want("notes_path_for_object") { for s in ["", "a", "ab", "abc", "abcdef0123", &oid(1), &oid(9)] { chk_paths(&mut c, s); } }
        if want("region_lm_all") { for _ in 0..3000 { let (asked, ms) = gen_cms(&mut g, false); chk_meta(&mut c, &asked, &ms); } chk_meta(&mut c, &[], &[]); }
        if want("build_first_parent_tree_pairs") { for _ in 0..3000 { let (asked, ms) = gen_cms(&mut g, false); chk_pairs(&mut c, &asked, &ms); } chk_pairs(&mut c, &[], &[]); }
        // the known findings, on demand only: `search known <seed>`
        if a[2] == "known" {
            for _ in 0..300 { let (asked, ms) = gen_cms(&mut g, true); chk_meta(&mut c, &asked, &ms); chk_pairs(&mut c, &asked, &ms); }
            chk_parse_raw(&mut c, b"a blob 18446744073709551615\n", true);
            chk_paths(&mut c, "a\u{e9}");
        }
    } else {
        match a[2].as_str() {
            "parse_cat_file_batch_output_with_oids" => { if let Some(h) = a[3].strip_prefix("raw:") { chk_parse_raw(&mut c, &unhex(h), true); } else { chk_parse(&mut c, &dec_answers(&a[3])); } }
            "batch_read_blob_contents" => { let (i, d) = a[3].split_once('#').unwrap(); let ids: Vec<String> = i.split(',').filter(|x| !x.is_empty()).map(|x| x.to_string()).collect(); chk_batch(&mut c, &ids, &dec_answers(d)); }
            "note_blob_oids_for_commits" => { let v: Vec<(String, u8)> = a[3].split(',').filter(|x| !x.is_empty()).map(|x| { let (s, t) = x.split_once('=').unwrap(); (s.to_string(), t.parse().unwrap()) }).collect(); chk_notes(&mut c, &v); }
            "parse_batch_check_blob_oid" => { let f: Vec<&str> = a[3].split_whitespace().collect(); let w = if f.len() >= 3 && f[1] == "blob" && (f[0].len() == 40 || f[0].len() == 64) && f[0].chars().all(|ch| ch.is_ascii_hexdigit()) { Some(f[0]) } else { None }; chk_check_line(&mut c, &a[3], w); }
            "notes_path_for_object" | "flat_note_pathspec_for_commit" | "fanout_note_pathspec_for_commit" => chk_paths(&mut c, &a[3]),
            "region_lm_all" | "load_commit_metadata_batch" => { let (asked, ms) = dec_cms(&a[3]); chk_meta(&mut c, &asked, &ms); }
            "build_first_parent_tree_pairs" => { let (asked, ms) = dec_cms(&a[3]); chk_pairs(&mut c, &asked, &ms); }
            _ => {}
        }
    }
    println!("DONE evaluated={}", c.evaluated);
}
