// Unit catfile — properties C02 / C15 / C05: the batched readers of git objects and notes.  Both the note-remapping shortcut and
// the per-commit replay read the ORIGINAL blobs and notes through these functions; an answer paired with the wrong id silently
// credits the wrong lines.  `git cat-file --batch` answers `<oid> SP <type> SP <size> LF <size bytes> LF` or `<name> SP missing LF`
// (git-cat-file(1), BATCH OUTPUT); `--batch-check` prints only the header line.  Proved: the parser IS a fold over that stream that
// takes every content by its announced size; for every list of well-formed answers - contents arbitrary bytes - the result maps
// every object name to its own content; what git is asked (command line, one name per line; two pathspecs per commit for notes).
use vstd::prelude::*;
use vstd::utf8::*;
use vstd::std_specs::iter::IteratorSpec;
verus! {

#[verifier::external_body] pub struct Repository { _o: () }
pub enum GitAiError { Generic(String) }
/// stand-in for std::process::Output (only stdout is read)
pub struct Output { pub stdout: Vec<u8> }
pub open spec fn sb(s: Seq<char>) -> Seq<u8> { encode_utf8(s) }
pub open spec fn views(v: Seq<String>) -> Seq<Seq<char>> { Seq::new(v.len(), |i: int| v[i]@) }
pub type SMap = Map<Seq<char>, Seq<char>>;

// ---------------------------------------------------------------- stand-in for std::collections::HashMap (new / insert only)
#[verifier::external_body]
#[verifier::reject_recursive_types(K)]
#[verifier::reject_recursive_types(V)]
pub struct HashMap<K, V> { _p: core::marker::PhantomData<(K, V)> }
pub uninterp spec fn mv<V>(m: HashMap<String, V>) -> Map<Seq<char>, V>;
impl<V> HashMap<String, V> {
    #[verifier::external_body]
    pub fn new() -> (r: Self)
        ensures mv(r) == Map::<Seq<char>, V>::empty(),
    { unimplemented!() }
    #[verifier::external_body]
    pub fn insert(&mut self, k: String, v: V) -> (r: Option<V>)
        ensures mv(*final(self)) == mv(*old(self)).insert(k@, v),
    { unimplemented!() }
}
/// the text view of a map of strings
pub open spec fn sm(m: HashMap<String, String>) -> SMap { Map::new(mv(m).dom(), |k: Seq<char>| mv(m)[k]@) }
proof fn lemma_sm_empty(m: HashMap<String, String>)
    requires mv(m) == Map::<Seq<char>, String>::empty(),
    ensures sm(m) == Map::<Seq<char>, Seq<char>>::empty(),
{ assert(sm(m) =~= Map::<Seq<char>, Seq<char>>::empty()); }
proof fn lemma_sm_insert(m0: HashMap<String, String>, m1: HashMap<String, String>, k: Seq<char>, v: String)
    requires mv(m1) == mv(m0).insert(k, v),
    ensures sm(m1) == sm(m0).insert(k, v@),
{ assert(sm(m1) =~= sm(m0).insert(k, v@)); }

// ---------------------------------------------------------------- byte / str helpers (rule O1)
pub open spec fn is_first(data: Seq<u8>, pos: int, x: u8, idx: int) -> bool {
    0 <= idx && pos + idx < data.len() && data[pos + idx] == x && forall|q: int| pos <= q < pos + idx ==> (#[trigger] data[q]) != x
}
/// `data[pos..].iter().position(|&b| b == X)`: the offset of the first X at or after pos; the slice index is its precondition
#[verifier::external_body]
fn opq_find_byte(data: &[u8], pos: usize, x: u8) -> (r: Option<usize>)
    requires pos <= data@.len(),
    ensures
        r is None ==> forall|q: int| pos <= q < data@.len() ==> (#[trigger] data@[q]) != x,
        r is Some ==> is_first(data@, pos as int, x, r.unwrap() as int),
{ unimplemented!() }
/// `std::str::from_utf8(&data[a..b])` (+ the `?` conversion of Utf8Error): Ok exactly for valid UTF-8 (vstd's definition)
#[verifier::external_body]
fn opq_utf8<'a>(data: &'a [u8], a: usize, b: usize) -> (r: Result<&'a str, GitAiError>)
    requires a <= b <= data@.len(),
    ensures r is Ok <==> valid_utf8(data@.subrange(a as int, b as int)), r is Ok ==> r->Ok_0@ == decode_utf8(data@.subrange(a as int, b as int)),
{ unimplemented!() }
/// the items of `str::split_whitespace` (uninterpreted)
pub uninterp spec fn ws_fields(s: Seq<char>) -> Seq<Seq<char>>;
pub open spec fn strs(v: Seq<&str>) -> Seq<Seq<char>> { Seq::new(v.len(), |i: int| v[i]@) }
#[verifier::external_body]
fn opq_ws_fields<'a>(s: &'a str) -> (r: Vec<&'a str>)
    ensures strs(r@) == ws_fields(s@),
{ unimplemented!() }
#[verifier::external_body]
fn opq_str_eq(a: &str, b: &str) -> (r: bool)
    ensures r == (a@ == b@),
{ unimplemented!() }
#[verifier::external_body]
fn opq_to_string(a: &str) -> (r: String)
    ensures r@ == a@,
{ unimplemented!() }
/// `str::parse::<usize>()` (uninterpreted: which texts are numbers, and their value), Err mapped to GitAiError
pub uninterp spec fn dec_usize(s: Seq<char>) -> Option<usize>;
#[verifier::external_body]
fn opq_parse_size(s: &str) -> (r: Result<usize, GitAiError>)
    ensures match dec_usize(s@) { Some(v) => r is Ok && r->Ok_0 == v, None => r is Err },
{ unimplemented!() }
/// `String::from_utf8_lossy(&data[a..b]).to_string()` (uninterpreted; the slice bounds are its precondition)
pub uninterp spec fn lossy(b: Seq<u8>) -> Seq<char>;
#[verifier::external_body]
fn opq_lossy(data: &[u8], a: usize, b: usize) -> (r: String)
    requires a <= b <= data@.len(),
    ensures r@ == lossy(data@.subrange(a as int, b as int)),
{ unimplemented!() }

// ---------------------------------------------------------------- the answer stream of `git cat-file --batch`, read as a fold
/// distance from pos to the next LF (to the end of the data when there is none)
pub open spec fn lf_off(data: Seq<u8>, pos: int) -> nat
    decreases data.len() - pos
{
    if pos < 0 || pos >= data.len() || data[pos] == 0x0au8 { 0 } else { 1 + lf_off(data, pos + 1) }
}
proof fn lemma_lf_none(data: Seq<u8>, pos: int)
    requires 0 <= pos <= data.len(), forall|q: int| pos <= q < data.len() ==> (#[trigger] data[q]) != 0x0au8,
    ensures pos + lf_off(data, pos) == data.len(),
    decreases data.len() - pos
{
    if pos < data.len() { lemma_lf_none(data, pos + 1); }
}
proof fn lemma_lf_first(data: Seq<u8>, pos: int, idx: int)
    requires 0 <= pos, is_first(data, pos, 0x0au8, idx),
    ensures lf_off(data, pos) == idx,
    decreases idx
{
    if idx > 0 { assert(data[pos] != 0x0au8); lemma_lf_first(data, pos + 1, idx - 1); }
}
/// what a header line says: not an object answer (`<name> SP missing`, or fewer than three fields: passed over), an object of
/// `size` bytes named `oid`, or unreadable
pub enum Hdr { Skip, Obj { oid: Seq<char>, size: usize }, Bad }
pub open spec fn MISSING() -> Seq<char> { "missing"@ }
pub open spec fn read_hdr(h: Seq<u8>) -> Hdr {
    if !valid_utf8(h) { Hdr::Bad } else {
        let f = ws_fields(decode_utf8(h));
        if f.len() < 2 || f[1] == MISSING() || f.len() < 3 { Hdr::Skip }
        else { match dec_usize(f[2]) { Some(size) => Hdr::Obj { oid: f[0], size }, None => Hdr::Bad } }
    }
}
/// THE FOLD: from position pos, with the objects read so far.  None = the parser reports an error.
pub open spec fn parse_from(data: Seq<u8>, pos: int, acc: SMap) -> Option<SMap>
    decreases data.len() - pos
{
    if pos < 0 || pos >= data.len() { Some(acc) } else {
        let e = pos + lf_off(data, pos);
        if e >= data.len() { Some(acc) }                       // no complete header line is left
        else { match read_hdr(data.subrange(pos, e)) {
            Hdr::Bad => None,
            Hdr::Skip => parse_from(data, e + 1, acc),
            Hdr::Obj { oid, size } => {
                let end = e + 1 + size;                         // the content is taken BY ITS SIZE, whatever bytes it holds
                if end > data.len() { None }
                else { parse_from(data, if end < data.len() && data[end] == 0x0au8 { end + 1 } else { end }, acc.insert(oid, lossy(data.subrange(e + 1, end)))) }
            },
        } }
    }
}
/// garbage only: no part of the data, read as a header line, announces a size that does not fit next to the data in a usize
/// (git never prints one: an announced size is followed by that many bytes).  See REPORT: without this `content_start + size` overflows.
pub open spec fn hdr_size(h: Seq<u8>) -> Option<usize> {
    if valid_utf8(h) && ws_fields(decode_utf8(h)).len() >= 3 { dec_usize(ws_fields(decode_utf8(h))[2]) } else { None }
}
pub open spec fn sizes_fit(data: Seq<u8>) -> bool {
    forall|p: int, e: int| 0 <= p <= e < data.len() ==> (#[trigger] hdr_size(data.subrange(p, e))) is Some ==> hdr_size(data.subrange(p, e))->Some_0 + data.len() < usize::MAX
}

//#item file=src/authorship/rebase_authorship.rs kind=fn name=parse_cat_file_batch_output_with_oids opaque='[{"expr": "data[pos..].iter().position(|&b| b == b\u0027\\n\u0027)", "call": "opq_find_byte(data, pos, 10u8)"}, {"expr": "std::str::from_utf8(&data[pos..header_end])?", "call": "opq_utf8(data, pos, header_end)?"}, {"expr": "header.split_whitespace().collect()", "call": "opq_ws_fields(header)"}, {"expr": "parts[0].to_string()", "call": "opq_to_string(parts[0])"}, {"expr": "parts[1] == \"missing\"", "call": "opq_str_eq(parts[1], \"missing\")"}, {"expr": "parts[2]\n            .parse()\n            .map_err(|e| GitAiError::Generic(format!(\"Invalid size in cat-file output: {}\", e)))?", "call": "opq_parse_size(parts[2])?"}, {"expr": "String::from_utf8_lossy(&data[content_start..content_end]).to_string()", "call": "opq_lossy(data, content_start, content_end)"}]'
fn parse_cat_file_batch_output_with_oids(
    data: &[u8],
) -> (r_: Result<HashMap<String, String>, GitAiError>)
//@     requires sizes_fit(data@),
//@     ensures
//@         // the result is the fold over the answer stream (Err exactly where the fold stops with an error)
//@         match parse_from(data@, 0, Map::empty()) { Some(m) => r_ is Ok && sm(r_->Ok_0) == m, None => r_ is Err },
{
    let mut results = HashMap::new();
    let mut pos = 0usize;
    //@ proof { lemma_sm_empty(results); }

    while pos < data.len()
    //@     invariant
    //@         pos <= data@.len(), sizes_fit(data@),
    //@         parse_from(data@, 0, Map::empty()) == parse_from(data@, pos as int, sm(results)),
    //@     ensures
    //@         parse_from(data@, 0, Map::empty()) == Some(sm(results)),
    //@     decreases data@.len() - pos,
    {
        //@ let ghost d = data@;
        //@ proof { if forall|q: int| pos <= q < d.len() ==> (#[trigger] d[q]) != 0x0au8 { lemma_lf_none(d, pos as int); } }
        let header_end = match opq_find_byte(data, pos, 10u8) {
            Some(idx) => pos + idx,
            None => break,
        };
        //@ proof { lemma_lf_first(d, pos as int, header_end - pos); }

        let header = opq_utf8(data, pos, header_end)?;
        let parts: Vec<&str> = opq_ws_fields(header);
        //@ proof { assert(forall|i: int| 0 <= i < parts@.len() ==> (#[trigger] parts@[i])@ == strs(parts@)[i]); }
        if parts.len() < 2 {
            pos = header_end + 1;
            continue;
        }

        let oid = opq_to_string(parts[0]);
        if opq_str_eq(parts[1], "missing") {
            pos = header_end + 1;
            continue;
        }

        if parts.len() < 3 {
            pos = header_end + 1;
            continue;
        }

        let size: usize = opq_parse_size(parts[2])?;
        //@ proof { assert(hdr_size(d.subrange(pos as int, header_end as int)) == Some(size)); }

        let content_start = header_end + 1;
        let content_end = content_start + size;
        if content_end > data.len() {
            return Err(GitAiError::Generic(
                "Malformed cat-file --batch output: truncated content".to_string(),
            ));
        }

        let content = opq_lossy(data, content_start, content_end);
        //@ let ghost r0 = results;
        results.insert(oid, content);
        //@ proof { lemma_sm_insert(r0, results, oid@, content); }

        pos = content_end;
        if pos < data.len() && data[pos] == b'\n' {
            pos += 1;
        }
    }

    Ok(results)
}
//#end

// ---------------------------------------------------------------- THEOREM: well-formed answers are paired with their own contents
/// one answer of `git cat-file --batch`: the header line h (without its LF) and, unless the object is missing, the content
pub struct Ans { pub h: Seq<u8>, pub missing: bool, pub oid: Seq<char>, pub ty: Seq<char>, pub content: Seq<u8> }
/// git-cat-file(1): `<oid> SP <type> SP <size> LF` resp. `<name> SP missing LF`.  ASSUMED about std: read with from_utf8 +
/// split_whitespace + parse::<usize>, such a line (names without white space) gives two fields ending in `missing`, resp. three
/// fields `<oid>`, a type that is not the word `missing`, and the decimal size = the length of the content.
pub open spec fn hdr_ok(a: Ans) -> bool {
    &&& forall|i: int| 0 <= i < a.h.len() ==> (#[trigger] a.h[i]) != 0x0au8
    &&& valid_utf8(a.h)
    &&& ({ let f = ws_fields(decode_utf8(a.h));
           if a.missing { f.len() == 2 && f[1] == MISSING() }
           else { f.len() == 3 && f[0] == a.oid && f[1] == a.ty && a.ty != MISSING() && dec_usize(f[2]) == Some(a.content.len() as usize) && a.content.len() <= usize::MAX } })
}
pub open spec fn blk_len(a: Ans) -> int { a.h.len() as int + 1 + (if a.missing { 0int } else { a.content.len() as int + 1 }) }
pub open spec fn off(ans: Seq<Ans>, k: int) -> int
    decreases k
{
    if k <= 0 { 0 } else { off(ans, k - 1) + blk_len(ans[k - 1]) }
}
/// the answer a starts at offset o of data: header, LF, and for an object its content - ANY bytes - and one more LF
#[verifier::opaque]
pub open spec fn ans_at(data: Seq<u8>, o: int, a: Ans) -> bool {
    &&& hdr_ok(a)
    &&& forall|i: int| 0 <= i < a.h.len() ==> data[o + i] == #[trigger] a.h[i]
    &&& data[o + a.h.len()] == 0x0au8
    &&& !a.missing ==> (forall|i: int| 0 <= i < a.content.len() ==> data[o + a.h.len() + 1 + i] == #[trigger] a.content[i]) && data[o + a.h.len() + 1 + a.content.len()] == 0x0au8
}
#[verifier::opaque]
pub open spec fn stream_ok(data: Seq<u8>, ans: Seq<Ans>) -> bool {
    data.len() == off(ans, ans.len() as int) && forall|k: int| 0 <= k < ans.len() ==> ans_at(data, off(ans, k), #[trigger] ans[k])
}
/// what the answers say, in order (a later answer for the same name overrides an earlier one)
pub open spec fn expected_from(ans: Seq<Ans>, k: int, acc: SMap) -> SMap
    decreases ans.len() - k
{
    if k < 0 || k >= ans.len() { acc } else { expected_from(ans, k + 1, if ans[k].missing { acc } else { acc.insert(ans[k].oid, lossy(ans[k].content)) }) }
}
proof fn lemma_off_le(ans: Seq<Ans>, a: int, b: int)
    requires 0 <= a <= b,
    ensures off(ans, a) <= off(ans, b), 0 <= off(ans, a),
    decreases b
{
    if a < b { lemma_off_le(ans, a, b - 1); } else if a > 0 { lemma_off_le(ans, a - 1, a - 1); }
}
/// where answer k lies: its header ends at the first LF after off(k); the `size` bytes after that LF are its content, whatever
/// they are, and one more LF follows
proof fn lemma_answer_shape(data: Seq<u8>, ans: Seq<Ans>, k: int)
    requires stream_ok(data, ans), 0 <= k < ans.len(),
    ensures ({
        let a = ans[k]; let o = off(ans, k); let e = o + a.h.len();
        &&& 0 <= o && off(ans, k + 1) == o + blk_len(a) && off(ans, k + 1) <= data.len() && hdr_ok(a)
        &&& lf_off(data, o) == a.h.len() && data.subrange(o, e) == a.h
        &&& !a.missing ==> data.subrange(e + 1, e + 1 + a.content.len()) == a.content && data[e + 1 + a.content.len()] == 0x0au8
    }),
{
    reveal(stream_ok);
    let a = ans[k]; let o = off(ans, k); let n = ans.len() as int;
    assert(ans_at(data, o, a));
    lemma_off_le(ans, 0, k); lemma_off_le(ans, k + 1, n);
    lemma_block_shape(data, o, a);
}
proof fn lemma_block_shape(data: Seq<u8>, o: int, a: Ans)
    requires ans_at(data, o, a), 0 <= o, o + blk_len(a) <= data.len(),
    ensures ({
        let e = o + a.h.len();
        &&& hdr_ok(a) && lf_off(data, o) == a.h.len() && data.subrange(o, e) == a.h
        &&& !a.missing ==> data.subrange(e + 1, e + 1 + a.content.len()) == a.content && data[e + 1 + a.content.len()] == 0x0au8
    }),
{
    reveal(ans_at);
    let e = o + a.h.len();
    assert forall|q: int| o <= q < e implies (#[trigger] data[q]) != 0x0au8 by { assert(a.h[q - o] != 0x0au8); assert(data[o + (q - o)] == a.h[q - o]); }
    assert(is_first(data, o, 0x0au8, a.h.len() as int));
    lemma_lf_first(data, o, a.h.len() as int);
    assert(data.subrange(o, e) =~= a.h) by { assert forall|i: int| 0 <= i < a.h.len() implies data.subrange(o, e)[i] == a.h[i] by { assert(data[o + i] == a.h[i]); } }
    if !a.missing {
        let c = a.content;
        assert(data.subrange(e + 1, e + 1 + c.len()) =~= c) by { assert forall|i: int| 0 <= i < c.len() implies data.subrange(e + 1, e + 1 + c.len())[i] == c[i] by { assert(data[o + a.h.len() + 1 + i] == c[i]); } }
    }
}
/// one answer moves the fold from off(k) to off(k + 1): a missing object consumes its line only, an object its header, exactly
/// `size` bytes and the LF after them
proof fn lemma_answer_step(data: Seq<u8>, ans: Seq<Ans>, k: int, acc: SMap)
    requires stream_ok(data, ans), 0 <= k < ans.len(),
    ensures parse_from(data, off(ans, k), acc) == parse_from(data, off(ans, k + 1), if ans[k].missing { acc } else { acc.insert(ans[k].oid, lossy(ans[k].content)) }),
{
    lemma_answer_shape(data, ans, k);
    let a = ans[k]; let o = off(ans, k); let e = o + a.h.len();
    assert(o < data.len() && e < data.len());
    assert(e == o + lf_off(data, o));
    if a.missing {
        assert(read_hdr(data.subrange(o, e)) is Skip);
        assert(parse_from(data, o, acc) == parse_from(data, e + 1, acc));
    } else {
        let end = e + 1 + a.content.len();
        assert(read_hdr(data.subrange(o, e)) == (Hdr::Obj { oid: a.oid, size: a.content.len() as usize }));
        assert(end <= data.len() - 1 && data[end] == 0x0au8);
        assert(parse_from(data, o, acc) == parse_from(data, end + 1, acc.insert(a.oid, lossy(data.subrange(e + 1, end)))));
    }
}
/// MAIN THEOREM: for EVERY list of well-formed answers - contents arbitrary bytes (LFs, NULs, text that looks like a header),
/// missing objects in between - the fold returns exactly what the answers say: no error, nothing shifted, nothing cut
pub proof fn theorem_stream(data: Seq<u8>, ans: Seq<Ans>, k: int, acc: SMap)
    requires stream_ok(data, ans), 0 <= k <= ans.len(),
    ensures parse_from(data, off(ans, k), acc) == Some(expected_from(ans, k, acc)),
    decreases ans.len() - k
{
    if k < ans.len() {
        lemma_answer_step(data, ans, k, acc);
        theorem_stream(data, ans, k + 1, if ans[k].missing { acc } else { acc.insert(ans[k].oid, lossy(ans[k].content)) });
    } else {
        reveal(stream_ok);
    }
}
/// the names answered with an object from position k on
pub open spec fn answered(ans: Seq<Ans>, k: int, key: Seq<char>) -> bool { exists|j: int| k <= j < ans.len() && !(#[trigger] ans[j]).missing && ans[j].oid == key }
/// what the fold holds: exactly the names answered with an object (plus what was there), and under a name the content of ITS
/// answer whenever all answers for that name carry the same content (git: the name is the hash of the content)
proof fn lemma_expected(ans: Seq<Ans>, k: int, acc: SMap, key: Seq<char>, v: Seq<char>)
    requires 0 <= k <= ans.len(),
    ensures
        expected_from(ans, k, acc).dom().contains(key) <==> acc.dom().contains(key) || answered(ans, k, key),
        (acc.dom().contains(key) ==> acc[key] == v) && (forall|j: int| k <= j < ans.len() && !(#[trigger] ans[j]).missing && ans[j].oid == key ==> lossy(ans[j].content) == v)
            && expected_from(ans, k, acc).dom().contains(key) ==> expected_from(ans, k, acc)[key] == v,
    decreases ans.len() - k
{
    if k < ans.len() {
        let acc1 = if ans[k].missing { acc } else { acc.insert(ans[k].oid, lossy(ans[k].content)) };
        lemma_expected(ans, k + 1, acc1, key, v);
        if answered(ans, k + 1, key) { let j = choose|j: int| k + 1 <= j < ans.len() && !(#[trigger] ans[j]).missing && ans[j].oid == key; assert(k <= j < ans.len() && !ans[j].missing && ans[j].oid == key); }
        if answered(ans, k, key) { let j = choose|j: int| k <= j < ans.len() && !(#[trigger] ans[j]).missing && ans[j].oid == key; if j > k { assert(k + 1 <= j < ans.len() && !ans[j].missing && ans[j].oid == key); } }
        if !ans[k].missing && ans[k].oid == key { assert(k <= k < ans.len() && !ans[k].missing && ans[k].oid == key); }
    }
}
/// PAIRING: answer j's content is what the result holds under answer j's name; a name without an object answer is absent
pub proof fn theorem_pairing(data: Seq<u8>, ans: Seq<Ans>, j: int)
    requires stream_ok(data, ans), 0 <= j < ans.len(),
        forall|i: int| 0 <= i < ans.len() && !(#[trigger] ans[i]).missing && ans[i].oid == ans[j].oid ==> ans[i].content == ans[j].content,
    ensures ({
        let m = parse_from(data, 0, Map::empty())->Some_0;
        &&& parse_from(data, 0, Map::empty()) is Some
        &&& !ans[j].missing ==> m.dom().contains(ans[j].oid) && m[ans[j].oid] == lossy(ans[j].content)
        &&& m.dom().contains(ans[j].oid) <==> answered(ans, 0, ans[j].oid)
    }),
{
    theorem_stream(data, ans, 0, Map::empty());
    lemma_expected(ans, 0, Map::empty(), ans[j].oid, lossy(ans[j].content));
    if !ans[j].missing { assert(0 <= j < ans.len() && !ans[j].missing && ans[j].oid == ans[j].oid); }
}
/// a well-formed stream never trips the overflow guard
proof fn lemma_stream_sizes_fit(data: Seq<u8>)
    requires data.len() + data.len() < usize::MAX, forall|p: int, e: int| 0 <= p <= e < data.len() ==> (#[trigger] hdr_size(data.subrange(p, e))) is Some ==> hdr_size(data.subrange(p, e))->Some_0 <= data.len(),
    ensures sizes_fit(data),
{ }

// ---------------------------------------------------------------- batch_read_blob_contents: what git is asked, what comes back
pub uninterp spec fn global_args() -> Seq<Seq<char>>;
#[verifier::external_body] fn opq_global_args() -> (r: Vec<String>) ensures views(r@) == global_args(), { unimplemented!() }
/// one name per line
pub open spec fn lines_of(ids: Seq<Seq<char>>, n: int) -> Seq<u8>
    decreases n
{
    if n <= 0 { Seq::<u8>::empty() } else { lines_of(ids, n - 1) + sb(ids[n - 1]) + seq![0x0au8] }
}
/// `ids.join("\n") + "\n"`: for a NON-EMPTY list (precondition) that is every element followed by LF (documented `join`)
#[verifier::external_body]
fn opq_join_lines(ids: &[String]) -> (r: String)
    requires ids@.len() > 0,
    ensures sb(r@) == lines_of(views(ids@), ids@.len() as int),
{ unimplemented!() }
/// a full object name as git prints it (40 / 64 hex digits); uninterpreted: only used as the caller's obligation
pub uninterp spec fn full_oid(s: Seq<char>) -> bool;
/// what the object database holds under a full object name (uninterpreted), and the header line git prints for it
pub uninterp spec fn git_obj(oid: Seq<char>) -> Option<Seq<u8>>;
pub uninterp spec fn git_hdr(oid: Seq<char>) -> Seq<u8>;
pub uninterp spec fn git_type(oid: Seq<char>) -> Seq<char>;
pub open spec fn answer_of(id: Seq<char>) -> Ans {
    Ans { h: git_hdr(id), missing: git_obj(id) is None, oid: id, ty: git_type(id), content: match git_obj(id) { Some(c) => c, None => Seq::empty() } }
}
pub open spec fn answers_of(ids: Seq<Seq<char>>) -> Seq<Ans> { Seq::new(ids.len(), |k: int| answer_of(ids[k])) }
pub open spec fn cat_file_args(mode: Seq<char>) -> Seq<Seq<char>> { global_args() + seq!["cat-file"@, mode] }
/// O1 stub for `exec_git_stdin(&args, stdin_data.as_bytes())`.  PRECONDITION (proved at the call site): the command line is
/// `cat-file --batch`, stdin is one FULL object name per line.  Postcondition = ASSUMED (git-cat-file(1)): one well-formed answer
/// per name asked, in the order asked; a full object name is echoed unchanged; `missing` exactly for names git does not have.
#[verifier::external_body]
fn opq_cat_file_batch(args: &Vec<String>, stdin: &String, Ghost(ids): Ghost<Seq<Seq<char>>>) -> (r: Result<Output, GitAiError>)
    requires views(args@) == cat_file_args("--batch"@), sb(stdin@) == lines_of(ids, ids.len() as int), forall|i: int| 0 <= i < ids.len() ==> full_oid(#[trigger] ids[i]),
    ensures r is Ok ==> stream_ok(r->Ok_0.stdout@, answers_of(ids)) && sizes_fit(r->Ok_0.stdout@),
{ unimplemented!() }
pub open spec fn listed(v: Seq<String>, x: Seq<char>) -> bool { exists|i: int| 0 <= i < v.len() && (#[trigger] v[i])@ == x }
/// the contract unit `collect` assumes for this function (its stub opq_batch_read), with git_blob = lossy . git_obj
pub open spec fn read_ok(m: SMap, ids: Seq<String>) -> bool {
    &&& forall|o: Seq<char>| listed(ids, o) ==> (m.dom().contains(o) <==> (#[trigger] git_obj(o)) is Some) && (m.dom().contains(o) ==> m[o] == lossy(git_obj(o)->Some_0))
    &&& forall|o: Seq<char>| m.dom().contains(o) ==> listed(ids, o)
}
proof fn lemma_read_ok(data: Seq<u8>, ids: Seq<String>)
    requires stream_ok(data, answers_of(views(ids))),
    ensures parse_from(data, 0, Map::empty()) is Some, read_ok(parse_from(data, 0, Map::empty())->Some_0, ids),
{
    let ans = answers_of(views(ids));
    theorem_stream(data, ans, 0, Map::empty());
    let m = expected_from(ans, 0, Map::empty());
    assert forall|o: Seq<char>| listed(ids, o) implies (m.dom().contains(o) <==> (#[trigger] git_obj(o)) is Some) && (m.dom().contains(o) ==> m[o] == lossy(git_obj(o)->Some_0)) by {
        let i = choose|i: int| 0 <= i < ids.len() && (#[trigger] ids[i])@ == o;
        let v = match git_obj(o) { Some(c) => lossy(c), None => Seq::empty() };
        lemma_expected(ans, 0, Map::empty(), o, v);
        if git_obj(o) is Some { assert(0 <= i < ans.len() && !ans[i].missing && ans[i].oid == o); }
        if answered(ans, 0, o) { let j = choose|j: int| 0 <= j < ans.len() && !(#[trigger] ans[j]).missing && ans[j].oid == o; assert(ans[j].oid == views(ids)[j]); }
    }
    assert forall|o: Seq<char>| m.dom().contains(o) implies listed(ids, o) by {
        lemma_expected(ans, 0, Map::empty(), o, Seq::empty());
        let j = choose|j: int| 0 <= j < ans.len() && !(#[trigger] ans[j]).missing && ans[j].oid == o;
        assert(0 <= j < ids.len() && ids[j]@ == o);
    }
}

//#item file=src/authorship/rebase_authorship.rs kind=fn name=batch_read_blob_contents opaque='[{"expr": "repo.global_args_for_exec()", "call": "opq_global_args()"}, {"expr": "blob_oids.join(\"\\n\") + \"\\n\"", "call": "opq_join_lines(blob_oids)"}, {"expr": "exec_git_stdin(&args, stdin_data.as_bytes())", "call": "opq_cat_file_batch(&args, &stdin_data, Ghost(views(blob_oids@)))"}]'
fn batch_read_blob_contents(
    repo: &Repository,
    blob_oids: &[String],
) -> (r_: Result<HashMap<String, String>, GitAiError>)
//@     requires forall|i: int| 0 <= i < blob_oids@.len() ==> full_oid(#[trigger] blob_oids@[i]@),
//@     ensures
//@         // every id asked is paired with the content git stores under THAT id; ids git does not have are absent; nothing else
//@         r_ is Ok ==> read_ok(sm(r_->Ok_0), blob_oids@),
{
    if blob_oids.is_empty() {
        return Ok(HashMap::new());
    }

    let mut args = opq_global_args();
    args.push("cat-file".to_string());
    args.push("--batch".to_string());
    //@ proof { assert(views(args@) =~= cat_file_args("--batch"@)); }

    let stdin_data = opq_join_lines(blob_oids);
    let output = opq_cat_file_batch(&args, &stdin_data, Ghost(views(blob_oids@)))?;
    //@ proof { lemma_read_ok(output.stdout@, blob_oids@); }

    parse_cat_file_batch_output_with_oids(&output.stdout)
}
//#end

// ---------------------------------------------------------------- notes: where a commit's note lives, and how it is looked up
/// `str::len`: the length of the UTF-8 encoding
#[verifier::external_body] fn opq_str_len(s: &str) -> (r: usize) ensures r == sb(s@).len(), { unimplemented!() }
/// the fan-out layout of a notes tree: `ab/cdef..` for the object `abcdef..` (names of at most two bytes stay as they are)
pub open spec fn fan_bytes(b: Seq<u8>) -> Seq<u8> { if b.len() <= 2 { b } else { b.subrange(0, 2) + seq![0x2fu8] + b.subrange(2, b.len() as int) } }
/// garbage only: `&oid[..2]` needs a character boundary at byte 2 (hex object names are ASCII); see REPORT
pub open spec fn cb2(s: Seq<char>) -> bool { sb(s).len() <= 2 || is_char_boundary(sb(s), 2) }
/// `format!("{}/{}", &oid[..2], &oid[2..])`: the str slices carry their precondition
#[verifier::external_body]
fn opq_fmt_fanout(oid: &str) -> (r: String)
    requires sb(oid@).len() >= 2, is_char_boundary(sb(oid@), 2),
    ensures sb(r@) == sb(oid@).subrange(0, 2) + seq![0x2fu8] + sb(oid@).subrange(2, sb(oid@).len() as int),
{ unimplemented!() }
/// `format!("<prefix>{}", x)`: the literal prefix followed by x
#[verifier::external_body]
fn opq_fmt_after(x: &str, prefix: &str) -> (r: String)
    ensures sb(r@) == sb(prefix@) + sb(x@),
{ unimplemented!() }
#[verifier::external_body]
fn opq_fmt_after_owned(x: String, prefix: &str) -> (r: String)
    ensures sb(r@) == sb(prefix@) + sb(x@),
{ unimplemented!() }
pub open spec fn NOTES_REF() -> Seq<u8> { sb("refs/notes/ai:"@) }
pub open spec fn flat_name(sha: Seq<char>) -> Seq<u8> { NOTES_REF() + sb(sha) }
pub open spec fn fan_name(sha: Seq<char>) -> Seq<u8> { NOTES_REF() + fan_bytes(sb(sha)) }

//#item file=src/git/refs.rs kind=fn name=notes_path_for_object opaque='[{"expr": "oid.len()", "call": "opq_str_len(oid)"}, {"expr": "oid.to_string()", "call": "opq_to_string(oid)"}, {"expr": "format!(\"{}/{}\", &oid[..2], &oid[2..])", "call": "opq_fmt_fanout(oid)"}]'
fn notes_path_for_object(oid: &str) -> (r_: String)
//@     requires cb2(oid@),
//@     ensures sb(r_@) == fan_bytes(sb(oid@)),
{
    if opq_str_len(oid) <= 2 {
        opq_to_string(oid)
    } else {
        opq_fmt_fanout(oid)
    }
}
//#end
//#item file=src/git/refs.rs kind=fn name=flat_note_pathspec_for_commit opaque='[{"expr": "format!(\"refs/notes/ai:{}\", commit_sha)", "call": "opq_fmt_after(commit_sha, \"refs/notes/ai:\")"}]'
fn flat_note_pathspec_for_commit(commit_sha: &str) -> (r_: String)
//@     ensures sb(r_@) == flat_name(commit_sha@),
{
    opq_fmt_after(commit_sha, "refs/notes/ai:")
}
//#end
//#item file=src/git/refs.rs kind=fn name=fanout_note_pathspec_for_commit opaque='[{"expr": "format!(\"refs/notes/ai:{}\", notes_path_for_object(commit_sha))", "call": "opq_fmt_after_owned(notes_path_for_object(commit_sha), \"refs/notes/ai:\")"}]'
fn fanout_note_pathspec_for_commit(commit_sha: &str) -> (r_: String)
//@     requires cb2(commit_sha@),
//@     ensures sb(r_@) == fan_name(commit_sha@),
{
    opq_fmt_after_owned(notes_path_for_object(commit_sha), "refs/notes/ai:")
}
//#end

/// `parts.first().copied().unwrap_or_default()`
#[verifier::external_body]
fn opq_first_or_empty<'a>(parts: &Vec<&'a str>) -> (r: &'a str)
    ensures r@ == (if parts@.len() > 0 { parts@[0]@ } else { Seq::<char>::empty() }),
{ unimplemented!() }
/// u8::is_ascii_hexdigit: 0-9, a-f, A-F
pub open spec fn hexdigit(b: u8) -> bool { (0x30 <= b <= 0x39) || (0x61 <= b <= 0x66) || (0x41 <= b <= 0x46) }
pub open spec fn all_hex(b: Seq<u8>) -> bool { forall|i: int| 0 <= i < b.len() ==> hexdigit(#[trigger] b[i]) }
#[verifier::external_body]
fn opq_all_hex(s: &str) -> (r: bool)
    ensures r == all_hex(sb(s@)),
{ unimplemented!() }
pub open spec fn BLOB() -> Seq<char> { "blob"@ }
/// a `--batch-check` answer line `<oid> SP <type> SP <size>`: the object name when it is a full (40 / 64 hex digits) name and the
/// type is blob; `<name> SP missing` lines, trees, anything else: no blob
pub open spec fn blob_oid_of(line: Seq<char>) -> Option<Seq<char>> {
    let f = ws_fields(line);
    if f.len() >= 2 && f[1] == BLOB() && (sb(f[0]).len() == 40 || sb(f[0]).len() == 64) && all_hex(sb(f[0])) { Some(f[0]) } else { None }
}
pub open spec fn opt_is(r: Option<String>, o: Option<Seq<char>>) -> bool { match o { Some(x) => r is Some && r->Some_0@ == x, None => r is None } }

//#item file=src/git/refs.rs kind=fn name=parse_batch_check_blob_oid opaque='[{"expr": "line.split_whitespace().collect()", "call": "opq_ws_fields(line)"}, {"expr": "parts.first().copied().unwrap_or_default()", "call": "opq_first_or_empty(&parts)"}, {"expr": "oid.len()", "call": "opq_str_len(oid)"}, {"expr": "parts[1] == \"blob\"", "call": "opq_str_eq(parts[1], \"blob\")"}, {"expr": "oid.as_bytes().iter().all(|b| b.is_ascii_hexdigit())", "call": "opq_all_hex(oid)"}, {"expr": "oid.to_string()", "call": "opq_to_string(oid)"}]'
fn parse_batch_check_blob_oid(line: &str) -> (r_: Option<String>)
//@     ensures opt_is(r_, blob_oid_of(line@)),
{
    let parts: Vec<&str> = opq_ws_fields(line);
    //@ proof { assert(forall|i: int| 0 <= i < parts@.len() ==> (#[trigger] parts@[i])@ == strs(parts@)[i]); }
    let oid = opq_first_or_empty(&parts);
    let valid_oid_len = opq_str_len(oid) == 40 || opq_str_len(oid) == 64;
    if parts.len() >= 2
        && opq_str_eq(parts[1], "blob")
        && valid_oid_len
        && opq_all_hex(oid)
    {
        Some(opq_to_string(oid))
    } else {
        None
    }
}
//#end

/// Option::or_else with its documented meaning: the value itself when it is Some, otherwise whatever the closure returns
pub assume_specification<T, F: FnOnce() -> Option<T>> [Option::<T>::or_else] (o: Option<T>, f: F) -> (r: Option<T>)
    requires o is None ==> f.requires(()),
    ensures o is Some ==> r == o, o is None ==> f.ensures((), r);
#[verifier::external_body] fn opq_new_string() -> (r: String) ensures sb(r@) == Seq::<u8>::empty(), { unimplemented!() }
#[verifier::external_body] fn opq_push_owned(s: &mut String, x: String) ensures sb(final(s)@) == sb(old(s)@) + sb(x@), { unimplemented!() }
#[verifier::external_body] fn opq_push_byte(s: &mut String, c: char) requires (c as u32) < 128, ensures sb(final(s)@) == sb(old(s)@).push(c as u8), { unimplemented!() }
/// `String::from_utf8(bytes)?`
#[verifier::external_body]
fn opq_utf8_owned(b: Vec<u8>) -> (r: Result<String, GitAiError>)
    ensures r is Ok <==> valid_utf8(b@), r is Ok ==> r->Ok_0@ == decode_utf8(b@),
{ unimplemented!() }
/// `str::lines` (uninterpreted: the lines of a text), consumed front to back
pub uninterp spec fn str_lines(s: Seq<char>) -> Seq<Seq<char>>;
#[verifier::external_body] pub struct Lines<'a> { _o: &'a str }
pub uninterp spec fn lrest(l: Lines) -> Seq<Seq<char>>;
#[verifier::external_body] fn opq_lines<'a>(s: &'a String) -> (r: Lines<'a>) ensures lrest(r) == str_lines(s@), { unimplemented!() }
#[verifier::external_body]
fn opq_next_line<'a>(l: &mut Lines<'a>) -> (r: Option<&'a str>)
    ensures match r {
        Some(x) => lrest(*old(l)).len() > 0 && x@ == lrest(*old(l))[0] && lrest(*final(l)) == lrest(*old(l)).skip(1),
        None => lrest(*old(l)).len() == 0 && lrest(*final(l)) == lrest(*old(l)),
    },
{ unimplemented!() }
/// `lines.next().unwrap_or_default()`
#[verifier::external_body]
fn opq_next_or_empty<'a>(l: &mut Lines<'a>) -> (r: &'a str)
    ensures
        lrest(*old(l)).len() > 0 ==> r@ == lrest(*old(l))[0] && lrest(*final(l)) == lrest(*old(l)).skip(1),
        lrest(*old(l)).len() == 0 ==> r@ == Seq::<char>::empty() && lrest(*final(l)) == lrest(*old(l)),
{ unimplemented!() }

/// what git is asked: per commit TWO lines, the flat pathspec and the fan-out pathspec of its note
pub open spec fn notes_stdin(shas: Seq<Seq<char>>, n: int) -> Seq<u8>
    decreases n
{
    if n <= 0 { Seq::<u8>::empty() } else { notes_stdin(shas, n - 1) + flat_name(shas[n - 1]) + seq![0x0au8] + fan_name(shas[n - 1]) + seq![0x0au8] }
}
/// a commit name that can stand on a line of its own
pub open spec fn sha_ok(s: Seq<char>) -> bool { cb2(s) && forall|i: int| 0 <= i < sb(s).len() ==> (#[trigger] sb(s)[i]) != 0x0au8 }
/// THE FOLD over the answer lines, from commit k on: commit k reads lines 2k (flat) and 2k + 1 (fan-out) - never any other -, its
/// note is the flat answer when that is a blob, else the fan-out answer when that is a blob; the reading stops when the lines run out
pub open spec fn first_blob(flat: Seq<char>, fan: Seq<char>) -> Option<Seq<char>> { match blob_oid_of(flat) { Some(x) => Some(x), None => blob_oid_of(fan) } }
pub open spec fn notes_fold(shas: Seq<Seq<char>>, lines: Seq<Seq<char>>, k: int, acc: SMap) -> SMap
    decreases shas.len() - k
{
    if k < 0 || k >= shas.len() || 2 * k >= lines.len() { acc } else {
        let fan = if 2 * k + 1 < lines.len() { lines[2 * k + 1] } else { Seq::<char>::empty() };
        notes_fold(shas, lines, k + 1, match first_blob(lines[2 * k], fan) { Some(x) => acc.insert(shas[k], x), None => acc })
    }
}
/// what the notes tree holds at a path `refs/notes/ai:<path>`: a blob id, or nothing / not a blob (uninterpreted)
pub uninterp spec fn git_blob_at(name: Seq<u8>) -> Option<Seq<char>>;
/// the note of a commit: the flat entry when it is a blob, else the fan-out entry
pub open spec fn note_of(sha: Seq<char>) -> Option<Seq<char>> { match git_blob_at(flat_name(sha)) { Some(x) => Some(x), None => git_blob_at(fan_name(sha)) } }
/// ASSUMED (git-cat-file(1), --batch-check): exactly one answer line per name asked, in the order asked; read by `str::lines` and
/// blob_oid_of a line says what git holds under that name
pub open spec fn check_out_ok(out: Seq<u8>, shas: Seq<Seq<char>>) -> bool {
    let l = str_lines(decode_utf8(out));
    &&& valid_utf8(out) && l.len() == 2 * shas.len()
    &&& forall|k: int| 0 <= k < shas.len() ==> blob_oid_of(#[trigger] l[2 * k]) == git_blob_at(flat_name(shas[k]))
    &&& forall|k: int| 0 <= k < shas.len() ==> blob_oid_of(#[trigger] l[2 * k + 1]) == git_blob_at(fan_name(shas[k]))
}
/// whether git keeps to its documentation in this run (uninterpreted: totality is proved for ANY output, the pairing under it)
pub uninterp spec fn git_conforms() -> bool;
#[verifier::external_body]
fn opq_cat_file_check(args: &Vec<String>, stdin: &String, Ghost(shas): Ghost<Seq<Seq<char>>>) -> (r: Result<Output, GitAiError>)
    requires views(args@) == cat_file_args("--batch-check"@), sb(stdin@) == notes_stdin(shas, shas.len() as int), forall|i: int| 0 <= i < shas.len() ==> sha_ok(#[trigger] shas[i]),
    ensures r is Ok && git_conforms() ==> check_out_ok(r->Ok_0.stdout@, shas),
{ unimplemented!() }
proof fn lemma_notes_stdin_prefix(a: Seq<Seq<char>>, b: Seq<Seq<char>>, n: int)
    requires 0 <= n <= a.len(), n <= b.len(), forall|i: int| 0 <= i < n ==> a[i] == b[i],
    ensures notes_stdin(a, n) == notes_stdin(b, n),
    decreases n
{
    if n > 0 { lemma_notes_stdin_prefix(a, b, n - 1); }
}
/// every commit asked is paired with ITS OWN note (flat layout preferred, fan-out layout otherwise), commits without a note are absent
pub open spec fn notes_ok(m: SMap, shas: Seq<String>) -> bool {
    &&& forall|s: Seq<char>| listed(shas, s) ==> (m.dom().contains(s) <==> (#[trigger] note_of(s)) is Some) && (m.dom().contains(s) ==> m[s] == note_of(s)->Some_0)
    &&& forall|s: Seq<char>| m.dom().contains(s) ==> listed(shas, s)
}
/// THEOREM (notes): under the assumed answer shape the fold pairs commit k with lines 2k / 2k + 1, i.e. with its own note
proof fn lemma_notes_fold(shas: Seq<Seq<char>>, l: Seq<Seq<char>>, k: int, acc: SMap, key: Seq<char>)
    requires 0 <= k <= shas.len(), l.len() == 2 * shas.len(),
        forall|j: int| 0 <= j < shas.len() ==> blob_oid_of(#[trigger] l[2 * j]) == git_blob_at(flat_name(shas[j])),
        forall|j: int| 0 <= j < shas.len() ==> blob_oid_of(#[trigger] l[2 * j + 1]) == git_blob_at(fan_name(shas[j])),
        acc.dom().contains(key) ==> note_of(key) is Some && acc[key] == note_of(key)->Some_0,
    ensures ({
        let m = notes_fold(shas, l, k, acc);
        &&& m.dom().contains(key) <==> acc.dom().contains(key) || (note_of(key) is Some && exists|j: int| k <= j < shas.len() && #[trigger] shas[j] == key)
        &&& m.dom().contains(key) ==> note_of(key) is Some && m[key] == note_of(key)->Some_0
    }),
    decreases shas.len() - k
{
    if k < shas.len() {
        let fan = l[2 * k + 1];
        let o = first_blob(l[2 * k], fan);
        assert(o == note_of(shas[k]));
        let acc1 = match o { Some(x) => acc.insert(shas[k], x), None => acc };
        lemma_notes_fold(shas, l, k + 1, acc1, key);
        if note_of(key) is Some && exists|j: int| k + 1 <= j < shas.len() && #[trigger] shas[j] == key { let j = choose|j: int| k + 1 <= j < shas.len() && #[trigger] shas[j] == key; assert(k <= j < shas.len() && shas[j] == key); }
        if note_of(key) is Some && exists|j: int| k <= j < shas.len() && #[trigger] shas[j] == key { let j = choose|j: int| k <= j < shas.len() && #[trigger] shas[j] == key; if j > k { assert(k + 1 <= j < shas.len() && shas[j] == key); } }
        if shas[k] == key { assert(k <= k < shas.len() && shas[k] == key); }
    }
}
proof fn theorem_notes(out: Seq<u8>, shas: Seq<String>)
    requires check_out_ok(out, views(shas)),
    ensures notes_ok(notes_fold(views(shas), str_lines(decode_utf8(out)), 0, Map::empty()), shas),
{
    let vs = views(shas); let l = str_lines(decode_utf8(out)); let m = notes_fold(vs, l, 0, Map::empty());
    assert forall|s: Seq<char>| listed(shas, s) implies (m.dom().contains(s) <==> (#[trigger] note_of(s)) is Some) && (m.dom().contains(s) ==> m[s] == note_of(s)->Some_0) by {
        lemma_notes_fold(vs, l, 0, Map::empty(), s);
        let i = choose|i: int| 0 <= i < shas.len() && (#[trigger] shas[i])@ == s;
        assert(0 <= i < vs.len() && vs[i] == s);
    }
    assert forall|s: Seq<char>| m.dom().contains(s) implies listed(shas, s) by {
        lemma_notes_fold(vs, l, 0, Map::empty(), s);
        let j = choose|j: int| 0 <= j < vs.len() && #[trigger] vs[j] == s;
        assert(0 <= j < shas.len() && shas[j]@ == s);
    }
}
/// lines consumed after k commits
pub open spec fn consumed(k: int, n: int) -> int { if 2 * k <= n { 2 * k } else { n } }

//#item file=src/git/refs.rs kind=fn name=note_blob_oids_for_commits opaque='[{"expr": "repo.global_args_for_exec()", "call": "opq_global_args()"}, {"expr": "String::new()", "call": "opq_new_string()"}, {"expr": "stdin_data.push_str(&flat_note_pathspec_for_commit(commit_sha))", "call": "opq_push_owned(&mut stdin_data, flat_note_pathspec_for_commit(commit_sha))"}, {"expr": "stdin_data.push_str(&fanout_note_pathspec_for_commit(commit_sha))", "call": "opq_push_owned(&mut stdin_data, fanout_note_pathspec_for_commit(commit_sha))"}, {"expr": "stdin_data.push(\u0027\\n\u0027)", "call": "opq_push_byte(&mut stdin_data, \u0027\\n\u0027)"}, {"expr": "exec_git_stdin(&args, stdin_data.as_bytes())", "call": "opq_cat_file_check(&args, &stdin_data, Ghost(views(commit_shas@)))"}, {"expr": "String::from_utf8(output.stdout)?", "call": "opq_utf8_owned(output.stdout)?"}, {"expr": "stdout.lines()", "call": "opq_lines(&stdout)"}, {"expr": "lines.next().unwrap_or_default()", "call": "opq_next_or_empty(&mut lines)"}, {"expr": "lines.next()", "call": "opq_next_line(&mut lines)"}]'
pub fn note_blob_oids_for_commits(
    repo: &Repository,
    commit_shas: &[String],
) -> (r_: Result<HashMap<String, String>, GitAiError>)
//@     requires forall|i: int| 0 <= i < commit_shas@.len() ==> sha_ok(#[trigger] commit_shas@[i]@),
//@     ensures
//@         r_ is Ok && git_conforms() ==> notes_ok(sm(r_->Ok_0), commit_shas@),
{
    if commit_shas.is_empty() {
        return Ok(HashMap::new());
    }

    let mut args = opq_global_args();
    args.push("cat-file".to_string());
    args.push("--batch-check".to_string());
    //@ proof { assert(views(args@) =~= cat_file_args("--batch-check"@)); }
    //@ let ghost shas = views(commit_shas@);

    let mut stdin_data = opq_new_string();
    for commit_sha in it_0: commit_shas
    //@     invariant
    //@         shas == views(commit_shas@), forall|i: int| 0 <= i < commit_shas@.len() ==> sha_ok(#[trigger] commit_shas@[i]@),
    //@         sb(stdin_data@) == notes_stdin(shas, it_0.index@),
    {
        //@ let ghost k = it_0.index@;
        //@ proof { assert(commit_sha@ == shas[k] && sha_ok(commit_shas@[k]@)); }
        // Notes can be stored with either flat paths (<sha>) or fanout paths (<aa>/<bb...>).
        // Query both forms so this works regardless of repository note fanout state.
        opq_push_owned(&mut stdin_data, flat_note_pathspec_for_commit(commit_sha));
        opq_push_byte(&mut stdin_data, '\n');
        opq_push_owned(&mut stdin_data, fanout_note_pathspec_for_commit(commit_sha));
        opq_push_byte(&mut stdin_data, '\n');
        //@ proof { assert(sb(stdin_data@) =~= notes_stdin(shas, k + 1)); }
    }

    let output = opq_cat_file_check(&args, &stdin_data, Ghost(views(commit_shas@)))?;
    //@ let ghost out = output.stdout@;
    let stdout = opq_utf8_owned(output.stdout)?;
    let mut lines = opq_lines(&stdout);
    let mut result = HashMap::new();
    //@ let ghost all = str_lines(decode_utf8(out));
    //@ proof { lemma_sm_empty(result); assert(all.skip(0) =~= all); }

    for commit_sha in it_1: commit_shas
    //@     invariant
    //@         shas == views(commit_shas@), all == str_lines(decode_utf8(out)),
    //@         lrest(lines) == all.skip(consumed(it_1.index@, all.len() as int)),
    //@         notes_fold(shas, all, 0, Map::empty()) == notes_fold(shas, all, it_1.index@, sm(result)),
    //@     ensures
    //@         notes_fold(shas, all, 0, Map::empty()) == sm(result),
    {
        //@ let ghost k = it_1.index@;
        //@ let ghost n = all.len() as int;
        //@ proof { assert(commit_sha@ == shas[k]); }
        let Some(flat_line) = opq_next_line(&mut lines) else {
            break;
        };
        //@ proof { assert(2 * k < n); assert(all.skip(2 * k).skip(1) =~= all.skip(2 * k + 1)); if 2 * k + 1 < n { assert(all.skip(2 * k + 1).skip(1) =~= all.skip(2 * k + 2)); } }
        let fanout_line = opq_next_or_empty(&mut lines);
        //@ proof { assert(lrest(lines) == all.skip(consumed(k + 1, n))); }

        if let Some(oid) = parse_batch_check_blob_oid(flat_line)
            .or_else(|| /*@< -> (c_: Option<String>) ensures opt_is(c_, blob_oid_of(fanout_line@)) { >@*/parse_batch_check_blob_oid(fanout_line)/*@< } >@*/)
        {
            //@ let ghost r0 = result;
            //@ proof { assert(first_blob(flat_line@, fanout_line@) == Some(oid@)); }
            result.insert(commit_sha.clone(), oid);
            //@ proof { lemma_sm_insert(r0, result, shas[k], oid); }
        }
    }
    //@ proof { if git_conforms() { theorem_notes(out, commit_shas@); } }

    Ok(result)
}
//#end

// ---------------------------------------------------------------- commit objects: load_commit_metadata_batch (region lm_all)
pub open spec fn ov(o: Option<String>) -> Option<Seq<char>> { match o { Some(s) => Some(s@), None => None } }
pub type Meta = (Seq<char>, Option<Seq<char>>);
pub type MMap = Map<Seq<char>, Meta>;
spec fn mm(m: HashMap<String, CommitObjectMetadata>) -> MMap { Map::new(mv(m).dom(), |k: Seq<char>| (mv(m)[k].tree_oid@, ov(mv(m)[k].first_parent))) }
#[verifier::external_body] pub struct SeenSet { _o: () }                 // HashSet<&str>
pub uninterp spec fn seen_has(s: SeenSet, x: Seq<char>) -> bool;
#[verifier::external_body] fn opq_seen_new() -> (r: SeenSet) ensures forall|x: Seq<char>| !seen_has(r, x), { unimplemented!() }
#[verifier::external_body]
fn opq_seen_insert(s: &mut SeenSet, x: &String) -> (r: bool)
    ensures r == !seen_has(*old(s), x@), forall|y: Seq<char>| seen_has(*final(s), y) <==> (seen_has(*old(s), y) || y == x@),
{ unimplemented!() }
/// `header.split_whitespace()` consumed field by field
#[verifier::external_body] pub struct Fields<'a> { _o: &'a str }
pub uninterp spec fn fsrc(f: Fields) -> Seq<char>;
pub uninterp spec fn fidx(f: Fields) -> int;
#[verifier::external_body] fn opq_fields<'a>(s: &'a str) -> (r: Fields<'a>) ensures fsrc(r) == s@, fidx(r) == 0, { unimplemented!() }
#[verifier::external_body]
fn opq_field<'a>(f: &mut Fields<'a>) -> (r: Option<&'a str>)
    ensures fsrc(*final(f)) == fsrc(*old(f)), fidx(*final(f)) == fidx(*old(f)) + 1, 0 <= fidx(*old(f)),
        match r { Some(x) => fidx(*old(f)) < ws_fields(fsrc(*old(f))).len() && x@ == ws_fields(fsrc(*old(f)))[fidx(*old(f))], None => fidx(*old(f)) >= ws_fields(fsrc(*old(f))).len() },
{ unimplemented!() }
/// `parts.next().unwrap_or_default()`
#[verifier::external_body]
fn opq_field_or_empty<'a>(f: &mut Fields<'a>) -> (r: &'a str)
    ensures fsrc(*final(f)) == fsrc(*old(f)), fidx(*final(f)) == fidx(*old(f)) + 1,
        r@ == (if 0 <= fidx(*old(f)) < ws_fields(fsrc(*old(f))).len() { ws_fields(fsrc(*old(f)))[fidx(*old(f))] } else { Seq::<char>::empty() }),
{ unimplemented!() }
/// `parts.next().ok_or_else(..)?.parse().map_err(..)?`: Err when the field is absent or not a number
#[verifier::external_body]
fn opq_field_size<'a>(f: &mut Fields<'a>) -> (r: Result<usize, GitAiError>)
    ensures fsrc(*final(f)) == fsrc(*old(f)),
        (if 0 <= fidx(*old(f)) < ws_fields(fsrc(*old(f))).len() { match dec_usize(ws_fields(fsrc(*old(f)))[fidx(*old(f))]) { Some(v) => r is Ok && r->Ok_0 == v, None => r is Err } } else { r is Err }),
{ unimplemented!() }
/// THE HEADER SCAN of a commit object - the inner `for line in content.lines()` loop - is NOT under contract: its results are the
/// uninterpreted functions code_tree / code_parent (REPORT observation 1: they differ from the commit's tree / first parent for a
/// parentless commit whose MESSAGE has a line starting with `tree ` or `parent `)
pub uninterp spec fn code_tree(content: Seq<char>) -> Seq<char>;
pub uninterp spec fn code_parent(content: Seq<char>) -> Option<Seq<char>>;
#[verifier::external_body]
fn opq_scan_commit(content: &str, tree_oid: &mut String, first_parent: &mut Option<String>)
    requires sb(old(tree_oid)@).len() == 0, *old(first_parent) is None,
    ensures final(tree_oid)@ == code_tree(content@), ov(*final(first_parent)) == code_parent(content@),
{ unimplemented!() }
pub open spec fn meta_val(content: Seq<u8>) -> Meta { (code_tree(decode_utf8(content)), code_parent(decode_utf8(content))) }
pub open spec fn COMMIT() -> Seq<char> { "commit"@ }
pub enum Hdr2 { Skip, Obj { oid: Seq<char>, ty: Seq<char>, size: usize }, Bad }
/// this reader's view of a header line: empty line or `missing` -> passed over; a size that is absent or not a number -> error
pub open spec fn read_hdr2(h: Seq<u8>) -> Hdr2 {
    if !valid_utf8(h) { Hdr2::Bad } else {
        let f = ws_fields(decode_utf8(h));
        if f.len() == 0 { Hdr2::Skip } else {
            let ty = if f.len() > 1 { f[1] } else { Seq::<char>::empty() };
            if ty == MISSING() { Hdr2::Skip } else if f.len() < 3 { Hdr2::Bad }
            else { match dec_usize(f[2]) { Some(size) => Hdr2::Obj { oid: f[0], ty, size }, None => Hdr2::Bad } }
        }
    }
}
/// THE FOLD for commit objects: every object is stepped over BY ITS SIZE; only objects of type commit are recorded
pub open spec fn meta_from(data: Seq<u8>, pos: int, acc: MMap) -> Option<MMap>
    decreases data.len() - pos
{
    if pos < 0 || pos >= data.len() { Some(acc) } else {
        let e = pos + lf_off(data, pos);
        if e >= data.len() { Some(acc) }
        else { match read_hdr2(data.subrange(pos, e)) {
            Hdr2::Bad => None,
            Hdr2::Skip => meta_from(data, e + 1, acc),
            Hdr2::Obj { oid, ty, size } => {
                let end = e + 1 + size;
                if end > data.len() { None }
                else if ty == COMMIT() && !valid_utf8(data.subrange(e + 1, end)) { None }
                else { meta_from(data, if end < data.len() && data[end] == 0x0au8 { end + 1 } else { end }, if ty == COMMIT() { acc.insert(oid, meta_val(data.subrange(e + 1, end))) } else { acc }) }
            },
        } }
    }
}
pub open spec fn is_commit(a: Ans) -> bool { !a.missing && a.ty == COMMIT() }
pub open spec fn mexpected_from(ans: Seq<Ans>, k: int, acc: MMap) -> MMap
    decreases ans.len() - k
{
    if k < 0 || k >= ans.len() { acc } else { mexpected_from(ans, k + 1, if is_commit(ans[k]) { acc.insert(ans[k].oid, meta_val(ans[k].content)) } else { acc }) }
}
proof fn lemma_meta_step(data: Seq<u8>, ans: Seq<Ans>, k: int, acc: MMap)
    requires stream_ok(data, ans), 0 <= k < ans.len(), is_commit(ans[k]) ==> valid_utf8(ans[k].content),
    ensures meta_from(data, off(ans, k), acc) == meta_from(data, off(ans, k + 1), if is_commit(ans[k]) { acc.insert(ans[k].oid, meta_val(ans[k].content)) } else { acc }),
{
    lemma_answer_shape(data, ans, k);
    let a = ans[k]; let o = off(ans, k); let e = o + a.h.len();
    assert(o < data.len() && e < data.len());
    assert(e == o + lf_off(data, o));
    if a.missing {
        assert(read_hdr2(data.subrange(o, e)) is Skip);
        assert(meta_from(data, o, acc) == meta_from(data, e + 1, acc));
    } else {
        let end = e + 1 + a.content.len();
        assert(read_hdr2(data.subrange(o, e)) == (Hdr2::Obj { oid: a.oid, ty: a.ty, size: a.content.len() as usize }));
        assert(end <= data.len() - 1 && data[end] == 0x0au8);
        assert(meta_from(data, o, acc) == meta_from(data, end + 1, if a.ty == COMMIT() { acc.insert(a.oid, meta_val(data.subrange(e + 1, end))) } else { acc }));
    }
}
/// commit objects are text in this reader: ASSUMED valid UTF-8 (a commit with a legacy-encoded message makes the whole batch fail)
pub open spec fn commits_utf8(ans: Seq<Ans>) -> bool { forall|k: int| 0 <= k < ans.len() && is_commit(#[trigger] ans[k]) ==> valid_utf8(ans[k].content) }
pub proof fn theorem_meta_stream(data: Seq<u8>, ans: Seq<Ans>, k: int, acc: MMap)
    requires stream_ok(data, ans), commits_utf8(ans), 0 <= k <= ans.len(),
    ensures meta_from(data, off(ans, k), acc) == Some(mexpected_from(ans, k, acc)),
    decreases ans.len() - k
{
    if k < ans.len() {
        lemma_meta_step(data, ans, k, acc);
        theorem_meta_stream(data, ans, k + 1, if is_commit(ans[k]) { acc.insert(ans[k].oid, meta_val(ans[k].content)) } else { acc });
    } else {
        reveal(stream_ok);
    }
}
pub open spec fn answered_commit(ans: Seq<Ans>, k: int, key: Seq<char>) -> bool { exists|j: int| k <= j < ans.len() && is_commit(#[trigger] ans[j]) && ans[j].oid == key }
proof fn lemma_mexpected(ans: Seq<Ans>, k: int, acc: MMap, key: Seq<char>, v: Meta)
    requires 0 <= k <= ans.len(),
    ensures
        mexpected_from(ans, k, acc).dom().contains(key) <==> acc.dom().contains(key) || answered_commit(ans, k, key),
        (acc.dom().contains(key) ==> acc[key] == v) && (forall|j: int| k <= j < ans.len() && is_commit(#[trigger] ans[j]) && ans[j].oid == key ==> meta_val(ans[j].content) == v)
            && mexpected_from(ans, k, acc).dom().contains(key) ==> mexpected_from(ans, k, acc)[key] == v,
    decreases ans.len() - k
{
    if k < ans.len() {
        let acc1 = if is_commit(ans[k]) { acc.insert(ans[k].oid, meta_val(ans[k].content)) } else { acc };
        lemma_mexpected(ans, k + 1, acc1, key, v);
        if answered_commit(ans, k + 1, key) { let j = choose|j: int| k + 1 <= j < ans.len() && is_commit(#[trigger] ans[j]) && ans[j].oid == key; assert(k <= j < ans.len() && is_commit(ans[j]) && ans[j].oid == key); }
        if answered_commit(ans, k, key) { let j = choose|j: int| k <= j < ans.len() && is_commit(#[trigger] ans[j]) && ans[j].oid == key; if j > k { assert(k + 1 <= j < ans.len() && is_commit(ans[j]) && ans[j].oid == key); } }
        if is_commit(ans[k]) && ans[k].oid == key { assert(k <= k < ans.len() && is_commit(ans[k]) && ans[k].oid == key); }
    }
}
/// every commit asked is paired with what the header scan makes of ITS OWN object; names that are missing or not commits are absent
pub open spec fn meta_ok(m: MMap, ids: Seq<String>) -> bool {
    &&& forall|o: Seq<char>| listed(ids, o) ==> (m.dom().contains(o) <==> (#[trigger] git_obj(o)) is Some && git_type(o) == COMMIT()) && (m.dom().contains(o) ==> m[o] == meta_val(git_obj(o)->Some_0))
    &&& forall|o: Seq<char>| m.dom().contains(o) ==> listed(ids, o)
}
pub open spec fn same_names(a: Seq<String>, b: Seq<String>) -> bool { forall|x: Seq<char>| listed(a, x) <==> listed(b, x) }
proof fn lemma_meta_ok(data: Seq<u8>, uniq: Seq<String>, ids: Seq<String>)
    requires stream_ok(data, answers_of(views(uniq))), commits_utf8(answers_of(views(uniq))), same_names(uniq, ids),
    ensures meta_from(data, 0, Map::empty()) is Some, meta_ok(meta_from(data, 0, Map::empty())->Some_0, ids),
{
    let ans = answers_of(views(uniq));
    theorem_meta_stream(data, ans, 0, Map::empty());
    let m = mexpected_from(ans, 0, Map::empty());
    assert forall|o: Seq<char>| listed(ids, o) implies (m.dom().contains(o) <==> (#[trigger] git_obj(o)) is Some && git_type(o) == COMMIT()) && (m.dom().contains(o) ==> m[o] == meta_val(git_obj(o)->Some_0)) by {
        assert(listed(uniq, o));
        let i = choose|i: int| 0 <= i < uniq.len() && (#[trigger] uniq[i])@ == o;
        let v = match git_obj(o) { Some(c) => meta_val(c), None => (Seq::empty(), None) };
        lemma_mexpected(ans, 0, Map::empty(), o, v);
        if git_obj(o) is Some && git_type(o) == COMMIT() { assert(0 <= i < ans.len() && is_commit(ans[i]) && ans[i].oid == o); }
        if answered_commit(ans, 0, o) { let j = choose|j: int| 0 <= j < ans.len() && is_commit(#[trigger] ans[j]) && ans[j].oid == o; assert(ans[j].oid == views(uniq)[j]); }
    }
    assert forall|o: Seq<char>| m.dom().contains(o) implies listed(ids, o) by {
        lemma_mexpected(ans, 0, Map::empty(), o, (Seq::empty(), None));
        let j = choose|j: int| 0 <= j < ans.len() && is_commit(#[trigger] ans[j]) && ans[j].oid == o;
        assert(0 <= j < uniq.len() && uniq[j]@ == o);
        assert(listed(uniq, o));
    }
}
proof fn lemma_mm_insert(m0: HashMap<String, CommitObjectMetadata>, m1: HashMap<String, CommitObjectMetadata>, k: Seq<char>, v: CommitObjectMetadata)
    requires mv(m1) == mv(m0).insert(k, v),
    ensures mm(m1) == mm(m0).insert(k, (v.tree_oid@, ov(v.first_parent))),
{ assert(mm(m1) =~= mm(m0).insert(k, (v.tree_oid@, ov(v.first_parent)))); }
/// the de-duplication loop: seen = the names met so far = the names kept, every kept name is one of the names given
pub open spec fn listed_upto(v: Seq<String>, n: int, x: Seq<char>) -> bool { exists|i: int| 0 <= i < n && (#[trigger] v[i])@ == x }
pub open spec fn dedup_inv(seen: SeenSet, uniq: Seq<String>, shas: Seq<String>, n: int) -> bool {
    &&& forall|x: Seq<char>| seen_has(seen, x) <==> listed_upto(shas, n, x)
    &&& forall|x: Seq<char>| listed(uniq, x) <==> listed_upto(shas, n, x)
    &&& forall|i: int| 0 <= i < uniq.len() ==> full_oid((#[trigger] uniq[i])@)
    &&& n > 0 ==> uniq.len() > 0
}
proof fn lemma_dedup_step(s0: SeenSet, s1: SeenSet, u0: Seq<String>, u1: Seq<String>, shas: Seq<String>, n: int, fresh: bool)
    requires dedup_inv(s0, u0, shas, n), 0 <= n < shas.len(), full_oid(shas[n]@), fresh == !seen_has(s0, shas[n]@),
        forall|y: Seq<char>| seen_has(s1, y) <==> (seen_has(s0, y) || y == shas[n]@),
        fresh ==> u1.len() == u0.len() + 1 && u1.drop_last() == u0 && u1.last()@ == shas[n]@, !fresh ==> u1 == u0,
    ensures dedup_inv(s1, u1, shas, n + 1),
{
    let c = shas[n]@;
    assert forall|x: Seq<char>| listed_upto(shas, n + 1, x) <==> (listed_upto(shas, n, x) || x == c) by {
        if listed_upto(shas, n + 1, x) { let i = choose|i: int| 0 <= i < n + 1 && (#[trigger] shas[i])@ == x; if i < n { assert(0 <= i < n && shas[i]@ == x); } }
        if listed_upto(shas, n, x) { let i = choose|i: int| 0 <= i < n && (#[trigger] shas[i])@ == x; assert(0 <= i < n + 1 && shas[i]@ == x); }
        if x == c { assert(0 <= n < n + 1 && shas[n]@ == x); }
    }
    assert forall|x: Seq<char>| listed(u1, x) <==> (listed(u0, x) || x == c) by {
        if fresh {
            if listed(u1, x) { let i = choose|i: int| 0 <= i < u1.len() && (#[trigger] u1[i])@ == x; if i < u0.len() { assert(u0[i] == u1.drop_last()[i]); assert(0 <= i < u0.len() && u0[i]@ == x); } }
            if listed(u0, x) { let i = choose|i: int| 0 <= i < u0.len() && (#[trigger] u0[i])@ == x; assert(u0[i] == u1.drop_last()[i]); assert(0 <= i < u1.len() && u1[i]@ == x); }
            if x == c { assert(0 <= u1.len() - 1 < u1.len() && u1[u1.len() - 1]@ == x); }
        } else {
            if x == c { assert(seen_has(s0, c)); assert(listed_upto(shas, n, c)); assert(listed(u0, c)); }
        }
    }
    assert forall|i: int| 0 <= i < u1.len() implies full_oid((#[trigger] u1[i])@) by { if i < u0.len() { if fresh { assert(u0[i] == u1.drop_last()[i]); } } }
    if !fresh { assert(listed_upto(shas, n, c)); assert(listed(u0, c)); }
}

//#item file=src/authorship/rebase_authorship.rs kind=struct name=CommitObjectMetadata
struct CommitObjectMetadata {
    tree_oid: String,
    first_parent: Option<String>,
}
//#end
//#item file=src/authorship/rebase_authorship.rs kind=region name=lm_all in=load_commit_metadata_batch from="let mut unique_commits = Vec::new();" to="$block_end" from_nth=0 to_nth=0 opaque='[{"expr": "HashSet::new()", "call": "opq_seen_new()"}, {"expr": "seen.insert(commit_sha.as_str())", "call": "opq_seen_insert(&mut seen, commit_sha)"}, {"expr": "repo.global_args_for_exec()", "call": "opq_global_args()"}, {"expr": "unique_commits.join(\"\\n\") + \"\\n\"", "call": "opq_join_lines(&unique_commits)"}, {"expr": "exec_git_stdin(&args, stdin_data.as_bytes())", "call": "opq_cat_file_batch(&args, &stdin_data, Ghost(views(unique_commits@)))"}, {"expr": "data[pos..].iter().position(|&b| b == b\u0027\\n\u0027)", "call": "opq_find_byte(&data, pos, 10u8)"}, {"expr": "std::str::from_utf8(&data[pos..header_end])?", "call": "opq_utf8(&data, pos, header_end)?"}, {"expr": "header.split_whitespace()", "call": "opq_fields(header)"}, {"expr": "parts.next().unwrap_or_default()", "call": "opq_field_or_empty(&mut parts)"}, {"expr": "parts\n            .next()\n            .ok_or_else(|| {\n                GitAiError::Generic(\"Malformed cat-file --batch header: missing size\".to_string())\n            })?\n            .parse()\n            .map_err(|e| {\n                GitAiError::Generic(format!(\"Invalid cat-file --batch object size: {}\", e))\n            })?", "call": "opq_field_size(&mut parts)?"}, {"expr": "parts.next()", "call": "opq_field(&mut parts)"}, {"expr": "v.to_string()", "call": "opq_to_string(v)"}, {"expr": "object_type == \"missing\"", "call": "opq_str_eq(object_type, \"missing\")"}, {"expr": "object_type == \"commit\"", "call": "opq_str_eq(object_type, \"commit\")"}, {"expr": "std::str::from_utf8(&data[content_start..content_end])?", "call": "opq_utf8(&data, content_start, content_end)?"}, {"expr": "String::new()", "call": "opq_new_string()"}, {"stmt_from": "for line in content.lines() {", "call": "opq_scan_commit(content, &mut tree_oid, &mut first_parent);"}]'
//@ fn region_lm_all(repo: &Repository, commit_shas: &[String]) -> (r_: Result<HashMap<String, CommitObjectMetadata>, GitAiError>)
//@     requires commit_shas@.len() > 0, forall|i: int| 0 <= i < commit_shas@.len() ==> full_oid(#[trigger] commit_shas@[i]@),
//@         // ASSUMED: commit objects are valid UTF-8 text
//@         forall|ids: Seq<Seq<char>>| commits_utf8(#[trigger] answers_of(ids)),
//@     ensures
//@         r_ is Ok ==> meta_ok(mm(r_->Ok_0), commit_shas@),
//@ {
    let mut unique_commits = Vec::new();
    let mut seen = opq_seen_new();
    for commit_sha in it_0: commit_shas
    //@     invariant
    //@         forall|i: int| 0 <= i < commit_shas@.len() ==> full_oid(#[trigger] commit_shas@[i]@),
    //@         dedup_inv(seen, unique_commits@, commit_shas@, it_0.index@),
    {
        //@ let ghost s0 = seen; let ghost u0 = unique_commits@; let ghost n = it_0.index@;
        //@ proof { assert(*commit_sha == commit_shas@[n]); }
        //@ let ghost fresh = !seen_has(seen, commit_sha@);
        if opq_seen_insert(&mut seen, commit_sha) {
            unique_commits.push(commit_sha.clone());
            //@ proof { assert(unique_commits@.drop_last() =~= u0); }
        }
        //@ proof { lemma_dedup_step(s0, seen, u0, unique_commits@, commit_shas@, n, fresh); }
    }
    //@ proof { assert(same_names(unique_commits@, commit_shas@)) by { assert forall|x: Seq<char>| listed(commit_shas@, x) <==> listed_upto(commit_shas@, commit_shas@.len() as int, x) by { } } }

    let mut args = opq_global_args();
    args.push("cat-file".to_string());
    args.push("--batch".to_string());
    //@ proof { assert(views(args@) =~= cat_file_args("--batch"@)); }

    let stdin_data = opq_join_lines(&unique_commits);
    let output = opq_cat_file_batch(&args, &stdin_data, Ghost(views(unique_commits@)))?;
    let data = output.stdout;
    //@ proof { lemma_meta_ok(data@, unique_commits@, commit_shas@); }

    let mut metadata_by_commit = HashMap::new();
    let mut pos = 0usize;
    //@ proof { assert(mm(metadata_by_commit) =~= Map::<Seq<char>, Meta>::empty()); }

    while pos < data.len()
    //@     invariant
    //@         pos <= data@.len(), sizes_fit(data@),
    //@         meta_from(data@, 0, Map::empty()) == meta_from(data@, pos as int, mm(metadata_by_commit)),
    //@     ensures
    //@         meta_from(data@, 0, Map::empty()) == Some(mm(metadata_by_commit)),
    //@     decreases data@.len() - pos,
    {
        //@ let ghost d = data@;
        //@ proof { if forall|q: int| pos <= q < d.len() ==> (#[trigger] d[q]) != 0x0au8 { lemma_lf_none(d, pos as int); } }
        let header_end = match opq_find_byte(&data, pos, 10u8) {
            Some(idx) => pos + idx,
            None => break,
        };
        //@ proof { lemma_lf_first(d, pos as int, header_end - pos); }
        let header = opq_utf8(&data, pos, header_end)?;
        let mut parts = opq_fields(header);
        let oid = match opq_field(&mut parts) {
            Some(v) => opq_to_string(v),
            None => {
                pos = header_end + 1;
                continue;
            }
        };
        let object_type = opq_field_or_empty(&mut parts);
        if opq_str_eq(object_type, "missing") {
            pos = header_end + 1;
            continue;
        }
        let size: usize = opq_field_size(&mut parts)?;
        //@ proof { assert(hdr_size(d.subrange(pos as int, header_end as int)) == Some(size)); }

        let content_start = header_end + 1;
        let content_end = content_start + size;
        if content_end > data.len() {
            return Err(GitAiError::Generic(
                "Malformed cat-file --batch output: truncated commit object".to_string(),
            ));
        }

        if opq_str_eq(object_type, "commit") {
            let content = opq_utf8(&data, content_start, content_end)?;
            let mut tree_oid = opq_new_string();
            let mut first_parent = None;

            opq_scan_commit(content, &mut tree_oid, &mut first_parent);

            //@ let ghost r0 = metadata_by_commit;
            //@ let ghost md = CommitObjectMetadata { tree_oid, first_parent };
            metadata_by_commit.insert(
                oid,
                CommitObjectMetadata {
                    tree_oid,
                    first_parent,
                },
            );
            //@ proof { lemma_mm_insert(r0, metadata_by_commit, oid@, md); }
        }

        pos = content_end;
        if pos < data.len() && data[pos] == b'\n' {
            pos += 1;
        }
    }

    Ok(metadata_by_commit)
//@ }
//#end

} // verus!
fn main() {}
