// Unit finaltransform - properties C02 / C03: the core of the per-commit replay of rebase / cherry-pick
// (src/authorship/rebase_authorship.rs): transform_changed_files_to_final_state (rebase, whole function), region cp_loop (the per-file
// loop of transform_attributions_to_final_state, cherry-pick), build_original_head_line_author_maps, content_has_intersection_with_author_map.  Everything AROUND the pieces unit finalstate already proves (restore_author_in_range,
// the offset tables): for WHICH files the tracker runs, WITH WHICH previous content / attributions, that only placeholder text is
// re-credited, from WHICH author map, guarded by WHICH bitmap, what is stored afterwards.
// The tracker (update_attributions) and the line projection (attributions_to_line_attributions) are uninterpreted (C16 units).
use vstd::prelude::*;
use vstd::std_specs::iter::IteratorSpec;
use vstd::utf8::*;
use vstd::string::StringSliceAdditionalSpecFns;
verus! {

pub enum GitAiError { Generic(String) }
/// stand-ins never inspected by the verified text
#[verifier::external_body] pub struct AttributionTracker { _o: () }
#[verifier::external_body] pub struct VirtualAttributions { _o: () }
/// rule O1 on the path `crate::authorship::virtual_attribution::VirtualAttributions`
pub type VaT = VirtualAttributions;
pub mod authorship { pub mod attribution_tracker { pub use crate::AttributionTracker; } }

//#item file=src/authorship/attribution_tracker.rs kind=struct name=LineAttribution
pub struct LineAttribution {
    pub start_line: u32,
    pub end_line: u32,
    pub author_id: String,
    pub overrode: Option<String>,
}
//#end
//#item file=src/authorship/attribution_tracker.rs kind=struct name=Attribution
pub struct Attribution {
    pub start: usize,
    pub end: usize,
    pub author_id: String,
    pub ts: u128,
}
//#end
/// rule O1 on the paths `crate::authorship::attribution_tracker::{Attribution, LineAttribution}`
pub type TrackerAttribution = Attribution;
pub type TrackerLineAttribution = LineAttribution;

// ---------------------------------------------------------------- stand-in for std HashMap (rule O1) and the views of its instantiations
#[verifier::external_body]
#[verifier::reject_recursive_types(K)]
#[verifier::reject_recursive_types(V)]
pub struct HashMap<K, V> { _p: core::marker::PhantomData<(K, V)> }
pub type AttrMap = HashMap<String, (Vec<Attribution>, Vec<LineAttribution>)>;
pub type StrMap = HashMap<String, String>;
pub type MapMap = HashMap<String, HashMap<String, String>>;

pub type Text = Seq<char>;
/// line text -> author
pub type AuthorMapV = Map<Text, Text>;
pub type FileState = (Seq<Attribution>, Seq<LineAttribution>);
/// file -> (char attributions, line attributions); file -> content; file -> (line text -> author)
pub uninterp spec fn am(m: AttrMap) -> Map<Text, FileState>;
pub uninterp spec fn cm(m: StrMap) -> Map<Text, Text>;
pub uninterp spec fn mm(m: MapMap) -> Map<Text, AuthorMapV>;
/// what a VirtualAttributions holds for a file
pub uninterp spec fn va_content(va: VirtualAttributions, f: Text) -> Option<Text>;
pub uninterp spec fn va_chars(va: VirtualAttributions, f: Text) -> Option<Seq<Attribution>>;
pub uninterp spec fn va_lines(va: VirtualAttributions, f: Text) -> Option<Seq<LineAttribution>>;
pub uninterp spec fn va_files(va: VirtualAttributions) -> Seq<String>;

/// the placeholder author given to text that is new relative to the running state; the name of the human author
pub open spec fn DUMMY() -> Text { "__DUMMY__"@ }
pub open spec fn HUMAN() -> Text { "human"@ }

/// what update_attributions returns for these arguments (None: an error) - UNINTERPRETED (unit transform / C16 owns it)
pub uninterp spec fn upd(old_content: Text, new_content: Text, attrs: Seq<Attribution>, author: Text, ts: u128) -> Option<Seq<Attribution>>;
/// what attributions_to_line_attributions returns - UNINTERPRETED (units dominant / projection of C16)
pub uninterp spec fn proj(attrs: Seq<Attribution>, content: Text) -> Seq<LineAttribution>;
/// `str::lines()` as texts - uninterpreted here; its byte form is `lines_of` below (as in unit finalstate)
pub uninterp spec fn str_lines(content: Text) -> Seq<Text>;

impl AttributionTracker {
    #[verifier::external_body] pub fn new() -> (r: Self) { unimplemented!() }
    #[verifier::external_body]
    pub fn update_attributions(&self, old_content: &str, new_content: &str, old_attributions: &[Attribution], current_author: &str, ts: u128) -> (r: Result<Vec<Attribution>, GitAiError>)
        ensures match r { Ok(v) => upd(old_content@, new_content@, old_attributions@, current_author@, ts) == Some(v@), Err(_) => upd(old_content@, new_content@, old_attributions@, current_author@, ts) is None },
    { unimplemented!() }
}
impl VirtualAttributions {
    #[verifier::external_body] pub fn get_file_content(&self, file_path: &str) -> (r: Option<&String>)
        ensures r is Some <==> va_content(*self, file_path@) is Some, r is Some ==> r.unwrap()@ == va_content(*self, file_path@).unwrap(),
    { unimplemented!() }
    #[verifier::external_body] pub fn get_char_attributions(&self, file_path: &str) -> (r: Option<&Vec<Attribution>>)
        ensures r is Some <==> va_chars(*self, file_path@) is Some, r is Some ==> r.unwrap()@ == va_chars(*self, file_path@).unwrap(),
    { unimplemented!() }
    #[verifier::external_body] pub fn get_line_attributions(&self, file_path: &str) -> (r: Option<&Vec<LineAttribution>>)
        ensures r is Some <==> va_lines(*self, file_path@) is Some, r is Some ==> r.unwrap()@ == va_lines(*self, file_path@).unwrap(),
    { unimplemented!() }
    #[verifier::external_body] pub fn files(&self) -> (r: Vec<String>) ensures r@ == va_files(*self), { unimplemented!() }
}
impl HashMap<String, String> {
    #[verifier::external_body] pub fn new() -> (r: Self) ensures cm(r) == Map::<Text, Text>::empty(), { unimplemented!() }
    #[verifier::external_body] pub fn get(&self, k: &str) -> (r: Option<&String>)
        ensures r is Some <==> cm(*self).dom().contains(k@), r is Some ==> r.unwrap()@ == cm(*self)[k@],
    { unimplemented!() }
    #[verifier::external_body] pub fn insert(&mut self, k: String, v: String) -> (r: Option<String>)
        ensures cm(*final(self)) == cm(*old(self)).insert(k@, v@),
    { unimplemented!() }
    #[verifier::external_body] pub fn is_empty(&self) -> (r: bool) ensures r == !map_nonempty(cm(*self)), { unimplemented!() }
}
impl HashMap<String, (Vec<Attribution>, Vec<LineAttribution>)> {
    #[verifier::external_body] pub fn insert(&mut self, k: String, v: (Vec<Attribution>, Vec<LineAttribution>)) -> (r: Option<(Vec<Attribution>, Vec<LineAttribution>)>)
        ensures am(*final(self)) == am(*old(self)).insert(k@, (v.0@, v.1@)),
    { unimplemented!() }
}
impl HashMap<String, HashMap<String, String>> {
    #[verifier::external_body] pub fn new() -> (r: Self) ensures mm(r) == Map::<Text, AuthorMapV>::empty(), { unimplemented!() }
    #[verifier::external_body] pub fn insert(&mut self, k: String, v: HashMap<String, String>) -> (r: Option<HashMap<String, String>>)
        ensures mm(*final(self)) == mm(*old(self)).insert(k@, cm(v)),
    { unimplemented!() }
}
pub open spec fn map_nonempty(m: AuthorMapV) -> bool { exists|k: Text| m.dom().contains(k) }

/// by-value iteration of a HashMap<String, String>: every entry once (keys are unique), nothing else, in some order
pub open spec fn entries_of(l: Seq<(String, String)>, c: Map<Text, Text>) -> bool {
    &&& forall|i: int| 0 <= i < l.len() ==> c.dom().contains((#[trigger] l[i]).0@) && c[l[i].0@] == l[i].1@
    &&& forall|f: Text| c.dom().contains(f) ==> exists|i: int| 0 <= i < l.len() && (#[trigger] l[i]).0@ == f
    &&& forall|i: int, j: int| 0 <= i < j < l.len() ==> (#[trigger] l[i]).0@ != (#[trigger] l[j]).0@
}
pub uninterp spec fn entries_list(m: StrMap) -> Seq<(String, String)>;
#[verifier::external_body] fn opq_into_entries(m: StrMap) -> (r: Vec<(String, String)>) ensures r@ == entries_list(m), entries_of(r@, cm(m)), { unimplemented!() }
/// (the order is whatever the map yields: `entries_list` is uninterpreted)
#[verifier::external_body] proof fn axiom_entries_list(m: StrMap) ensures entries_of(entries_list(m), cm(m)), { }
#[verifier::external_body] fn opq_is_empty(s: &String) -> (r: bool) ensures r == (s@.len() == 0), { unimplemented!() }
/// `attributions.get(&file_path).map(|(char_attrs, _)| char_attrs.as_slice())`
#[verifier::external_body] fn opq_char_attrs_of<'a>(m: &'a AttrMap, f: &String) -> (r: Option<&'a [Attribution]>)
    ensures r is Some <==> am(*m).dom().contains(f@), r is Some ==> r.unwrap()@ == am(*m)[f@].0,
{ unimplemented!() }
/// `file_contents.get(&file_path).map(String::as_str)`
#[verifier::external_body] fn opq_content_of<'a>(m: &'a StrMap, f: &String) -> (r: Option<&'a str>)
    ensures r is Some <==> cm(*m).dom().contains(f@), r is Some ==> r.unwrap()@ == cm(*m)[f@],
{ unimplemented!() }
pub open spec fn has_non_human(s: Seq<Attribution>) -> bool { exists|i: int| 0 <= i < s.len() && (#[trigger] s[i]).author_id@ != HUMAN() }
pub open spec fn any_author(s: Seq<Attribution>, a: Text) -> bool { exists|i: int| 0 <= i < s.len() && (#[trigger] s[i]).author_id@ == a }
/// `source_attrs.as_ref().is_some_and(|attrs| attrs.iter().any(|attr| attr.author_id != CheckpointKind::Human.to_str()))`
#[verifier::external_body] fn opq_has_non_human(a: &Option<&[Attribution]>) -> (r: bool)
    ensures r == (*a is Some && has_non_human(a.unwrap()@)),
{ unimplemented!() }
pub open spec fn mview(maps: Option<&MapMap>) -> Option<Map<Text, AuthorMapV>> { if maps is Some { Some(mm(*maps.unwrap())) } else { None } }
pub open spec fn file_map(mv: Option<Map<Text, AuthorMapV>>, f: Text) -> Option<AuthorMapV> { if mv is Some && mv.unwrap().dom().contains(f) { Some(mv.unwrap()[f]) } else { None } }
/// `original_line_to_author_maps.and_then(|maps| maps.get(&file_path)).is_some_and(|map| !map.is_empty())`
#[verifier::external_body] fn opq_file_map_nonempty(maps: Option<&MapMap>, f: &String) -> (r: bool)
    ensures r == (file_map(mview(maps), f@) is Some && map_nonempty(file_map(mview(maps), f@).unwrap())),
{ unimplemented!() }
#[verifier::external_body] fn opq_string_eq(a: &String, b: &String) -> (r: bool) ensures r == (a@ == b@), { unimplemented!() }
#[verifier::external_body] fn opq_str_eq(s: &String, p: &str) -> (r: bool) ensures r == (s@ == p@), { unimplemented!() }
#[verifier::external_body] fn opq_clone_attrs(v: &Vec<Attribution>) -> (r: Vec<Attribution>) ensures r@ == v@, { unimplemented!() }
/// some line of the content is a key of the map (what content_has_intersection_with_author_map answers)
pub open spec fn chi(content: Text, m: AuthorMapV) -> bool { exists|i: int| 0 <= i < str_lines(content).len() && m.dom().contains(#[trigger] str_lines(content)[i]) }
/// the guard of the re-crediting block AS ONE STUB (a let-chain inside an `else if`, outside the Verus subset):
/// `transformed_attrs.iter().any(|attr| attr.author_id == dummy_author) && let Some(m) = original_line_to_author_maps.and_then(|maps| maps.get(&file_path)) && content_has_intersection_with_author_map(&final_content, m)`
#[verifier::external_body] fn opq_candidate_map<'a>(attrs: &Vec<Attribution>, author: &str, maps: Option<&'a MapMap>, f: &String, content: &String) -> (r: Option<&'a StrMap>)
    ensures
        r is Some <==> (any_author(attrs@, author@) && file_map(mview(maps), f@) is Some && chi(content@, file_map(mview(maps), f@).unwrap())),
        r is Some ==> cm(*r.unwrap()) == file_map(mview(maps), f@).unwrap(),
{ unimplemented!() }
#[verifier::external_body] fn opq_vec_i32(n: usize) -> (r: Vec<i32>) ensures r@.len() == n, forall|i: int| 0 <= i < n ==> r@[i] == 0, { unimplemented!() }
#[verifier::external_body] fn opq_vec_bool(n: usize) -> (r: Vec<bool>) ensures r@.len() == n, forall|i: int| 0 <= i < n ==> r@[i] == false, { unimplemented!() }
#[verifier::external_body] fn opq_take(v: &mut Vec<Attribution>) -> (r: Vec<Attribution>) ensures r@ == old(v)@, final(v)@.len() == 0, { unimplemented!() }
pub open spec fn not_author(a: Text) -> spec_fn(Attribution) -> bool { |e: Attribution| e.author_id@ != a }
pub open spec fn keep_real(s: Seq<Attribution>) -> Seq<Attribution> { s.filter(not_author(DUMMY())) }
/// `transformed_attrs.retain(|attr| attr.author_id != dummy_author)` (documented behaviour of Vec::retain)
#[verifier::external_body] fn opq_retain_not_author(v: &mut Vec<Attribution>, author: &str) ensures final(v)@ == old(v)@.filter(not_author(author@)), { unimplemented!() }
/// `final_lines.iter().enumerate()`
pub open spec fn enum_ok(l: Seq<(usize, &&str)>, v: Seq<&str>) -> bool { l.len() == v.len() && forall|i: int| 0 <= i < l.len() ==> (#[trigger] l[i]).0 == i && *l[i].1 == v[i] }
#[verifier::external_body] fn opq_enumerate<'a, 'b>(v: &'a Vec<&'b str>) -> (r: Vec<(usize, &'a &'b str)>) ensures enum_ok(r@, v@), { unimplemented!() }
/// rule O1 on the path `crate::authorship::attribution_tracker::attributions_to_line_attributions`; ASSUMPTION: fewer than 2^31 line
/// attributions come back (the bitmap counts them in an i32)
#[verifier::external_body] fn tracker_attributions_to_line_attributions(attributions: &[Attribution], content: &str) -> (r: Vec<LineAttribution>)
    ensures r@ == proj(attributions@, content@), r@.len() < 0x7fff_ffff,
{ unimplemented!() }

// ---------------------------------------------------------------- coverage (as in unit finalstate) and the contract of restore_author_in_range
pub open spec fn in_piece(e: Attribution, a: Text, p: int) -> bool { e.author_id@ == a && e.start <= p < e.end }
/// byte p is credited to author a by some attribution of the list
pub open spec fn cov(attrs: Seq<Attribution>, a: Text, p: int) -> bool { exists|i: int| 0 <= i < attrs.len() && in_piece(#[trigger] attrs[i], a, p) }
pub open spec fn cov_upto(attrs: Seq<Attribution>, n: int, a: Text, p: int) -> bool { exists|i: int| 0 <= i < n && in_piece(#[trigger] attrs[i], a, p) }
pub open spec fn recredited(before: Seq<Attribution>, n: int, ph: Text, au: Text, rs: int, re: int, a: Text, p: int) -> bool {
    if rs <= p < re {
        if a == au { cov_upto(before, n, au, p) || cov_upto(before, n, ph, p) } else if a == ph { false } else { cov_upto(before, n, a, p) }
    } else { cov_upto(before, n, a, p) }
}
pub open spec fn step_ok(out: Seq<Attribution>, before: Seq<Attribution>, n: int, ph: Text, au: Text, rs: int, re: int) -> bool {
    forall|a: Text, p: int| #![trigger cov(out, a, p)] cov(out, a, p) == recredited(before, n, ph, au, rs, re, a, p)
}
/// TRUSTED RESTATEMENT of the contract unit finalstate PROVES for restore_author_in_range (finalstate has no shared include)
#[verifier::external_body] fn restore_author_in_range(attrs: Vec<Attribution>, placeholder: &str, author: &str, range_start: usize, range_end: usize) -> (r: Vec<Attribution>)
    ensures step_ok(r@, attrs@, attrs@.len() as int, placeholder@, author@, range_start as int, range_end as int),
{ unimplemented!() }

// ---------------------------------------------------------------- lines and their offsets (specs copied from unit finalstate; the table itself is proved there)
pub open spec fn tb(c: Text) -> Seq<u8> { encode_utf8(c) }
pub open spec fn split_of(b: Seq<u8>, c: u8) -> Seq<Seq<u8>>
    decreases b.len()
{
    if b.len() == 0 { seq![Seq::<u8>::empty()] } else {
        let pre = split_of(b.drop_last(), c);
        if b.last() == c { pre.push(Seq::<u8>::empty()) } else { pre.drop_last().push(pre.last().push(b.last())) }
    }
}
pub open spec fn strip_cr(p: Seq<u8>) -> Seq<u8> { if p.len() > 0 && p.last() == 0x0d { p.drop_last() } else { p } }
pub open spec fn lines_of(b: Seq<u8>) -> Seq<Seq<u8>> {
    let ps = split_of(b, 0x0a);
    let head = Seq::new((ps.len() - 1) as nat, |i: int| strip_cr(ps[i]));
    if ps.last().len() == 0 { head } else { head.push(ps.last()) }
}
pub open spec fn line_bytes(ls: Seq<&str>) -> Seq<Seq<u8>> { Seq::new(ls.len(), |i: int| ls[i].spec_bytes()) }
pub open spec fn starts_ok(b: Seq<u8>, lines: Seq<Seq<u8>>, starts: Seq<usize>, n: int) -> bool {
    forall|i: int| 0 <= i < n ==> (#[trigger] starts[i]) + lines[i].len() <= b.len() && b.subrange(starts[i] as int, starts[i] + lines[i].len()) == lines[i]
}
/// `final_content.lines().collect()`: documented behaviour of str::lines (byte form `lines_of` as in finalstate / C17, text form
/// `str_lines`); a String's byte length fits usize and a Vec<&str> holds fewer than usize::MAX - 2 elements (allocation limit)
#[verifier::external_body] fn opq_lines<'a>(s: &'a String) -> (r: Vec<&'a str>)
    ensures line_bytes(r@) == lines_of(tb(s@)), r@.len() == str_lines(s@).len(), forall|i: int| 0 <= i < r@.len() ==> (#[trigger] r@[i])@ == str_lines(s@)[i],
        tb(s@).len() <= usize::MAX, r@.len() + 2 <= usize::MAX,
{ unimplemented!() }
/// TRUSTED RESTATEMENT of the contract unit finalstate PROVES for region fs_offsets_rebase (the `for line in &final_lines` loop that fills
/// line_start_chars): entry i is a byte offset at which line i's text sits in the content
#[verifier::external_body] fn opq_offsets(final_lines: &Vec<&str>, final_content: &String) -> (r: Vec<usize>)
    requires line_bytes(final_lines@) == lines_of(tb(final_content@)), tb(final_content@).len() <= usize::MAX,
    ensures r@.len() == final_lines@.len(), starts_ok(tb(final_content@), line_bytes(final_lines@), r@, final_lines@.len() as int),
{ unimplemented!() }

// ---------------------------------------------------------------- the bitmap of placeholder lines
pub open spec fn clampl(x: u32, lc: int) -> int { let y: int = if (x as int) < 1 { 1 } else { x as int }; if y > lc { lc } else { y } }
/// line attribution la is the placeholder's and (clamped to 1..=lc) contains line l
pub open spec fn dummy_iv(la: LineAttribution, lc: int, l: int) -> bool { la.author_id@ == DUMMY() && clampl(la.start_line, lc) <= l <= clampl(la.end_line, lc) }
/// THE BITMAP: line l (1-based) lies in a line attribution of the placeholder
pub open spec fn line_is_dummy(ls: Seq<LineAttribution>, lc: int, l: int) -> bool { exists|i: int| 0 <= i < ls.len() && dummy_iv(#[trigger] ls[i], lc, l) }
pub open spec fn hd_spec(ls: Seq<LineAttribution>, lc: int, l: int) -> bool { 1 <= l <= lc && line_is_dummy(ls, lc, l) }
pub open spec fn cnt(ls: Seq<LineAttribution>, k: int, lc: int, l: int) -> int
    decreases k
{
    if k <= 0 { 0 } else { cnt(ls, k - 1, lc, l) + (if dummy_iv(ls[k - 1], lc, l) { 1int } else { 0int }) }
}
proof fn lemma_cnt_bounds(ls: Seq<LineAttribution>, k: int, lc: int, l: int)
    requires 0 <= k <= ls.len(),
    ensures 0 <= cnt(ls, k, lc, l) <= k, cnt(ls, k, lc, l) > 0 <==> exists|i: int| 0 <= i < k && dummy_iv(#[trigger] ls[i], lc, l),
    decreases k
{
    if k > 0 {
        lemma_cnt_bounds(ls, k - 1, lc, l);
        if cnt(ls, k - 1, lc, l) > 0 { let i = choose|i: int| 0 <= i < k - 1 && dummy_iv(#[trigger] ls[i], lc, l); assert(0 <= i < k && dummy_iv(ls[i], lc, l)); }
        if dummy_iv(ls[k - 1], lc, l) { assert(0 <= k - 1 < k && dummy_iv(ls[k - 1], lc, l)); }
        if exists|i: int| 0 <= i < k && dummy_iv(#[trigger] ls[i], lc, l) {
            let i = choose|i: int| 0 <= i < k && dummy_iv(#[trigger] ls[i], lc, l);
            if i < k - 1 { assert(0 <= i < k - 1 && dummy_iv(ls[i], lc, l)); }
        }
    }
}
/// sum of d[1..=l]
pub open spec fn psum(d: Seq<i32>, l: int) -> int
    decreases l
{
    if l <= 0 { 0 } else { psum(d, l - 1) + d[l] }
}
proof fn lemma_psum_update(d: Seq<i32>, i: int, v: i32, l: int)
    requires 0 <= i < d.len(), 0 <= l < d.len(),
    ensures psum(d.update(i, v), l) == psum(d, l) + (if 1 <= i <= l { v - d[i] } else { 0 }),
    decreases l
{
    if l > 0 { lemma_psum_update(d, i, v, l - 1); }
}
/// the difference array after the first k line attributions: prefix sums count the placeholder intervals over each line
pub open spec fn diff_inv(d: Seq<i32>, ls: Seq<LineAttribution>, k: int, lc: int) -> bool {
    &&& d.len() == lc + 2
    &&& forall|j: int| 0 <= j < d.len() ==> -k <= #[trigger] d[j] <= k
    &&& forall|l: int| 1 <= l <= lc ==> #[trigger] psum(d, l) == cnt(ls, k, lc, l)
}
proof fn lemma_diff_init(d: Seq<i32>, ls: Seq<LineAttribution>, lc: int)
    requires d.len() == lc + 2, forall|i: int| 0 <= i < d.len() ==> d[i] == 0,
    ensures diff_inv(d, ls, 0, lc),
{
    assert forall|l: int| 1 <= l <= lc implies #[trigger] psum(d, l) == cnt(ls, 0, lc, l) by { lemma_psum_zero(d, l); }
}
proof fn lemma_psum_zero(d: Seq<i32>, l: int)
    requires forall|i: int| 0 <= i < d.len() ==> d[i] == 0, 0 <= l < d.len(),
    ensures psum(d, l) == 0,
    decreases l
{
    if l > 0 { lemma_psum_zero(d, l - 1); }
}
proof fn lemma_diff_skip(d: Seq<i32>, ls: Seq<LineAttribution>, k: int, lc: int)
    requires diff_inv(d, ls, k, lc), 0 <= k < ls.len(), !(ls[k].author_id@ == DUMMY() && clampl(ls[k].start_line, lc) <= clampl(ls[k].end_line, lc)),
    ensures diff_inv(d, ls, k + 1, lc),
{
    assert forall|l: int| 1 <= l <= lc implies #[trigger] psum(d, l) == cnt(ls, k + 1, lc, l) by { assert(psum(d, l) == cnt(ls, k, lc, l)); assert(!dummy_iv(ls[k], lc, l)); }
}
proof fn lemma_diff_step(d: Seq<i32>, d1: Seq<i32>, d2: Seq<i32>, ls: Seq<LineAttribution>, k: int, lc: int)
    requires diff_inv(d, ls, k, lc), 0 <= k < ls.len(), ls[k].author_id@ == DUMMY(),
        clampl(ls[k].start_line, lc) <= clampl(ls[k].end_line, lc),
        d1 == d.update(clampl(ls[k].start_line, lc), (d[clampl(ls[k].start_line, lc)] + 1) as i32),
        d2 == d1.update(clampl(ls[k].end_line, lc) + 1, (d1[clampl(ls[k].end_line, lc) + 1] - 1) as i32),
        k + 1 < 0x7fff_ffff, lc >= 0,
    ensures diff_inv(d2, ls, k + 1, lc),
{
    let s = clampl(ls[k].start_line, lc); let e = clampl(ls[k].end_line, lc);
    assert(0 <= s <= e <= lc);
    assert(-k <= d[s] <= k); assert(-k <= d1[e + 1] <= k + 1);
    assert forall|j: int| 0 <= j < d2.len() implies -(k + 1) <= #[trigger] d2[j] <= k + 1 by { assert(-k <= d[j] <= k); }
    assert forall|l: int| 1 <= l <= lc implies #[trigger] psum(d2, l) == cnt(ls, k + 1, lc, l) by {
        assert(psum(d, l) == cnt(ls, k, lc, l));
        lemma_psum_update(d, s, (d[s] + 1) as i32, l);
        lemma_psum_update(d1, e + 1, (d1[e + 1] - 1) as i32, l);
        assert(s >= 1);
    }
}
/// the bitmap after the second loop has handled lines 1..=done
pub open spec fn hd_inv(hd: Seq<bool>, ls: Seq<LineAttribution>, lc: int, done: int) -> bool {
    hd.len() == lc + 1 && forall|l: int| 0 <= l <= lc ==> #[trigger] hd[l] == (l <= done && hd_spec(ls, lc, l))
}
pub open spec fn range_rem(rem: Seq<usize>, start: int, end: int) -> bool {
    &&& rem.len() == (if start <= end { end - start + 1 } else { 0 })
    &&& forall|i: int| 0 <= i < rem.len() ==> (#[trigger] rem[i]) == start + i
}
proof fn lemma_hd_step(hd: Seq<bool>, hd2: Seq<bool>, d: Seq<i32>, ls: Seq<LineAttribution>, lc: int, line: int)
    requires hd_inv(hd, ls, lc, line - 1), diff_inv(d, ls, ls.len() as int, lc), 1 <= line <= lc, hd2 == hd.update(line, psum(d, line) > 0),
    ensures hd_inv(hd2, ls, lc, line), 0 <= psum(d, line) <= ls.len(),
{
    lemma_cnt_bounds(ls, ls.len() as int, lc, line);
    assert(psum(d, line) == cnt(ls, ls.len() as int, lc, line));
    assert forall|l: int| 0 <= l <= lc implies #[trigger] hd2[l] == (l <= line && hd_spec(ls, lc, l)) by {
        if l != line { assert(hd2[l] == hd[l]); }
    }
}

// ---------------------------------------------------------------- the re-crediting fold (coverage level, like restore_author_in_range's contract)
/// the 1-based line number the code computes for index i: `(line_idx + 1) as u32` read back `as usize`
pub open spec fn lnum(i: int) -> int { (((i + 1) as usize) as u32) as int }
/// line i is a re-crediting candidate: the bitmap has it AND its text is a key of the file's author map
pub open spec fn sel(lt: Seq<Text>, ls: Seq<LineAttribution>, mv: AuthorMapV, i: int) -> bool { hd_spec(ls, lt.len() as int, lnum(i)) && mv.dom().contains(lt[i]) }
/// WHO IS CREDITED WITH BYTE p AFTER THE FIRST k LINES HAVE BEEN LOOKED AT: for a candidate line the placeholder's credit inside the
/// line's byte range goes to the author the map gives for the line's text; nothing else changes
pub open spec fn rc(t: Seq<Attribution>, lt: Seq<Text>, lb: Seq<Seq<u8>>, st: Seq<usize>, ls: Seq<LineAttribution>, mv: AuthorMapV, k: int, a: Text, p: int) -> bool
    decreases k
{
    if k <= 0 { cov(t, a, p) } else {
        let i = k - 1;
        if sel(lt, ls, mv, i) && st[i] <= p < st[i] + lb[i].len() {
            let au = mv[lt[i]];
            if a == au { rc(t, lt, lb, st, ls, mv, i, au, p) || rc(t, lt, lb, st, ls, mv, i, DUMMY(), p) } else if a == DUMMY() { false } else { rc(t, lt, lb, st, ls, mv, i, a, p) }
        } else { rc(t, lt, lb, st, ls, mv, i, a, p) }
    }
}
pub open spec fn rc_inv(cur: Seq<Attribution>, t: Seq<Attribution>, lt: Seq<Text>, lb: Seq<Seq<u8>>, st: Seq<usize>, ls: Seq<LineAttribution>, mv: AuthorMapV, k: int) -> bool {
    forall|a: Text, p: int| #![trigger cov(cur, a, p)] cov(cur, a, p) == rc(t, lt, lb, st, ls, mv, k, a, p)
}
proof fn lemma_rc_miss(cur: Seq<Attribution>, t: Seq<Attribution>, lt: Seq<Text>, lb: Seq<Seq<u8>>, st: Seq<usize>, ls: Seq<LineAttribution>, mv: AuthorMapV, k: int)
    requires rc_inv(cur, t, lt, lb, st, ls, mv, k), k >= 0, !sel(lt, ls, mv, k),
    ensures rc_inv(cur, t, lt, lb, st, ls, mv, k + 1),
{
    assert forall|a: Text, p: int| #![trigger cov(cur, a, p)] cov(cur, a, p) == rc(t, lt, lb, st, ls, mv, k + 1, a, p) by {
        assert(cov(cur, a, p) == rc(t, lt, lb, st, ls, mv, k, a, p));
    }
}
proof fn lemma_rc_hit(cur: Seq<Attribution>, out: Seq<Attribution>, t: Seq<Attribution>, lt: Seq<Text>, lb: Seq<Seq<u8>>, st: Seq<usize>, ls: Seq<LineAttribution>, mv: AuthorMapV, k: int)
    requires rc_inv(cur, t, lt, lb, st, ls, mv, k), k >= 0, sel(lt, ls, mv, k),
        step_ok(out, cur, cur.len() as int, DUMMY(), mv[lt[k]], st[k] as int, st[k] + lb[k].len()),
    ensures rc_inv(out, t, lt, lb, st, ls, mv, k + 1),
{
    let au = mv[lt[k]];
    assert forall|a: Text, p: int| #![trigger cov(out, a, p)] cov(out, a, p) == rc(t, lt, lb, st, ls, mv, k + 1, a, p) by {
        assert(cov(out, a, p) == recredited(cur, cur.len() as int, DUMMY(), au, st[k] as int, st[k] + lb[k].len(), a, p));
        assert(cov_upto(cur, cur.len() as int, a, p) == cov(cur, a, p));
        assert(cov_upto(cur, cur.len() as int, au, p) == cov(cur, au, p));
        assert(cov_upto(cur, cur.len() as int, DUMMY(), p) == cov(cur, DUMMY(), p));
        assert(cov(cur, a, p) == rc(t, lt, lb, st, ls, mv, k, a, p));
        assert(cov(cur, au, p) == rc(t, lt, lb, st, ls, mv, k, au, p));
        assert(cov(cur, DUMMY(), p) == rc(t, lt, lb, st, ls, mv, k, DUMMY(), p));
    }
}
/// dropping the placeholder entries keeps every other author's coverage and leaves no placeholder entry
pub open spec fn no_author(s: Seq<Attribution>, a: Text) -> bool { forall|i: int| 0 <= i < s.len() ==> (#[trigger] s[i]).author_id@ != a }
proof fn lemma_keep_real(s: Seq<Attribution>)
    ensures no_author(keep_real(s), DUMMY()), forall|a: Text, p: int| #![trigger cov(keep_real(s), a, p)] a != DUMMY() ==> cov(keep_real(s), a, p) == cov(s, a, p),
{
    let pred = not_author(DUMMY()); let r = keep_real(s);
    assert forall|i: int| 0 <= i < r.len() implies (#[trigger] r[i]).author_id@ != DUMMY() by { assert(r.contains(r[i])); s.lemma_filter_contains_rev(pred, r[i]); assert(pred(r[i])); }
    assert forall|a: Text, p: int| #![trigger cov(r, a, p)] a != DUMMY() implies cov(r, a, p) == cov(s, a, p) by {
        if cov(r, a, p) { let i = choose|i: int| 0 <= i < r.len() && in_piece(#[trigger] r[i], a, p); assert(r.contains(r[i])); s.lemma_filter_contains_rev(pred, r[i]);
            let j = choose|j: int| 0 <= j < s.len() && s[j] == r[i]; assert(in_piece(s[j], a, p)); }
        if cov(s, a, p) { let j = choose|j: int| 0 <= j < s.len() && in_piece(#[trigger] s[j], a, p); assert(pred(s[j])); s.lemma_filter_contains(pred, j);
            let i = choose|i: int| 0 <= i < r.len() && r[i] == s[j]; assert(in_piece(r[i], a, p)); }
    }
}

// ---------------------------------------------------------------- what ONE STEP of the replay must do (from the property, C02 / C03)
pub open spec fn o_content(orig: Option<&VirtualAttributions>, f: Text) -> Option<Text> { if orig is Some { va_content(*orig.unwrap(), f) } else { None } }
pub open spec fn o_chars(orig: Option<&VirtualAttributions>, f: Text) -> Option<Seq<Attribution>> { if orig is Some { va_chars(*orig.unwrap(), f) } else { None } }
/// THE TRACKER STAGE for a changed file f with new content c: update_attributions(PREVIOUS CONTENT OF THE RUNNING STATE, c, PREVIOUS
/// ATTRIBUTIONS OF THE RUNNING STATE, placeholder, ts) - nothing when the running state does not know the file, and nothing when
/// neither the running state nor the original head has any AI credit in this file (then there is nothing to carry or to restore)
pub open spec fn base_attrs(a0: Map<Text, FileState>, c0: Map<Text, Text>, mv: Option<Map<Text, AuthorMapV>>, f: Text, c: Text, ts: u128) -> Option<Seq<Attribution>> {
    let src_ai = a0.dom().contains(f) && has_non_human(a0[f].0);
    let orig_ai = file_map(mv, f) is Some && map_nonempty(file_map(mv, f).unwrap());
    if !src_ai && !orig_ai { Some(Seq::<Attribution>::empty()) }
    else if a0.dom().contains(f) && c0.dom().contains(f) { upd(c0[f], c, a0[f].0, DUMMY(), ts) }
    else { Some(Seq::<Attribution>::empty()) }
}
pub open spec fn rc_all(cur: Seq<Attribution>, t: Seq<Attribution>, c: Text, mv: AuthorMapV, st: Seq<usize>) -> bool {
    rc_inv(cur, t, str_lines(c), lines_of(tb(c)), st, proj(t, c), mv, lines_of(tb(c)).len() as int)
}
pub open spec fn rc_real(cur: Seq<Attribution>, t: Seq<Attribution>, c: Text, mv: AuthorMapV, st: Seq<usize>) -> bool {
    forall|a: Text, p: int| #![trigger cov(cur, a, p)] a != DUMMY() ==> cov(cur, a, p) == rc(t, str_lines(c), lines_of(tb(c)), st, proj(t, c), mv, lines_of(tb(c)).len() as int, a, p)
}
pub open spec fn offsets_ok(c: Text, st: Seq<usize>) -> bool {
    st.len() == lines_of(tb(c)).len() && str_lines(c).len() == lines_of(tb(c)).len() && starts_ok(tb(c), lines_of(tb(c)), st, lines_of(tb(c)).len() as int)
}
/// before the placeholder entries are dropped
pub open spec fn pre_retain_ok(cur: Seq<Attribution>, t: Seq<Attribution>, oc: Option<Text>, oa: Option<Seq<Attribution>>, fm: Option<AuthorMapV>, c: Text) -> bool {
    if oc == Some(c) && oa is Some { cur == oa.unwrap() }
    else if oc is Some && oc.unwrap() != c && fm is Some && any_author(t, DUMMY()) && chi(c, fm.unwrap()) { exists|st: Seq<usize>| #[trigger] offsets_ok(c, st) && rc_all(cur, t, c, fm.unwrap(), st) }
    else { cur == t }
}
/// THE RESULT FOR A CHANGED FILE f with new (non-empty) content c.  res = (char attributions, line attributions) stored for f:
///  * the line attributions are the projection of exactly the stored char attributions on the NEW content; no placeholder entry is stored;
///  * (c) the new content IS the original head's content of this file: the original head's attributions of THIS file, verbatim;
///  * (a)+(b) otherwise: what the tracker carried from the running state, plus - only where the tracker put the placeholder - the
///    author the ORIGINAL HEAD'S MAP OF THIS FILE gives for the text of a line the bitmap marks (fold `rc`); the two guards of the
///    code (some placeholder entry exists; some line of the content is a key) are harmless, see lemma_gate_*;
///  * without an original-head content or map for the file: the tracker's result minus the placeholder.
pub open spec fn file_post(a0: Map<Text, FileState>, c0: Map<Text, Text>, oc: Option<Text>, oa: Option<Seq<Attribution>>, mv: Option<Map<Text, AuthorMapV>>, f: Text, c: Text, ts: u128, res: FileState) -> bool {
    &&& base_attrs(a0, c0, mv, f, c, ts) is Some
    &&& res.1 == proj(res.0, c)
    &&& no_author(res.0, DUMMY())
    &&& ({ let t = base_attrs(a0, c0, mv, f, c, ts).unwrap(); let fm = file_map(mv, f);
           if oc == Some(c) && oa is Some { res.0 == keep_real(oa.unwrap()) }
           else if oc is Some && oc.unwrap() != c && fm is Some && any_author(t, DUMMY()) && chi(c, fm.unwrap()) { exists|st: Seq<usize>| #[trigger] offsets_ok(c, st) && rc_real(res.0, t, c, fm.unwrap(), st) }
           else { res.0 == keep_real(t) } })
}
proof fn lemma_finish(cur: Seq<Attribution>, t: Seq<Attribution>, oc: Option<Text>, oa: Option<Seq<Attribution>>, fm: Option<AuthorMapV>, c: Text)
    requires pre_retain_ok(cur, t, oc, oa, fm, c),
    ensures no_author(keep_real(cur), DUMMY()),
        if oc == Some(c) && oa is Some { keep_real(cur) == keep_real(oa.unwrap()) }
        else if oc is Some && oc.unwrap() != c && fm is Some && any_author(t, DUMMY()) && chi(c, fm.unwrap()) { exists|st: Seq<usize>| #[trigger] offsets_ok(c, st) && rc_real(keep_real(cur), t, c, fm.unwrap(), st) }
        else { keep_real(cur) == keep_real(t) },
{
    lemma_keep_real(cur);
    if oc == Some(c) && oa is Some { } else if oc is Some && oc.unwrap() != c && fm is Some && any_author(t, DUMMY()) && chi(c, fm.unwrap()) {
        let st = choose|st: Seq<usize>| #[trigger] offsets_ok(c, st) && rc_all(cur, t, c, fm.unwrap(), st);
        let r = keep_real(cur);
        assert forall|a: Text, p: int| #![trigger cov(r, a, p)] a != DUMMY() implies cov(r, a, p) == rc(t, str_lines(c), lines_of(tb(c)), st, proj(t, c), fm.unwrap(), lines_of(tb(c)).len() as int, a, p) by {
            assert(cov(r, a, p) == cov(cur, a, p));
        }
        assert(offsets_ok(c, st) && rc_real(r, t, c, fm.unwrap(), st));
    }
}

pub open spec fn same_at<V>(m0: Map<Text, V>, m1: Map<Text, V>, f: Text) -> bool { m0.dom().contains(f) == m1.dom().contains(f) && (m0.dom().contains(f) ==> m0[f] == m1[f]) }
/// file f, handed over with new content c: EMPTY content (deleted / absent in this commit) leaves the running state of f untouched
/// (the caller's `existing_files` keeps it out of the note - unit slowpath); otherwise the content map holds c and the attributions are file_post
pub open spec fn file_done(a0: Map<Text, FileState>, c0: Map<Text, Text>, a1: Map<Text, FileState>, c1: Map<Text, Text>, orig: Option<&VirtualAttributions>, maps: Option<&MapMap>, ts: u128, f: Text, c: Text) -> bool {
    if c.len() > 0 { a1.dom().contains(f) && c1.dom().contains(f) && c1[f] == c && file_post(a0, c0, o_content(orig, f), o_chars(orig, f), mview(maps), f, c, ts, a1[f]) }
    else { same_at(a0, a1, f) && same_at(c0, c1, f) }
}
pub open spec fn seen_at(l: Seq<(String, String)>, k: int, f: Text) -> bool { exists|j: int| 0 <= j < k && (#[trigger] l[j]).0@ == f }
pub open spec fn at_ok(a0: Map<Text, FileState>, c0: Map<Text, Text>, a1: Map<Text, FileState>, c1: Map<Text, Text>, orig: Option<&VirtualAttributions>, maps: Option<&MapMap>, ts: u128, fs: Map<Text, Text>, l: Seq<(String, String)>, k: int, f: Text) -> bool {
    if seen_at(l, k, f) { file_done(a0, c0, a1, c1, orig, maps, ts, f, fs[f]) } else { same_at(a0, a1, f) && same_at(c0, c1, f) }
}
pub open spec fn state_inv(a0: Map<Text, FileState>, c0: Map<Text, Text>, a1: Map<Text, FileState>, c1: Map<Text, Text>, orig: Option<&VirtualAttributions>, maps: Option<&MapMap>, ts: u128, fs: Map<Text, Text>, l: Seq<(String, String)>, k: int) -> bool {
    forall|f: Text| #[trigger] at_ok(a0, c0, a1, c1, orig, maps, ts, fs, l, k, f)
}
pub open spec fn post_at(a0: Map<Text, FileState>, c0: Map<Text, Text>, a1: Map<Text, FileState>, c1: Map<Text, Text>, orig: Option<&VirtualAttributions>, maps: Option<&MapMap>, ts: u128, fs: Map<Text, Text>, f: Text) -> bool {
    if fs.dom().contains(f) { file_done(a0, c0, a1, c1, orig, maps, ts, f, fs[f]) } else { same_at(a0, a1, f) && same_at(c0, c1, f) }
}
/// THE STEP: exactly the files handed over (the commit's changed files) are transformed, each from the RUNNING state's entry for the
/// SAME file; every other file keeps its attributions and its content
pub open spec fn step_post(a0: Map<Text, FileState>, c0: Map<Text, Text>, a1: Map<Text, FileState>, c1: Map<Text, Text>, orig: Option<&VirtualAttributions>, maps: Option<&MapMap>, ts: u128, fs: Map<Text, Text>) -> bool {
    forall|f: Text| #[trigger] post_at(a0, c0, a1, c1, orig, maps, ts, fs, f)
}
proof fn lemma_unseen(l: Seq<(String, String)>, fs: Map<Text, Text>, k: int)
    requires entries_of(l, fs), 0 <= k < l.len(),
    ensures !seen_at(l, k, l[k].0@), fs.dom().contains(l[k].0@), fs[l[k].0@] == l[k].1@,
{
    if seen_at(l, k, l[k].0@) { let j = choose|j: int| 0 <= j < k && (#[trigger] l[j]).0@ == l[k].0@; assert(l[j].0@ != l[k].0@); }
}
proof fn lemma_seen_step(l: Seq<(String, String)>, k: int, f: Text)
    requires 0 <= k < l.len(),
    ensures seen_at(l, k + 1, f) <==> (seen_at(l, k, f) || l[k].0@ == f),
{
    if seen_at(l, k + 1, f) { let j = choose|j: int| 0 <= j < k + 1 && (#[trigger] l[j]).0@ == f; if j < k { assert(0 <= j < k && l[j].0@ == f); } }
    if seen_at(l, k, f) { let j = choose|j: int| 0 <= j < k && (#[trigger] l[j]).0@ == f; assert(0 <= j < k + 1 && l[j].0@ == f); }
    if l[k].0@ == f { assert(0 <= k < k + 1 && l[k].0@ == f); }
}
proof fn lemma_state_step(a0: Map<Text, FileState>, c0: Map<Text, Text>, a1: Map<Text, FileState>, c1: Map<Text, Text>, a2: Map<Text, FileState>, c2: Map<Text, Text>, orig: Option<&VirtualAttributions>, maps: Option<&MapMap>, ts: u128, fs: Map<Text, Text>, l: Seq<(String, String)>, k: int)
    requires entries_of(l, fs), 0 <= k < l.len(), state_inv(a0, c0, a1, c1, orig, maps, ts, fs, l, k),
        file_done(a0, c0, a2, c2, orig, maps, ts, l[k].0@, l[k].1@),
        forall|g: Text| g != l[k].0@ ==> #[trigger] same_at(a1, a2, g) && same_at(c1, c2, g),
    ensures state_inv(a0, c0, a2, c2, orig, maps, ts, fs, l, k + 1),
{
    lemma_unseen(l, fs, k);
    assert forall|f: Text| #[trigger] at_ok(a0, c0, a2, c2, orig, maps, ts, fs, l, k + 1, f) by {
        lemma_seen_step(l, k, f);
        if f != l[k].0@ { assert(at_ok(a0, c0, a1, c1, orig, maps, ts, fs, l, k, f)); assert(same_at(a1, a2, f)); assert(same_at(c1, c2, f)); }
    }
}
proof fn lemma_state_done(a0: Map<Text, FileState>, c0: Map<Text, Text>, a1: Map<Text, FileState>, c1: Map<Text, Text>, orig: Option<&VirtualAttributions>, maps: Option<&MapMap>, ts: u128, fs: Map<Text, Text>, l: Seq<(String, String)>)
    requires entries_of(l, fs), state_inv(a0, c0, a1, c1, orig, maps, ts, fs, l, l.len() as int),
    ensures step_post(a0, c0, a1, c1, orig, maps, ts, fs),
{
    assert forall|f: Text| #[trigger] post_at(a0, c0, a1, c1, orig, maps, ts, fs, f) by {
        assert(at_ok(a0, c0, a1, c1, orig, maps, ts, fs, l, l.len() as int, f));
        if fs.dom().contains(f) { let i = choose|i: int| 0 <= i < l.len() && (#[trigger] l[i]).0@ == f; assert(seen_at(l, l.len() as int, f)); }
        if seen_at(l, l.len() as int, f) { let j = choose|j: int| 0 <= j < l.len() && (#[trigger] l[j]).0@ == f; assert(fs.dom().contains(l[j].0@)); }
    }
}
proof fn lemma_state_init(a0: Map<Text, FileState>, c0: Map<Text, Text>, orig: Option<&VirtualAttributions>, maps: Option<&MapMap>, ts: u128, fs: Map<Text, Text>, l: Seq<(String, String)>)
    ensures state_inv(a0, c0, a0, c0, orig, maps, ts, fs, l, 0),
{
    assert forall|f: Text| #[trigger] at_ok(a0, c0, a0, c0, orig, maps, ts, fs, l, 0, f) by { assert(!seen_at(l, 0, f)); }
}
proof fn lemma_lnum(i: int, lc: int)
    requires 0 <= i < lc, lc + 2 <= usize::MAX,
    ensures 0 <= lnum(i) <= lc, i + 1 <= u32::MAX ==> lnum(i) == i + 1,
{
    let x: usize = (i + 1) as usize;
    if x <= u32::MAX { assert((x as u32) as int == x as int); } else { assert((x as u32) as int <= u32::MAX); }
}
//#item file=src/authorship/rebase_authorship.rs kind=fn name=transform_changed_files_to_final_state opaque='[{"expr": "crate::authorship::attribution_tracker::attributions_to_line_attributions", "call": "tracker_attributions_to_line_attributions"}, {"expr": "crate::authorship::attribution_tracker::Attribution", "call": "TrackerAttribution"}, {"expr": "crate::authorship::attribution_tracker::LineAttribution", "call": "TrackerLineAttribution"}, {"expr": "crate::authorship::virtual_attribution::VirtualAttributions", "call": "VaT"}, {"expr": "in final_state", "call": "in opq_into_entries(final_state)"}, {"expr": "final_content.is_empty()", "call": "opq_is_empty(&final_content)"}, {"expr": "attributions .get(&file_path) .map(|(char_attrs, _)| char_attrs.as_slice())", "call": "opq_char_attrs_of(attributions, &file_path)"}, {"expr": "file_contents.get(&file_path).map(String::as_str)", "call": "opq_content_of(file_contents, &file_path)"}, {"expr": "source_attrs.as_ref().is_some_and(|attrs| { attrs.iter().any(|attr| { attr.author_id != crate::authorship::working_log::CheckpointKind::Human.to_str() }) })", "call": "opq_has_non_human(&source_attrs)"}, {"expr": "original_line_to_author_maps .and_then(|maps| maps.get(&file_path)) .is_some_and(|map| !map.is_empty())", "call": "opq_file_map_nonempty(original_line_to_author_maps, &file_path)"}, {"expr": "original_content == &final_content", "call": "opq_string_eq(original_content, &final_content)"}, {"expr": "original_attrs.clone()", "call": "opq_clone_attrs(original_attrs)"}, {"expr": "transformed_attrs .iter() .any(|attr| attr.author_id == dummy_author) && let Some(original_line_to_author) = original_line_to_author_maps.and_then(|maps| maps.get(&file_path)) && content_has_intersection_with_author_map(&final_content, original_line_to_author)", "call": "let Some(original_line_to_author) = opq_candidate_map(&transformed_attrs, dummy_author, original_line_to_author_maps, &file_path, &final_content)"}, {"expr": "final_content.lines().collect()", "call": "opq_lines(&final_content)"}, {"expr": "vec![0i32; line_count + 2]", "call": "opq_vec_i32(line_count + 2)"}, {"expr": "vec![false; line_count + 1]", "call": "opq_vec_bool(line_count + 1)"}, {"expr": "la.author_id != dummy_author", "call": "!opq_str_eq(&la.author_id, dummy_author)"}, {"stmt_from": "for line in &final_lines {", "call": "line_start_chars = opq_offsets(&final_lines, &final_content);"}, {"expr": "final_lines.iter().enumerate()", "call": "opq_enumerate(&final_lines)"}, {"expr": "std::mem::take(&mut transformed_attrs)", "call": "opq_take(&mut transformed_attrs)"}, {"expr": "transformed_attrs.retain(|attr| attr.author_id != dummy_author)", "call": "opq_retain_not_author(&mut transformed_attrs, dummy_author)"}]'
fn transform_changed_files_to_final_state(
    attributions: &mut HashMap<
        String,
        (
            Vec<TrackerAttribution>,
            Vec<TrackerLineAttribution>,
        ),
    >,
    file_contents: &mut HashMap<String, String>,
    final_state: HashMap<String, String>,
    original_head_state: Option<&VaT>,
    original_line_to_author_maps: Option<&HashMap<String, HashMap<String, String>>>,
    ts: u128,
) -> (r_: Result<(), GitAiError>)
//@     ensures
//@         // Ok: exactly the files handed over are transformed (from the running state's entry of the SAME file), every other file keeps
//@         // its attributions and content; Err (the tracker failed): nothing is claimed, the caller writes no note
//@         r_ is Ok ==> step_post(am(*old(attributions)), cm(*old(file_contents)), am(*final(attributions)), cm(*final(file_contents)), original_head_state, original_line_to_author_maps, ts, cm(final_state)),
{
    use crate::authorship::attribution_tracker::AttributionTracker;

    let tracker = AttributionTracker::new();
    //@ let ghost a0 = am(*attributions);
    //@ let ghost c0 = cm(*file_contents);
    //@ let ghost fs = cm(final_state);
    //@ let ghost orig = original_head_state;
    //@ let ghost maps = original_line_to_author_maps;
    //@ let ghost l = entries_list(final_state);
    //@ proof { axiom_entries_list(final_state); lemma_state_init(a0, c0, orig, maps, ts, fs, l); if l.len() == 0 { lemma_state_done(a0, c0, a0, c0, orig, maps, ts, fs, l); } }

    for (file_path, final_content) in it_0: opq_into_entries(final_state)
    //@     invariant
    //@         it_0.snapshot@.remaining() == l, entries_of(l, fs), orig == original_head_state, maps == original_line_to_author_maps,
    //@         state_inv(a0, c0, am(*attributions), cm(*file_contents), orig, maps, ts, fs, l, it_0.index@),
    //@         it_0.index@ == l.len() ==> step_post(a0, c0, am(*attributions), cm(*file_contents), orig, maps, ts, fs),
    {
        //@ let ghost k = it_0.index@;
        //@ let ghost f = file_path@;
        //@ let ghost c = final_content@;
        //@ let ghost a1 = am(*attributions);
        //@ let ghost c1 = cm(*file_contents);
        //@ let ghost mv = mview(maps);
        //@ let ghost fm = file_map(mv, f);
        //@ let ghost oc = o_content(orig, f);
        //@ let ghost oa = o_chars(orig, f);
        //@ proof {
        //@     assert(l[k].0 == file_path && l[k].1 == final_content);
        //@     lemma_unseen(l, fs, k);
        //@     assert(at_ok(a0, c0, a1, c1, orig, maps, ts, fs, l, k, f));
        //@     if c.len() == 0 { lemma_state_step(a0, c0, a1, c1, a1, c1, orig, maps, ts, fs, l, k); if k + 1 == l.len() { lemma_state_done(a0, c0, a1, c1, orig, maps, ts, fs, l); } }
        //@ }
        // Keep previous state for missing/deleted files so a later reappearance can still
        // inherit older attributions.
        if !(opq_is_empty(&final_content)) {

        let source_attrs = opq_char_attrs_of(attributions, &file_path);
        let source_content = opq_content_of(file_contents, &file_path);
        let dummy_author = "__DUMMY__";
        let source_has_non_human = opq_has_non_human(&source_attrs);
        let original_file_has_non_human = opq_file_map_nonempty(original_line_to_author_maps, &file_path);

        let mut transformed_attrs = if !source_has_non_human && !original_file_has_non_human {
            Vec::new()
        } else if let (Some(attrs), Some(content)) = (source_attrs, source_content) {
            tracker.update_attributions(content, &final_content, attrs, dummy_author, ts)?
        } else {
            Vec::new()
        };
        //@ let ghost t = transformed_attrs@;
        //@ proof { assert(base_attrs(a0, c0, mv, f, c, ts) == Some(t)); }

        // Restore known attributions when the line content clearly maps back to original_head.
        if let Some(original_state) = original_head_state { if let Some(original_content) = original_state.get_file_content(&file_path) {
            if opq_string_eq(original_content, &final_content) {
                if let Some(original_attrs) = original_state.get_char_attributions(&file_path) {
                    transformed_attrs = opq_clone_attrs(original_attrs);
                }
            } else if let Some(original_line_to_author) = opq_candidate_map(&transformed_attrs, dummy_author, original_line_to_author_maps, &file_path, &final_content)
            {
                //@ let ghost m = fm.unwrap();
                let final_lines: Vec<&str> = opq_lines(&final_content);
                let line_count = final_lines.len();
                let temp_line_attrs =
                    tracker_attributions_to_line_attributions(
                        &transformed_attrs,
                        &final_content,
                    );
                //@ let ghost ls = temp_line_attrs@;
                //@ let ghost lc = line_count as int;
                //@ let ghost lt = str_lines(c);
                //@ let ghost lb = lines_of(tb(c));
                //@ proof { assert(ls == proj(t, c)); assert(lb =~= line_bytes(final_lines@)); assert(lb.len() == lc && lt.len() == lc); }

                let mut dummy_diff = opq_vec_i32(line_count + 2);
                //@ proof { lemma_diff_init(dummy_diff@, ls, lc); }
                for la in it_1: &temp_line_attrs
                //@     invariant
                //@         ls == temp_line_attrs@, lc == line_count, lc + 2 <= usize::MAX, ls.len() < 0x7fff_ffff, dummy_author@ == DUMMY(),
                //@         it_1.snapshot@.remaining().len() == ls.len(), forall|j: int| 0 <= j < ls.len() ==> *(#[trigger] it_1.snapshot@.remaining()[j]) == ls[j],
                //@         diff_inv(dummy_diff@, ls, it_1.index@, lc),
                {
                    //@ let ghost j = it_1.index@;
                    //@ let ghost d = dummy_diff@;
                    //@ proof { assert(*la == ls[j]); if !(ls[j].author_id@ == DUMMY() && clampl(ls[j].start_line, lc) <= clampl(ls[j].end_line, lc)) { lemma_diff_skip(d, ls, j, lc); } }
                    if !(!opq_str_eq(&la.author_id, dummy_author)) {
                    let start = (la.start_line as usize).max(1).min(line_count);
                    let end = (la.end_line as usize).max(1).min(line_count);
                    //@ proof { assert(start == clampl(ls[j].start_line, lc)); assert(end == clampl(ls[j].end_line, lc)); }
                    if !(start > end) {
                    //@ proof { assert(-j <= d[start as int] <= j); }
                    dummy_diff[start] += 1;
                    //@ let ghost d1 = dummy_diff@;
                    //@ proof { assert(-j <= d[end + 1] <= j); assert(-j <= d1[end + 1] <= j + 1); }
                    dummy_diff[end + 1] -= 1;
                    //@ proof { lemma_diff_step(d, d1, dummy_diff@, ls, j, lc); }
                } }
                }

                let mut has_dummy_line = opq_vec_bool(line_count + 1); // 1-indexed
                let mut running = 0i32;
                //@ proof { assert(hd_inv(has_dummy_line@, ls, lc, 0)); }
                for line in it_2: 1..=line_count
                //@     invariant
                //@         lc == line_count, lc + 2 <= usize::MAX, ls.len() < 0x7fff_ffff, range_rem(it_2.snapshot@.remaining(), 1, lc),
                //@         diff_inv(dummy_diff@, ls, ls.len() as int, lc), hd_inv(has_dummy_line@, ls, lc, it_2.index@),
                //@         running == psum(dummy_diff@, it_2.index@),
                {
                    //@ let ghost h0 = has_dummy_line@;
                    //@ proof { assert(line == 1 + it_2.index@); lemma_hd_step(h0, h0.update(line as int, psum(dummy_diff@, line as int) > 0), dummy_diff@, ls, lc, line as int); }
                    running += dummy_diff[line];
                    has_dummy_line[line] = running > 0;
                }

                let mut line_start_chars = Vec::with_capacity(line_count);
                let mut char_pos = 0usize;
                line_start_chars = opq_offsets(&final_lines, &final_content);
                //@ let ghost st = line_start_chars@;
                //@ proof { assert(offsets_ok(c, st)); assert(rc_inv(t, t, lt, lb, st, ls, m, 0)); }

                for (line_idx, line_content) in it_3: opq_enumerate(&final_lines)
                //@     invariant
                //@         lc == line_count, lc + 2 <= usize::MAX, enum_ok(it_3.snapshot@.remaining(), final_lines@), final_lines@.len() == lc, dummy_author@ == DUMMY(),
                //@         hd_inv(has_dummy_line@, ls, lc, lc), st == line_start_chars@, st.len() == lc, lt.len() == lc, lb.len() == lc, lb == line_bytes(final_lines@),
                //@         forall|i: int| 0 <= i < lc ==> (#[trigger] final_lines@[i])@ == lt[i],
                //@         starts_ok(tb(c), lb, st, lc), tb(c).len() <= usize::MAX, cm(*original_line_to_author) == m,
                //@         rc_inv(transformed_attrs@, t, lt, lb, st, ls, m, it_3.index@),
                {
                    //@ let ghost i = it_3.index@;
                    //@ let ghost cur = transformed_attrs@;
                    //@ proof { assert(it_3.snapshot@.remaining()[i].0 == line_idx && *it_3.snapshot@.remaining()[i].1 == *line_content); assert(line_idx == i); lemma_lnum(i, lc); assert(final_lines@[i]@ == lt[i]); assert(lb[i] == final_lines@[i].spec_bytes()); }
                    let line_num = (line_idx + 1) as u32;
                    //@ proof { assert(line_num as int == lnum(i)); if !sel(lt, ls, m, i) { lemma_rc_miss(cur, t, lt, lb, st, ls, m, i); } }
                    if !(!has_dummy_line[line_num as usize]) {
                    if let Some(original_author) = original_line_to_author.get(*line_content) {
                        let line_start_char = line_start_chars[line_idx];
                        let line_end_char = line_start_char + line_content.len();
                        transformed_attrs = restore_author_in_range(
                            opq_take(&mut transformed_attrs),
                            dummy_author,
                            original_author,
                            line_start_char,
                            line_end_char,
                        );
                        //@ proof { lemma_rc_hit(cur, transformed_attrs@, t, lt, lb, st, ls, m, i); }
                    }
                }
                }
                //@ proof { assert(offsets_ok(c, st) && rc_all(transformed_attrs@, t, c, m, st)); assert(pre_retain_ok(transformed_attrs@, t, oc, oa, fm, c)); }
            }
        } }
        //@ proof { assert(pre_retain_ok(transformed_attrs@, t, oc, oa, fm, c)); lemma_finish(transformed_attrs@, t, oc, oa, fm, c); }

        opq_retain_not_author(&mut transformed_attrs, dummy_author);

        let line_attrs = tracker_attributions_to_line_attributions(
            &transformed_attrs,
            &final_content,
        );
        //@ let ghost res = (transformed_attrs@, line_attrs@);
        //@ proof { assert(file_post(a0, c0, oc, oa, mv, f, c, ts, res)); }

        attributions.insert(file_path.clone(), (transformed_attrs, line_attrs));
        file_contents.insert(file_path, final_content);
        //@ proof {
        //@     let a2 = am(*attributions); let c2 = cm(*file_contents);
        //@     assert(a2 == a1.insert(f, res) && c2 == c1.insert(f, c));
        //@     assert(file_done(a0, c0, a2, c2, orig, maps, ts, f, c));
        //@     lemma_state_step(a0, c0, a1, c1, a2, c2, orig, maps, ts, fs, l, k);
        //@     if k + 1 == l.len() { lemma_state_done(a0, c0, a2, c2, orig, maps, ts, fs, l); }
        //@ }
    }
    }

    Ok(())
}
//#end

// ---------------------------------------------------------------- user-level statements about the re-crediting fold
/// C03 "nothing else becomes AI": after re-crediting, a byte is credited to `a` only if (a) the tracker's result already credited it to
/// `a`, or (b) the tracker gave it the PLACEHOLDER and it lies in the byte range of a candidate line i (bitmap + key of the map) whose
/// text the map sends to `a`; the placeholder never gains a byte
proof fn theorem_recredit_only_placeholder_on_matching_line(t: Seq<Attribution>, lt: Seq<Text>, lb: Seq<Seq<u8>>, st: Seq<usize>, ls: Seq<LineAttribution>, mv: AuthorMapV, k: int, a: Text, p: int)
    requires k >= 0, rc(t, lt, lb, st, ls, mv, k, a, p),
    ensures cov(t, a, p) || (cov(t, DUMMY(), p) && exists|i: int| 0 <= i < k && #[trigger] sel(lt, ls, mv, i) && st[i] <= p < st[i] + lb[i].len() && mv[lt[i]] == a),
        a == DUMMY() ==> cov(t, DUMMY(), p),
    decreases k
{
    if k > 0 {
        let i = k - 1;
        if sel(lt, ls, mv, i) && st[i] <= p < st[i] + lb[i].len() {
            let au = mv[lt[i]];
            if a == au {
                if rc(t, lt, lb, st, ls, mv, i, au, p) { theorem_recredit_only_placeholder_on_matching_line(t, lt, lb, st, ls, mv, i, au, p); }
                else { theorem_recredit_only_placeholder_on_matching_line(t, lt, lb, st, ls, mv, i, DUMMY(), p); assert(sel(lt, ls, mv, i) && 0 <= i < k); }
            } else if a == DUMMY() { } else { theorem_recredit_only_placeholder_on_matching_line(t, lt, lb, st, ls, mv, i, a, p); }
        } else { theorem_recredit_only_placeholder_on_matching_line(t, lt, lb, st, ls, mv, i, a, p); }
        if !cov(t, a, p) {
            if rc(t, lt, lb, st, ls, mv, i, a, p) && !(sel(lt, ls, mv, i) && st[i] <= p < st[i] + lb[i].len() && a == DUMMY()) {
                let j = choose|j: int| 0 <= j < i && #[trigger] sel(lt, ls, mv, j) && st[j] <= p < st[j] + lb[j].len() && mv[lt[j]] == a;
                assert(0 <= j < k && sel(lt, ls, mv, j));
            }
        }
    }
}
/// C02: re-crediting never takes a byte away from a real author (only the placeholder's credit moves)
proof fn theorem_carried_credit_survives_recrediting(t: Seq<Attribution>, lt: Seq<Text>, lb: Seq<Seq<u8>>, st: Seq<usize>, ls: Seq<LineAttribution>, mv: AuthorMapV, k: int, a: Text, p: int)
    requires k >= 0, a != DUMMY(), cov(t, a, p),
    ensures rc(t, lt, lb, st, ls, mv, k, a, p),
    decreases k
{
    if k > 0 { theorem_carried_credit_survives_recrediting(t, lt, lb, st, ls, mv, k - 1, a, p); }
}
/// the two guards in front of the re-crediting block change nothing: without a placeholder entry, or without a line whose text is a
/// key of the map, the fold credits exactly what the tracker credited (for every real author)
proof fn lemma_gate_no_placeholder(t: Seq<Attribution>, lt: Seq<Text>, lb: Seq<Seq<u8>>, st: Seq<usize>, ls: Seq<LineAttribution>, mv: AuthorMapV, k: int, a: Text, p: int)
    requires k >= 0, !any_author(t, DUMMY()), a != DUMMY(),
    ensures rc(t, lt, lb, st, ls, mv, k, a, p) == cov(t, a, p),
{
    if rc(t, lt, lb, st, ls, mv, k, a, p) {
        theorem_recredit_only_placeholder_on_matching_line(t, lt, lb, st, ls, mv, k, a, p);
        if cov(t, DUMMY(), p) { let i = choose|i: int| 0 <= i < t.len() && in_piece(#[trigger] t[i], DUMMY(), p); assert(t[i].author_id@ == DUMMY()); }
    }
    if cov(t, a, p) { theorem_carried_credit_survives_recrediting(t, lt, lb, st, ls, mv, k, a, p); }
}
proof fn lemma_gate_no_intersection(t: Seq<Attribution>, c: Text, lb: Seq<Seq<u8>>, st: Seq<usize>, ls: Seq<LineAttribution>, mv: AuthorMapV, k: int, a: Text, p: int)
    requires 0 <= k <= str_lines(c).len(), !chi(c, mv), a != DUMMY(),
    ensures rc(t, str_lines(c), lb, st, ls, mv, k, a, p) == cov(t, a, p),
{
    let lt = str_lines(c);
    if rc(t, lt, lb, st, ls, mv, k, a, p) {
        theorem_recredit_only_placeholder_on_matching_line(t, lt, lb, st, ls, mv, k, a, p);
        if !cov(t, a, p) { let i = choose|i: int| 0 <= i < k && #[trigger] sel(lt, ls, mv, i) && st[i] <= p < st[i] + lb[i].len() && mv[lt[i]] == a; assert(mv.dom().contains(str_lines(c)[i])); }
    }
    if cov(t, a, p) { theorem_carried_credit_survives_recrediting(t, lt, lb, st, ls, mv, k, a, p); }
}

// ---------------------------------------------------------------- user-level statements about one step (over step_post)
/// an UNCHANGED file (not handed over) and a file handed over with EMPTY content keep attributions and content exactly
proof fn theorem_unchanged_file_untouched(a0: Map<Text, FileState>, c0: Map<Text, Text>, a1: Map<Text, FileState>, c1: Map<Text, Text>, orig: Option<&VirtualAttributions>, maps: Option<&MapMap>, ts: u128, fs: Map<Text, Text>, f: Text)
    requires step_post(a0, c0, a1, c1, orig, maps, ts, fs), !fs.dom().contains(f) || fs[f].len() == 0,
    ensures same_at(a0, a1, f), same_at(c0, c1, f),
{
    assert(post_at(a0, c0, a1, c1, orig, maps, ts, fs, f));
}
/// C03 for a changed file: a byte p of the new content ends up credited to S only if S is not the placeholder and
///  (c) the new content equals the original head's content of THIS file and the original head credits p to S there, or
///  (a) the tracker - run on the RUNNING state's content and attributions of THIS file - carried S's credit to p, or
///  (b) the tracker marked p as placeholder text and p lies in a byte range [s, s+len) of the new content that holds the text of
///      line i, the bitmap marks line i, and the author map OF THIS FILE sends that text to S
/// - and the content map holds the new content.
proof fn theorem_changed_file_credit_sources(a0: Map<Text, FileState>, c0: Map<Text, Text>, a1: Map<Text, FileState>, c1: Map<Text, Text>, orig: Option<&VirtualAttributions>, maps: Option<&MapMap>, ts: u128, fs: Map<Text, Text>, f: Text, s: Text, p: int)
    requires step_post(a0, c0, a1, c1, orig, maps, ts, fs), fs.dom().contains(f), fs[f].len() > 0, cov(a1[f].0, s, p),
    ensures
        c1[f] == fs[f], a1[f].1 == proj(a1[f].0, fs[f]), s != DUMMY(),
        base_attrs(a0, c0, mview(maps), f, fs[f], ts) is Some,
        ({ let c = fs[f]; let t = base_attrs(a0, c0, mview(maps), f, c, ts).unwrap(); let fm = file_map(mview(maps), f);
           ||| (o_content(orig, f) == Some(c) && o_chars(orig, f) is Some && cov(o_chars(orig, f).unwrap(), s, p))
           ||| cov(t, s, p)
           ||| (cov(t, DUMMY(), p) && fm is Some && o_content(orig, f) is Some && exists|st: Seq<usize>, i: int| #![trigger offsets_ok(c, st), sel(str_lines(c), proj(t, c), fm.unwrap(), i)]
                   offsets_ok(c, st) && 0 <= i < str_lines(c).len() && sel(str_lines(c), proj(t, c), fm.unwrap(), i)
                   && st[i] <= p < st[i] + lines_of(tb(c))[i].len() && fm.unwrap()[str_lines(c)[i]] == s) }),
{
    assert(post_at(a0, c0, a1, c1, orig, maps, ts, fs, f));
    let c = fs[f]; let t = base_attrs(a0, c0, mview(maps), f, c, ts).unwrap(); let fm = file_map(mview(maps), f);
    let oc = o_content(orig, f); let oa = o_chars(orig, f); let r = a1[f].0;
    let i0 = choose|i: int| 0 <= i < r.len() && in_piece(#[trigger] r[i], s, p);
    assert(r[i0].author_id@ != DUMMY());
    if oc == Some(c) && oa is Some { lemma_keep_real(oa.unwrap()); }
    else if oc is Some && oc.unwrap() != c && fm is Some && any_author(t, DUMMY()) && chi(c, fm.unwrap()) {
        let st = choose|st: Seq<usize>| #[trigger] offsets_ok(c, st) && rc_real(r, t, c, fm.unwrap(), st);
        let n = lines_of(tb(c)).len() as int;
        assert(cov(r, s, p) == rc(t, str_lines(c), lines_of(tb(c)), st, proj(t, c), fm.unwrap(), n, s, p));
        theorem_recredit_only_placeholder_on_matching_line(t, str_lines(c), lines_of(tb(c)), st, proj(t, c), fm.unwrap(), n, s, p);
        if !cov(t, s, p) {
            let i = choose|i: int| 0 <= i < n && #[trigger] sel(str_lines(c), proj(t, c), fm.unwrap(), i) && st[i] <= p < st[i] + lines_of(tb(c))[i].len() && fm.unwrap()[str_lines(c)[i]] == s;
            assert(offsets_ok(c, st) && sel(str_lines(c), proj(t, c), fm.unwrap(), i));
        }
    } else { lemma_keep_real(t); }
}
/// C02 for a changed file: unless the original head's attributions are taken verbatim (case c), every byte the tracker carried for a
/// real author S is still S's afterwards
proof fn theorem_changed_file_keeps_carried_credit(a0: Map<Text, FileState>, c0: Map<Text, Text>, a1: Map<Text, FileState>, c1: Map<Text, Text>, orig: Option<&VirtualAttributions>, maps: Option<&MapMap>, ts: u128, fs: Map<Text, Text>, f: Text, s: Text, p: int)
    requires step_post(a0, c0, a1, c1, orig, maps, ts, fs), fs.dom().contains(f), fs[f].len() > 0, s != DUMMY(),
        !(o_content(orig, f) == Some(fs[f]) && o_chars(orig, f) is Some),
        base_attrs(a0, c0, mview(maps), f, fs[f], ts) is Some ==> cov(base_attrs(a0, c0, mview(maps), f, fs[f], ts).unwrap(), s, p),
    ensures cov(a1[f].0, s, p),
{
    assert(post_at(a0, c0, a1, c1, orig, maps, ts, fs, f));
    let c = fs[f]; let t = base_attrs(a0, c0, mview(maps), f, c, ts).unwrap(); let fm = file_map(mview(maps), f);
    let oc = o_content(orig, f); let r = a1[f].0;
    if oc is Some && oc.unwrap() != c && fm is Some && any_author(t, DUMMY()) && chi(c, fm.unwrap()) {
        let st = choose|st: Seq<usize>| #[trigger] offsets_ok(c, st) && rc_real(r, t, c, fm.unwrap(), st);
        let n = lines_of(tb(c)).len() as int;
        theorem_carried_credit_survives_recrediting(t, str_lines(c), lines_of(tb(c)), st, proj(t, c), fm.unwrap(), n, s, p);
        assert(cov(r, s, p) == rc(t, str_lines(c), lines_of(tb(c)), st, proj(t, c), fm.unwrap(), n, s, p));
    } else { lemma_keep_real(t); }
}

// ---------------------------------------------------------------- the author maps of the original head
/// `(line_num as usize).saturating_sub(1)`
pub open spec fn idx_of(ln: int) -> int { if ln <= 0 { 0 } else { ln - 1 } }
/// the map after the first n lines (start_line .. start_line + n - 1) of line attribution la: the text of each line that exists -> la's author; a later insert overwrites
pub open spec fn amap_line(m: AuthorMapV, lt: Seq<Text>, la: LineAttribution, n: int) -> AuthorMapV
    decreases n
{
    if n <= 0 { m } else {
        let prev = amap_line(m, lt, la, n - 1); let idx = idx_of(la.start_line + n - 1);
        if idx < lt.len() { prev.insert(lt[idx], la.author_id@) } else { prev }
    }
}
pub open spec fn la_span(la: LineAttribution) -> int { if la.start_line <= la.end_line { la.end_line - la.start_line + 1 } else { 0 } }
pub open spec fn amap_upto(lt: Seq<Text>, ls: Seq<LineAttribution>, j: int) -> AuthorMapV
    decreases j
{
    if j <= 0 { Map::<Text, Text>::empty() } else {
        let prev = amap_upto(lt, ls, j - 1);
        if ls[j - 1].author_id@ == HUMAN() { prev } else { amap_line(prev, lt, ls[j - 1], la_span(ls[j - 1])) }
    }
}
/// THE AUTHOR MAP OF ONE FILE of the original head: text of every line a non-human line attribution covers -> that author
pub open spec fn amap_file(content: Text, ls: Seq<LineAttribution>) -> AuthorMapV { amap_upto(str_lines(content), ls, ls.len() as int) }
/// line attribution q of ls credits (non-human) author s with a line whose text is x
pub open spec fn credits_text(lt: Seq<Text>, ls: Seq<LineAttribution>, q: int, ln: int, s: Text, x: Text) -> bool {
    0 <= q < ls.len() && ls[q].author_id@ == s && s != HUMAN() && ls[q].start_line <= ln <= ls[q].end_line && idx_of(ln) < lt.len() && lt[idx_of(ln)] == x
}
/// soundness of the map (what clause (b) of C03 needs): a key's author IS credited, in this file's original head state, with a line of exactly that text
proof fn lemma_amap_line_sound(m: AuthorMapV, lt: Seq<Text>, la: LineAttribution, n: int, x: Text)
    requires 0 <= n <= la_span(la), amap_line(m, lt, la, n).dom().contains(x),
    ensures (m.dom().contains(x) && amap_line(m, lt, la, n)[x] == m[x]) || (exists|ln: int| la.start_line <= ln <= la.end_line && idx_of(ln) < lt.len() && #[trigger] lt[idx_of(ln)] == x && amap_line(m, lt, la, n)[x] == la.author_id@),
    decreases n
{
    if n > 0 {
        let prev = amap_line(m, lt, la, n - 1); let ln = la.start_line + n - 1; let idx = idx_of(ln);
        if idx < lt.len() && lt[idx] == x { assert(la.start_line <= ln <= la.end_line && idx_of(ln) < lt.len() && lt[idx_of(ln)] == x); }
        else { lemma_amap_line_sound(m, lt, la, n - 1, x); }
    }
}
proof fn theorem_author_map_sound(lt: Seq<Text>, ls: Seq<LineAttribution>, j: int, x: Text)
    requires 0 <= j <= ls.len(), amap_upto(lt, ls, j).dom().contains(x),
    ensures exists|q: int, ln: int| 0 <= q < j && #[trigger] credits_text(lt, ls, q, ln, amap_upto(lt, ls, j)[x], x),
    decreases j
{
    if j > 0 {
        let prev = amap_upto(lt, ls, j - 1); let la = ls[j - 1];
        if la.author_id@ == HUMAN() {
            theorem_author_map_sound(lt, ls, j - 1, x);
            let (q, ln) = choose|q: int, ln: int| 0 <= q < j - 1 && #[trigger] credits_text(lt, ls, q, ln, prev[x], x);
            assert(0 <= q < j && credits_text(lt, ls, q, ln, amap_upto(lt, ls, j)[x], x));
        } else {
            lemma_amap_line_sound(prev, lt, la, la_span(la), x);
            let cur = amap_line(prev, lt, la, la_span(la));
            if prev.dom().contains(x) && cur[x] == prev[x] {
                theorem_author_map_sound(lt, ls, j - 1, x);
                let (q, ln) = choose|q: int, ln: int| 0 <= q < j - 1 && #[trigger] credits_text(lt, ls, q, ln, prev[x], x);
                assert(0 <= q < j && credits_text(lt, ls, q, ln, cur[x], x));
            } else {
                let ln = choose|ln: int| la.start_line <= ln <= la.end_line && idx_of(ln) < lt.len() && #[trigger] lt[idx_of(ln)] == x && cur[x] == la.author_id@;
                assert(0 <= j - 1 < j && credits_text(lt, ls, j - 1, ln, cur[x], x));
            }
        }
    }
}
/// completeness: the text of every line a non-human line attribution covers IS a key (of SOME author who has an equal line - the
/// last one in list order wins: two sessions with an equal line collapse, see REPORT finding F1)
proof fn lemma_amap_line_keeps(m: AuthorMapV, lt: Seq<Text>, la: LineAttribution, n: int, x: Text)
    requires m.dom().contains(x), n >= 0,
    ensures amap_line(m, lt, la, n).dom().contains(x),
    decreases n
{
    if n > 0 { lemma_amap_line_keeps(m, lt, la, n - 1, x); }
}
proof fn lemma_amap_line_complete(m: AuthorMapV, lt: Seq<Text>, la: LineAttribution, n: int, ln: int)
    requires 0 <= n, la.start_line <= ln < la.start_line + n, idx_of(ln) < lt.len(),
    ensures amap_line(m, lt, la, n).dom().contains(lt[idx_of(ln)]),
    decreases n
{
    if n > 0 { if ln < la.start_line + n - 1 { lemma_amap_line_complete(m, lt, la, n - 1, ln); } }
}
proof fn theorem_author_map_complete(lt: Seq<Text>, ls: Seq<LineAttribution>, j: int, q: int, ln: int, s: Text, x: Text)
    requires 0 <= q < j <= ls.len(), credits_text(lt, ls, q, ln, s, x),
    ensures amap_upto(lt, ls, j).dom().contains(x),
    decreases j
{
    let prev = amap_upto(lt, ls, j - 1); let la = ls[j - 1];
    if q < j - 1 { theorem_author_map_complete(lt, ls, j - 1, q, ln, s, x); if la.author_id@ != HUMAN() { lemma_amap_line_keeps(prev, lt, la, la_span(la), x); } }
    else { lemma_amap_line_complete(prev, lt, la, la_span(la), ln); }
}
/// rule O1 on `HashMap::new()` (two instantiations in one function)
pub uninterp spec fn is_new<K, V>(m: HashMap<K, V>) -> bool;
#[verifier::external_body] fn opq_map_new<K, V>() -> (r: HashMap<K, V>) ensures is_new(r), { unimplemented!() }
#[verifier::external_body] proof fn axiom_new_strmap(m: StrMap) requires is_new(m), ensures cm(m) == Map::<Text, Text>::empty(), { }
#[verifier::external_body] proof fn axiom_new_mapmap(m: MapMap) requires is_new(m), ensures mm(m) == Map::<Text, AuthorMapV>::empty(), { }
/// `line_attr.author_id == CheckpointKind::Human.to_str()` (to_str of Human is "human": proved in unit dominant, C16; restated)
#[verifier::external_body] fn opq_is_human(s: &String) -> (r: bool) ensures r == (s@ == HUMAN()), { unimplemented!() }
/// the file's entry in the result
pub open spec fn maps_entry(va: VirtualAttributions, f: Text) -> Option<AuthorMapV> {
    if va_content(va, f) is Some && va_lines(va, f) is Some && map_nonempty(amap_file(va_content(va, f).unwrap(), va_lines(va, f).unwrap())) { Some(amap_file(va_content(va, f).unwrap(), va_lines(va, f).unwrap())) } else { None }
}
pub open spec fn listed(l: Seq<String>, k: int, f: Text) -> bool { exists|j: int| 0 <= j < k && (#[trigger] l[j])@ == f }
pub open spec fn maps_at(m: Map<Text, AuthorMapV>, va: VirtualAttributions, l: Seq<String>, k: int, f: Text) -> bool {
    if listed(l, k, f) && maps_entry(va, f) is Some { m.dom().contains(f) && m[f] == maps_entry(va, f).unwrap() } else { !m.dom().contains(f) }
}
pub open spec fn maps_inv(m: Map<Text, AuthorMapV>, va: VirtualAttributions, l: Seq<String>, k: int) -> bool { forall|f: Text| #[trigger] maps_at(m, va, l, k, f) }
proof fn lemma_listed_step(l: Seq<String>, k: int, f: Text)
    requires 0 <= k < l.len(),
    ensures listed(l, k + 1, f) <==> (listed(l, k, f) || l[k]@ == f),
{
    if listed(l, k + 1, f) { let j = choose|j: int| 0 <= j < k + 1 && (#[trigger] l[j])@ == f; if j < k { assert(0 <= j < k && l[j]@ == f); } }
    if listed(l, k, f) { let j = choose|j: int| 0 <= j < k && (#[trigger] l[j])@ == f; assert(0 <= j < k + 1 && l[j]@ == f); }
    if l[k]@ == f { assert(0 <= k < k + 1 && l[k]@ == f); }
}
proof fn lemma_maps_step(m: Map<Text, AuthorMapV>, m2: Map<Text, AuthorMapV>, va: VirtualAttributions, l: Seq<String>, k: int)
    requires 0 <= k < l.len(), maps_inv(m, va, l, k),
        m2 == (if maps_entry(va, l[k]@) is Some { m.insert(l[k]@, maps_entry(va, l[k]@).unwrap()) } else { m }),
    ensures maps_inv(m2, va, l, k + 1),
{
    assert forall|f: Text| #[trigger] maps_at(m2, va, l, k + 1, f) by { lemma_listed_step(l, k, f); assert(maps_at(m, va, l, k, f)); }
}
proof fn lemma_upto_empty(lt: Seq<Text>, ls: Seq<LineAttribution>)
    requires ls.len() == 0,
    ensures !map_nonempty(amap_upto(lt, ls, 0)),
{ }
/// `a..=b` as an iterator (documented: a, a+1, .., b; nothing when a > b - vstd leaves the empty case unspecified)
#[verifier::external_body] fn opq_range_incl(a: u32, b: u32) -> (r: Vec<u32>) ensures range_rem32(r@, a as int, b as int), { unimplemented!() }
/// COMPOSITION (clause (b) of C03 end to end): when the maps handed to the step are what build_original_head_line_author_maps returns for
/// the original head, the author the step re-credits a line of file f to IS credited, in the original head state OF THE SAME FILE f,
/// with a line of exactly that text.  Key = (file, line text); neither the position nor WHICH session wrote this occurrence is part of it.
proof fn theorem_recredit_author_has_equal_line_in_same_file(m: Map<Text, AuthorMapV>, va: VirtualAttributions, f: Text, x: Text)
    requires maps_inv(m, va, va_files(va), va_files(va).len() as int), m.dom().contains(f), m[f].dom().contains(x),
    ensures va_content(va, f) is Some, va_lines(va, f) is Some,
        exists|q: int, ln: int| #[trigger] credits_text(str_lines(va_content(va, f).unwrap()), va_lines(va, f).unwrap(), q, ln, m[f][x], x),
{
    assert(maps_at(m, va, va_files(va), va_files(va).len() as int, f));
    let lt = str_lines(va_content(va, f).unwrap()); let ls = va_lines(va, f).unwrap();
    theorem_author_map_sound(lt, ls, ls.len() as int, x);
    let (q, ln) = choose|q: int, ln: int| 0 <= q < ls.len() && #[trigger] credits_text(lt, ls, q, ln, amap_upto(lt, ls, ls.len() as int)[x], x);
    assert(credits_text(lt, ls, q, ln, m[f][x], x));
}
pub open spec fn range_rem32(rem: Seq<u32>, start: int, end: int) -> bool {
    &&& rem.len() == (if start <= end { end - start + 1 } else { 0 })
    &&& forall|i: int| 0 <= i < rem.len() ==> (#[trigger] rem[i]) == start + i
}
//#item file=src/authorship/rebase_authorship.rs kind=fn name=build_original_head_line_author_maps opaque='[{"expr": "crate::authorship::virtual_attribution::VirtualAttributions", "call": "VaT"}, {"expr": "HashMap::new()", "call": "opq_map_new()"}, {"expr": "original_content.lines().collect()", "call": "opq_lines(original_content)"}, {"expr": "line_attr.start_line..=line_attr.end_line", "call": "opq_range_incl(line_attr.start_line, line_attr.end_line)"}, {"expr": "line_attr.author_id == crate::authorship::working_log::CheckpointKind::Human.to_str()", "call": "opq_is_human(&line_attr.author_id)"}]'
fn build_original_head_line_author_maps(
    original_head_state: &VaT,
) -> (r_: HashMap<String, HashMap<String, String>>)
//@     ensures
//@         // per file the original head lists: the entry is amap_file(ITS content, ITS line attributions) when that map is non-empty; no other entry
//@         maps_inv(mm(r_), *original_head_state, va_files(*original_head_state), va_files(*original_head_state).len() as int),
{
    let mut by_file: HashMap<String, HashMap<String, String>> = opq_map_new();
    //@ let ghost va = *original_head_state;
    //@ let ghost l = va_files(va);
    //@ proof { axiom_new_mapmap(by_file); assert forall|f: Text| #[trigger] maps_at(mm(by_file), va, l, 0, f) by { assert(!listed(l, 0, f)); } }

    for file_path in it_0: original_head_state.files()
    //@     invariant it_0.snapshot@.remaining() == l, va == *original_head_state, maps_inv(mm(by_file), va, l, it_0.index@),
    {
        //@ let ghost k = it_0.index@;
        //@ let ghost f = file_path@;
        //@ let ghost m0 = mm(by_file);
        //@ proof { assert(l[k] == file_path); if maps_entry(va, f) is None { lemma_maps_step(m0, m0, va, l, k); } }
        if let Some(original_content) = original_head_state.get_file_content(&file_path) {
        if let Some(original_line_attrs) = original_head_state.get_line_attributions(&file_path) {
        //@ let ghost ls = original_line_attrs@;
        //@ let ghost lt = str_lines(original_content@);
        //@ proof { if ls.len() == 0 { lemma_upto_empty(lt, ls); } }
        if !(original_line_attrs.is_empty()) {

        let original_lines: Vec<&str> = opq_lines(original_content);
        let mut line_to_author: HashMap<String, String> = opq_map_new();
        //@ proof { axiom_new_strmap(line_to_author); }
        for line_attr in it_1: original_line_attrs
        //@     invariant
        //@         ls == original_line_attrs@, lt == str_lines(original_content@), original_lines@.len() == lt.len(), forall|i: int| 0 <= i < lt.len() ==> (#[trigger] original_lines@[i])@ == lt[i],
        //@         it_1.snapshot@.remaining().len() == ls.len(), forall|j: int| 0 <= j < ls.len() ==> *(#[trigger] it_1.snapshot@.remaining()[j]) == ls[j],
        //@         cm(line_to_author) == amap_upto(lt, ls, it_1.index@),
        {
            //@ let ghost j = it_1.index@;
            //@ let ghost la = ls[j];
            //@ let ghost prev = cm(line_to_author);
            //@ proof { assert(*line_attr == la); }
            if !(opq_is_human(&line_attr.author_id)) {
            for line_num in it_2: opq_range_incl(line_attr.start_line, line_attr.end_line)
            //@     invariant
            //@         la == *line_attr, lt == str_lines(original_content@), original_lines@.len() == lt.len(), forall|i: int| 0 <= i < lt.len() ==> (#[trigger] original_lines@[i])@ == lt[i],
            //@         range_rem32(it_2.snapshot@.remaining(), la.start_line as int, la.end_line as int),
            //@         cm(line_to_author) == amap_line(prev, lt, la, it_2.index@),
            //@         it_2.index@ == it_2.snapshot@.remaining().len() ==> cm(line_to_author) == amap_line(prev, lt, la, la_span(la)),
            {
                //@ proof { assert(line_num == la.start_line + it_2.index@); }
                let line_idx = (line_num as usize).saturating_sub(1);
                if line_idx < original_lines.len() {
                    line_to_author.insert(
                        original_lines[line_idx].to_string(),
                        line_attr.author_id.clone(),
                    );
                }
            }
        }
        }

        if !line_to_author.is_empty() {
            by_file.insert(file_path, line_to_author);
            //@ proof { lemma_maps_step(m0, mm(by_file), va, l, k); }
        }
    } } else {  } } else {  }
    }

    by_file
}
//#end
//#item file=src/authorship/rebase_authorship.rs kind=fn name=content_has_intersection_with_author_map body=opaque
//@ #[verifier::external_body]
fn content_has_intersection_with_author_map(
    content: &str,
    line_to_author: &HashMap<String, String>,
) -> (r_: bool)
//@     ensures r_ == chi(content@, cm(*line_to_author)),
{ unimplemented!() }
//#end

// ---------------------------------------------------------------- the cherry-pick twin: the per-file loop of transform_attributions_to_final_state
pub open spec fn o_lines(orig: Option<&VirtualAttributions>, f: Text) -> Option<Seq<LineAttribution>> { if orig is Some { va_lines(*orig.unwrap(), f) } else { None } }
/// the tracker stage: the RUNNING state is source_va itself
pub open spec fn base_attrs_cp(src: VirtualAttributions, f: Text, c: Text, ts: u128) -> Option<Seq<Attribution>> {
    if va_chars(src, f) is Some && va_content(src, f) is Some { upd(va_content(src, f).unwrap(), c, va_chars(src, f).unwrap(), DUMMY(), ts) } else { Some(Seq::<Attribution>::empty()) }
}
/// the author map this variant builds inline: from the original state's line attributions OF THE SAME FILE (none => empty map)
pub open spec fn amap_cp(oc: Text, ol: Option<Seq<LineAttribution>>) -> AuthorMapV { if ol is Some { amap_file(oc, ol.unwrap()) } else { Map::<Text, Text>::empty() } }
pub open spec fn pre_retain_ok_cp(cur: Seq<Attribution>, t: Seq<Attribution>, oc: Option<Text>, oa: Option<Seq<Attribution>>, ol: Option<Seq<LineAttribution>>, c: Text) -> bool {
    if oc == Some(c) && oa is Some { cur == oa.unwrap() }
    else if oc is Some && oc.unwrap() != c { exists|st: Seq<usize>| #[trigger] offsets_ok(c, st) && rc_all(cur, t, c, amap_cp(oc.unwrap(), ol), st) }
    else { cur == t }
}
/// as file_post, without the rebase variant's shortcuts and guards: (c) original content => original attributions of THIS file;
/// otherwise tracker(source_va's content of f, c, source_va's attributions of f, placeholder) and - when the original state has a
/// DIFFERENT content for f - the re-crediting fold with the map of THIS file
pub open spec fn file_post_cp(src: VirtualAttributions, oc: Option<Text>, oa: Option<Seq<Attribution>>, ol: Option<Seq<LineAttribution>>, f: Text, c: Text, ts: u128, res: FileState) -> bool {
    &&& base_attrs_cp(src, f, c, ts) is Some
    &&& res.1 == proj(res.0, c)
    &&& no_author(res.0, DUMMY())
    &&& ({ let t = base_attrs_cp(src, f, c, ts).unwrap();
           if oc == Some(c) && oa is Some { res.0 == keep_real(oa.unwrap()) }
           else if oc is Some && oc.unwrap() != c { exists|st: Seq<usize>| #[trigger] offsets_ok(c, st) && rc_real(res.0, t, c, amap_cp(oc.unwrap(), ol), st) }
           else { res.0 == keep_real(t) } })
}
proof fn lemma_finish_cp(cur: Seq<Attribution>, t: Seq<Attribution>, oc: Option<Text>, oa: Option<Seq<Attribution>>, ol: Option<Seq<LineAttribution>>, c: Text)
    requires pre_retain_ok_cp(cur, t, oc, oa, ol, c),
    ensures no_author(keep_real(cur), DUMMY()),
        if oc == Some(c) && oa is Some { keep_real(cur) == keep_real(oa.unwrap()) }
        else if oc is Some && oc.unwrap() != c { exists|st: Seq<usize>| #[trigger] offsets_ok(c, st) && rc_real(keep_real(cur), t, c, amap_cp(oc.unwrap(), ol), st) }
        else { keep_real(cur) == keep_real(t) },
{
    lemma_keep_real(cur);
    if oc == Some(c) && oa is Some { } else if oc is Some && oc.unwrap() != c {
        let m = amap_cp(oc.unwrap(), ol);
        let st = choose|st: Seq<usize>| #[trigger] offsets_ok(c, st) && rc_all(cur, t, c, m, st);
        let r = keep_real(cur);
        assert forall|a: Text, p: int| #![trigger cov(r, a, p)] a != DUMMY() implies cov(r, a, p) == rc(t, str_lines(c), lines_of(tb(c)), st, proj(t, c), m, lines_of(tb(c)).len() as int, a, p) by {
            assert(cov(r, a, p) == cov(cur, a, p));
        }
        assert(offsets_ok(c, st) && rc_real(r, t, c, m, st));
    }
}
/// (cherry-pick) as file_done, with file_post_cp
pub open spec fn file_done_cp(a0: Map<Text, FileState>, c0: Map<Text, Text>, a1: Map<Text, FileState>, c1: Map<Text, Text>, src: VirtualAttributions, orig: Option<&VirtualAttributions>, ts: u128, f: Text, c: Text) -> bool {
    if c.len() > 0 { a1.dom().contains(f) && c1.dom().contains(f) && c1[f] == c && file_post_cp(src, o_content(orig, f), o_chars(orig, f), o_lines(orig, f), f, c, ts, a1[f]) }
    else { same_at(a0, a1, f) && same_at(c0, c1, f) }
}

pub open spec fn at_ok_cp(a0: Map<Text, FileState>, c0: Map<Text, Text>, a1: Map<Text, FileState>, c1: Map<Text, Text>, src: VirtualAttributions, orig: Option<&VirtualAttributions>, ts: u128, fs: Map<Text, Text>, l: Seq<(String, String)>, k: int, f: Text) -> bool {
    if seen_at(l, k, f) { file_done_cp(a0, c0, a1, c1, src, orig, ts, f, fs[f]) } else { same_at(a0, a1, f) && same_at(c0, c1, f) }
}
pub open spec fn state_inv_cp(a0: Map<Text, FileState>, c0: Map<Text, Text>, a1: Map<Text, FileState>, c1: Map<Text, Text>, src: VirtualAttributions, orig: Option<&VirtualAttributions>, ts: u128, fs: Map<Text, Text>, l: Seq<(String, String)>, k: int) -> bool {
    forall|f: Text| #[trigger] at_ok_cp(a0, c0, a1, c1, src, orig, ts, fs, l, k, f)
}
pub open spec fn post_at_cp(a0: Map<Text, FileState>, c0: Map<Text, Text>, a1: Map<Text, FileState>, c1: Map<Text, Text>, src: VirtualAttributions, orig: Option<&VirtualAttributions>, ts: u128, fs: Map<Text, Text>, f: Text) -> bool {
    if fs.dom().contains(f) { file_done_cp(a0, c0, a1, c1, src, orig, ts, f, fs[f]) } else { same_at(a0, a1, f) && same_at(c0, c1, f) }
}
/// THE STEP (cherry-pick): every file handed over with non-empty content is transformed from the entry SOURCE_VA (the running state) has
/// for the SAME file; every other file keeps what the two maps held (the copy of source_va made just above the region)
pub open spec fn step_post_cp(a0: Map<Text, FileState>, c0: Map<Text, Text>, a1: Map<Text, FileState>, c1: Map<Text, Text>, src: VirtualAttributions, orig: Option<&VirtualAttributions>, ts: u128, fs: Map<Text, Text>) -> bool {
    forall|f: Text| #[trigger] post_at_cp(a0, c0, a1, c1, src, orig, ts, fs, f)
}


proof fn lemma_state_step_cp(a0: Map<Text, FileState>, c0: Map<Text, Text>, a1: Map<Text, FileState>, c1: Map<Text, Text>, a2: Map<Text, FileState>, c2: Map<Text, Text>, src: VirtualAttributions, orig: Option<&VirtualAttributions>, ts: u128, fs: Map<Text, Text>, l: Seq<(String, String)>, k: int)
    requires entries_of(l, fs), 0 <= k < l.len(), state_inv_cp(a0, c0, a1, c1, src, orig, ts, fs, l, k),
        file_done_cp(a0, c0, a2, c2, src, orig, ts, l[k].0@, l[k].1@),
        forall|g: Text| g != l[k].0@ ==> #[trigger] same_at(a1, a2, g) && same_at(c1, c2, g),
    ensures state_inv_cp(a0, c0, a2, c2, src, orig, ts, fs, l, k + 1),
{
    lemma_unseen(l, fs, k);
    assert forall|f: Text| #[trigger] at_ok_cp(a0, c0, a2, c2, src, orig, ts, fs, l, k + 1, f) by {
        lemma_seen_step(l, k, f);
        if f != l[k].0@ { assert(at_ok_cp(a0, c0, a1, c1, src, orig, ts, fs, l, k, f)); assert(same_at(a1, a2, f)); assert(same_at(c1, c2, f)); }
    }
}
proof fn lemma_state_done_cp(a0: Map<Text, FileState>, c0: Map<Text, Text>, a1: Map<Text, FileState>, c1: Map<Text, Text>, src: VirtualAttributions, orig: Option<&VirtualAttributions>, ts: u128, fs: Map<Text, Text>, l: Seq<(String, String)>)
    requires entries_of(l, fs), state_inv_cp(a0, c0, a1, c1, src, orig, ts, fs, l, l.len() as int),
    ensures step_post_cp(a0, c0, a1, c1, src, orig, ts, fs),
{
    assert forall|f: Text| #[trigger] post_at_cp(a0, c0, a1, c1, src, orig, ts, fs, f) by {
        assert(at_ok_cp(a0, c0, a1, c1, src, orig, ts, fs, l, l.len() as int, f));
        if fs.dom().contains(f) { let i = choose|i: int| 0 <= i < l.len() && (#[trigger] l[i]).0@ == f; assert(seen_at(l, l.len() as int, f)); }
        if seen_at(l, l.len() as int, f) { let j = choose|j: int| 0 <= j < l.len() && (#[trigger] l[j]).0@ == f; assert(fs.dom().contains(l[j].0@)); }
    }
}
proof fn lemma_state_init_cp(a0: Map<Text, FileState>, c0: Map<Text, Text>, src: VirtualAttributions, orig: Option<&VirtualAttributions>, ts: u128, fs: Map<Text, Text>, l: Seq<(String, String)>)
    ensures state_inv_cp(a0, c0, a0, c0, src, orig, ts, fs, l, 0),
{
    assert forall|f: Text| #[trigger] at_ok_cp(a0, c0, a0, c0, src, orig, ts, fs, l, 0, f) by { assert(!seen_at(l, 0, f)); }
}
/// C03 for a file changed by a cherry-picked commit (as theorem_changed_file_credit_sources)
proof fn theorem_cp_changed_file_credit_sources(a0: Map<Text, FileState>, c0: Map<Text, Text>, a1: Map<Text, FileState>, c1: Map<Text, Text>, src: VirtualAttributions, orig: Option<&VirtualAttributions>, ts: u128, fs: Map<Text, Text>, f: Text, s: Text, p: int)
    requires step_post_cp(a0, c0, a1, c1, src, orig, ts, fs), fs.dom().contains(f), fs[f].len() > 0, cov(a1[f].0, s, p),
    ensures
        c1[f] == fs[f], a1[f].1 == proj(a1[f].0, fs[f]), s != DUMMY(),
        base_attrs_cp(src, f, fs[f], ts) is Some,
        ({ let c = fs[f]; let t = base_attrs_cp(src, f, c, ts).unwrap(); let oc = o_content(orig, f);
           ||| (oc == Some(c) && o_chars(orig, f) is Some && cov(o_chars(orig, f).unwrap(), s, p))
           ||| cov(t, s, p)
           ||| (cov(t, DUMMY(), p) && oc is Some && exists|st: Seq<usize>, i: int| #![trigger offsets_ok(c, st), sel(str_lines(c), proj(t, c), amap_cp(oc.unwrap(), o_lines(orig, f)), i)]
                   offsets_ok(c, st) && 0 <= i < str_lines(c).len() && sel(str_lines(c), proj(t, c), amap_cp(oc.unwrap(), o_lines(orig, f)), i)
                   && st[i] <= p < st[i] + lines_of(tb(c))[i].len() && amap_cp(oc.unwrap(), o_lines(orig, f))[str_lines(c)[i]] == s) }),
{
    assert(post_at_cp(a0, c0, a1, c1, src, orig, ts, fs, f));
    let c = fs[f]; let t = base_attrs_cp(src, f, c, ts).unwrap();
    let oc = o_content(orig, f); let oa = o_chars(orig, f); let r = a1[f].0;
    let i0 = choose|i: int| 0 <= i < r.len() && in_piece(#[trigger] r[i], s, p);
    assert(r[i0].author_id@ != DUMMY());
    if oc == Some(c) && oa is Some { lemma_keep_real(oa.unwrap()); }
    else if oc is Some && oc.unwrap() != c {
        let m = amap_cp(oc.unwrap(), o_lines(orig, f));
        let st = choose|st: Seq<usize>| #[trigger] offsets_ok(c, st) && rc_real(r, t, c, m, st);
        let n = lines_of(tb(c)).len() as int;
        assert(cov(r, s, p) == rc(t, str_lines(c), lines_of(tb(c)), st, proj(t, c), m, n, s, p));
        theorem_recredit_only_placeholder_on_matching_line(t, str_lines(c), lines_of(tb(c)), st, proj(t, c), m, n, s, p);
        if !cov(t, s, p) {
            let i = choose|i: int| 0 <= i < n && #[trigger] sel(str_lines(c), proj(t, c), m, i) && st[i] <= p < st[i] + lines_of(tb(c))[i].len() && m[str_lines(c)[i]] == s;
            assert(offsets_ok(c, st) && sel(str_lines(c), proj(t, c), m, i));
        }
    } else { lemma_keep_real(t); }
}
/// the inline map loop of the cherry-pick variant: what one line attribution adds (the human test sits inside the innermost loop)
pub open spec fn amap_la(prev: AuthorMapV, lt: Seq<Text>, la: LineAttribution, n: int) -> AuthorMapV { if la.author_id@ == HUMAN() { prev } else { amap_line(prev, lt, la, n) } }
//#item file=src/authorship/rebase_authorship.rs kind=region name=cp_loop in=transform_attributions_to_final_state from="for (file_path, final_content) in final_state {" to="let mut prompts = if let Some(original_state) = original_head_state {" from_nth=0 to_nth=0 to_exclusive=yes opaque='[{"expr": "crate::authorship::attribution_tracker::attributions_to_line_attributions", "call": "tracker_attributions_to_line_attributions"}, {"expr": "HashMap::new()", "call": "opq_map_new()"}, {"expr": "in final_state", "call": "in opq_into_entries(final_state)"}, {"expr": "final_content.is_empty()", "call": "opq_is_empty(&final_content)"}, {"expr": "original_content == &final_content", "call": "opq_string_eq(original_content, &final_content)"}, {"expr": "original_attrs.clone()", "call": "opq_clone_attrs(original_attrs)"}, {"expr": "original_content.lines().collect()", "call": "opq_lines(original_content)"}, {"expr": "line_attr.start_line..=line_attr.end_line", "call": "opq_range_incl(line_attr.start_line, line_attr.end_line)"}, {"expr": "line_attr.author_id != \"human\"", "call": "!opq_str_eq(&line_attr.author_id, \"human\")"}, {"expr": "final_content.lines().collect()", "call": "opq_lines(&final_content)"}, {"expr": "vec![0i32; line_count + 2]", "call": "opq_vec_i32(line_count + 2)"}, {"expr": "vec![false; line_count + 1]", "call": "opq_vec_bool(line_count + 1)"}, {"expr": "la.author_id != dummy_author", "call": "!opq_str_eq(&la.author_id, dummy_author)"}, {"stmt_from": "for line in &final_lines {", "call": "line_start_chars = opq_offsets(&final_lines, &final_content);"}, {"expr": "final_lines.iter().enumerate()", "call": "opq_enumerate(&final_lines)"}, {"expr": "std::mem::take(&mut transformed_attrs)", "call": "opq_take(&mut transformed_attrs)"}, {"expr": "transformed_attrs.retain(|attr| attr.author_id != dummy_author)", "call": "opq_retain_not_author(&mut transformed_attrs, dummy_author)"}]'
//@ fn region_cp_loop(source_va: &VaT, final_state: StrMap, original_head_state: Option<&VaT>, tracker: AttributionTracker, ts: u128, attributions0: AttrMap, file_contents0: StrMap) -> (r_: Result<(AttrMap, StrMap), GitAiError>)
//@     ensures
//@         // Ok: every file handed over with non-empty content is transformed from SOURCE_VA's content / attributions of the SAME file; every
//@         // other file keeps what the two maps held; Err (the tracker failed): nothing is claimed
//@         r_ is Ok ==> step_post_cp(am(attributions0), cm(file_contents0), am(r_->Ok_0.0), cm(r_->Ok_0.1), *source_va, original_head_state, ts, cm(final_state)),
//@ {
//@     let mut attributions = attributions0;
//@     let mut file_contents = file_contents0;
//@     let ghost a0 = am(attributions);
//@     let ghost c0 = cm(file_contents);
//@     let ghost fs = cm(final_state);
//@     let ghost orig = original_head_state;
//@     let ghost src = *source_va;
//@     let ghost l = entries_list(final_state);
//@     proof { axiom_entries_list(final_state); lemma_state_init_cp(a0, c0, src, orig, ts, fs, l); if l.len() == 0 { lemma_state_done_cp(a0, c0, a0, c0, src, orig, ts, fs, l); } }
    for (file_path, final_content) in it_0: opq_into_entries(final_state)
    //@     invariant
    //@         it_0.snapshot@.remaining() == l, entries_of(l, fs), orig == original_head_state, src == *source_va,
    //@         state_inv_cp(a0, c0, am(attributions), cm(file_contents), src, orig, ts, fs, l, it_0.index@),
    //@         it_0.index@ == l.len() ==> step_post_cp(a0, c0, am(attributions), cm(file_contents), src, orig, ts, fs),
    {
        //@ let ghost k = it_0.index@;
        //@ let ghost f = file_path@;
        //@ let ghost c = final_content@;
        //@ let ghost a1 = am(attributions);
        //@ let ghost c1 = cm(file_contents);
        //@ let ghost oc = o_content(orig, f);
        //@ let ghost oa = o_chars(orig, f);
        //@ let ghost ol = o_lines(orig, f);
        //@ proof {
        //@     assert(l[k].0 == file_path && l[k].1 == final_content);
        //@     lemma_unseen(l, fs, k);
        //@     assert(at_ok_cp(a0, c0, a1, c1, src, orig, ts, fs, l, k, f));
        //@     if c.len() == 0 { lemma_state_step_cp(a0, c0, a1, c1, a1, c1, src, orig, ts, fs, l, k); if k + 1 == l.len() { lemma_state_done_cp(a0, c0, a1, c1, src, orig, ts, fs, l); } }
        //@ }
        // Skip empty files (they don't exist in this commit yet)
        // Keep the source attributions for when the file appears later
        if !(opq_is_empty(&final_content)) {

        // Get source attributions and content
        let source_attrs = source_va.get_char_attributions(&file_path);
        let source_content = source_va.get_file_content(&file_path);

        // Transform to final state
        let mut transformed_attrs =
            if let (Some(attrs), Some(content)) = (source_attrs, source_content) {
                // Use a dummy author for new insertions
                let dummy_author = "__DUMMY__";

                // Keep all attributions initially (including dummy ones)
                tracker.update_attributions(content, &final_content, attrs, dummy_author, ts)?
            } else {
                Vec::new()
            };
        //@ let ghost t = transformed_attrs@;
        //@ proof { assert(base_attrs_cp(src, f, c, ts) == Some(t)); }

        // Try to restore attributions from original_head_state using line-content matching
        // This handles commit splitting where content from original_head gets re-applied
        if let Some(original_state) = original_head_state { if let Some(original_content) = original_state.get_file_content(&file_path) {
            if opq_string_eq(original_content, &final_content) {
                // The final content matches the original content exactly!
                // Use the original attributions
                if let Some(original_attrs) = original_state.get_char_attributions(&file_path) {
                    transformed_attrs = opq_clone_attrs(original_attrs);
                }
            } else {
                // Use line-content matching to restore attributions for lines that existed before
                // Build a map of line content -> author from original state
                let mut original_line_to_author: HashMap<String, String> = opq_map_new();
                //@ let ghost olt = str_lines(original_content@);
                //@ proof { axiom_new_strmap(original_line_to_author); }

                if let Some(original_line_attrs) = original_state.get_line_attributions(&file_path)
                {
                    let original_lines: Vec<&str> = opq_lines(original_content);
                    //@ let ghost ols = original_line_attrs@;

                    for line_attr in it_1: original_line_attrs
                    //@     invariant
                    //@         ols == original_line_attrs@, olt == str_lines(original_content@), original_lines@.len() == olt.len(), forall|i: int| 0 <= i < olt.len() ==> (#[trigger] original_lines@[i])@ == olt[i],
                    //@         it_1.snapshot@.remaining().len() == ols.len(), forall|j: int| 0 <= j < ols.len() ==> *(#[trigger] it_1.snapshot@.remaining()[j]) == ols[j],
                    //@         cm(original_line_to_author) == amap_upto(olt, ols, it_1.index@),
                    {
                        //@ let ghost j = it_1.index@;
                        //@ let ghost ola = ols[j];
                        //@ let ghost prev = cm(original_line_to_author);
                        //@ proof { assert(*line_attr == ola); }
                        // LineAttribution is 1-indexed
                        for line_num in it_2: opq_range_incl(line_attr.start_line, line_attr.end_line)
                        //@     invariant
                        //@         ola == *line_attr, olt == str_lines(original_content@), original_lines@.len() == olt.len(), forall|i: int| 0 <= i < olt.len() ==> (#[trigger] original_lines@[i])@ == olt[i],
                        //@         range_rem32(it_2.snapshot@.remaining(), ola.start_line as int, ola.end_line as int),
                        //@         cm(original_line_to_author) == amap_la(prev, olt, ola, it_2.index@),
                        //@         it_2.index@ == it_2.snapshot@.remaining().len() ==> cm(original_line_to_author) == amap_la(prev, olt, ola, la_span(ola)),
                        {
                            //@ proof { assert(line_num == ola.start_line + it_2.index@); }
                            let line_idx = (line_num as usize).saturating_sub(1);
                            if line_idx < original_lines.len() {
                                let line_content = original_lines[line_idx].to_string();
                                // Store all non-human attributions (AI attributions)
                                // VirtualAttributions normalizes humans to "human" via return_human_authors_as_human flag
                                // AI authors keep their tool names (mock_ai, Claude, GPT, etc.) or prompt hashes
                                if !opq_str_eq(&line_attr.author_id, "human") {
                                    original_line_to_author
                                        .insert(line_content, line_attr.author_id.clone());
                                }
                            }
                        }
                    }
                }
                //@ let ghost m = cm(original_line_to_author);
                //@ proof { assert(m == amap_cp(oc.unwrap(), ol)); }

                // Now update char attributions based on line content matching
                let dummy_author = "__DUMMY__";
                let final_lines: Vec<&str> = opq_lines(&final_content);
                let line_count = final_lines.len();

                // Convert char attributions to line attributions to process line by line
                let temp_line_attrs =
                    tracker_attributions_to_line_attributions(
                        &transformed_attrs,
                        &final_content,
                    );
                //@ let ghost ls = temp_line_attrs@;
                //@ let ghost lc = line_count as int;
                //@ let ghost lt = str_lines(c);
                //@ let ghost lb = lines_of(tb(c));
                //@ proof { assert(ls == proj(t, c)); assert(lb =~= line_bytes(final_lines@)); assert(lb.len() == lc && lt.len() == lc); }

                // Build a line-level bitmap for dummy-attributed lines in O(attrs + lines).
                let mut dummy_diff = opq_vec_i32(line_count + 2);
                //@ proof { lemma_diff_init(dummy_diff@, ls, lc); }
                for la in it_3: &temp_line_attrs
                //@     invariant
                //@         ls == temp_line_attrs@, lc == line_count, lc + 2 <= usize::MAX, ls.len() < 0x7fff_ffff, dummy_author@ == DUMMY(),
                //@         it_3.snapshot@.remaining().len() == ls.len(), forall|j: int| 0 <= j < ls.len() ==> *(#[trigger] it_3.snapshot@.remaining()[j]) == ls[j],
                //@         diff_inv(dummy_diff@, ls, it_3.index@, lc),
                {
                    //@ let ghost j = it_3.index@;
                    //@ let ghost d = dummy_diff@;
                    //@ proof { assert(*la == ls[j]); if !(ls[j].author_id@ == DUMMY() && clampl(ls[j].start_line, lc) <= clampl(ls[j].end_line, lc)) { lemma_diff_skip(d, ls, j, lc); } }
                    if !(!opq_str_eq(&la.author_id, dummy_author)) {
                    let start = (la.start_line as usize).max(1).min(line_count);
                    let end = (la.end_line as usize).max(1).min(line_count);
                    //@ proof { assert(start == clampl(ls[j].start_line, lc)); assert(end == clampl(ls[j].end_line, lc)); }
                    if !(start > end) {
                    //@ proof { assert(-j <= d[start as int] <= j); }
                    dummy_diff[start] += 1;
                    //@ let ghost d1 = dummy_diff@;
                    //@ proof { assert(-j <= d[end + 1] <= j); assert(-j <= d1[end + 1] <= j + 1); }
                    dummy_diff[end + 1] -= 1;
                    //@ proof { lemma_diff_step(d, d1, dummy_diff@, ls, j, lc); }
                } }
                }
                let mut has_dummy_line = opq_vec_bool(line_count + 1); // 1-indexed
                let mut running = 0i32;
                //@ proof { assert(hd_inv(has_dummy_line@, ls, lc, 0)); }
                for line in it_4: 1..=line_count
                //@     invariant
                //@         lc == line_count, lc + 2 <= usize::MAX, ls.len() < 0x7fff_ffff, range_rem(it_4.snapshot@.remaining(), 1, lc),
                //@         diff_inv(dummy_diff@, ls, ls.len() as int, lc), hd_inv(has_dummy_line@, ls, lc, it_4.index@),
                //@         running == psum(dummy_diff@, it_4.index@),
                {
                    //@ let ghost h0 = has_dummy_line@;
                    //@ proof { assert(line == 1 + it_4.index@); lemma_hd_step(h0, h0.update(line as int, psum(dummy_diff@, line as int) > 0), dummy_diff@, ls, lc, line as int); }
                    running += dummy_diff[line];
                    has_dummy_line[line] = running > 0;
                }

                // Precompute per-line char starts once to avoid O(n^2) prefix sums.
                let mut line_start_chars = Vec::with_capacity(line_count);
                let mut char_pos = 0usize;
                line_start_chars = opq_offsets(&final_lines, &final_content);
                //@ let ghost st = line_start_chars@;
                //@ proof { assert(offsets_ok(c, st)); assert(rc_inv(t, t, lt, lb, st, ls, m, 0)); }

                // For each line with dummy attribution, try to restore from original
                for (line_idx, line_content) in it_5: opq_enumerate(&final_lines)
                //@     invariant
                //@         lc == line_count, lc + 2 <= usize::MAX, enum_ok(it_5.snapshot@.remaining(), final_lines@), final_lines@.len() == lc, dummy_author@ == DUMMY(),
                //@         hd_inv(has_dummy_line@, ls, lc, lc), st == line_start_chars@, st.len() == lc, lt.len() == lc, lb.len() == lc, lb == line_bytes(final_lines@),
                //@         forall|i: int| 0 <= i < lc ==> (#[trigger] final_lines@[i])@ == lt[i],
                //@         starts_ok(tb(c), lb, st, lc), tb(c).len() <= usize::MAX, cm(original_line_to_author) == m,
                //@         rc_inv(transformed_attrs@, t, lt, lb, st, ls, m, it_5.index@),
                {
                    //@ let ghost i = it_5.index@;
                    //@ let ghost cur = transformed_attrs@;
                    //@ proof { assert(it_5.snapshot@.remaining()[i].0 == line_idx && *it_5.snapshot@.remaining()[i].1 == *line_content); assert(line_idx == i); lemma_lnum(i, lc); assert(final_lines@[i]@ == lt[i]); assert(lb[i] == final_lines@[i].spec_bytes()); }
                    // Check if this line has a dummy attribution
                    let line_num = (line_idx + 1) as u32; // LineAttribution is 1-indexed
                    //@ proof { assert(line_num as int == lnum(i)); if !sel(lt, ls, m, i) { lemma_rc_miss(cur, t, lt, lb, st, ls, m, i); } }
                    let has_dummy = has_dummy_line[line_num as usize];

                    if has_dummy {
                        // Try to find this line content in original state
                        if let Some(original_author) = original_line_to_author.get(*line_content) {
                            // Update all char attributions on this line
                            // Find the char range for this line
                            let line_start_char = line_start_chars[line_idx];
                            let line_end_char = line_start_char + line_content.len();

                            // Update the part of the attributions that lies on this line
                            transformed_attrs = restore_author_in_range(
                                opq_take(&mut transformed_attrs),
                                dummy_author,
                                original_author,
                                line_start_char,
                                line_end_char,
                            );
                            //@ proof { lemma_rc_hit(cur, transformed_attrs@, t, lt, lb, st, ls, m, i); }
                        }
                    }
                }
                //@ proof { assert(offsets_ok(c, st) && rc_all(transformed_attrs@, t, c, m, st)); assert(pre_retain_ok_cp(transformed_attrs@, t, oc, oa, ol, c)); }
            }
        } }
        //@ proof { assert(pre_retain_ok_cp(transformed_attrs@, t, oc, oa, ol, c)); lemma_finish_cp(transformed_attrs@, t, oc, oa, ol, c); }

        // Now filter out any remaining dummy attributions
        let dummy_author = "__DUMMY__";
        opq_retain_not_author(&mut transformed_attrs, dummy_author);

        // Convert to line attributions
        let line_attrs = tracker_attributions_to_line_attributions(
            &transformed_attrs,
            &final_content,
        );
        //@ let ghost res = (transformed_attrs@, line_attrs@);
        //@ proof { assert(file_post_cp(src, oc, oa, ol, f, c, ts, res)); }

        attributions.insert(file_path.clone(), (transformed_attrs, line_attrs));
        file_contents.insert(file_path, final_content);
        //@ proof {
        //@     let a2 = am(attributions); let c2 = cm(file_contents);
        //@     assert(a2 == a1.insert(f, res) && c2 == c1.insert(f, c));
        //@     assert(file_done_cp(a0, c0, a2, c2, src, orig, ts, f, c));
        //@     lemma_state_step_cp(a0, c0, a1, c1, a2, c2, src, orig, ts, fs, l, k);
        //@     if k + 1 == l.len() { lemma_state_done_cp(a0, c0, a2, c2, src, orig, ts, fs, l); }
        //@ }
    }
    }

    // Merge prompts from source VA and original_head_state, picking the newest version of each
//@     Ok((attributions, file_contents))
//@ }
//#end

} // verus!
fn main() {}
