// Replay driver for unit finaltransform: the ORIGINAL text of transform_changed_files_to_final_state,
// build_original_head_line_author_maps, content_has_intersection_with_author_map and restore_author_in_range, with a MODEL tracker
// (line-wise LCS: a kept line keeps its attributions, every run of new lines is one placeholder attribution) and a MODEL line
// projection (author with the largest overlap per line) in place of the real ones - the contract treats both as uninterpreted, so
// any deterministic pair will do.  The oracle recomputes, PER BYTE and PER AI AUTHOR, who may be credited after one step, straight
// from the property (C02 / C03): the tracker's carried credit, or placeholder text on a line whose text the SAME FILE's map knows.
#![allow(dead_code, unused)]
use std::collections::{HashMap, HashSet, BTreeMap, BTreeSet};
#[derive(Debug)]
pub enum GitAiError { Generic(String) }
pub enum CheckpointKind { Human, AiAgent, AiTab }
impl CheckpointKind { pub fn to_str(&self) -> String { match self { CheckpointKind::Human => "human".to_string(), CheckpointKind::AiAgent => "ai_agent".to_string(), CheckpointKind::AiTab => "ai_tab".to_string() } } }
type FileAttrs = (Vec<Attribution>, Vec<LineAttribution>);
/// stand-in for VirtualAttributions: the two maps and the order in which files() lists the files
pub struct VirtualAttributions { pub attributions: HashMap<String, FileAttrs>, pub file_contents: HashMap<String, String>, pub order: Vec<String> }
impl VirtualAttributions {
    pub fn files(&self) -> Vec<String> { self.order.clone() }
    pub fn get_file_content(&self, f: &str) -> Option<&String> { self.file_contents.get(f) }
    pub fn get_char_attributions(&self, f: &str) -> Option<&Vec<Attribution>> { self.attributions.get(f).map(|(c, _)| c) }
    pub fn get_line_attributions(&self, f: &str) -> Option<&Vec<LineAttribution>> { self.attributions.get(f).map(|(_, l)| l) }
}
const DUMMY: &str = "__DUMMY__";
const FAIL_MARK: &str = "!!tracker-fails!!";
/// lines with their terminators
fn pieces(s: &str) -> Vec<&str> { s.split_inclusive('\n').collect() }
/// (start, end) byte offsets of every line's text (terminator excluded), as str::lines() sees the content
fn line_spans(s: &str) -> Vec<(usize, usize)> {
    let mut out = Vec::new(); let mut pos = 0usize;
    for p in pieces(s) { let mut e = pos + p.len(); if p.ends_with('\n') { e -= 1; if p[..p.len() - 1].ends_with('\r') { e -= 1; } } out.push((pos, e)); pos += p.len(); }
    out
}
pub struct AttributionTracker;
impl AttributionTracker {
    pub fn new() -> Self { AttributionTracker }
    /// MODEL: line-wise longest common subsequence; kept lines keep (the overlapping part of) their attributions, every maximal run
    /// of new lines becomes ONE attribution of `current_author`; fails when the new content holds FAIL_MARK
    pub fn update_attributions(&self, old_content: &str, new_content: &str, old_attributions: &[Attribution], current_author: &str, ts: u128) -> Result<Vec<Attribution>, GitAiError> {
        if new_content.contains(FAIL_MARK) { return Err(GitAiError::Generic("model tracker fails".into())); }
        let a = pieces(old_content); let b = pieces(new_content);
        let (n, m) = (a.len(), b.len());
        let mut l = vec![vec![0u32; m + 1]; n + 1];
        for i in (0..n).rev() { for j in (0..m).rev() { l[i][j] = if a[i] == b[j] { l[i + 1][j + 1] + 1 } else { l[i + 1][j].max(l[i][j + 1]) }; } }
        let mut aoff = vec![0usize; n + 1]; for i in 0..n { aoff[i + 1] = aoff[i] + a[i].len(); }
        let mut boff = vec![0usize; m + 1]; for j in 0..m { boff[j + 1] = boff[j] + b[j].len(); }
        let mut out: Vec<Attribution> = Vec::new();
        let (mut i, mut j) = (0usize, 0usize);
        let mut run_start: Option<usize> = None;
        while j < m {
            if i < n && a[i] == b[j] && l[i][j] == l[i + 1][j + 1] + 1 {
                if let Some(s) = run_start.take() { out.push(Attribution::new(s, boff[j], current_author.to_string(), ts)); }
                for at in old_attributions { let (s, e) = (at.start.max(aoff[i]), at.end.min(aoff[i + 1])); if s < e { out.push(Attribution::new(s - aoff[i] + boff[j], e - aoff[i] + boff[j], at.author_id.clone(), at.ts)); } }
                i += 1; j += 1;
            } else if i < n && l[i + 1][j] >= l[i][j + 1] { i += 1; }
            else { if run_start.is_none() { run_start = Some(boff[j]); } j += 1; }
        }
        if let Some(s) = run_start.take() { out.push(Attribution::new(s, boff[m], current_author.to_string(), ts)); }
        Ok(out)
    }
}
/// MODEL projection: per line the author with the largest overlap (ties: the earlier entry); an empty line takes an attribution that
/// spans its position; no overlap => human; consecutive equal lines merged; human lines dropped
pub fn attributions_to_line_attributions(attributions: &[Attribution], content: &str) -> Vec<LineAttribution> {
    let mut authors: Vec<String> = Vec::new();
    for (s, e) in line_spans(content) {
        let mut best: Option<(usize, &str)> = None;
        for at in attributions {
            let ov = if s == e { if at.start <= s && s < at.end { 1 } else { 0 } } else { at.end.min(e).saturating_sub(at.start.max(s)) };
            if ov > 0 && best.map(|(b, _)| ov > b).unwrap_or(true) { best = Some((ov, at.author_id.as_str())); }
        }
        authors.push(best.map(|(_, a)| a.to_string()).unwrap_or("human".to_string()));
    }
    let mut out: Vec<LineAttribution> = Vec::new();
    for (i, a) in authors.iter().enumerate() {
        if a == "human" { continue; }
        let ln = i as u32 + 1;
        if let Some(last) = out.last_mut() { if last.author_id == *a && last.end_line + 1 == ln { last.end_line = ln; continue; } }
        out.push(LineAttribution { start_line: ln, end_line: ln, author_id: a.clone(), overrode: None });
    }
    out
}
pub mod authorship {
    pub mod attribution_tracker { pub use crate::{Attribution, LineAttribution, AttributionTracker, attributions_to_line_attributions}; }
    pub mod virtual_attribution { pub use crate::VirtualAttributions; }
    pub mod working_log { pub use crate::CheckpointKind; }
}
include!("@ITEMS@");
use std::panic::{catch_unwind, AssertUnwindSafe};
struct Ctx { evaluated: u64, failed: std::collections::HashSet<String>, stats: BTreeMap<&'static str, u64> }
impl Ctx {
    fn fail(&mut self, f: &str, clause: &str, input: String, observed: String, expected: String) {
        if self.failed.insert(format!("{}::{}", f, clause)) { println!("FAIL fn=[[{}]] clause=[[{}]] input=[[{}]] observed=[[{}]] expected=[[{}]]", f, clause, input, observed, expected); }
    }
}
fn guarded<T>(f: impl FnOnce() -> T) -> Result<T, String> {
    catch_unwind(AssertUnwindSafe(f)).map_err(|e| { let m = e.downcast_ref::<String>().cloned().or_else(|| e.downcast_ref::<&str>().map(|s| s.to_string())).unwrap_or_default(); format!("panic: {}", m) })
}
struct Rng(u64);
impl Rng { fn next(&mut self) -> u64 { self.0 ^= self.0 << 13; self.0 ^= self.0 >> 7; self.0 ^= self.0 << 17; self.0 } fn below(&mut self, n: u64) -> u64 { self.next() % n } fn chance(&mut self, pct: u64) -> bool { self.below(100) < pct } }
fn esc(s: &str) -> String { s.chars().map(|c| if (c.is_ascii_graphic() && !"\\|~;,#=".contains(c)) || c == ' ' { c.to_string() } else { format!("\\u{{{:x}}}", c as u32) }).collect() }

// ------------------------------------------------------------------------------------------------ scenario data
const TEXTS: [&str; 9] = ["a", "b", "}", "", "  ", "x = 1", "é", "fn f() {", "b"];
const FILES: [&str; 3] = ["f", "g", "dir/h"];
const AUTHORS: [&str; 4] = ["human", "S1", "S2", "S1"];
/// a file as (line text, author) pairs plus its newline style
#[derive(Clone, Debug)]
struct Doc { lines: Vec<(String, String)>, crlf: bool, last_nl: bool }
impl Doc {
    fn text(&self) -> String {
        let nl = if self.crlf { "\r\n" } else { "\n" }; let mut s = String::new();
        for (i, (t, _)) in self.lines.iter().enumerate() { s.push_str(t); if i + 1 < self.lines.len() || self.last_nl { s.push_str(nl); } }
        s
    }
    /// one attribution per maximal block of lines of one author (terminators included), humans sometimes left unattributed
    fn attrs(&self, ts: u128, human_entries: bool) -> Vec<Attribution> {
        let text = self.text(); let ps = pieces(&text); let mut out: Vec<Attribution> = Vec::new(); let mut pos = 0usize;
        for (i, p) in ps.iter().enumerate() {
            let a = &self.lines[i].1;
            if a != "human" || human_entries {
                if let Some(last) = out.last_mut() { if last.author_id == *a && last.end == pos { last.end = pos + p.len(); pos += p.len(); continue; } }
                out.push(Attribution::new(pos, pos + p.len(), a.clone(), ts));
            }
            pos += p.len();
        }
        out
    }
    fn show(&self) -> String { format!("{}{}[{}]", if self.crlf { "crlf" } else { "lf" }, if self.last_nl { "+nl" } else { "" }, self.lines.iter().map(|(t, a)| format!("{}:{}", esc(t), a)).collect::<Vec<_>>().join("|")) }
}
fn gen_doc(r: &mut Rng, max: u64) -> Doc {
    let n = r.below(max + 1); let mut lines = Vec::new();
    for _ in 0..n { lines.push((TEXTS[r.below(TEXTS.len() as u64) as usize].to_string(), AUTHORS[r.below(AUTHORS.len() as u64) as usize].to_string())); }
    // a text that would be read as a terminator-only last line is avoided: the last line of a document without final newline is not empty
    let last_nl = r.chance(80) || lines.last().map(|(t, _)| t.is_empty()).unwrap_or(true);
    Doc { lines, crlf: r.chance(20), last_nl }
}
/// edit a document: drop lines, insert lines (new text or lines taken from `pool`), by `who`
fn edit_doc(r: &mut Rng, d: &Doc, pool: &Doc, who: &[&str]) -> Doc {
    let mut lines = Vec::new();
    for l in &d.lines {
        if r.chance(25) { continue; }
        if r.chance(25) { if !pool.lines.is_empty() && r.chance(60) { lines.push(pool.lines[r.below(pool.lines.len() as u64) as usize].clone()); } else { lines.push((TEXTS[r.below(TEXTS.len() as u64) as usize].to_string(), who[r.below(who.len() as u64) as usize].to_string())); } }
        lines.push(l.clone());
    }
    if r.chance(40) { for l in &pool.lines { if r.chance(50) { lines.push(l.clone()); } } }
    let last_nl = d.last_nl || lines.last().map(|(t, _)| t.is_empty()).unwrap_or(true);
    Doc { lines, crlf: d.crlf, last_nl }
}
fn cov(attrs: &[Attribution], a: &str, p: usize) -> bool { attrs.iter().any(|x| x.author_id == a && x.start <= p && p < x.end) }
fn show_attrs(v: &[Attribution]) -> String { v.iter().map(|a| format!("{}..{} {}", a.start, a.end, a.author_id)).collect::<Vec<_>>().join(", ") }
fn show_la(v: &[LineAttribution]) -> String { v.iter().map(|a| format!("{}-{} {}", a.start_line, a.end_line, a.author_id)).collect::<Vec<_>>().join(", ") }
/// the obvious author map of one file: text of every line an AI line attribution covers -> the AI authors credited with such a line
fn line_authors(content: &str, las: &[LineAttribution]) -> BTreeMap<String, BTreeSet<String>> {
    let spans = line_spans(content); let mut m: BTreeMap<String, BTreeSet<String>> = BTreeMap::new();
    for la in las { if la.author_id == "human" { continue; } for ln in la.start_line..=la.end_line { let idx = (ln as usize).saturating_sub(1); if idx < spans.len() { m.entry(content[spans[idx].0..spans[idx].1].to_string()).or_default().insert(la.author_id.clone()); } } }
    m
}

// ------------------------------------------------------------------------------------------------ one step of the replay
struct Step { orig: Option<VirtualAttributions>, maps: Option<HashMap<String, HashMap<String, String>>>, attrs: HashMap<String, FileAttrs>, contents: HashMap<String, String>, fin: Vec<(String, String)>, ts: u128, desc: String }
fn gen_step(seed: u64, idx: u64) -> Step {
    let mut r = Rng(seed.wrapping_mul(0x9E3779B97F4A7C15).wrapping_add(idx.wrapping_mul(0xD1B54A32D192ED03)) | 1); for _ in 0..4 { r.next(); }
    let ts = 1000u128; let mut desc = String::new();
    let mut odocs: BTreeMap<String, Doc> = BTreeMap::new();
    for f in FILES { if r.chance(75) { odocs.insert(f.to_string(), gen_doc(&mut r, 6)); } }
    let mut oattrs = HashMap::new(); let mut ocont = HashMap::new(); let mut order = Vec::new();
    for (f, d) in &odocs {
        let t = d.text(); let ca = d.attrs(500, r.chance(50)); let mut la = attributions_to_line_attributions(&ca, &t);
        // sometimes the original state lists its human lines too (a note may): they must not enter the author map
        if r.chance(25) { for (i, (_, a)) in d.lines.iter().enumerate() { if a == "human" { la.push(LineAttribution { start_line: i as u32 + 1, end_line: i as u32 + 1, author_id: "human".to_string(), overrode: None }); } } }
        desc.push_str(&format!(" orig {}={} la=[{}]", f, d.show(), show_la(&la)));
        if !r.chance(8) { oattrs.insert(f.clone(), (ca, la)); order.push(f.clone()); }
        if !r.chance(8) { ocont.insert(f.clone(), t); }
    }
    let orig = VirtualAttributions { attributions: oattrs, file_contents: ocont, order };
    // the author maps: usually what the original head gives (last one wins, written independently here), sometimes arbitrary, sometimes none
    let mut maps: HashMap<String, HashMap<String, String>> = HashMap::new();
    let mode = r.below(10);
    for f in FILES {
        if mode == 0 { let mut m = HashMap::new(); for t in TEXTS { if r.chance(40) { m.insert(t.to_string(), AUTHORS[1 + r.below(2) as usize].to_string()); } } if !m.is_empty() { maps.insert(f.to_string(), m); } }
        else if let (Some(c), Some((_, la))) = (orig.file_contents.get(f), orig.attributions.get(f)) {
            let mut m = HashMap::new(); for (t, who) in line_authors(c, la) { m.insert(t, who.iter().next_back().unwrap().clone()); } if !m.is_empty() { maps.insert(f.to_string(), m); }
        }
    }
    if mode != 0 { desc.push_str(" maps=from-orig"); } else { desc.push_str(&format!(" maps={:?}", maps.iter().collect::<BTreeMap<_, _>>())); }
    // the running state: the original head after some edits (attributions carried by the model tracker), plus files of its own
    let mut attrs = HashMap::new(); let mut contents = HashMap::new(); let mut rdocs: BTreeMap<String, Doc> = BTreeMap::new();
    for f in FILES {
        let base = odocs.get(f).cloned().unwrap_or(Doc { lines: vec![], crlf: false, last_nl: true });
        if r.chance(15) { continue; }
        let extra = gen_doc(&mut r, 3);
        let d = if r.chance(30) { base.clone() } else { edit_doc(&mut r, &base, &extra, &["human", "S1", "S2"]) };
        let t = d.text(); let ca = d.attrs(700, r.chance(50)); let la = attributions_to_line_attributions(&ca, &t);
        desc.push_str(&format!(" run {}={}", f, d.show()));
        if !r.chance(8) { attrs.insert(f.to_string(), (ca, la)); }
        if !r.chance(8) { contents.insert(f.to_string(), t); }
        rdocs.insert(f.to_string(), d);
    }
    // the commit: some files change - re-adding lines of the original head (what the re-crediting is for), new lines, deletion,
    // exactly the original content, a content the model tracker refuses
    let mut fin = Vec::new();
    for f in FILES {
        if r.chance(45) { continue; }
        let base = rdocs.get(f).cloned().unwrap_or(Doc { lines: vec![], crlf: false, last_nl: true });
        let pool = odocs.get(f).cloned().unwrap_or(Doc { lines: vec![], crlf: false, last_nl: true });
        let k = r.below(20);
        let t = if k == 0 { String::new() } else if k == 1 { odocs.get(f).map(|d| d.text()).unwrap_or_default() } else if k == 2 { format!("{}{}\n", base.text(), FAIL_MARK) } else { edit_doc(&mut r, &base, &pool, &["human", "S1", "S2"]).text() };
        desc.push_str(&format!(" new {}={}", f, esc(&t)));
        fin.push((f.to_string(), t));
    }
    let use_orig = !r.chance(10); let use_maps = !r.chance(10);
    if !use_orig { desc.push_str(" orig=None"); } if !use_maps { desc.push_str(" maps=None"); }
    Step { orig: if use_orig { Some(orig) } else { None }, maps: if use_maps { Some(maps) } else { None }, attrs, contents, fin, ts, desc }
}
fn chk_step(c: &mut Ctx, input: String, s: Step, cp: bool) {
    c.evaluated += 1;
    let fname = if cp { "region_cp_loop" } else { "transform_changed_files_to_final_state" };
    let mut attrs = s.attrs.clone(); let mut contents = s.contents.clone();
    let fin: HashMap<String, String> = s.fin.iter().cloned().collect();
    // cherry-pick: the running state IS source_va; the two maps start as its copy (what the lines above the region do)
    let src_va = VirtualAttributions { attributions: s.attrs.clone(), file_contents: s.contents.clone(), order: s.attrs.keys().cloned().collect() };
    let r = if cp { guarded(|| region_cp_loop(&src_va, fin.clone(), s.orig.as_ref(), AttributionTracker::new(), s.ts, s.attrs.clone(), s.contents.clone()).map(|(a, b)| { attrs = a; contents = b; })) }
        else { guarded(|| transform_changed_files_to_final_state(&mut attrs, &mut contents, fin.clone(), s.orig.as_ref(), s.maps.as_ref(), s.ts)) };
    let r = match r { Err(p) => { c.fail(fname, "safety", input, format!("{} | {}", p, s.desc), "no panic".into()); return; } Ok(r) => r };
    if r.is_err() { *c.stats.entry("step: tracker failed (Err)").or_default() += 1; return; }   // the tracker failed: nothing is claimed (the caller writes no note)
    let tracker = AttributionTracker::new();
    let mut all: BTreeSet<String> = s.attrs.keys().cloned().collect(); all.extend(s.contents.keys().cloned()); all.extend(attrs.keys().cloned()); all.extend(contents.keys().cloned()); all.extend(fin.keys().cloned());
    for f in &all {
        let newc = fin.get(f);
        if newc.map(|t| t.is_empty()).unwrap_or(true) {
            // an unchanged file - and a file that is absent from this commit - keeps attributions and content exactly
            if attrs.get(f) != s.attrs.get(f) || contents.get(f) != s.contents.get(f) {
                c.fail(fname, "ensures#0", input.clone(), format!("file {} not handed over (or empty) but its state changed: content {:?} -> {:?}, attributions {:?} -> {:?} | {}", f, s.contents.get(f), contents.get(f), s.attrs.get(f).map(|x| show_attrs(&x.0)), attrs.get(f).map(|x| show_attrs(&x.0)), s.desc), "untouched".into());
            }
            *c.stats.entry("file: untouched checked").or_default() += 1;
            continue;
        }
        let newc = newc.unwrap();
        *c.stats.entry("file: changed checked").or_default() += 1;
        if contents.get(f) != Some(newc) { c.fail(fname, "ensures#0", input.clone(), format!("content map of {} holds {:?} | {}", f, contents.get(f), s.desc), format!("the new content {:?}", newc)); continue; }
        let Some((got, got_la)) = attrs.get(f) else { c.fail(fname, "ensures#0", input.clone(), format!("no attribution entry for changed file {} | {}", f, s.desc), "an entry".into()); continue; };
        if got.iter().any(|a| a.author_id == DUMMY) { c.fail(fname, "ensures#0", input.clone(), format!("placeholder entry stored for {}: {} | {}", f, show_attrs(got), s.desc), "no placeholder entry".into()); }
        let want_la = attributions_to_line_attributions(got, newc);
        if *got_la != want_la { c.fail(fname, "ensures#0", input.clone(), format!("line attributions of {}: {} | {}", f, show_la(got_la), s.desc), format!("the projection of the stored char attributions on the new content: {}", show_la(&want_la))); }
        // WHO MAY BE CREDITED: (c) the original head's attributions when the content is the original head's; else (a) what the tracker
        // carries from the RUNNING state of THIS file, plus (b) placeholder bytes on a placeholder line whose text THIS file's map knows
        let oc = s.orig.as_ref().and_then(|o| o.file_contents.get(f)); let oa = s.orig.as_ref().and_then(|o| o.attributions.get(f));
        let t: Vec<Attribution> = match (s.attrs.get(f), s.contents.get(f)) { (Some((pa, _)), Some(pc)) => match tracker.update_attributions(pc, newc, pa, DUMMY, s.ts) { Ok(v) => v, Err(_) => continue }, _ => Vec::new() };
        let mut authors: BTreeSet<String> = got.iter().map(|a| a.author_id.clone()).collect(); authors.extend(t.iter().map(|a| a.author_id.clone()));
        if let Some((a, _)) = oa { authors.extend(a.iter().map(|x| x.author_id.clone())); }
        if let Some(m) = s.maps.as_ref().and_then(|m| m.get(f)) { authors.extend(m.values().cloned()); }
        authors.remove("human"); authors.remove(DUMMY);
        let spans = line_spans(newc); let tla = attributions_to_line_attributions(&t, newc);
        let fmap = s.maps.as_ref().and_then(|m| m.get(f));
        // cherry-pick: the map is built inline from the original state's line attributions OF THIS FILE; where two sessions are credited
        // with the same text the oracle accepts either of them (which one wins is finding F1, not asked for here)
        let cp_authors: BTreeMap<String, BTreeSet<String>> = if cp { match (oc, oa) { (Some(ct), Some((_, la))) => line_authors(ct, la), _ => BTreeMap::new() } } else { BTreeMap::new() };
        if cp { for v in cp_authors.values() { authors.extend(v.iter().cloned()); } authors.remove("human"); authors.remove(DUMMY); }
        for a in &authors {
            for p in 0..=newc.len() {
                let want = if oc == Some(newc) && oa.is_some() { if p == 0 { *c.stats.entry("file x author: original head taken verbatim").or_default() += 1; } cov(&oa.unwrap().0, a, p) } else {
                    let mut w = cov(&t, a, p);
                    if w { *c.stats.entry("byte: carried by the tracker").or_default() += 1; }
                    if cp && !w && oc.is_some() && cov(&t, DUMMY, p) {
                        let mut amb = false;
                        for (i, (ls, le)) in spans.iter().enumerate() {
                            if *ls <= p && p < *le && tla.iter().any(|la| la.author_id == DUMMY && la.start_line as usize <= i + 1 && i + 1 <= la.end_line as usize) {
                                if let Some(who) = cp_authors.get(&newc[*ls..*le]) {
                                    if who.len() == 1 { w = who.contains(a); if w { *c.stats.entry("byte: re-credited from the map").or_default() += 1; } }
                                    else { amb = true; let n = who.iter().filter(|x| cov(got, x, p)).count();
                                        if n != 1 || (cov(got, a, p) && !who.contains(a)) { c.fail(fname, "ensures#0:credit-invented", input.clone(), format!("file {} byte {}: {} of the candidate sessions {:?} credited; stored [{}] | {}", f, p, n, who, show_attrs(got), s.desc), "exactly one of the sessions credited with a line of this text".into()); } }
                                }
                            }
                        }
                        if amb { continue; }
                    }
                    if !cp && !w && oc.is_some() && cov(&t, DUMMY, p) { if let Some(m) = fmap {
                        for (i, (ls, le)) in spans.iter().enumerate() {
                            if *ls <= p && p < *le && m.get(&newc[*ls..*le]).map(|x| x == a).unwrap_or(false) && tla.iter().any(|la| la.author_id == DUMMY && la.start_line as usize <= i + 1 && i + 1 <= la.end_line as usize) { w = true; *c.stats.entry("byte: re-credited from the map").or_default() += 1; }
                        }
                    } }
                    w
                };
                if cov(got, a, p) != want {
                    c.fail(fname, if want { "ensures#0:credit-lost" } else { "ensures#0:credit-invented" }, input.clone(), format!("file {} byte {} author {}: credited={} ; stored [{}] ; tracker gave [{}] | {}", f, p, a, !want, show_attrs(got), show_attrs(&t), s.desc), format!("credited={}", want));
                }
            }
        }
    }
}

// ------------------------------------------------------------------------------------------------ the author maps
fn gen_va(seed: u64, idx: u64) -> (VirtualAttributions, String) {
    let mut r = Rng(seed.wrapping_mul(0x9E3779B97F4A7C15).wrapping_add(idx.wrapping_mul(0xA24BAED4963EE407)) | 1); for _ in 0..4 { r.next(); }
    let mut attrs = HashMap::new(); let mut cont = HashMap::new(); let mut order = Vec::new(); let mut desc = String::new();
    for f in FILES {
        if r.chance(20) { continue; }
        let d = gen_doc(&mut r, 7); let t = d.text();
        let mut la = attributions_to_line_attributions(&d.attrs(1, true), &t);
        // line attributions as a note may give them: humans listed too, ranges beyond the end of the file, line 0, inverted ranges
        if r.chance(30) { la.push(LineAttribution { start_line: r.below(4) as u32, end_line: r.below(12) as u32, author_id: AUTHORS[r.below(4) as usize].to_string(), overrode: None }); }
        if r.chance(30) { la.insert(0, LineAttribution { start_line: 1, end_line: 2, author_id: "human".to_string(), overrode: None }); }
        desc.push_str(&format!(" {}={} la=[{}]", f, d.show(), show_la(&la)));
        if !r.chance(10) { attrs.insert(f.to_string(), (Vec::new(), la)); order.push(f.to_string()); }
        if !r.chance(10) { cont.insert(f.to_string(), t); }
    }
    if r.chance(20) { if let Some(f) = order.first().cloned() { order.push(f); } }
    (VirtualAttributions { attributions: attrs, file_contents: cont, order }, desc)
}
fn chk_maps(c: &mut Ctx, input: String, va: VirtualAttributions, desc: String, finding: bool) {
    c.evaluated += 1;
    let fname = "build_original_head_line_author_maps";
    let got = match guarded(|| build_original_head_line_author_maps(&va)) { Err(p) => { c.fail(fname, "safety", input, format!("{} | {}", p, desc), "no panic".into()); return; } Ok(g) => g };
    for f in FILES {
        let want: BTreeMap<String, BTreeSet<String>> = match (va.file_contents.get(f), va.attributions.get(f)) { (Some(ct), Some((_, la))) if va.order.iter().any(|x| x == f) => line_authors(ct, la), _ => BTreeMap::new() };
        let g = got.get(f);
        if want.is_empty() { if g.is_some() { c.fail(fname, "ensures#0", input.clone(), format!("entry for {}: {:?} | {}", f, g, desc), "no entry (no AI line with text in this file)".into()); } continue; }
        let Some(g) = g else { c.fail(fname, "ensures#0", input.clone(), format!("no entry for {} | {}", f, desc), format!("keys {:?}", want.keys().collect::<Vec<_>>())); continue; };
        let gk: BTreeSet<&String> = g.keys().collect(); let wk: BTreeSet<&String> = want.keys().collect();
        if gk != wk { c.fail(fname, "ensures#0", input.clone(), format!("keys of {}: {:?} | {}", f, gk, desc), format!("the texts of the lines AI line attributions cover: {:?}", wk)); continue; }
        for (k, v) in g {
            if !want[k].contains(v) { c.fail(fname, "ensures#0", input.clone(), format!("{}: text {:?} -> {} | {}", f, k, v, desc), format!("an author credited with a line of that text IN THIS FILE: {:?}", want[k])); }
            // FINDING F1 (only asked for by name): a text two different sessions are credited with must not be handed to one of them
            if finding && want[k].len() > 1 { c.fail("finding_ambiguous_line_text", "text_of_two_sessions_is_mapped_to_one", input.clone(), format!("{}: text {:?} -> {} although {:?} are each credited with such a line | {}", f, k, v, want[k], desc), "no entry for a text that does not identify its session".into()); }
        }
    }
}
fn chk_chi(c: &mut Ctx, r: &mut Rng) {
    c.evaluated += 1;
    let d = gen_doc(r, 5); let t = d.text(); let mut m = HashMap::new();
    for x in TEXTS { if r.chance(25) { m.insert(x.to_string(), "S1".to_string()); } }
    let input = format!("{}#{:?}", esc(&t), m.keys().collect::<BTreeSet<_>>());
    let want = line_spans(&t).iter().any(|(s, e)| m.contains_key(&t[*s..*e]));
    match guarded(|| content_has_intersection_with_author_map(&t, &m)) { Err(p) => c.fail("content_has_intersection_with_author_map", "safety", input, p, "no panic".into()),
        Ok(g) => if g != want { c.fail("content_has_intersection_with_author_map", "ensures#0", input, format!("{}", g), format!("{} (some line's text is a key)", want)); } }
}

fn main() {
    let args: Vec<String> = std::env::args().collect();
    let mode = args.get(1).map(String::as_str).unwrap_or("search");
    let which = args.get(2).map(String::as_str).unwrap_or("*");
    let mut c = Ctx { evaluated: 0, failed: Default::default(), stats: BTreeMap::new() };
    let want = |n: &str| which == "*" || which == n;
    if mode == "replay" {
        // input = step:<seed>:<index> | cp:<seed>:<index> | maps:<seed>:<index>  (the generators are deterministic; the FAIL line's `observed` spells the scenario out)
        let inp = args.get(3).cloned().unwrap_or_default(); let p: Vec<&str> = inp.split(':').collect();
        let (seed, idx) = (p.get(1).and_then(|x| x.parse().ok()).unwrap_or(0u64), p.get(2).and_then(|x| x.parse().ok()).unwrap_or(0u64));
        if p[0] == "step" { chk_step(&mut c, inp.clone(), gen_step(seed, idx), false); }
        if p[0] == "cp" { chk_step(&mut c, inp.clone(), gen_step(seed, idx), true); }
        if p[0] == "maps" { let (va, d) = gen_va(seed, idx); chk_maps(&mut c, inp.clone(), va, d, which == "finding_ambiguous_line_text"); }
    } else {
        let seed: u64 = args.get(3).and_then(|s| s.parse().ok()).unwrap_or(0);
        if want("transform_changed_files_to_final_state") { for i in 0..6000u64 { chk_step(&mut c, format!("step:{}:{}", seed, i), gen_step(seed, i), false); } }
        if want("region_cp_loop") { for i in 0..6000u64 { chk_step(&mut c, format!("cp:{}:{}", seed, i), gen_step(seed, i), true); } }
        if want("build_original_head_line_author_maps") || which == "finding_ambiguous_line_text" { for i in 0..3000u64 { let (va, d) = gen_va(seed, i); chk_maps(&mut c, format!("maps:{}:{}", seed, i), va, d, which == "finding_ambiguous_line_text"); } }
        if want("content_has_intersection_with_author_map") { let mut r = Rng(seed ^ 0x5DEECE66D | 1); for _ in 0..2000 { chk_chi(&mut c, &mut r); } }
    }
    if std::env::var("FT_STATS").is_ok() { for (k, v) in &c.stats { eprintln!("STAT {} = {}", k, v); } }
    println!("DONE evaluated={}", c.evaluated);
}
