// End-to-end demonstration (real binary through the repository's own test harness) for unit finaltransform, properties C03 / C02:
// in the per-commit replay of `git rebase` / `git cherry-pick`, text that re-appears is re-credited BY LINE TEXT from a per-file map
// `line text -> author` built from the original head (build_original_head_line_author_maps / the inline map of
// transform_attributions_to_final_state).  The map holds ONE author per text: when two AI sessions each wrote a line with the same
// text (`}`), ONE of them wins (the last in the list of line attributions, whose order comes from a HashMap of the blame result: it
// varies from run to run) and the re-applied line of the OTHER session is credited to it ("crediting the wrong
// session", C03); a line a PERSON typed that equals an AI line of the same file is credited to that AI session.
// Every `checkpoint mock_ai` run is a session of its own (agent id ai-thread-<nanos>), so two `.ai()` edits are two sessions.
#[macro_use]
mod repos;
use repos::test_file::ExpectedLineExt;
use repos::test_repo::TestRepo;

/// the attestation section of a note: for `file` the (session hash, lines) entries
fn note_entries(repo: &TestRepo, rev: &str, file: &str) -> Vec<(String, Vec<u32>)> {
    let note = repo.git_og(&["notes", "--ref=ai", "show", rev]).unwrap_or_default();
    let mut out = Vec::new();
    let mut in_file = false;
    for l in note.lines() {
        if l.trim() == "---" { break; }
        if !l.starts_with(' ') { in_file = l.trim().trim_matches('"') == file; continue; }
        if !in_file { continue; }
        let mut it = l.trim().splitn(2, ' ');
        let hash = it.next().unwrap_or("").to_string();
        let mut lines = Vec::new();
        for r in it.next().unwrap_or("").split(',') {
            let r = r.trim();
            if r.is_empty() { continue; }
            if let Some((a, b)) = r.split_once('-') { let (a, b): (u32, u32) = (a.parse().unwrap(), b.parse().unwrap()); for n in a..=b { lines.push(n); } }
            else { lines.push(r.parse().unwrap()); }
        }
        out.push((hash, lines));
    }
    out
}
fn session_of_line(entries: &[(String, Vec<u32>)], line: u32) -> Option<String> {
    entries.iter().find(|(_, ls)| ls.contains(&line)).map(|(h, _)| h.clone())
}

/// main: l1..l8.  feature: commit 1 - a person appends a line (so the replay has to re-examine file.txt from the first rewritten
/// commit on and both agent blocks are ABSENT from the running state at that point); commit 2 - AI session X inserts
/// `fn a() {` / `one` / <brace_a> after l1; commit 3 - a second AI session Y (`y_is_ai`) or a person inserts `fn b() {` / `two` / <brace_b>
/// between l7 and l8.  main then changes l5 (the notes cannot simply be copied) and feature is rebased onto it: commits 2' and 3'
/// re-apply the blocks, their text is new relative to the running state, gets the placeholder author and is re-credited by line text.
/// Returns (session X, session Y if AI - both read from the notes BEFORE the rebase, entries of the note of the rebased head, blame).
fn scenario(brace_a: &str, brace_b: &str, y_is_ai: bool) -> (String, Option<String>, Vec<(String, Vec<u32>)>, Vec<(String, String)>) {
    let repo = TestRepo::new();
    let mut file = repo.filename("file.txt");
    file.set_contents(lines!["l1", "l2", "l3", "l4", "l5", "l6", "l7", "l8"]);
    repo.stage_all_and_commit("base").unwrap();
    let main_branch = repo.current_branch();

    repo.git(&["checkout", "-b", "feature"]).unwrap();
    file.insert_at(8, lines!["tail typed by a person".human()]);
    repo.stage_all_and_commit("1: a person appends a line").unwrap();
    file.insert_at(1, lines!["fn a() {".ai(), "one".ai(), brace_a.ai()]);
    repo.stage_all_and_commit("2: session X writes fn a").unwrap();
    let x = session_of_line(&note_entries(&repo, "HEAD", "file.txt"), 4).expect("X credited with its closing brace before the rebase");
    if y_is_ai { file.insert_at(10, lines!["fn b() {".ai(), "two".ai(), brace_b.ai()]); }
    else { file.insert_at(10, lines!["fn b() {".human(), "two".human(), brace_b.human()]); }
    repo.stage_all_and_commit("3: fn b").unwrap();
    let y = session_of_line(&note_entries(&repo, "HEAD", "file.txt"), 13);
    assert_eq!(repo.read_file("file.txt").unwrap().lines().collect::<Vec<_>>(),
        vec!["l1", "fn a() {", "one", brace_a, "l2", "l3", "l4", "l5", "l6", "l7", "fn b() {", "two", brace_b, "l8", "tail typed by a person"]);

    repo.git(&["checkout", &main_branch]).unwrap();
    let mut f2 = repo.filename("file.txt");
    f2.set_contents(lines!["l1", "l2", "l3", "l4", "l5 changed on main", "l6", "l7", "l8"]);
    repo.stage_all_and_commit("main changes l5").unwrap();
    repo.git(&["checkout", "feature"]).unwrap();
    repo.git(&["rebase", &main_branch]).unwrap();

    let entries = note_entries(&repo, "HEAD", "file.txt");
    let out = repo.git_ai(&["blame", "file.txt"]).unwrap();
    let blame = out.lines().filter(|l| !l.trim().is_empty()).map(|l| file.parse_blame_line(l)).collect();
    (x, y, entries, blame)
}

#[test]
fn control_two_sessions_with_different_closing_lines_keep_their_sessions() {
    let (x, y, entries, _) = scenario("} // end of a", "} // end of b", true);
    let y = y.expect("Y credited before the rebase");
    assert_ne!(x, y, "two checkpoints are two sessions");
    eprintln!("X={} Y={} note={:?}", x, y, entries);
    for l in 2..=4 { assert_eq!(session_of_line(&entries, l), Some(x.clone()), "line {} (block of X)", l); }
    for l in 11..=13 { assert_eq!(session_of_line(&entries, l), Some(y.clone()), "line {} (block of Y)", l); }
}

/// the map `line text -> author` of the original head holds ONE author for `}` (whichever of X / Y the randomly ordered blame map
/// yields last): whoever it is, the closing brace of the OTHER session's block is credited to the wrong session
#[test]
fn equal_closing_braces_of_two_sessions_keep_their_own_session_after_rebase() {
    let (x, y, entries, _) = scenario("}", "}", true);
    let y = y.expect("Y credited before the rebase");
    assert_ne!(x, y, "two checkpoints are two sessions");
    eprintln!("X={} Y={} note={:?}", x, y, entries);
    assert_eq!(session_of_line(&entries, 2), Some(x.clone()), "fn a() {{");
    assert_eq!(session_of_line(&entries, 11), Some(y.clone()), "fn b() {{");
    assert_eq!((session_of_line(&entries, 4), session_of_line(&entries, 13)), (Some(x), Some(y)), "closing braces of fn a (line 4, session X) and fn b (line 13, session Y)");
}

/// a closing brace a PERSON typed equals a line session X wrote in the same file: it is credited to X
#[test]
fn closing_brace_typed_by_a_person_is_not_credited_to_the_ai_session_after_rebase() {
    let (x, _y, entries, blame) = scenario("}", "}", false);
    eprintln!("X={} note={:?} blame={:?}", x, entries, blame);
    assert_eq!(session_of_line(&entries, 13), None, "a person typed the closing brace of fn b (X = {})", x);
    assert_eq!(blame[12].1, "}"); assert!(!blame[12].0.contains("mock_ai"), "blame of line 13: {:?}", blame[12]);
}
