// Unit tracker_geom — property C16: index/line geometry underneath the attribution tracker.
use vstd::prelude::*;
use vstd::std_specs::iter::IteratorSpec;
use vstd::std_specs::cmp::OrdSpec;
use core::cmp::Ordering;
verus! {

// not needed by the current text; present so that the free-function spelling std::cmp::max / min of the
// `.max()` / `.min()` calls in these functions stays inside the Verus subset
//#include ../_shared/cmp_shims.inc.rs

//#include ../_shared/attr_specs.inc.rs
//#include ../_shared/attribution.inc.rs

//#include ../_shared/hunk_geom.inc.rs
//#include ../_shared/cursor_fns.inc.rs

// ---------------------------------------------------------------- vocabulary for merge_ranges' loop (region mr_merge_loop)
/// what `ranges.sort_by_key(|r| (r.0, r.1))` leaves behind, as far as the loop needs it: starts are non-decreasing
pub open spec fn starts_sorted(rs: Seq<(usize, usize)>) -> bool { forall|i: int, j: int| 0 <= i < j < rs.len() ==> (#[trigger] rs[i]).0 <= (#[trigger] rs[j]).0 }
/// position x lies in one of the first n ranges
pub open spec fn pts_have(rs: Seq<(usize, usize)>, n: int, x: int) -> bool { exists|i: int| 0 <= i < n && (#[trigger] rs[i]).0 <= x < rs[i].1 }
proof fn lemma_pts_step(rs: Seq<(usize, usize)>, k: int, x: int)
    requires 0 <= k < rs.len()
    ensures pts_have(rs, k + 1, x) <==> (pts_have(rs, k, x) || rs[k].0 <= x < rs[k].1)
{
    if pts_have(rs, k + 1, x) { let i = choose|i: int| 0 <= i < k + 1 && (#[trigger] rs[i]).0 <= x < rs[i].1; if i < k { assert(0 <= i < k && rs[i].0 <= x < rs[i].1); } }
    if pts_have(rs, k, x) { let i = choose|i: int| 0 <= i < k && (#[trigger] rs[i]).0 <= x < rs[i].1; assert(0 <= i < k + 1 && rs[i].0 <= x < rs[i].1); }
    if rs[k].0 <= x < rs[k].1 { assert(0 <= k < k + 1 && rs[k].0 <= x < rs[k].1); }
}
proof fn lemma_pts_push(v: Seq<(usize, usize)>, r: (usize, usize), x: int)
    ensures pts_have(v.push(r), v.len() as int + 1, x) <==> (pts_have(v, v.len() as int, x) || r.0 <= x < r.1)
{
    let w = v.push(r);
    if pts_have(w, w.len() as int, x) { let i = choose|i: int| 0 <= i < w.len() && (#[trigger] w[i]).0 <= x < w[i].1; if i < v.len() { assert(w[i] == v[i]); assert(0 <= i < v.len() && v[i].0 <= x < v[i].1); } else { assert(w[i] == r); } }
    if pts_have(v, v.len() as int, x) { let i = choose|i: int| 0 <= i < v.len() && (#[trigger] v[i]).0 <= x < v[i].1; assert(w[i] == v[i]); assert(0 <= i < w.len() && w[i].0 <= x < w[i].1); }
    if r.0 <= x < r.1 { let i = v.len() as int; assert(w[i] == r); assert(0 <= i < w.len() && w[i].0 <= x < w[i].1); }
}
/// only the end of the last range grew: the covered positions grow by [old end, new end)
proof fn lemma_pts_grow_last(v: Seq<(usize, usize)>, w: Seq<(usize, usize)>, x: int)
    requires v.len() > 0, w.len() == v.len(), forall|i: int| 0 <= i < v.len() - 1 ==> w[i] == v[i], w.last().0 == v.last().0, w.last().1 >= v.last().1, v.last().0 < v.last().1,
    ensures pts_have(w, w.len() as int, x) <==> (pts_have(v, v.len() as int, x) || v.last().1 <= x < w.last().1)
{
    let n = v.len() as int;
    if pts_have(w, n, x) { let i = choose|i: int| 0 <= i < n && (#[trigger] w[i]).0 <= x < w[i].1; if i < n - 1 { assert(w[i] == v[i]); assert(0 <= i < n && v[i].0 <= x < v[i].1); } else { if x < v.last().1 { assert(0 <= n - 1 < n && v[n - 1].0 <= x < v[n - 1].1); } } }
    if pts_have(v, n, x) { let i = choose|i: int| 0 <= i < n && (#[trigger] v[i]).0 <= x < v[i].1; if i < n - 1 { assert(w[i] == v[i]); assert(0 <= i < n && w[i].0 <= x < w[i].1); } else { assert(0 <= n - 1 < n && w[n - 1].0 <= x < w[n - 1].1); } }
    if v.last().1 <= x < w.last().1 { assert(0 <= n - 1 < n && w[n - 1].0 <= x < w[n - 1].1); }
}
//#item file=src/authorship/attribution_tracker.rs kind=region name=mr_merge_loop in=merge_ranges from="let mut merged: Vec<(usize, usize)> = Vec::new();" to="=merged" from_nth=0 to_nth=0 to_exclusive=yes
//@ fn region_mr_merge_loop(ranges: Vec<(usize, usize)>) -> (r_: Vec<(usize, usize)>)
//@     requires starts_sorted(ranges@),
//@     ensures
//@         // the form ranges_intersect requires: non-empty, sorted, pairwise disjoint
//@         ranges_sorted_disjoint(r_@),
//@         // and the merged list denotes exactly the positions of the input ranges
//@         forall|x: int| pts_have(r_@, r_@.len() as int, x) <==> pts_have(ranges@, ranges@.len() as int, x),
//@ {
//@     let ghost rs = ranges@;
    let mut merged: Vec<(usize, usize)> = Vec::new();

    for (start, end) in it_0: ranges
    //@     invariant
    //@         it_0.snapshot@.remaining() =~= rs, starts_sorted(rs),
    //@         ranges_sorted_disjoint(merged@),
    //@         merged@.len() > 0 ==> (forall|j: int| it_0.index@ <= j < rs.len() ==> merged@.last().0 <= (#[trigger] rs[j]).0),
    //@         forall|x: int| #![trigger pts_have(merged@, merged@.len() as int, x)] #![trigger pts_have(rs, it_0.index@, x)] pts_have(merged@, merged@.len() as int, x) <==> pts_have(rs, it_0.index@, x),
    {
        //@ let ghost k = it_0.index@;
        //@ let ghost before = merged@;
        //@ proof { assert((start, end) == rs[k]); }
        if !(start >= end) {

        if let Some(last) = merged.last_mut() {
            if start <= last.1 {
                last.1 = last.1.max(end);
            } else {
                merged.push((start, end));
            }
        } else {
            merged.push((start, end));
        }
    }
        //@ proof {
        //@     assert forall|x: int| #![trigger pts_have(merged@, merged@.len() as int, x)] #![trigger pts_have(rs, k + 1, x)] pts_have(merged@, merged@.len() as int, x) <==> pts_have(rs, k + 1, x) by {
        //@         lemma_pts_step(rs, k, x);
        //@         assert(pts_have(before, before.len() as int, x) <==> pts_have(rs, k, x));
        //@         if start < end {
        //@             if merged@.len() > before.len() { lemma_pts_push(before, merged@[before.len() as int], x); assert(merged@ =~= before.push(merged@[before.len() as int])); }
        //@             else { lemma_pts_grow_last(before, merged@, x); }
        //@         } else { assert(merged@ == before); }
        //@     }
        //@ }
    }
//@     merged
//@ }
//#end

} // verus!
fn main() {}
