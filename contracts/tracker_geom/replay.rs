// Replay driver for unit tracker_geom (plain Rust, compiled by the repository's rustc).
// @ITEMS@ is replaced by the path of a file holding the ORIGINAL text of the items from /repo.
#![allow(dead_code, unused)]
include!("@ITEMS@");

use std::panic::{catch_unwind, AssertUnwindSafe};

struct Ctx { evaluated: u64, failed: std::collections::HashSet<String> }
impl Ctx {
    fn fail(&mut self, f: &str, clause: &str, input: String, observed: String, expected: String) {
        if self.failed.insert(f.to_string()) {
            println!("FAIL fn=[[{}]] clause=[[{}]] input=[[{}]] observed=[[{}]] expected=[[{}]]", f, clause, input, observed, expected);
        }
    }
}
fn guarded<T>(f: impl FnOnce() -> T) -> Result<T, String> {
    catch_unwind(AssertUnwindSafe(f)).map_err(|e| {
        let m = e.downcast_ref::<String>().cloned().or_else(|| e.downcast_ref::<&str>().map(|s| s.to_string())).unwrap_or_default();
        format!("panic: {}", m)
    })
}
struct Rng(u64);
impl Rng {
    fn next(&mut self) -> u64 { self.0 ^= self.0 << 13; self.0 ^= self.0 >> 7; self.0 ^= self.0 << 17; self.0 }
    fn below(&mut self, n: u64) -> u64 { self.next() % n }
}
fn nums(s: &str) -> Vec<u128> { if s.is_empty() { vec![] } else { s.split(',').map(|x| x.parse().unwrap()).collect() } }
fn join<T: ToString>(v: &[T]) -> String { v.iter().map(|x| x.to_string()).collect::<Vec<_>>().join(",") }

// ------------------------------------------------------------------ Attribution::overlaps / intersection
fn attr(s: usize, e: usize, ts: u128) -> Attribution { Attribution::new(s, e, "a".to_string(), ts) }
fn chk_overlaps(c: &mut Ctx, a: (usize, usize), b: (usize, usize)) {
    c.evaluated += 1;
    let input = format!("{},{},{},{}", a.0, a.1, b.0, b.1);
    let at = attr(a.0, a.1, 0);
    let want = a.0 < b.1 && a.1 > b.0;
    match guarded(|| at.overlaps(b.0, b.1)) {
        Ok(g) => if g != want { c.fail("Attribution::overlaps", "ensures#0", input, g.to_string(), want.to_string()) },
        Err(p) => c.fail("Attribution::overlaps", "safety", input, p, "no panic".into()),
    }
}
fn chk_intersection(c: &mut Ctx, a: (usize, usize), b: (usize, usize)) {
    c.evaluated += 1;
    let input = format!("{},{},{},{}", a.0, a.1, b.0, b.1);
    let at = attr(a.0, a.1, 0);
    let lo = a.0.max(b.0); let hi = a.1.min(b.1);
    let want = if lo < hi { Some((lo, hi)) } else { None };
    match guarded(|| at.intersection(b.0, b.1)) {
        Ok(g) => if g != want { c.fail("Attribution::intersection", "ensures#0", input, format!("{:?}", g), format!("{:?}", want)) },
        Err(p) => c.fail("Attribution::intersection", "safety", input, p, "no panic".into()),
    }
}

// ------------------------------------------------------------------ DiffOp helpers
fn mk_op(kind: u8, a: usize, b: usize, c: usize, d: usize) -> DiffOp {
    match kind {
        0 => DiffOp::Equal { old_index: a, new_index: b, len: c },
        1 => DiffOp::Delete { old_index: a, old_len: b, new_index: c },
        2 => DiffOp::Insert { old_index: a, new_index: b, new_len: c },
        _ => DiffOp::Replace { old_index: a, old_len: b, new_index: c, new_len: d },
    }
}
fn span(op: &DiffOp, for_old: bool) -> (u128, u128) {
    let w = |x: &usize| *x as u128;
    match op {
        DiffOp::Equal { old_index, new_index, len } => if for_old { (w(old_index), w(old_index) + w(len)) } else { (w(new_index), w(new_index) + w(len)) },
        DiffOp::Delete { old_index, old_len, new_index } => if for_old { (w(old_index), w(old_index) + w(old_len)) } else { (w(new_index), w(new_index)) },
        DiffOp::Insert { old_index, new_index, new_len } => if for_old { (w(old_index), w(old_index)) } else { (w(new_index), w(new_index) + w(new_len)) },
        DiffOp::Replace { old_index, old_len, new_index, new_len } => if for_old { (w(old_index), w(old_index) + w(old_len)) } else { (w(new_index), w(new_index) + w(new_len)) },
    }
}
fn enc_op(kind: u8, a: usize, b: usize, cc: usize, d: usize) -> String { format!("{}:{}:{}:{}:{}", kind, a, b, cc, d) }
fn dec_op(s: &str) -> DiffOp { let p: Vec<usize> = s.split(':').map(|x| x.parse().unwrap()).collect(); mk_op(p[0] as u8, p[1], p[2], p[3], p[4]) }
fn chk_span(c: &mut Ctx, enc: &str, for_old: bool) {
    let op = dec_op(enc);
    let want = span(&op, for_old);
    if want.1 > usize::MAX as u128 { return; }
    c.evaluated += 1;
    let input = format!("{};{}", enc, for_old);
    match guarded(|| line_span_for_op(&op, for_old)) {
        Ok(g) => if (g.0 as u128, g.1 as u128) != want { c.fail("line_span_for_op", "ensures#0", input, format!("{:?}", g), format!("{:?}", want)) },
        Err(p) => c.fail("line_span_for_op", "safety", input, p, "no panic".into()),
    }
}
fn chk_bounds(c: &mut Ctx, encs: &[String], for_old: bool) {
    let ops: Vec<DiffOp> = encs.iter().map(|e| dec_op(e)).collect();
    if ops.iter().any(|o| span(o, for_old).1 > usize::MAX as u128) { return; }
    c.evaluated += 1;
    let input = format!("{};{}", encs.join(" "), for_old);
    let mn = ops.iter().map(|o| span(o, for_old).0).min();
    let mx = ops.iter().map(|o| span(o, for_old).1).max();
    let want = match (mn, mx) { (Some(a), Some(b)) if a != usize::MAX as u128 => (a, b), _ => (0, 0) };
    match guarded(|| hunk_line_bounds(&ops, for_old)) {
        Ok(g) => if (g.0 as u128, g.1 as u128) != want { c.fail("hunk_line_bounds", "ensures", input, format!("{:?}", g), format!("{:?} (min start, max end over all ops)", want)) },
        Err(p) => c.fail("hunk_line_bounds", "safety", input, p, "no panic".into()),
    }
}

// ------------------------------------------------------------------ line_range_to_byte_range
fn chk_lrbr(c: &mut Ctx, bounds: &[(usize, usize)], s: usize, e: usize, len: usize) {
    // well-formed table
    if !bounds.iter().all(|b| b.0 <= b.1 && b.1 <= len) || !bounds.windows(2).all(|w| w[0].1 <= w[1].0) { return; }
    c.evaluated += 1;
    let lines: Vec<LineMetadata> = bounds.iter().enumerate().map(|(i, b)| LineMetadata { number: i + 1, start: b.0, end: b.1, text: String::new() }).collect();
    let input = format!("{};{};{};{}", bounds.iter().map(|b| format!("{}-{}", b.0, b.1)).collect::<Vec<_>>().join(" "), s, e, len);
    let n = lines.len();
    let st = if s < n { bounds[s].0 } else { len };
    let want = if s >= e { (st, st) } else { (st, if e - 1 < n { bounds[e - 1].1 } else { len }) };
    match guarded(|| line_range_to_byte_range(&lines, s, e, len)) {
        Ok(g) => {
            if g != want { c.fail("line_range_to_byte_range", "ensures", input, format!("{:?}", g), format!("{:?}", want)); }
            else if !(g.0 <= g.1 && g.1 <= len) { c.fail("line_range_to_byte_range", "ensures#0", input, format!("{:?}", g), "start <= end <= content_len".into()); }
        }
        Err(p) => c.fail("line_range_to_byte_range", "safety", input, p, "no panic".into()),
    }
}

// ------------------------------------------------------------------ ranges_intersect
fn chk_ri(c: &mut Ctx, ranges: &[(usize, usize)], t: (usize, usize)) {
    if !ranges.iter().all(|r| r.0 < r.1) || !ranges.windows(2).all(|w| w[0].1 <= w[1].0) { return; }
    c.evaluated += 1;
    let input = format!("{};{}-{}", ranges.iter().map(|b| format!("{}-{}", b.0, b.1)).collect::<Vec<_>>().join(" "), t.0, t.1);
    let want = ranges.iter().any(|r| r.0.max(t.0) < r.1.min(t.1));
    match guarded(|| ranges_intersect(ranges, t)) {
        Ok(g) => if g != want { c.fail("ranges_intersect", "ensures#0", input, g.to_string(), want.to_string()) },
        Err(p) => c.fail("ranges_intersect", "safety", input, p, "no panic".into()),
    }
}

// ------------------------------------------------------------------ find_attribution_for_insertion
fn chk_fafi(c: &mut Ctx, spec: &[(usize, usize, u128)], pos: usize, cur0: usize) {
    if !spec.iter().all(|a| a.0 <= a.1) || !spec.windows(2).all(|w| w[0].0 <= w[1].0) || cur0 > spec.len() { return; }
    c.evaluated += 1;
    let attrs: Vec<Attribution> = spec.iter().enumerate().map(|(i, a)| Attribution::new(a.0, a.1, format!("a{}", i), a.2)).collect();
    let input = format!("{};{};{}", spec.iter().map(|a| format!("{}-{}-{}", a.0, a.1, a.2)).collect::<Vec<_>>().join(" "), pos, cur0);
    let mut cur = cur0;
    let res = guarded(|| find_attribution_for_insertion(&attrs, pos, &mut cur).map(|a| (a.start, a.end, a.ts)));
    match res {
        Ok(g) => {
            if !(cur0 <= cur && cur <= attrs.len()) { c.fail("find_attribution_for_insertion", "ensures#0", input, format!("cursor {}", cur), "old <= cursor <= len".into()); return; }
            if attrs.is_empty() && g.is_some() { c.fail("find_attribution_for_insertion", "ensures#1", input, format!("{:?}", g), "None for an empty list".into()); return; }
            if !(cur0..cur).all(|i| attrs[i].end <= pos) { c.fail("find_attribution_for_insertion", "ensures#2", input, format!("cursor {}", cur), "only entries ending at or before position are skipped".into()); return; }
            if cur < attrs.len() && !(attrs[cur].end > pos) { c.fail("find_attribution_for_insertion", "ensures#3", input, format!("cursor {}", cur), "cursor stops at the first entry ending after position".into()); return; }
            let covering: Vec<&Attribution> = attrs[cur..].iter().filter(|a| a.start <= pos && pos < a.end).collect();
            if !covering.is_empty() {
                let max_ts = covering.iter().map(|a| a.ts).max().unwrap();
                match g {
                    Some((s, e, ts)) if s <= pos && pos < e && ts >= max_ts => {}
                    _ => c.fail("find_attribution_for_insertion", "ensures#4", input, format!("{:?}", g), format!("an entry covering {} with ts >= {}", pos, max_ts)),
                }
            }
        }
        Err(p) => c.fail("find_attribution_for_insertion", "safety", input, p, "no panic".into()),
    }
}

// ------------------------------------------------------------------ merge_ranges (whole original function; region mr_merge_loop is its loop)
fn chk_merge(c: &mut Ctx, ranges: &[(usize, usize)]) {
    c.evaluated += 1;
    let input = ranges.iter().map(|b| format!("{}-{}", b.0, b.1)).collect::<Vec<_>>().join(" ");
    match guarded(|| merge_ranges(ranges.to_vec())) {
        Ok(out) => {
            let show = out.iter().map(|b| format!("{}-{}", b.0, b.1)).collect::<Vec<_>>().join(" ");
            if !(out.iter().all(|r| r.0 < r.1) && out.windows(2).all(|w| w[0].1 <= w[1].0)) { c.fail("region_mr_merge_loop", "ensures#0", input, show, "non-empty, sorted, pairwise disjoint".into()); return; }
            let mut pts: Vec<usize> = vec![]; for r in ranges.iter().chain(out.iter()) { for p in [r.0.saturating_sub(1), r.0, r.0.saturating_add(1), r.1.saturating_sub(1), r.1, r.1.saturating_add(1)] { pts.push(p); } }
            for &x in &pts {
                let a = ranges.iter().any(|r| r.0 <= x && x < r.1); let b = out.iter().any(|r| r.0 <= x && x < r.1);
                if a != b { c.fail("region_mr_merge_loop", "ensures#1", input, format!("{} (position {} {})", show, x, if a { "lost" } else { "invented" }), "same positions as the input ranges".into()); return; }
            }
        }
        Err(p) => c.fail("region_mr_merge_loop", "safety", input, p, "no panic".into()),
    }
}

fn chk_sulahd(c: &mut Ctx, n_ops: usize, v: [usize; 4]) {
    c.evaluated += 1;
    let ops: Vec<DiffOp> = (0..n_ops).map(|i| mk_op(0, i, i, 1, 0)).collect();
    let input = format!("{};{:?}", n_ops, v);
    match guarded(|| should_use_line_aligned_hunk_diff(&ops, v[0], v[1], v[2], v[3])) {
        Ok(g) => if n_ops == 0 && g { c.fail("should_use_line_aligned_hunk_diff", "ensures#0", input, g.to_string(), "false for no ops".into()) },
        Err(p) => c.fail("should_use_line_aligned_hunk_diff", "safety", input, p, "no panic".into()),
    }
}

const SM: [usize; 8] = [0, 1, 2, 3, 5, usize::MAX - 2, usize::MAX - 1, usize::MAX];

fn search(c: &mut Ctx, which: &str, seed: u64) {
    let want = |n: &str| which == "*" || which == n || n.ends_with(which);
    if want("Attribution::overlaps") || want("Attribution::intersection") {
        for &a0 in &SM { for &a1 in &SM { for &b0 in &SM { for &b1 in &SM {
            if want("Attribution::overlaps") { chk_overlaps(c, (a0, a1), (b0, b1)); }
            if want("Attribution::intersection") { chk_intersection(c, (a0, a1), (b0, b1)); }
        } } } }
    }
    let small: [usize; 5] = [0, 1, 2, 4, usize::MAX];
    let mut op_encs: Vec<String> = vec![];
    for k in 0..4u8 { for &a in &small { for &b in &small { for &cc in &small { let d = if k == 3 { 3 } else { 0 }; op_encs.push(enc_op(k, a, b, cc, d)); } } } }
    if want("line_span_for_op") { for e in &op_encs { chk_span(c, e, true); chk_span(c, e, false); } }
    if want("hunk_line_bounds") {
        let few: Vec<String> = op_encs.iter().step_by(7).cloned().collect();
        for fo in [true, false] {
            chk_bounds(c, &[], fo);
            for a in &few { chk_bounds(c, &[a.clone()], fo); for b in &few { chk_bounds(c, &[a.clone(), b.clone()], fo); } }
        }
    }
    if want("should_use_line_aligned_hunk_diff") { for n in [0usize, 1, 8, 9] { for &x in &[0usize, 255, 256, 32767, 32768, 262143, 262144, usize::MAX] { chk_sulahd(c, n, [x, 0, x, 0]); chk_sulahd(c, n, [0, x, 0, x]); chk_sulahd(c, n, [300, 300, x, x]); } } }
    // tables / range lists from cut points
    let cuts: Vec<Vec<(usize, usize)>> = {
        let pts = [0usize, 2, 3, 5, 6, 9];
        let mut out = vec![vec![]];
        for mask in 1u32..(1 << 6) {
            let sel: Vec<usize> = (0..6).filter(|i| mask >> i & 1 == 1).map(|i| pts[i]).collect();
            if sel.len() >= 2 { out.push(sel.windows(2).map(|w| (w[0], w[1])).collect()); }
            if sel.len() >= 2 && sel.len() % 2 == 0 { out.push(sel.chunks(2).map(|w| (w[0], w[1])).collect()); }
        }
        out
    };
    if want("line_range_to_byte_range") { for t in &cuts { let len = t.last().map(|x| x.1).unwrap_or(0) + 1; for s in 0..t.len() + 3 { for e in 0..t.len() + 3 { chk_lrbr(c, t, s, e, len); chk_lrbr(c, t, s, e, len - 1); } } } }
    if want("ranges_intersect") { for t in &cuts { for a in 0..11usize { for b in 0..11usize { chk_ri(c, t, (a, b)); } } } }
    if want("find_attribution_for_insertion") {
        let mut g = Rng(0x1234_5678_9abc_def1);
        // exhaustive-ish small: up to 3 attributions over positions 0..5, ts in {0,1}
        let iv: Vec<(usize, usize)> = (0..5usize).flat_map(|s| (s..6usize).map(move |e| (s, e))).collect();
        for a in &iv { for ta in 0..2u128 { for pos in 0..7usize { for cur in 0..2usize {
            chk_fafi(c, &[(a.0, a.1, ta)], pos, cur);
            for b in &iv { if b.0 < a.0 { continue; } for tb in 0..2u128 { chk_fafi(c, &[(a.0, a.1, ta), (b.0, b.1, tb)], pos, cur); } }
        } } } }
        chk_fafi(c, &[], 3, 0);
        for _ in 0..60000 {
            let n = g.below(5) as usize; let mut v: Vec<(usize, usize, u128)> = vec![]; let mut s = 0usize;
            for _ in 0..n { s += g.below(3) as usize; let e = s + g.below(4) as usize; v.push((s, e, g.below(3) as u128)); }
            chk_fafi(c, &v, g.below(10) as usize, g.below(n as u64 + 1) as usize);
        }
    }
    if want("region_mr_merge_loop") || want("merge_ranges") {
        let pts = [0usize, 1, 2, 3, 5, 6];
        let iv: Vec<(usize, usize)> = pts.iter().flat_map(|&a| pts.iter().map(move |&b| (a, b))).collect();
        chk_merge(c, &[]);
        for a in &iv { chk_merge(c, &[*a]); for b in &iv { chk_merge(c, &[*a, *b]); } }
        let mut g = Rng(0x0123_4567_89ab_cdef);
        for _ in 0..40000 { let n = g.below(6) as usize; let v: Vec<(usize, usize)> = (0..n).map(|_| { let s = g.below(12) as usize; (s, s + g.below(5) as usize) }).collect(); chk_merge(c, &v); }
    }
    // random phase for the scalar ones
    let mut g = Rng(seed.wrapping_mul(0x9E3779B97F4A7C15) ^ 0xA24BAED4963EE407);
    for _ in 0..20000 {
        let r = |g: &mut Rng| if g.below(5) == 0 { usize::MAX - g.below(6) as usize } else { g.below(12) as usize };
        let (a0, a1, b0, b1) = (r(&mut g), r(&mut g), r(&mut g), r(&mut g));
        if want("Attribution::overlaps") { chk_overlaps(c, (a0, a1), (b0, b1)); }
        if want("Attribution::intersection") { chk_intersection(c, (a0, a1), (b0, b1)); }
        if want("line_span_for_op") { let e = enc_op(g.below(4) as u8, a0, a1, b0, b1); chk_span(c, &e, g.below(2) == 0); }
        if want("hunk_line_bounds") {
            let n = g.below(4) as usize; let v: Vec<String> = (0..n).map(|_| enc_op(g.below(4) as u8, g.below(9) as usize, g.below(9) as usize, g.below(9) as usize, g.below(9) as usize)).collect();
            chk_bounds(c, &v, g.below(2) == 0);
        }
    }
}

fn replay(c: &mut Ctx, f: &str, input: &str) {
    let p: Vec<&str> = input.split(';').collect();
    let pairs = |s: &str| -> Vec<(usize, usize)> { s.split_whitespace().map(|x| { let q: Vec<usize> = x.split('-').map(|y| y.parse().unwrap()).collect(); (q[0], q[1]) }).collect() };
    match f {
        "Attribution::overlaps" => { let n = nums(p[0]); chk_overlaps(c, (n[0] as usize, n[1] as usize), (n[2] as usize, n[3] as usize)) }
        "Attribution::intersection" => { let n = nums(p[0]); chk_intersection(c, (n[0] as usize, n[1] as usize), (n[2] as usize, n[3] as usize)) }
        "line_span_for_op" => chk_span(c, p[0], p[1] == "true"),
        "hunk_line_bounds" => { let v: Vec<String> = p[0].split_whitespace().map(|s| s.to_string()).collect(); chk_bounds(c, &v, p[1] == "true") }
        "line_range_to_byte_range" => chk_lrbr(c, &pairs(p[0]), p[1].parse().unwrap(), p[2].parse().unwrap(), p[3].parse().unwrap()),
        "ranges_intersect" => { let t = pairs(p[1]); chk_ri(c, &pairs(p[0]), t[0]) }
        "region_mr_merge_loop" | "merge_ranges" => chk_merge(c, &pairs(p[0])),
        "find_attribution_for_insertion" => {
            let v: Vec<(usize, usize, u128)> = p[0].split_whitespace().map(|x| { let q: Vec<u128> = x.split('-').map(|y| y.parse().unwrap()).collect(); (q[0] as usize, q[1] as usize, q[2]) }).collect();
            chk_fafi(c, &v, p[1].parse().unwrap(), p[2].parse().unwrap())
        }
        _ => println!("unknown function {}", f),
    }
}

fn main() {
    std::panic::set_hook(Box::new(|_| {}));
    let a: Vec<String> = std::env::args().collect();
    let mut c = Ctx { evaluated: 0, failed: Default::default() };
    if a[1] == "search" { search(&mut c, &a[2], a[3].parse().unwrap_or(0)); } else { replay(&mut c, &a[2], &a[3]); }
    println!("DONE evaluated={}", c.evaluated);
}
