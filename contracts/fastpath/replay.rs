// Replay driver for unit fastpath: the ORIGINAL try_fast_path_rebase_note_remap with stand-ins for git (the comparator, the
// note store, blob contents) that answer from tables and record what is written.  Oracle: the shortcut fires only for
// positionally corresponding commit lists, and then writes, for every selected pair, the note of THAT pair's original
// re-targeted at THAT pair's new commit - nothing else.
#![allow(dead_code, unused)]
use std::collections::{HashMap, HashSet};
use std::cell::RefCell;
#[derive(Debug)]
pub enum GitAiError { Generic(String) }
pub struct Repository { pub notes: HashMap<String, String>, pub tracked_equal: bool }
thread_local! { static WRITTEN: RefCell<Vec<Vec<(String, String)>>> = Default::default(); }
fn debug_performance_log(_m: &str) {}
fn debug_log(_m: &str) {}
fn tracked_paths_match_for_commit_pairs(repo: &Repository, _pairs: &[(String, String)], _paths: &[String]) -> Result<bool, GitAiError> { Ok(repo.tracked_equal) }
/// the note blob of a commit is "blob-of-<commit>" when the commit has a note
fn note_blob_oids_for_commits(repo: &Repository, commits: &[String]) -> Result<HashMap<String, String>, GitAiError> {
    Ok(commits.iter().filter(|c| repo.notes.contains_key(*c)).map(|c| (c.clone(), format!("blob-of-{}", c))).collect())
}
fn batch_read_blob_contents(repo: &Repository, oids: &[String]) -> Result<HashMap<String, String>, GitAiError> {
    Ok(oids.iter().filter_map(|o| o.strip_prefix("blob-of-").and_then(|c| repo.notes.get(c)).map(|n| (o.clone(), n.clone()))).collect())
}
fn remap_note_content_for_target_commit(note: &str, target: &str) -> String { format!("{}=>{}", note, target) }
mod git { pub mod refs { pub fn notes_add_batch(_repo: &crate::Repository, entries: &[(String, String)]) -> Result<(), crate::GitAiError> { crate::WRITTEN.with(|w| w.borrow_mut().push(entries.to_vec())); Ok(()) } } }
include!("@ITEMS@");
use std::panic::{catch_unwind, AssertUnwindSafe};
struct Ctx { evaluated: u64, failed: std::collections::HashSet<String> }
impl Ctx {
    fn fail(&mut self, f: &str, clause: &str, input: String, observed: String, expected: String) {
        if self.failed.insert(format!("{}::{}", f, clause)) { println!("FAIL fn=[[{}]] clause=[[{}]] input=[[{}]] observed=[[{}]] expected=[[{}]]", f, clause, input, observed, expected); }
    }
}
fn guarded<T>(f: impl FnOnce() -> T) -> Result<T, String> {
    catch_unwind(AssertUnwindSafe(f)).map_err(|e| { let m = e.downcast_ref::<String>().cloned().or_else(|| e.downcast_ref::<&str>().map(|s| s.to_string())).unwrap_or_default(); format!("panic: {}", m) })
}
struct Rng(u64);
impl Rng { fn next(&mut self) -> u64 { self.0 ^= self.0 << 13; self.0 ^= self.0 >> 7; self.0 ^= self.0 << 17; self.0 } fn below(&mut self, n: u64) -> u64 { self.next() % n } }
/// input: originals | news | lookup | commits that have a note | tracked equal 0/1 | tracked paths 0/1   (lists comma separated)
fn chk(c: &mut Ctx, orig: &[String], new: &[String], lookup: &[String], noted: &[String], equal: bool, paths: bool) {
    c.evaluated += 1;
    let j = |v: &[String]| v.join(",");
    let input = format!("{}|{}|{}|{}|{}|{}", j(orig), j(new), j(lookup), j(noted), equal as u8, paths as u8);
    let repo = Repository { notes: noted.iter().map(|c| (c.clone(), format!("note({})", c))).collect(), tracked_equal: equal };
    WRITTEN.with(|w| w.borrow_mut().clear());
    let tracked: Vec<String> = if paths { vec!["src/a.rs".to_string()] } else { vec![] };
    let (o2, n2, l2) = (orig.to_vec(), new.to_vec(), lookup.to_vec());
    let r = guarded(move || { let set: HashSet<&str> = l2.iter().map(|s| s.as_str()).collect(); try_fast_path_rebase_note_remap(&repo, &o2, &n2, &set, &tracked) });
    let written: Vec<Vec<(String, String)>> = WRITTEN.with(|w| w.borrow().clone());
    match r {
        Err(p) => c.fail("try_fast_path_rebase_note_remap", "safety", input, p, "no panic".into()),
        Ok(Err(e)) => c.fail("try_fast_path_rebase_note_remap", "ensures#0", input, format!("Err({:?})", e), "Ok (the stand-ins never fail)".into()),
        Ok(Ok(fired)) => {
            // what the shortcut may write: positional pairs whose new commit is selected
            let want: Vec<(String, String)> = if orig.len() == new.len() { orig.iter().zip(new.iter()).filter(|(_, n)| lookup.contains(n)).map(|(o, n)| (n.clone(), format!("note({})=>{}", o, n))).collect() } else { vec![] };
            let may_fire = orig.len() == new.len() && paths && !lookup.is_empty() && !want.is_empty() && equal && orig.iter().zip(new.iter()).filter(|(_, n)| lookup.contains(n)).all(|(o, _)| noted.contains(o));
            // declining is always allowed (the caller then recomputes); FIRING is what needs its preconditions
            if fired && !may_fire { c.fail("try_fast_path_rebase_note_remap", "ensures#0", input, "Ok(true)".into(), "Ok(false): the shortcut may fire only for positionally corresponding lists whose tracked blobs agree and whose selected originals all have a note".into()); return; }
            let all: Vec<(String, String)> = written.into_iter().flatten().collect();
            let exp = if fired { want } else { vec![] };
            if all != exp { c.fail("try_fast_path_rebase_note_remap", "pre@opq_notes_add_batch#0", input, format!("{:?}", all), format!("{:?}: every selected new commit gets the note of ITS original", exp)); }
        }
    }
}
/// the cherry-pick twin: explicit (source, new) pairs
fn chk_cp(c: &mut Ctx, pairs: &[(String, String)], noted: &[String], equal: bool, paths: bool) {
    c.evaluated += 1;
    let input = format!("CP|{}|{}|{}|{}", pairs.iter().map(|(a, b)| format!("{}>{}", a, b)).collect::<Vec<_>>().join(","), noted.join(","), equal as u8, paths as u8);
    let repo = Repository { notes: noted.iter().map(|c| (c.clone(), format!("note({})", c))).collect(), tracked_equal: equal };
    WRITTEN.with(|w| w.borrow_mut().clear());
    let tracked: Vec<String> = if paths { vec!["src/a.rs".to_string()] } else { vec![] };
    let p2 = pairs.to_vec();
    let r = guarded(move || try_fast_path_cherry_pick_note_remap(&repo, &p2, &tracked));
    let written: Vec<(String, String)> = WRITTEN.with(|w| w.borrow().clone()).into_iter().flatten().collect();
    match r {
        Err(p) => c.fail("try_fast_path_cherry_pick_note_remap", "safety", input, p, "no panic".into()),
        Ok(Err(e)) => c.fail("try_fast_path_cherry_pick_note_remap", "ensures#0", input, format!("Err({:?})", e), "Ok".into()),
        Ok(Ok(fired)) => {
            let may_fire = !pairs.is_empty() && paths && equal && pairs.iter().all(|(s, _)| noted.contains(s));
            if fired && !may_fire { c.fail("try_fast_path_cherry_pick_note_remap", "ensures#0", input, "Ok(true)".into(), "Ok(false)".into()); return; }
            let exp: Vec<(String, String)> = if fired { pairs.iter().map(|(s, n)| (n.clone(), format!("note({})=>{}", s, n))).collect() } else { vec![] };
            if written != exp { c.fail("try_fast_path_cherry_pick_note_remap", "pre@opq_notes_add_batch#0", input, format!("{:?}", written), format!("{:?}: every new commit gets the note of ITS source", exp)); }
        }
    }
}
fn names(p: &str, n: usize) -> Vec<String> { (0..n).map(|i| format!("{}{}", p, i)).collect() }
fn main() {
    std::panic::set_hook(Box::new(|_| {}));
    let a: Vec<String> = std::env::args().collect();
    let mut c = Ctx { evaluated: 0, failed: Default::default() };
    if a[1] == "search" {
        for no in 0..4usize { for nn in 0..4usize { for lmask in 0u32..(1 << nn) { for nmask in 0u32..(1 << no) { for eq in [true, false] { for pa in [true, false] {
            let (o, n) = (names("o", no), names("n", nn));
            let l: Vec<String> = (0..nn).filter(|i| lmask >> i & 1 == 1).map(|i| n[i].clone()).collect();
            let nd: Vec<String> = (0..no).filter(|i| nmask >> i & 1 == 1).map(|i| o[i].clone()).collect();
            chk(&mut c, &o, &n, &l, &nd, eq, pa);
        } } } } } }
        for n in 0..4usize { for nmask in 0u32..(1 << n) { for eq in [true, false] { for pa in [true, false] {
            let pairs: Vec<(String, String)> = (0..n).map(|i| (format!("s{}", i), format!("n{}", i))).collect();
            let nd: Vec<String> = (0..n).filter(|i| nmask >> i & 1 == 1).map(|i| format!("s{}", i)).collect();
            chk_cp(&mut c, &pairs, &nd, eq, pa);
        } } } }
        // the same original twice, the same note for two commits
        chk(&mut c, &["o0".into(), "o0".into()], &["n0".into(), "n1".into()], &["n0".into(), "n1".into()], &["o0".into()], true, true);
    } else {
        if let Some(t) = a[3].strip_prefix("CP|") { let q: Vec<&str> = t.split('|').collect(); let l = |s: &str| -> Vec<String> { s.split(',').filter(|x| !x.is_empty()).map(|x| x.to_string()).collect() };
            let pairs: Vec<(String, String)> = l(q[0]).iter().map(|x| { let (a, b) = x.split_once('>').unwrap(); (a.to_string(), b.to_string()) }).collect();
            chk_cp(&mut c, &pairs, &l(q[1]), q[2] == "1", q[3] == "1"); println!("DONE evaluated={}", c.evaluated); return; }
        let q: Vec<&str> = a[3].split('|').collect();
        let l = |s: &str| -> Vec<String> { s.split(',').filter(|x| !x.is_empty()).map(|x| x.to_string()).collect() };
        chk(&mut c, &l(q[0]), &l(q[1]), &l(q[2]), &l(q[3]), q[4] == "1", q[5] == "1");
    }
    println!("DONE evaluated={}", c.evaluated);
}
