// Unit fastpath — property C15, the rebase note-copy shortcut as a whole (try_fast_path_rebase_note_remap): it fires only
// when originals and rewritten commits correspond positionally, and what it writes is, for every selected pair, the note of
// THAT pair's original commit re-targeted at THAT pair's new commit.  git, the note store and the iterator chains are rule-O1
// stubs; the note contents, blob ids and the comparator's answer are uninterpreted.
use vstd::prelude::*;
use vstd::std_specs::iter::IteratorSpec;
verus! {

/// stand-ins (never inspected by the verified text)
#[verifier::external_body] pub struct Repository { _o: () }
pub enum GitAiError { Generic(String) }
#[verifier::external_body] pub struct Instant { _o: () }
#[verifier::external_body]
pub struct Lookup { _o: () }          // HashSet<&str>: the rewritten commits to process
#[verifier::external_body]
pub struct OidMap { _o: () }          // HashMap<String, String>: original commit -> note blob id
#[verifier::external_body]
pub struct ContentMap { _o: () }      // HashMap<String, String>: blob id -> note text
pub uninterp spec fn in_lookup(l: Lookup, c: Seq<char>) -> bool;
pub uninterp spec fn lookup_empty(l: Lookup) -> bool;
pub uninterp spec fn oid_of(m: OidMap, commit: Seq<char>) -> Option<Seq<char>>;
pub uninterp spec fn oid_count(m: OidMap) -> nat;
pub uninterp spec fn content_of(m: ContentMap, oid: Seq<char>) -> Option<Seq<char>>;
pub uninterp spec fn remap_spec(note: Seq<char>, commit: Seq<char>) -> Seq<char>;     // remap_note_content_for_target_commit
pub uninterp spec fn tracked_match(pairs: Seq<(String, String)>) -> bool;            // tracked_paths_match_for_commit_pairs (see unit remap)
#[verifier::external_body]
fn opq_now() -> (r: Instant) { unimplemented!() }
#[verifier::external_body]
fn opq_log() { unimplemented!() }
#[verifier::external_body]
fn opq_lookup_is_empty(l: &Lookup) -> (r: bool)
    ensures r == lookup_empty(*l),
{ unimplemented!() }
/// `original.iter().zip(new.iter()).filter(|(_, n)| lookup.contains(n)).map(clone).collect()`: the positional pairs whose new
/// commit is to be processed, in order (documented behaviour of zip / filter / map)
pub open spec fn is_selection(orig: Seq<String>, new: Seq<String>, l: Lookup, pairs: Seq<(String, String)>, idx: Seq<int>) -> bool {
    &&& idx.len() == pairs.len()
    &&& forall|k: int| 0 <= k < idx.len() ==> 0 <= #[trigger] idx[k] < orig.len() && idx[k] < new.len() && pairs[k].0@ == orig[idx[k]]@ && pairs[k].1@ == new[idx[k]]@ && in_lookup(l, new[idx[k]]@)
    &&& forall|k: int, m: int| 0 <= k < m < idx.len() ==> idx[k] < idx[m]
}
#[verifier::external_body]
fn opq_pairs_to_remap(orig: &[String], new: &[String], l: &Lookup) -> (r: Vec<(String, String)>)
    ensures exists|idx: Seq<int>| is_selection(orig@, new@, *l, r@, idx),
{ unimplemented!() }
#[verifier::external_body]
fn opq_tracked_match(pairs: &Vec<(String, String)>) -> (r: Result<bool, GitAiError>)
    ensures r is Ok ==> r->Ok_0 == tracked_match(pairs@),
{ unimplemented!() }
#[verifier::external_body]
fn opq_originals(pairs: &Vec<(String, String)>) -> (r: Vec<String>)
    ensures r@.len() == pairs@.len(), forall|i: int| 0 <= i < r@.len() ==> (#[trigger] r@[i])@ == pairs@[i].0@,
{ unimplemented!() }
#[verifier::external_body]
fn opq_note_oids(commits: &Vec<String>) -> (r: Result<OidMap, GitAiError>)
{ unimplemented!() }
#[verifier::external_body]
fn opq_oid_len(m: &OidMap) -> (r: usize)
    ensures r == oid_count(*m),
{ unimplemented!() }
#[verifier::external_body]
fn opq_oid_get<'a>(m: &'a OidMap, commit: &String) -> (r: Option<&'a String>)
    ensures r is Some <==> oid_of(*m, commit@) is Some, r is Some ==> r->Some_0@ == oid_of(*m, commit@)->Some_0,
{ unimplemented!() }
#[verifier::external_body]
fn opq_unique_oids(entries: &Vec<(String, String)>) -> (r: Vec<String>)
{ unimplemented!() }
#[verifier::external_body]
fn opq_sort_strings(v: &mut Vec<String>)
{ unimplemented!() }
#[verifier::external_body]
fn opq_read_blobs(oids: &Vec<String>) -> (r: Result<ContentMap, GitAiError>)
{ unimplemented!() }
#[verifier::external_body]
fn opq_content_get<'a>(m: &'a ContentMap, oid: &String) -> (r: Option<&'a String>)
    ensures r is Some <==> content_of(*m, oid@) is Some, r is Some ==> r->Some_0@ == content_of(*m, oid@)->Some_0,
{ unimplemented!() }
#[verifier::external_body]
fn opq_remap_note(note: &String, commit: &String) -> (r: String)
    ensures r@ == remap_spec(note@, commit@),
{ unimplemented!() }
/// (new commit, blob id of ITS original's note)
pub open spec fn blob_entry_ok(e: (String, String), p: (String, String), om: OidMap) -> bool {
    e.0@ == p.1@ && oid_of(om, p.0@) == Some(e.1@)
}
/// (new commit, the note of ITS original, re-targeted at that new commit)
pub open spec fn note_entry_ok(e: (String, String), p: (String, String), om: OidMap, cm: ContentMap) -> bool {
    e.0@ == p.1@ && oid_of(om, p.0@) is Some && content_of(cm, oid_of(om, p.0@)->Some_0) is Some
        && e.1@ == remap_spec(content_of(cm, oid_of(om, p.0@)->Some_0)->Some_0, p.1@)
}
/// O1 stub for `crate::git::refs::notes_add_batch(repo, &entries)`: its PRECONDITION is the statement about what is written
#[verifier::external_body]
fn opq_notes_add_batch(entries: &Vec<(String, String)>, Ghost(pairs): Ghost<Seq<(String, String)>>, Ghost(om): Ghost<OidMap>, Ghost(cm): Ghost<ContentMap>) -> (r: Result<(), GitAiError>)
    requires entries@.len() == pairs.len(), forall|i: int| 0 <= i < pairs.len() ==> note_entry_ok(#[trigger] entries@[i], pairs[i], om, cm),
{ unimplemented!() }

//#item file=src/authorship/rebase_authorship.rs kind=fn name=try_fast_path_rebase_note_remap opaque='[{"expr": "&HashSet<&str>", "call": "&Lookup"}, {"expr": "std::time::Instant::now()", "call": "opq_now()"}, {"expr": "commits_to_process_lookup.is_empty()", "call": "opq_lookup_is_empty(commits_to_process_lookup)"}, {"expr": "original_commits .iter() .zip(new_commits.iter()) .filter(|(_original_commit, new_commit)| { commits_to_process_lookup.contains(new_commit.as_str()) }) .map(|(original_commit, new_commit)| (original_commit.clone(), new_commit.clone())) .collect()", "call": "opq_pairs_to_remap(original_commits, new_commits, commits_to_process_lookup)"}, {"expr": "tracked_paths_match_for_commit_pairs(repo, &commits_to_remap, tracked_paths)", "call": "opq_tracked_match(&commits_to_remap)"}, {"expr": "debug_performance_log(&format!( \"Fast-path rebase note remap: compared tracked blobs for {} commit pairs in {}ms\", commits_to_remap.len(), compare_start.elapsed().as_millis() ))", "call": "opq_log()"}, {"expr": "commits_to_remap .iter() .map(|(original_commit, _new_commit)| original_commit.clone()) .collect()", "call": "opq_originals(&commits_to_remap)"}, {"expr": "note_blob_oids_for_commits(repo, &original_commits_for_batch)", "call": "opq_note_oids(&original_commits_for_batch)"}, {"expr": "debug_performance_log(&format!( \"Fast-path rebase note remap: resolved {} note blob oids in {}ms\", original_note_blob_oids.len(), note_oid_lookup_start.elapsed().as_millis() ))", "call": "opq_log()"}, {"expr": "original_note_blob_oids.len()", "call": "opq_oid_len(&original_note_blob_oids)"}, {"expr": "original_note_blob_oids.get(&original_commit)", "call": "opq_oid_get(&original_note_blob_oids, &original_commit)"}, {"expr": "remapped_blob_entries .iter() .map(|(_new_commit, blob_oid)| blob_oid.clone()) .collect::<HashSet<_>>() .into_iter() .collect()", "call": "opq_unique_oids(&remapped_blob_entries)"}, {"expr": "blob_oids.sort()", "call": "opq_sort_strings(&mut blob_oids)"}, {"expr": "batch_read_blob_contents(repo, &blob_oids)", "call": "opq_read_blobs(&blob_oids)"}, {"expr": "blob_contents.get(&blob_oid)", "call": "opq_content_get(&blob_contents, &blob_oid)"}, {"expr": "remap_note_content_for_target_commit(raw_note, &new_commit)", "call": "opq_remap_note(raw_note, &new_commit)"}, {"expr": "crate::git::refs::notes_add_batch(repo, &remapped_note_entries)", "call": "opq_notes_add_batch(&remapped_note_entries, Ghost(pairs), Ghost(original_note_blob_oids), Ghost(blob_contents))"}, {"expr": "debug_performance_log(&format!( \"Fast-path rebase note remap: wrote {} remapped notes in {}ms\", remapped_count, write_start.elapsed().as_millis() ))", "call": "opq_log()"}, {"expr": "debug_log(&format!( \"Fast-path remapped authorship logs for {} commits (blob-equivalent tracked files)\", remapped_count ))", "call": "opq_log()"}, {"expr": "debug_performance_log(&format!( \"Fast-path rebase note remap complete in {}ms\", fast_path_start.elapsed().as_millis() ))", "call": "opq_log()"}]'
fn try_fast_path_rebase_note_remap(
    repo: &Repository,
    original_commits: &[String],
    new_commits: &[String],
    commits_to_process_lookup: &Lookup,
    tracked_paths: &[String],
) -> (r_: Result<bool, GitAiError>)
//@     ensures
//@         // the shortcut fires only when original and rewritten commits correspond POSITIONALLY (same count) - a surplus or a
//@         // missing commit makes the pairing meaningless - and there is something to compare and to copy
//@         r_ is Ok && r_->Ok_0 ==> original_commits@.len() == new_commits@.len() && tracked_paths@.len() > 0,
//@         // (what is WRITTEN is pinned by the precondition of the notes_add_batch stub: for every selected pair, in order,
//@         // the entry (new commit, remap(note of ITS OWN original, new commit)) - proved at the call site)
{
    let fast_path_start = opq_now();
    if original_commits.len() != new_commits.len()
        || tracked_paths.is_empty()
        || opq_lookup_is_empty(commits_to_process_lookup)
    {
        return Ok(false);
    }

    let commits_to_remap: Vec<(String, String)> = opq_pairs_to_remap(original_commits, new_commits, commits_to_process_lookup);
    //@ let ghost pairs = commits_to_remap@;

    if commits_to_remap.is_empty() {
        return Ok(false);
    }

    let compare_start = opq_now();
    if !opq_tracked_match(&commits_to_remap)? {
        return Ok(false);
    }
    opq_log();

    let original_commits_for_batch: Vec<String> = opq_originals(&commits_to_remap);
    let note_oid_lookup_start = opq_now();
    let original_note_blob_oids = opq_note_oids(&original_commits_for_batch)?;
    opq_log();
    if opq_oid_len(&original_note_blob_oids) != original_commits_for_batch.len() {
        return Ok(false);
    }

    let mut remapped_blob_entries: Vec<(String, String)> =
        Vec::with_capacity(commits_to_remap.len());
    for (original_commit, new_commit) in it_0: commits_to_remap
    //@     invariant
    //@         it_0.snapshot@.remaining() == pairs, remapped_blob_entries@.len() == it_0.index@,
    //@         forall|i: int| 0 <= i < it_0.index@ ==> blob_entry_ok(#[trigger] remapped_blob_entries@[i], pairs[i], original_note_blob_oids),
    {
        //@ proof { assert((original_commit, new_commit) == pairs[it_0.index@]); }
        let blob_oid = match opq_oid_get(&original_note_blob_oids, &original_commit) {
            Some(oid) => oid.clone(),
            None => return Ok(false),
        };
        remapped_blob_entries.push((new_commit, blob_oid));
    }

    if remapped_blob_entries.is_empty() {
        return Ok(false);
    }
    //@ let ghost bes = remapped_blob_entries@;
    let mut blob_oids: Vec<String> = opq_unique_oids(&remapped_blob_entries);
    opq_sort_strings(&mut blob_oids);
    let blob_contents = opq_read_blobs(&blob_oids)?;

    let mut remapped_note_entries: Vec<(String, String)> =
        Vec::with_capacity(remapped_blob_entries.len());
    for (new_commit, blob_oid) in it_1: remapped_blob_entries
    //@     invariant
    //@         it_1.snapshot@.remaining() == bes, bes.len() == pairs.len(), remapped_note_entries@.len() == it_1.index@,
    //@         forall|i: int| 0 <= i < bes.len() ==> blob_entry_ok(#[trigger] bes[i], pairs[i], original_note_blob_oids),
    //@         forall|i: int| 0 <= i < it_1.index@ ==> note_entry_ok(#[trigger] remapped_note_entries@[i], pairs[i], original_note_blob_oids, blob_contents),
    {
        //@ let ghost k = it_1.index@;
        //@ proof { assert((new_commit, blob_oid) == bes[k]); assert(blob_entry_ok(bes[k], pairs[k], original_note_blob_oids)); }
        let Some(raw_note) = opq_content_get(&blob_contents, &blob_oid) else {
            return Ok(false);
        };
        remapped_note_entries.push((
            new_commit.clone(),
            opq_remap_note(raw_note, &new_commit),
        ));
    }

    let remapped_count = remapped_note_entries.len();
    let write_start = opq_now();
    opq_notes_add_batch(&remapped_note_entries, Ghost(pairs), Ghost(original_note_blob_oids), Ghost(blob_contents))?;
    opq_log();

    opq_log();
    opq_log();
    Ok(true)
}
//#end

// the cherry-pick twin: the same shortcut over explicit (source, new) pairs
#[verifier::external_body]
fn opq_tracked_match_slice(pairs: &[(String, String)]) -> (r: Result<bool, GitAiError>)
    ensures r is Ok ==> r->Ok_0 == tracked_match(pairs@),
{ unimplemented!() }
#[verifier::external_body]
fn opq_originals_slice(pairs: &[(String, String)]) -> (r: Vec<String>)
    ensures r@.len() == pairs@.len(), forall|i: int| 0 <= i < r@.len() ==> (#[trigger] r@[i])@ == pairs@[i].0@,
{ unimplemented!() }
//#item file=src/authorship/rebase_authorship.rs kind=fn name=try_fast_path_cherry_pick_note_remap opaque='[{"expr": "std::time::Instant::now()", "call": "opq_now()"}, {"expr": "tracked_paths_match_for_commit_pairs(repo, commit_pairs, tracked_paths)", "call": "opq_tracked_match_slice(commit_pairs)"}, {"expr": "debug_performance_log(&format!( \"Fast-path cherry-pick note remap: compared tracked blobs for {} commit pairs in {}ms\", commit_pairs.len(), compare_start.elapsed().as_millis() ))", "call": "opq_log()"}, {"expr": "commit_pairs .iter() .map(|(source_commit, _new_commit)| source_commit.clone()) .collect()", "call": "opq_originals_slice(commit_pairs)"}, {"expr": "note_blob_oids_for_commits(repo, &source_commits)", "call": "opq_note_oids(&source_commits)"}, {"expr": "debug_performance_log(&format!( \"Fast-path cherry-pick note remap: resolved {} note blob oids in {}ms\", source_note_blob_oids.len(), note_oid_lookup_start.elapsed().as_millis() ))", "call": "opq_log()"}, {"expr": "source_note_blob_oids.len()", "call": "opq_oid_len(&source_note_blob_oids)"}, {"expr": "source_note_blob_oids.get(source_commit)", "call": "opq_oid_get(&source_note_blob_oids, source_commit)"}, {"expr": "remapped_blob_entries .iter() .map(|(_new_commit, blob_oid)| blob_oid.clone()) .collect::<HashSet<_>>() .into_iter() .collect()", "call": "opq_unique_oids(&remapped_blob_entries)"}, {"expr": "blob_oids.sort()", "call": "opq_sort_strings(&mut blob_oids)"}, {"expr": "batch_read_blob_contents(repo, &blob_oids)", "call": "opq_read_blobs(&blob_oids)"}, {"expr": "blob_contents.get(&blob_oid)", "call": "opq_content_get(&blob_contents, &blob_oid)"}, {"expr": "remap_note_content_for_target_commit(raw_note, &new_commit)", "call": "opq_remap_note(raw_note, &new_commit)"}, {"expr": "crate::git::refs::notes_add_batch(repo, &remapped_note_entries)", "call": "opq_notes_add_batch(&remapped_note_entries, Ghost(pairs), Ghost(source_note_blob_oids), Ghost(blob_contents))"}, {"expr": "debug_performance_log(&format!( \"Fast-path cherry-pick note remap: wrote {} remapped notes in {}ms\", remapped_count, write_start.elapsed().as_millis() ))", "call": "opq_log()"}, {"expr": "debug_log(&format!( \"Fast-path remapped authorship logs for {} cherry-picked commits (blob-equivalent tracked files)\", remapped_count ))", "call": "opq_log()"}, {"expr": "debug_performance_log(&format!( \"Fast-path cherry-pick note remap complete in {}ms\", fast_path_start.elapsed().as_millis() ))", "call": "opq_log()"}]'
fn try_fast_path_cherry_pick_note_remap(
    repo: &Repository,
    commit_pairs: &[(String, String)],
    tracked_paths: &[String],
) -> (r_: Result<bool, GitAiError>)
//@     ensures
//@         r_ is Ok && r_->Ok_0 ==> commit_pairs@.len() > 0 && tracked_paths@.len() > 0,
//@         // (what is written: the precondition of the notes_add_batch stub, proved at the call site - for every pair, in
//@         // order, the note of ITS source commit re-targeted at ITS new commit)
{
    //@ let ghost pairs = commit_pairs@;
    let fast_path_start = opq_now();
    if commit_pairs.is_empty() || tracked_paths.is_empty() {
        return Ok(false);
    }

    let compare_start = opq_now();
    if !opq_tracked_match_slice(commit_pairs)? {
        return Ok(false);
    }
    opq_log();

    let source_commits: Vec<String> = opq_originals_slice(commit_pairs);
    let note_oid_lookup_start = opq_now();
    let source_note_blob_oids = opq_note_oids(&source_commits)?;
    opq_log();
    if opq_oid_len(&source_note_blob_oids) != source_commits.len() {
        return Ok(false);
    }

    let mut remapped_blob_entries: Vec<(String, String)> = Vec::with_capacity(commit_pairs.len());
    for (source_commit, new_commit) in it_0: commit_pairs
    //@     invariant
    //@         pairs == commit_pairs@, it_0.snapshot@.remaining().len() == pairs.len(), remapped_blob_entries@.len() == it_0.index@,
    //@         forall|i: int| 0 <= i < pairs.len() ==> *(#[trigger] it_0.snapshot@.remaining()[i]) == pairs[i],
    //@         forall|i: int| 0 <= i < it_0.index@ ==> blob_entry_ok(#[trigger] remapped_blob_entries@[i], pairs[i], source_note_blob_oids),
    {
        //@ proof { assert((*source_commit, *new_commit) == pairs[it_0.index@]); }
        let blob_oid = match opq_oid_get(&source_note_blob_oids, source_commit) {
            Some(oid) => oid.clone(),
            None => return Ok(false),
        };
        remapped_blob_entries.push((new_commit.clone(), blob_oid));
    }

    if remapped_blob_entries.is_empty() {
        return Ok(false);
    }

    //@ let ghost bes = remapped_blob_entries@;
    let mut blob_oids: Vec<String> = opq_unique_oids(&remapped_blob_entries);
    opq_sort_strings(&mut blob_oids);
    let blob_contents = opq_read_blobs(&blob_oids)?;

    let mut remapped_note_entries: Vec<(String, String)> =
        Vec::with_capacity(remapped_blob_entries.len());
    for (new_commit, blob_oid) in it_1: remapped_blob_entries
    //@     invariant
    //@         it_1.snapshot@.remaining() == bes, bes.len() == pairs.len(), remapped_note_entries@.len() == it_1.index@,
    //@         forall|i: int| 0 <= i < bes.len() ==> blob_entry_ok(#[trigger] bes[i], pairs[i], source_note_blob_oids),
    //@         forall|i: int| 0 <= i < it_1.index@ ==> note_entry_ok(#[trigger] remapped_note_entries@[i], pairs[i], source_note_blob_oids, blob_contents),
    {
        //@ let ghost k = it_1.index@;
        //@ proof { assert((new_commit, blob_oid) == bes[k]); assert(blob_entry_ok(bes[k], pairs[k], source_note_blob_oids)); }
        let Some(raw_note) = opq_content_get(&blob_contents, &blob_oid) else {
            return Ok(false);
        };
        remapped_note_entries.push((
            new_commit.clone(),
            opq_remap_note(raw_note, &new_commit),
        ));
    }

    let remapped_count = remapped_note_entries.len();
    let write_start = opq_now();
    opq_notes_add_batch(&remapped_note_entries, Ghost(pairs), Ghost(source_note_blob_oids), Ghost(blob_contents))?;
    opq_log();

    opq_log();
    opq_log();
    Ok(true)
}
//#end

} // verus!
fn main() {}
