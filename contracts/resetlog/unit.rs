// Unit resetlog - properties C02 / C03: what `git reset` does to pending attribution (the working log).
//  * post_reset_hook (whole function): WHICH handler runs for which outcome / mode / pathspecs; a failed reset, a reset without a
//    recorded old HEAD / readable new HEAD / resolvable target touches nothing and logs nothing; the logged event names kind, keep,
//    merge, new and old head.
//  * handle_reset_hard (whole): the working log of the OLD head is dropped, nothing is written for any head.
//  * handle_reset_preserve_working_dir (whole): same commit => no effect; not backwards => nothing is written (the old log is
//    dropped: loss, see REPORT.md); backwards => reconstruct_working_log_after_reset(target, old, no pathspecs).
//  * handle_reset_pathspec_preserve_working_dir (whole): target == old head (un-staging) => NO effect (REQUIRED since /repo 42fcdb81);
//    not backwards => no effect; otherwise HEAD's log is rewritten as the old checkpoints minus the entries of the named files (in
//    order, emptied checkpoints dropped) followed by what the reconstruction left (recorded deviation: REPORT.md finding 2b).
//  * reconstruct_working_log_after_reset (whole): what is written, for which base commit, from which sources, merged in which order,
//    that EVERY file with pending attribution in the old head's log is among the carried files (proved; REQUIRED since /repo 5decae7d),
//    and that the old head's log is removed only after the new one is in place.
//  * is_ancestor, get_files_changed_between_commits (whole): what git is asked.
// Every effect (delete / clear / write INITIAL / append checkpoint / append rewrite event) is a stub whose PRECONDITION says when it
// is allowed and what is written, in terms of ONE uninterpreted description `op()` of the reset that the hook is reporting on; the
// entry point's precondition ties its arguments to `op()`.
use vstd::prelude::*;
use vstd::std_specs::iter::IteratorSpec;
verus! {

// ---------------------------------------------------------------- stand-in types (typing only; everything behind them is git / fs / other units)
pub enum GitAiError { Generic(String) }
#[verifier::external_body] pub struct RepoStorage { _o: () }
#[verifier::external_body] pub struct ParsedGitInvocation { _o: () }
#[verifier::external_body] pub struct ExitStatusT { _o: () }            // std::process::ExitStatus
#[verifier::external_body] pub struct PathErr { _o: () }                // std::io::Error
#[verifier::external_body] pub struct VirtualAttributions { _o: () }
#[verifier::external_body] pub struct FileMap { _o: () }                // HashMap<String, String>
#[verifier::external_body] pub struct StrSet { _o: () }                 // HashSet<String>
#[verifier::external_body] pub struct WorkDir { _o: () }                // PathBuf
#[verifier::external_body] pub struct AbsPath { _o: () }                // PathBuf
#[verifier::external_body] pub struct InitFiles { _o: () }
#[verifier::external_body] pub struct InitPrompts { _o: () }
#[verifier::external_body] pub struct AuthorshipLog { _o: () }
#[verifier::external_body] pub struct PersistedWorkingLog { _o: () }
#[verifier::external_body] pub struct CommitRange { _o: () }
#[verifier::external_body] pub struct GitOutput { _o: () }
#[verifier::external_body] pub struct EntryRest { _o: () }              // blob_sha, attributions, line_attributions of a WorkingLogEntry
#[verifier::external_body] pub struct CheckpointRest { _o: () }         // every field of a Checkpoint but `entries`
pub struct Repository { pub storage: RepoStorage, pub pre_command_base_commit: Option<String>, pub pre_reset_target_commit: Option<String> }
pub struct InitialAttributions { pub files: InitFiles, pub prompts: InitPrompts }
pub struct WorkingLogEntry { pub file: String, pub rest: EntryRest }
pub struct Checkpoint { pub entries: Vec<WorkingLogEntry>, pub rest: CheckpointRest }

// ---------------------------------------------------------------- the reset the hook reports on
pub struct ResetOp {
    pub ok: bool,                       // git reset exited with status 0
    pub hard: bool, pub soft: bool, pub keep: bool, pub merge: bool,     // the mode flags present on the command line
    pub paths: Seq<String>,             // the pathspecs of the invocation (none when they cannot be read)
    pub old: Option<Seq<char>>,         // HEAD before the reset, as recorded by the pre-command hook
    pub new: Option<Seq<char>>,         // HEAD after the reset
    pub target: Option<Seq<char>>,      // the commit the tree-ish names
}
pub uninterp spec fn op() -> ResetOp;
pub enum Action {
    Nothing,        // failed reset / nothing known about it: every note and all pending attribution stay as they are (C02)
    DropPending,    // hard: the text is gone, so the pending attribution of the old head goes, and none is written (C03)
    Carry,          // soft / mixed / keep / merge without pathspecs
    CarryPaths,     // reset <older tree-ish> -- <paths>: HEAD does not move
    Unstage,        // reset [HEAD] -- <paths>: the target is HEAD itself; only the index changes, NO working log is touched
}
pub open spec fn decide(o: ResetOp) -> Action {
    if !o.ok || o.old is None || o.new is None || o.target is None { Action::Nothing }
    else if o.hard { Action::DropPending }
    else if o.paths.len() > 0 { if o.target == o.old { Action::Unstage } else { Action::CarryPaths } }
    else { Action::Carry }
}
/// `git merge-base --is-ancestor a d` exits 0
pub uninterp spec fn gargs() -> Seq<String>;                            // repository.global_args_for_exec()
pub uninterp spec fn git_ok(args: Seq<Seq<char>>) -> bool;              // exec_git(args) is Ok
pub open spec fn strs(v: Seq<String>) -> Seq<Seq<char>> { v.map_values(|s: String| s@) }
pub open spec fn anc_args(a: Seq<char>, d: Seq<char>) -> Seq<Seq<char>> { strs(gargs()) + seq!["merge-base"@, "--is-ancestor"@, a, d] }
pub open spec fn is_anc(a: Seq<char>, d: Seq<char>) -> bool { git_ok(anc_args(a, d)) }
/// HEAD moves (or the named files are taken) from `old` BACK to an ancestor `target`
pub open spec fn back(o: ResetOp) -> bool { o.old is Some && o.target is Some && is_anc(o.target.unwrap(), o.old.unwrap()) }

// ---------------------------------------------------------------- which files, which attribution
/// file f is named by one of the pathspecs: equal, under a directory given with or without the trailing '/'
pub open spec fn sel1(p: Seq<char>, f: Seq<char>) -> bool {
    f == p || (p.len() > 0 && p.last() == '/' && p.is_prefix_of(f)) || (p + seq!['/']).is_prefix_of(f)
}
pub open spec fn selected(paths: Seq<String>, f: Seq<char>) -> bool { exists|i: int| 0 <= i < paths.len() && sel1((#[trigger] paths[i])@, f) }
pub uninterp spec fn changed(from: Seq<char>, to: Seq<char>) -> Option<Seq<String>>;      // git diff --name-only from to
pub uninterp spec fn range_commits(start: Seq<char>, end: Seq<char>) -> Option<Seq<String>>;   // the commits of start..end (the un-done commits)
pub uninterp spec fn ai_filter(commits: Seq<String>, files: Seq<String>) -> Option<Seq<String>>;  // the files the notes of these commits attribute anything in
pub open spec fn in_files(f: Seq<char>) -> spec_fn(String) -> bool { |s: String| s@ == f }
pub open spec fn user_sel(paths: Seq<String>) -> spec_fn(String) -> bool { |s: String| selected(paths, s@) }
/// the files the NOTES of the un-done commits speak about: changed between target and old, named by the user's pathspecs if any,
/// with AI attribution in the notes of the un-done commits
pub open spec fn carry_files(old: Seq<char>, target: Seq<char>, user: Option<Seq<String>>) -> Option<Seq<String>> {
    match (changed(target, old), range_commits(target, old)) {
        (Some(ch), Some(cs)) => ai_filter(cs, match user { Some(u) => ch.filter(user_sel(u)), None => ch }),
        _ => None,
    }
}
/// the files named in the INITIAL attributions of the working log of head (as the hook finds it)
pub uninterp spec fn log_initial_files(head: Seq<char>) -> Seq<String>;
/// the checkpoints stored in the working log of `head`: phase 0 = before the hook touched anything, phase 1 = as the reconstruction left them
pub uninterp spec fn log_cps_at(head: Seq<char>, phase: int) -> Seq<Checkpoint>;
pub open spec fn has_name(v: Seq<String>, f: Seq<char>) -> bool { exists|j: int| 0 <= j < v.len() && (#[trigger] v[j])@ == f }
pub open spec fn entry_name(cps: Seq<Checkpoint>, k: int, f: Seq<char>) -> bool {
    exists|i: int, j: int| 0 <= i < k && i < cps.len() && 0 <= j < cps[i].entries@.len() && (#[trigger] cps[i].entries@[j]).file@ == f
}
pub open spec fn pending_upto(head: Seq<char>, k: int, f: Seq<char>) -> bool { has_name(log_initial_files(head), f) || entry_name(log_cps_at(head, 0), k, f) }
/// file f has pending (uncommitted) attribution in the working log of head: INITIAL attributions or an entry of a checkpoint
pub open spec fn pending_has(head: Seq<char>, f: Seq<char>) -> bool { pending_upto(head, log_cps_at(head, 0).len() as int, f) }
pub open spec fn pending_within(head: Seq<char>, files: Seq<String>) -> bool { forall|f: Seq<char>| #[trigger] pending_has(head, f) ==> has_name(files, f) }
/// THE FILES WHOSE ATTRIBUTION IS CARRIED to the target's log: those of the notes first; for a plain reset (the old head's log is
/// deleted) ALSO every file with pending attribution in the old head's log (C02: a surviving line attributed before stays attributed;
/// was finding 1, repaired in /repo 5decae7d) - and nothing else
pub open spec fn carried_ok(cf: Seq<String>, old: Seq<char>, target: Seq<char>, user: Option<Seq<String>>) -> bool {
    match carry_files(old, target, user) {
        Some(ai) => {
            &&& cf.len() >= ai.len() && cf.take(ai.len() as int) =~= ai
            &&& forall|j: int| ai.len() <= j < cf.len() ==> user is None && pending_has(old, (#[trigger] cf[j])@)
            &&& user is None ==> pending_within(old, cf)
        }
        None => false,
    }
}
/// the sources: VA of the OLD head = notes of the un-done commits (blame from old back to `stop`) with the old head's working log
/// applied on top; VA of the target commit
pub uninterp spec fn old_va(old: Seq<char>, files: Seq<String>, stop: Seq<char>) -> VirtualAttributions;
pub uninterp spec fn target_va(target: Seq<char>, files: Seq<String>, stop: Seq<char>) -> VirtualAttributions;
pub uninterp spec fn merge_spec(primary: VirtualAttributions, secondary: VirtualAttributions, final_state: Map<Seq<char>, Seq<char>>) -> Option<VirtualAttributions>;
pub uninterp spec fn initial_of(va: VirtualAttributions, parent: Seq<char>, commit: Seq<char>, files: Seq<String>) -> Option<(InitFiles, InitPrompts)>;
pub uninterp spec fn fs_text(wd: Seq<char>, f: Seq<char>) -> Option<Seq<char>>;
pub uninterp spec fn the_workdir() -> Option<Seq<char>>;
pub open spec fn wt_text(wd: Seq<char>, f: Seq<char>) -> Seq<char> { match fs_text(wd, f) { Some(t) => t, None => Seq::empty() } }
/// m holds, for exactly the first n of the files, the working-tree text (empty when the file is missing or unreadable)
pub open spec fn is_wt(m: Map<Seq<char>, Seq<char>>, wd: Seq<char>, files: Seq<String>, n: int) -> bool {
    &&& forall|f: Seq<char>| #[trigger] m.dom().contains(f) <==> exists|j: int| 0 <= j < n && j < files.len() && (#[trigger] files[j])@ == f
    &&& forall|f: Seq<char>| #[trigger] m.dom().contains(f) ==> m[f] == wt_text(wd, f)
}
/// THE STATEMENT about what a backwards soft / mixed reset writes: the INITIAL attributions, for base commit `target`, of
/// merge(old head's VA FIRST, target's VA second, on the working-tree text of the carried files).
/// Why old first: the old head's VA (notes of the un-done commits + pending edits on top) describes the NEWEST text - exactly the
/// text the reset leaves in the working tree; where both speak about a character the target's older claim must lose, otherwise a
/// line rewritten after `target` by somebody else would be credited to the session that wrote its OLD content (C03).
pub open spec fn carried_initial(old: Seq<char>, target: Seq<char>, files: Seq<String>, final_state: Map<Seq<char>, Seq<char>>) -> Option<(InitFiles, InitPrompts)> {
    match merge_spec(old_va(old, files, target), target_va(target, files, target), final_state) {
        Some(m) => initial_of(m, target, target, files),
        None => None,
    }
}

// ---------------------------------------------------------------- when an effect is allowed
/// a working log may be deleted with NOTHING written in its place: hard reset (old head's), or a soft / mixed reset that does not go
/// backwards (old head's; this is LOSS, tolerated by C03, see REPORT.md observation 3)
pub open spec fn may_drop(o: ResetOp, sha: Seq<char>) -> bool {
    match decide(o) {
        Action::DropPending => Some(sha) == o.old,
        Action::Carry => Some(sha) == o.old && o.old != o.target && !back(o),
        _ => false,
    }
}
/// reconstruct_working_log_after_reset may run
pub open spec fn recon_pre(o: ResetOp, target: Seq<char>, old: Seq<char>, user: Option<Seq<String>>) -> bool {
    &&& back(o) && o.target == Some(target) && o.old == Some(old)
    &&& match user { None => decide(o) == Action::Carry && o.old != o.target, Some(u) => decide(o) == Action::CarryPaths && u == o.paths }
}
pub open spec fn user_of(o: ResetOp) -> Option<Seq<String>> { if decide(o) == Action::CarryPaths { Some(o.paths) } else { None } }
/// a working log may be cleared (checkpoints, blobs, INITIAL) before it is rewritten
pub open spec fn may_clear(o: ResetOp, sha: Seq<char>) -> bool {
    back(o) && ((decide(o) == Action::Carry && o.old != o.target && Some(sha) == o.target) || (decide(o) == Action::CarryPaths && (Some(sha) == o.target || Some(sha) == o.new)))
}
pub open spec fn event_ok(o: ResetOp, e: RewriteLogEvent) -> bool {
    &&& decide(o) != Action::Nothing
    &&& e matches RewriteLogEvent::Reset { reset }
    &&& reset.kind == (if o.hard { ResetKind::Hard } else if o.soft { ResetKind::Soft } else { ResetKind::Mixed })
    &&& reset.keep == o.keep && reset.merge == o.merge && Some(reset.new_head_sha@) == o.new && Some(reset.old_head_sha@) == o.old
}

// ---------------------------------------------------------------- views of the stand-ins
pub uninterp spec fn fm_view(m: FileMap) -> Map<Seq<char>, Seq<char>>;
pub uninterp spec fn set_view(s: StrSet) -> Seq<String>;
pub uninterp spec fn wl_head(w: PersistedWorkingLog) -> Seq<char>;
pub uninterp spec fn files_empty(f: InitFiles) -> bool;
pub uninterp spec fn exit_ok(e: ExitStatusT) -> bool;
pub uninterp spec fn has_flag(p: ParsedGitInvocation, flag: Seq<char>) -> bool;
pub uninterp spec fn tree_ish_of(p: ParsedGitInvocation) -> Seq<char>;
pub uninterp spec fn paths_of(p: ParsedGitInvocation) -> Option<Seq<String>>;
pub uninterp spec fn head_after() -> Option<Seq<char>>;
pub uninterp spec fn resolve_after(tree_ish: Seq<char>) -> Option<Seq<char>>;
pub uninterp spec fn range_of(r: CommitRange) -> (Seq<char>, Seq<char>);
pub open spec fn opt_str(o: Option<String>) -> Option<Seq<char>> { match o { Some(s) => Some(s@), None => None } }
pub open spec fn mode_flag(p: ParsedGitInvocation) -> bool {
    has_flag(p, "--hard"@) || has_flag(p, "--soft"@) || has_flag(p, "--mixed"@) || has_flag(p, "--merge"@) || has_flag(p, "--keep"@)
}
/// the entry point's arguments describe the reset `op()`
pub open spec fn describes(p: ParsedGitInvocation, repo: Repository, e: ExitStatusT, o: ResetOp) -> bool {
    &&& o.ok == exit_ok(e)
    &&& o.hard == has_flag(p, "--hard"@) && o.soft == has_flag(p, "--soft"@) && o.keep == has_flag(p, "--keep"@) && o.merge == has_flag(p, "--merge"@)
    &&& o.paths == (match paths_of(p) { Some(v) => v, None => Seq::<String>::empty() })
    &&& o.old == opt_str(repo.pre_command_base_commit)
    &&& o.new == head_after()
    // the target commit was resolved BEFORE the reset (HEAD~1 means something else afterwards); resolving it afterwards is the fallback
    &&& o.target == (match repo.pre_reset_target_commit { Some(s) => Some(s@), None => resolve_after(tree_ish_of(p)) })
}

// ---------------------------------------------------------------- stubs: no effect
#[verifier::external_body] pub fn debug_log(s: &str) { unimplemented!() }
#[verifier::external_body] fn opq_msg() -> (r: &'static str) { unimplemented!() }
#[verifier::external_body] fn opq_str_eq(a: &str, b: &str) -> (r: bool) ensures r == (a@ == b@), { unimplemented!() }
#[verifier::external_body] fn opq_repo_clone(r: &Repository) -> (c: Repository) { unimplemented!() }
#[verifier::external_body] fn opq_clone_paths(v: &Vec<String>) -> (r: Vec<String>) ensures r@ == v@, { unimplemented!() }
#[verifier::external_body] fn opq_string_copy(s: &String) -> (r: String) ensures r@ == s@, { unimplemented!() }

// ---------------------------------------------------------------- stubs: what is read (results uninterpreted)
impl ExitStatusT { #[verifier::external_body] pub fn success(&self) -> (r: bool) ensures r == exit_ok(*self), { unimplemented!() } }
impl ParsedGitInvocation { #[verifier::external_body] pub fn has_command_flag(&self, flag: &str) -> (r: bool) ensures r == has_flag(*self, flag@), { unimplemented!() } }
/// the three argument readers are under contract in unit hookargs; here only their results are named
#[verifier::external_body] fn extract_tree_ish(p: &ParsedGitInvocation) -> (r: String) ensures r@ == tree_ish_of(*p), { unimplemented!() }
#[verifier::external_body] fn extract_pathspecs(p: &ParsedGitInvocation) -> (r: Result<Vec<String>, PathErr>)
    ensures match r { Ok(v) => paths_of(*p) == Some(v@), Err(_) => paths_of(*p) is None }, { unimplemented!() }
#[verifier::external_body] fn has_reset_mode_flag(p: &ParsedGitInvocation) -> (r: bool) ensures r == mode_flag(*p), { unimplemented!() }
/// `.unwrap_or_else(|e| { debug_log(..); Vec::new() })`
#[verifier::external_body] fn opq_or_empty(r0: Result<Vec<String>, PathErr>) -> (r: Vec<String>)
    ensures match r0 { Ok(v) => r@ == v@, Err(_) => r@ == Seq::<String>::empty() }, { unimplemented!() }
/// `repository.head().ok().and_then(|h| h.target().ok())`
#[verifier::external_body] fn opq_head_target(repo: &Repository) -> (r: Option<String>) ensures opt_str(r) == head_after(), { unimplemented!() }
#[verifier::external_body] fn resolve_tree_ish_to_commit(repo: &Repository, tree_ish: &str) -> (r: Result<String, GitAiError>)
    ensures match r { Ok(s) => resolve_after(tree_ish@) == Some(s@), Err(_) => resolve_after(tree_ish@) is None }, { unimplemented!() }
pub mod commit_hooks {
    use vstd::prelude::*; use super::*;
    #[verifier::external_body] pub fn get_commit_default_author(repo: &Repository, args: &[String]) -> (r: String) { unimplemented!() }
}
impl Repository {
    #[verifier::external_body] pub fn global_args_for_exec(&self) -> (r: Vec<String>) ensures r@ == gargs(), { unimplemented!() }
    #[verifier::external_body] pub fn diff_changed_files(&self, from_ref: &str, to_ref: &str) -> (r: Result<Vec<String>, GitAiError>)
        ensures match r { Ok(v) => changed(from_ref@, to_ref@) == Some(v@), Err(_) => changed(from_ref@, to_ref@) is None }, { unimplemented!() }
    #[verifier::external_body] pub fn workdir(&self) -> (r: Result<WorkDir, GitAiError>) ensures match r { Ok(w) => the_workdir() == Some(w@), Err(_) => the_workdir() is None }, { unimplemented!() }
}
impl CommitRange {
    #[verifier::external_body] pub fn new_infer_refname(repo: &Repository, start_oid: String, end_oid: String, refname: Option<String>) -> (r: Result<CommitRange, GitAiError>)
        ensures r matches Ok(c) ==> range_of(c) == (start_oid@, end_oid@) && refname is None, { unimplemented!() }
    #[verifier::external_body] pub fn all_commits(&self) -> (r: Vec<String>) ensures range_commits(range_of(*self).0, range_of(*self).1) == Some(r@), { unimplemented!() }
}
#[verifier::external_body] pub fn filter_pathspecs_to_ai_touched_files(repo: &Repository, commit_shas: &[String], pathspecs: &[String]) -> (r: Result<Vec<String>, GitAiError>)
    ensures r matches Ok(v) ==> ai_filter(commit_shas@, pathspecs@) == Some(v@), { unimplemented!() }
/// `all_changed_files.into_iter().filter(|f| user_paths.iter().any(|p| f == p || (p.ends_with('/') && f.starts_with(p)) || f.starts_with(&format!("{}/", p)))).collect()`
#[verifier::external_body] fn opq_filter_user(v: Vec<String>, user_paths: &[String]) -> (r: Vec<String>) ensures r@ == v@.filter(user_sel(user_paths@)), { unimplemented!() }
/// `smol::block_on(async { VirtualAttributions::from_working_log_for_commit(repo, base, &pathspecs, None, Some(stop)).await })`
#[verifier::external_body] fn opq_va_old(repo: Repository, base: String, pathspecs: &Vec<String>, stop: &str) -> (r: Result<VirtualAttributions, GitAiError>)
    ensures r matches Ok(va) ==> va == old_va(base@, pathspecs@, stop@), { unimplemented!() }
/// `smol::block_on(async { VirtualAttributions::new_for_base_commit(repo, base, &pathspecs, Some(stop)).await })`
#[verifier::external_body] fn opq_va_target(repo: Repository, base: String, pathspecs: &Vec<String>, stop: &str) -> (r: Result<VirtualAttributions, GitAiError>)
    ensures r matches Ok(va) ==> va == target_va(base@, pathspecs@, stop@), { unimplemented!() }
#[verifier::external_body] fn opq_map_new() -> (r: FileMap) ensures fm_view(r) =~= Map::<Seq<char>, Seq<char>>::empty(), { unimplemented!() }
impl FileMap {
    #[verifier::external_body] pub fn insert(&mut self, k: String, v: String) -> (r: Option<String>) ensures fm_view(*final(self)) == fm_view(*old(self)).insert(k@, v@), { unimplemented!() }
    #[verifier::external_body] pub fn clone(&self) -> (r: FileMap) ensures fm_view(r) == fm_view(*self), { unimplemented!() }
}
impl View for WorkDir { type V = Seq<char>; uninterp spec fn view(&self) -> Seq<char>; }
impl View for AbsPath { type V = (Seq<char>, Seq<char>); uninterp spec fn view(&self) -> (Seq<char>, Seq<char>); }
impl WorkDir { #[verifier::external_body] pub fn join(&self, f: &String) -> (r: AbsPath) ensures r@ == (self@, f@), { unimplemented!() } }
/// `Path::exists`: a file that does not exist cannot be read
impl AbsPath { #[verifier::external_body] pub fn exists(&self) -> (r: bool) ensures !r ==> fs_text(self@.0, self@.1) is None, { unimplemented!() } }
/// `std::fs::read_to_string(&abs_path).unwrap_or_default()`
#[verifier::external_body] fn opq_read_or_default(p: &AbsPath) -> (r: String) ensures r@ == wt_text(p@.0, p@.1), { unimplemented!() }
#[verifier::external_body] fn opq_new_string() -> (r: String) ensures r@ == Seq::<char>::empty(), { unimplemented!() }
/// `pathspecs.iter().cloned().collect()` into a HashSet
#[verifier::external_body] fn opq_to_set(v: &Vec<String>) -> (r: StrSet) ensures set_view(r) == v@, { unimplemented!() }
/// merge_attributions_favoring_first is only NAMED (its per-file step is under contract in unit vamerge), so that the ORDER of its arguments is visible
#[verifier::external_body] pub fn merge_attributions_favoring_first(primary: VirtualAttributions, secondary: VirtualAttributions, final_state: FileMap) -> (r: Result<VirtualAttributions, GitAiError>)
    ensures r matches Ok(va) ==> merge_spec(primary, secondary, fm_view(final_state)) == Some(va), { unimplemented!() }
impl VirtualAttributions {
    #[verifier::external_body] pub fn to_authorship_log_and_initial_working_log(&self, repo: &Repository, parent_sha: &str, commit_sha: &str, pathspecs: Option<&StrSet>) -> (r: Result<(AuthorshipLog, InitialAttributions), GitAiError>)
        ensures r matches Ok(p) ==> pathspecs matches Some(ps) && initial_of(*self, parent_sha@, commit_sha@, set_view(*ps)) == Some((p.1.files, p.1.prompts)), { unimplemented!() }
}
impl InitFiles { #[verifier::external_body] pub fn is_empty(&self) -> (r: bool) ensures r == files_empty(*self), { unimplemented!() } }

/// `old_working_log.read_initial_attributions().files.into_keys().collect()`
#[verifier::external_body] fn opq_initial_files(w: &PersistedWorkingLog) -> (r: Vec<String>) ensures r@ == log_initial_files(wl_head(*w)), { unimplemented!() }
pub open spec fn entry_files(es: Seq<WorkingLogEntry>) -> Seq<String> { es.map_values(|e: WorkingLogEntry| e.file) }
/// `pending_files.extend(checkpoint.entries.into_iter().map(|entry| entry.file))`
#[verifier::external_body] fn opq_extend_entry_files(v: &mut Vec<String>, es: Vec<WorkingLogEntry>) ensures final(v)@ == old(v)@ + entry_files(es@), { unimplemented!() }
/// `pending_files.sort()`: a permutation - the same names
#[verifier::external_body] fn opq_sort_names(v: &mut Vec<String>) ensures forall|f: Seq<char>| #[trigger] has_name(final(v)@, f) <==> has_name(old(v)@, f), { unimplemented!() }
/// `pathspecs.contains(&file)`
#[verifier::external_body] fn opq_has_name(v: &Vec<String>, x: &String) -> (r: bool) ensures r == has_name(v@, x@), { unimplemented!() }

/// v names exactly the files with INITIAL attributions or an entry in one of the first k checkpoints of head's log
pub open spec fn collects(v: Seq<String>, head: Seq<char>, k: int) -> bool { forall|f: Seq<char>| #[trigger] has_name(v, f) <==> pending_upto(head, k, f) }
proof fn lemma_collect_step(v0: Seq<String>, v1: Seq<String>, head: Seq<char>, k: int)
    requires 0 <= k < log_cps_at(head, 0).len(), collects(v0, head, k), v1 == v0 + entry_files(log_cps_at(head, 0)[k].entries@),
    ensures collects(v1, head, k + 1),
{
    let cps = log_cps_at(head, 0); let es = cps[k].entries@; let add = entry_files(es);
    assert forall|f: Seq<char>| #[trigger] has_name(v1, f) <==> pending_upto(head, k + 1, f) by {
        if has_name(v1, f) {
            let j = choose|j: int| 0 <= j < v1.len() && (#[trigger] v1[j])@ == f;
            if j < v0.len() {
                assert(v1[j] == v0[j]); assert(has_name(v0, f)); assert(pending_upto(head, k, f));
                if entry_name(cps, k, f) { let (i, jj) = choose|i: int, jj: int| 0 <= i < k && i < cps.len() && 0 <= jj < cps[i].entries@.len() && (#[trigger] cps[i].entries@[jj]).file@ == f; assert(0 <= i < k + 1 && cps[i].entries@[jj].file@ == f); }
            } else {
                let jj = j - v0.len(); assert(v1[j] == add[jj]); assert(add[jj] == es[jj].file);
                assert(0 <= k < k + 1 && 0 <= jj < cps[k].entries@.len() && cps[k].entries@[jj].file@ == f);
            }
        }
        if pending_upto(head, k + 1, f) {
            if has_name(log_initial_files(head), f) { assert(pending_upto(head, k, f)); assert(has_name(v0, f)); let j = choose|j: int| 0 <= j < v0.len() && (#[trigger] v0[j])@ == f; assert(v1[j] == v0[j]); }
            else {
                let (i, jj) = choose|i: int, jj: int| 0 <= i < k + 1 && i < cps.len() && 0 <= jj < cps[i].entries@.len() && (#[trigger] cps[i].entries@[jj]).file@ == f;
                if i < k { assert(entry_name(cps, k, f)); assert(has_name(v0, f)); let j = choose|j: int| 0 <= j < v0.len() && (#[trigger] v0[j])@ == f; assert(v1[j] == v0[j]); }
                else { let j = v0.len() + jj; assert(v1[j] == add[jj]); assert(add[jj] == es[jj].file); assert(0 <= j < v1.len() && v1[j]@ == f); }
            }
        }
    }
}
/// cf = the notes' files `ai`, then only files with pending attribution in head's log
pub open spec fn ext_ok(cf: Seq<String>, ai: Seq<String>, head: Seq<char>) -> bool {
    &&& cf.len() >= ai.len() && cf.take(ai.len() as int) =~= ai
    &&& forall|j: int| ai.len() <= j < cf.len() ==> pending_has(head, (#[trigger] cf[j])@)
}
/// the first n names of pf are in cf
pub open spec fn covered(cf: Seq<String>, pf: Seq<String>, n: int) -> bool { forall|i: int| 0 <= i < n && i < pf.len() ==> has_name(cf, (#[trigger] pf[i])@) }
proof fn lemma_cover_step(cf0: Seq<String>, cf1: Seq<String>, ai: Seq<String>, pf: Seq<String>, n: int, head: Seq<char>)
    requires 0 <= n < pf.len(), ext_ok(cf0, ai, head), covered(cf0, pf, n), pending_has(head, pf[n]@),
        cf1 == (if has_name(cf0, pf[n]@) { cf0 } else { cf0.push(pf[n]) }),
    ensures ext_ok(cf1, ai, head), covered(cf1, pf, n + 1),
{
    assert forall|i: int| 0 <= i < n + 1 && i < pf.len() implies has_name(cf1, (#[trigger] pf[i])@) by {
        if i < n { let j = choose|j: int| 0 <= j < cf0.len() && (#[trigger] cf0[j])@ == pf[i]@; assert(cf1[j] == cf0[j]); }
        else if has_name(cf0, pf[n]@) {} else { let j = cf0.len() as int; assert(cf1[j] == pf[n]); }
    }
    if !has_name(cf0, pf[n]@) {
        assert(cf1.take(ai.len() as int) =~= cf0.take(ai.len() as int));
        assert forall|j: int| ai.len() <= j < cf1.len() implies pending_has(head, (#[trigger] cf1[j])@) by { if j < cf0.len() { assert(cf1[j] == cf0[j]); } }
    }
}
/// with every name of pf in cf, and pf naming every pending file, nothing pending is left behind
proof fn lemma_cover_all(cf: Seq<String>, pf: Seq<String>, head: Seq<char>)
    requires covered(cf, pf, pf.len() as int), collects(pf, head, log_cps_at(head, 0).len() as int),
    ensures pending_within(head, cf),
{
    assert forall|f: Seq<char>| #[trigger] pending_has(head, f) implies has_name(cf, f) by {
        assert(has_name(pf, f)); let i = choose|i: int| 0 <= i < pf.len() && (#[trigger] pf[i])@ == f; assert(has_name(cf, pf[i]@));
    }
}

// ---------------------------------------------------------------- stubs: EFFECTS (the precondition is the statement)
impl RepoStorage {
    #[verifier::external_body] pub fn working_log_for_base_commit(&self, sha: &str) -> (r: PersistedWorkingLog) ensures wl_head(r) == sha@, { unimplemented!() }
    /// the directory of the log exists.  ASSUMED: without it nothing is pending for that head
    #[verifier::external_body] pub fn has_working_log(&self, sha: &str) -> (r: bool) ensures !r ==> forall|f: Seq<char>| !pending_has(sha@, f), { unimplemented!() }
    /// delete a working log with nothing written in its place
    #[verifier::external_body] pub fn delete_working_log_for_base_commit(&self, sha: &str) -> (r: Result<(), GitAiError>)
        requires may_drop(op(), sha@), { unimplemented!() }
    #[verifier::external_body] pub fn append_rewrite_event(&self, event: RewriteLogEvent) -> (r: Result<Vec<RewriteLogEvent>, GitAiError>)
        requires event_ok(op(), event), { unimplemented!() }
}
impl PersistedWorkingLog {
    #[verifier::external_body] pub fn reset_working_log(&self) -> (r: Result<(), GitAiError>)
        requires may_clear(op(), wl_head(*self)), { unimplemented!() }
}
/// reconstruct_working_log_after_reset: `repo.storage.delete_working_log_for_base_commit(old_head_sha)`.  The OLD head's log goes only
/// when the new one is in place (`placed`) or there is nothing to carry, and (plain reset) nothing pending is left behind
pub open spec fn may_delete_old(o: ResetOp, sha: Seq<char>, placed: bool, files: Seq<String>) -> bool {
    &&& back(o) && Some(sha) == o.old && (decide(o) == Action::Carry || decide(o) == Action::CarryPaths)
    &&& carried_ok(files, o.old.unwrap(), o.target.unwrap(), user_of(o))
    &&& placed || files.len() == 0
    // plain reset: nothing pending is left behind.  With pathspecs HEAD does not move: the caller has saved the other files'
    // checkpoints and rewrites HEAD's log (handle_reset_pathspec_preserve_working_dir)
    &&& decide(o) == Action::Carry ==> o.old != o.target && pending_within(sha, files)
}
#[verifier::external_body] fn opq_delete_old(repo: &Repository, sha: &str, Ghost(placed): Ghost<bool>, Ghost(files): Ghost<Seq<String>>) -> (r: Result<(), GitAiError>)
    requires may_delete_old(op(), sha@, placed, files),
{ unimplemented!() }
/// `new_working_log.write_initial_attributions(files, prompts)`
pub open spec fn may_write_initial(o: ResetOp, head: Seq<char>, written: (InitFiles, InitPrompts), cleared: bool, cf: Seq<String>, fin: Map<Seq<char>, Seq<char>>) -> bool {
    &&& back(o) && ((decide(o) == Action::Carry && o.old != o.target) || decide(o) == Action::CarryPaths)
    // into the (just cleared) working log of the TARGET commit
    &&& cleared && Some(head) == o.target
    // for the carried files, on their working-tree text
    &&& carried_ok(cf, o.old.unwrap(), o.target.unwrap(), user_of(o)) && cf.len() > 0
    &&& the_workdir() is Some && is_wt(fin, the_workdir().unwrap(), cf, cf.len() as int)
    // the attribution of the un-done commits with the old head's pending attribution on top, over the target's
    &&& carried_initial(o.old.unwrap(), o.target.unwrap(), cf, fin) == Some(written)
}
#[verifier::external_body] fn opq_write_initial(w: &PersistedWorkingLog, files: InitFiles, prompts: InitPrompts, Ghost(cleared): Ghost<bool>, Ghost(cf): Ghost<Seq<String>>, Ghost(fin): Ghost<Map<Seq<char>, Seq<char>>>) -> (r: Result<(), GitAiError>)
    requires may_write_initial(op(), wl_head(*w), (files, prompts), cleared, cf, fin),
{ unimplemented!() }

proof fn lemma_wt_step(wd: Seq<char>, files: Seq<String>, k: int, m0: Map<Seq<char>, Seq<char>>, m1: Map<Seq<char>, Seq<char>>)
    requires 0 <= k < files.len(), is_wt(m0, wd, files, k), m1 == m0.insert(files[k]@, wt_text(wd, files[k]@)),
    ensures is_wt(m1, wd, files, k + 1),
{
    assert forall|f: Seq<char>| #[trigger] m1.dom().contains(f) <==> exists|j: int| 0 <= j < k + 1 && j < files.len() && (#[trigger] files[j])@ == f by {
        if exists|j: int| 0 <= j < k + 1 && j < files.len() && (#[trigger] files[j])@ == f {
            let j = choose|j: int| 0 <= j < k + 1 && j < files.len() && (#[trigger] files[j])@ == f;
            if j < k { assert(0 <= j < k && files[j]@ == f); assert(m0.dom().contains(f)); }
        }
        if m0.dom().contains(f) { let j = choose|j: int| 0 <= j < k && j < files.len() && (#[trigger] files[j])@ == f; assert(0 <= j < k + 1 && files[j]@ == f); }
        if f == files[k]@ { assert(0 <= k < k + 1 && files[k]@ == f); }
    }
}

// ---------------------------------------------------------------- pathspec reset: what stays in HEAD's working log
pub open spec fn unselected(paths: Seq<String>) -> spec_fn(WorkingLogEntry) -> bool { |e: WorkingLogEntry| !selected(paths, e.file@) }
/// the entries of checkpoint c for files the pathspecs do NOT name, in order
pub open spec fn strip(c: Checkpoint, paths: Seq<String>) -> Seq<WorkingLogEntry> { c.entries@.filter(unselected(paths)) }
pub open spec fn stripped(c1: Checkpoint, c0: Checkpoint, paths: Seq<String>) -> bool { c1.rest == c0.rest && c1.entries@ == strip(c0, paths) }
/// out = inp with the named files' entries removed from every checkpoint and the emptied checkpoints dropped, in order
pub open spec fn kept_rel(out: Seq<Checkpoint>, inp: Seq<Checkpoint>, paths: Seq<String>) -> bool
    decreases inp.len(),
{
    if inp.len() == 0 { out.len() == 0 }
    else if strip(inp.last(), paths).len() == 0 { kept_rel(out, inp.drop_last(), paths) }
    else { out.len() > 0 && stripped(out.last(), inp.last(), paths) && kept_rel(out.drop_last(), inp.drop_last(), paths) }
}
proof fn lemma_kept_step(out0: Seq<Checkpoint>, out1: Seq<Checkpoint>, ex: Seq<Checkpoint>, k: int, c1: Checkpoint, paths: Seq<String>)
    requires 0 <= k < ex.len(), kept_rel(out0, ex.take(k), paths), stripped(c1, ex[k], paths),
        out1 == (if c1.entries@.len() > 0 { out0.push(c1) } else { out0 }),
    ensures kept_rel(out1, ex.take(k + 1), paths),
{
    let inp = ex.take(k + 1);
    assert(inp.last() == ex[k]);
    assert(inp.drop_last() =~= ex.take(k));
    if c1.entries@.len() > 0 { assert(out1.last() == c1); assert(out1.drop_last() =~= out0); }
}
/// `working_log.read_all_checkpoints().unwrap_or_default()`
#[verifier::external_body] fn opq_read_cps_at(w: &PersistedWorkingLog, Ghost(phase): Ghost<int>) -> (r: Vec<Checkpoint>) ensures r@ == log_cps_at(wl_head(*w), phase), { unimplemented!() }
/// `checkpoint.entries.retain(|entry| !pathspecs.iter().any(|pathspec| entry.file == *pathspec || (pathspec.ends_with('/') && entry.file.starts_with(pathspec)) || entry.file.starts_with(&format!("{}/", pathspec))))`
#[verifier::external_body] fn opq_retain_unselected(entries: &mut Vec<WorkingLogEntry>, paths: &[String]) ensures final(entries)@ == old(entries)@.filter(unselected(paths@)), { unimplemented!() }
/// `merged_checkpoints.extend(pathspec_checkpoints)`
#[verifier::external_body] fn opq_extend_cps(v: &mut Vec<Checkpoint>, w: Vec<Checkpoint>) ensures final(v)@ == old(v)@ + w@, { unimplemented!() }
/// `head_working_log.append_checkpoint(&checkpoint)`: the i-th checkpoint written back into HEAD's (cleared) log is the i-th of
/// [the old checkpoints minus the named files' entries] followed by [what the reconstruction left in the target's log]
pub open spec fn may_append(o: ResetOp, head: Seq<char>, c: Checkpoint, kept: Seq<Checkpoint>, i: int) -> bool {
    &&& decide(o) == Action::CarryPaths && back(o) && Some(head) == o.new
    &&& kept_rel(kept, log_cps_at(o.old.unwrap(), 0), o.paths)
    &&& 0 <= i < kept.len() + log_cps_at(o.target.unwrap(), 1).len()
    &&& c == (if i < kept.len() { kept[i] } else { log_cps_at(o.target.unwrap(), 1)[i - kept.len()] })
}
#[verifier::external_body] fn opq_append_cp(w: &PersistedWorkingLog, c: &Checkpoint, Ghost(kept): Ghost<Seq<Checkpoint>>, Ghost(i): Ghost<int>) -> (r: Result<(), GitAiError>)
    requires may_append(op(), wl_head(*w), *c, kept, i),
{ unimplemented!() }
/// `repository.storage.delete_working_log_for_base_commit(target_commit_sha)` at the end of the pathspec handler: the TEMPORARY log
/// of the target goes, never HEAD's, and only after HEAD's log has been rewritten
pub open spec fn may_delete_temp(o: ResetOp, sha: Seq<char>, rewritten: bool) -> bool {
    decide(o) == Action::CarryPaths && back(o) && Some(sha) == o.target && o.target != o.new && rewritten
}
#[verifier::external_body] fn opq_delete_temp(repo: &Repository, sha: &str, Ghost(rewritten): Ghost<bool>) -> (r: Result<(), GitAiError>)
    requires may_delete_temp(op(), sha@, rewritten),
{ unimplemented!() }

// ---------------------------------------------------------------- what the permissions mean for C02 / C03 (over the spec functions)
/// ANY effect on a working log or the rewrite log
pub open spec fn some_effect(o: ResetOp) -> bool {
    ||| exists|sha: Seq<char>| may_drop(o, sha) || may_clear(o, sha)
    ||| exists|sha: Seq<char>, placed: bool, files: Seq<String>| may_delete_old(o, sha, placed, files)
    ||| exists|head: Seq<char>, w: (InitFiles, InitPrompts), cl: bool, cf: Seq<String>, fin: Map<Seq<char>, Seq<char>>| may_write_initial(o, head, w, cl, cf, fin)
    ||| exists|head: Seq<char>, c: Checkpoint, kept: Seq<Checkpoint>, i: int| may_append(o, head, c, kept, i)
    ||| exists|sha: Seq<char>, rw: bool| may_delete_temp(o, sha, rw)
    ||| exists|e: RewriteLogEvent| event_ok(o, e)
}
/// something is WRITTEN into a working log (INITIAL attributions or a checkpoint)
pub open spec fn some_write(o: ResetOp) -> bool {
    ||| exists|head: Seq<char>, w: (InitFiles, InitPrompts), cl: bool, cf: Seq<String>, fin: Map<Seq<char>, Seq<char>>| may_write_initial(o, head, w, cl, cf, fin)
    ||| exists|head: Seq<char>, c: Checkpoint, kept: Seq<Checkpoint>, i: int| may_append(o, head, c, kept, i)
}
/// C02 "an operation that fails leaves all pending attribution exactly as it was": after a reset that exited non-zero (or about
/// which old head / new head / target are not known) no effect is permitted at all
proof fn theorem_failed_reset_changes_nothing(o: ResetOp)
    requires !o.ok || o.old is None || o.new is None || o.target is None,
    ensures !some_effect(o),
{ assert(decide(o) == Action::Nothing); }
/// ANY effect on a working log
pub open spec fn some_log_effect(o: ResetOp) -> bool {
    ||| exists|sha: Seq<char>| may_drop(o, sha) || may_clear(o, sha)
    ||| exists|sha: Seq<char>, placed: bool, files: Seq<String>| may_delete_old(o, sha, placed, files)
    ||| some_write(o)
    ||| exists|sha: Seq<char>, rw: bool| may_delete_temp(o, sha, rw)
}
/// un-staging (`git reset [HEAD] [--] <paths>`: the target is the old head itself) changes only the index: NO working log may be
/// touched - the pending attribution of the named files stays (was finding 2, repaired in /repo 42fcdb81); only the event is logged
proof fn theorem_unstage_touches_no_working_log(o: ResetOp)
    requires o.ok, !o.hard, o.paths.len() > 0, o.old is Some, o.new is Some, o.target == o.old,
    ensures !some_log_effect(o),
{ assert(decide(o) == Action::Unstage); }
/// C03 hard reset: the text is gone - the old head's pending attribution may be dropped, NOTHING may be written for any head, no
/// other log may be touched
proof fn theorem_hard_reset_only_drops_old(o: ResetOp)
    requires decide(o) == Action::DropPending,
    ensures !some_write(o), forall|sha: Seq<char>| !may_clear(o, sha), forall|sha: Seq<char>| may_drop(o, sha) <==> Some(sha) == o.old,
{}
/// a reset that does not move HEAD backwards writes nothing (nothing becomes AI); to the same commit it has no effect on any working log
proof fn theorem_not_backwards_writes_nothing(o: ResetOp)
    requires decide(o) == Action::Carry || decide(o) == Action::CarryPaths, !back(o) || (decide(o) == Action::Carry && o.old == o.target),
    ensures
        !some_write(o), forall|sha: Seq<char>| !may_clear(o, sha),
        forall|sha: Seq<char>, placed: bool, files: Seq<String>| !may_delete_old(o, sha, placed, files),
        decide(o) == Action::CarryPaths || o.old == o.target ==> forall|sha: Seq<char>| !may_drop(o, sha),
{}
/// C02 soft / mixed reset backwards: whatever INITIAL attributions are written are written for the TARGET commit and are exactly
/// `carried_initial` - un-done commits' notes + old head's pending attribution FIRST, target second, on the working-tree text of the
/// carried files; and the old head's log is deleted only with the new one in place and no pending file outside the carried ones
proof fn theorem_backwards_reset_carries(o: ResetOp, head: Seq<char>, w: (InitFiles, InitPrompts), cl: bool, cf: Seq<String>, fin: Map<Seq<char>, Seq<char>>, sha: Seq<char>, placed: bool, files: Seq<String>)
    requires decide(o) == Action::Carry,
    ensures
        may_write_initial(o, head, w, cl, cf, fin) ==> Some(head) == o.target && carried_ok(cf, o.old.unwrap(), o.target.unwrap(), None)
            && merge_spec(old_va(o.old.unwrap(), cf, o.target.unwrap()), target_va(o.target.unwrap(), cf, o.target.unwrap()), fin) is Some
            && Some(w) == initial_of(merge_spec(old_va(o.old.unwrap(), cf, o.target.unwrap()), target_va(o.target.unwrap(), cf, o.target.unwrap()), fin).unwrap(), head, head, cf),
        may_delete_old(o, sha, placed, files) ==> Some(sha) == o.old && (placed || files.len() == 0) && pending_within(sha, files),
{}
/// pathspec reset: HEAD's log is only ever given back its own checkpoints minus the entries of the NAMED files (entries of every
/// other file stay, in order), followed by what the reconstruction left; only the temporary log of the target is deleted besides
proof fn theorem_pathspec_reset_keeps_other_files(o: ResetOp, head: Seq<char>, c: Checkpoint, kept: Seq<Checkpoint>, i: int)
    requires decide(o) == Action::CarryPaths, may_append(o, head, c, kept, i), 0 <= i < kept.len(),
    ensures Some(head) == o.new, forall|j: int| 0 <= j < c.entries@.len() ==> !selected(o.paths, (#[trigger] c.entries@[j]).file@),
{
    lemma_kept_unselected(kept, log_cps_at(o.old.unwrap(), 0), o.paths, i);
}
proof fn lemma_kept_unselected(out: Seq<Checkpoint>, inp: Seq<Checkpoint>, paths: Seq<String>, i: int)
    requires kept_rel(out, inp, paths), 0 <= i < out.len(),
    ensures forall|j: int| 0 <= j < out[i].entries@.len() ==> !selected(paths, (#[trigger] out[i].entries@[j]).file@),
    decreases inp.len(),
{
    if inp.len() > 0 {
        if strip(inp.last(), paths).len() == 0 { lemma_kept_unselected(out, inp.drop_last(), paths, i); }
        else if i < out.len() - 1 { lemma_kept_unselected(out.drop_last(), inp.drop_last(), paths, i); assert(out.drop_last()[i] == out[i]); }
        else {
            let s = inp.last().entries@; let pred = unselected(paths);
            assert(out[i] == out.last()); assert(out[i].entries@ == s.filter(pred));
            assert forall|j: int| 0 <= j < out[i].entries@.len() implies !selected(paths, (#[trigger] out[i].entries@[j]).file@) by {
                let e = s.filter(pred)[j]; assert(s.filter(pred).contains(e)); s.lemma_filter_contains_rev(pred, e); assert(pred(e));
            }
        }
    }
}

// ---------------------------------------------------------------- the rewrite-log event (real types)
//#item file=src/git/rewrite_log.rs kind=enum name=ResetKind derive=PartialEq
//@ #[derive(Structural)]
#[derive(PartialEq)]
pub enum ResetKind {
    Hard,
    Soft,
    Mixed,
}
//#end
//#item file=src/git/rewrite_log.rs kind=struct name=ResetEvent
pub struct ResetEvent {
    pub kind: ResetKind,
    pub keep: bool,
    pub merge: bool,
    pub new_head_sha: String,
    pub old_head_sha: String,
}
//#end
impl ResetEvent {
//#item file=src/git/rewrite_log.rs kind=fn name=new impl="ResetEvent"
    pub fn new(
        kind: ResetKind,
        keep: bool,
        merge: bool,
        new_head_sha: String,
        old_head_sha: String,
    ) -> (r_: Self)
//@     ensures r_.kind == kind, r_.keep == keep, r_.merge == merge, r_.new_head_sha == new_head_sha, r_.old_head_sha == old_head_sha,
    {
        Self {
            kind,
            keep,
            merge,
            new_head_sha,
            old_head_sha,
        }
    }
//#end
}
pub enum RewriteLogEvent { Reset { reset: ResetEvent }, Other }   // stand-in: the other variants are not built here
pub mod git {
    pub mod rewrite_log { pub use crate::{ResetKind, ResetEvent, RewriteLogEvent}; }
    pub mod repository {
        use vstd::prelude::*; use crate::*;
        /// `git <args>`; only whether it exits 0 is named
        #[verifier::external_body] pub fn exec_git(args: &Vec<String>) -> (r: Result<GitOutput, GitAiError>) ensures r is Ok == git_ok(strs(args@)), { unimplemented!() }
    }
}
pub mod authorship {
    pub mod rebase_authorship { pub use crate::reconstruct_working_log_after_reset; }
    pub mod virtual_attribution { pub use crate::merge_attributions_favoring_first; }
}

// ---------------------------------------------------------------- what git is asked
//#item file=src/commands/hooks/reset_hooks.rs kind=fn name=is_ancestor
fn is_ancestor(repository: &Repository, ancestor: &str, descendant: &str) -> (r_: bool)
//@     ensures r_ == is_anc(ancestor@, descendant@),
{
    let mut args = repository.global_args_for_exec();
    args.push("merge-base".to_string());
    args.push("--is-ancestor".to_string());
    args.push(ancestor.to_string());
    args.push(descendant.to_string());

//@ proof { assert(strs(args@) =~= anc_args(ancestor@, descendant@)); }
    crate::git::repository::exec_git(&args).is_ok()
}
//#end
//#item file=src/authorship/rebase_authorship.rs kind=fn name=get_files_changed_between_commits
fn get_files_changed_between_commits(
    repo: &Repository,
    from_commit: &str,
    to_commit: &str,
) -> (r_: Result<Vec<String>, GitAiError>)
//@     ensures match r_ { Ok(v) => changed(from_commit@, to_commit@) == Some(v@), Err(_) => changed(from_commit@, to_commit@) is None },
{
    repo.diff_changed_files(from_commit, to_commit)
}
//#end

// ---------------------------------------------------------------- the reconstruction
//#item file=src/authorship/rebase_authorship.rs kind=fn name=reconstruct_working_log_after_reset opaque='[{"expr": "old_working_log .read_initial_attributions() .files .into_keys() .collect()", "call": "opq_initial_files(&old_working_log)"}, {"expr": "old_working_log.read_all_checkpoints().unwrap_or_default()", "call": "opq_read_cps_at(&old_working_log, Ghost(0int))"}, {"expr": "pending_files.extend(checkpoint.entries.into_iter().map(|entry| entry.file))", "call": "opq_extend_entry_files(&mut pending_files, checkpoint.entries)"}, {"expr": "pending_files.sort()", "call": "opq_sort_names(&mut pending_files)"}, {"expr": "pathspecs.contains(&file)", "call": "opq_has_name(&pathspecs, &file)"}, {"expr": "all_changed_files .into_iter() .filter(|f| { user_paths.iter().any(|p| { f == p || (p.ends_with(\u0027/\u0027) && f.starts_with(p)) || f.starts_with(&format!(\"{}/\", p)) }) }) .collect()", "call": "opq_filter_user(all_changed_files, user_paths)"}, {"expr": "repo.storage .delete_working_log_for_base_commit(old_head_sha)", "call": "opq_delete_old(repo, old_head_sha, Ghost(placed), Ghost(cf))"}, {"expr": "repo.clone()", "call": "opq_repo_clone(repo)"}, {"expr": "pathspecs.clone()", "call": "opq_clone_paths(&pathspecs)"}, {"expr": "smol::block_on(async { crate::authorship::virtual_attribution::VirtualAttributions::from_working_log_for_commit( repo_clone, old_head_clone, &pathspecs_clone, None, Some(target_commit_sha.to_string()), ) .await })", "call": "opq_va_old(repo_clone, old_head_clone, &pathspecs_clone, target_commit_sha)"}, {"expr": "smol::block_on(async { crate::authorship::virtual_attribution::VirtualAttributions::new_for_base_commit( repo_clone, target_clone, &pathspecs_clone, Some(target_commit_sha.to_string()), ) .await })", "call": "opq_va_target(repo_clone, target_clone, &pathspecs_clone, target_commit_sha)"}, {"expr": "HashMap<String, String>", "call": "FileMap"}, {"expr": "HashMap::new()", "call": "opq_map_new()"}, {"expr": "std::fs::read_to_string(&abs_path).unwrap_or_default()", "call": "opq_read_or_default(&abs_path)"}, {"expr": "String::new()", "call": "opq_new_string()"}, {"expr": "std::collections::HashSet<String>", "call": "StrSet"}, {"expr": "pathspecs.iter().cloned().collect()", "call": "opq_to_set(&pathspecs)"}, {"expr": "new_working_log .write_initial_attributions(initial_attributions.files, initial_attributions.prompts)", "call": "opq_write_initial(&new_working_log, initial_attributions.files, initial_attributions.prompts, Ghost(cleared), Ghost(cf), Ghost(fin))"}, {"expr": "& format ! ( \"Reconstructing working log after reset from {} to {}\" , old_head_sha , target_commit_sha )", "call": "opq_msg()"}, {"expr": "& format ! ( \"Processing {} files for reset authorship reconstruction\" , pathspecs . len ( ) )", "call": "opq_msg()"}, {"expr": "& format ! ( \"Built old_head VA with {} files, {} prompts\" , old_head_va . files ( ) . len ( ) , old_head_va . prompts ( ) . len ( ) )", "call": "opq_msg()"}, {"expr": "& format ! ( \"Built target VA with {} files, {} prompts\" , target_va . files ( ) . len ( ) , target_va . prompts ( ) . len ( ) )", "call": "opq_msg()"}, {"expr": "& format ! ( \"Read {} files from working directory\" , final_state . len ( ) )", "call": "opq_msg()"}, {"expr": "& format ! ( \"Merged VAs, result has {} files\" , merged_va . files ( ) . len ( ) )", "call": "opq_msg()"}, {"expr": "& format ! ( \"Generated INITIAL attributions for {} files, {} attestations, {} prompts\" , initial_attributions . files . len ( ) , authorship_log . attestations . len ( ) , authorship_log . metadata . prompts . len ( ) )", "call": "opq_msg()"}, {"expr": "& format ! ( \"\u2713 Wrote INITIAL attributions to working log for {}\" , target_commit_sha )", "call": "opq_msg()"}]'
pub fn reconstruct_working_log_after_reset(
    repo: &Repository,
    target_commit_sha: &str, // Where we reset TO
    old_head_sha: &str,      // Where HEAD was BEFORE reset
    _human_author: &str,
    user_pathspecs: Option<&[String]>, // Optional user-specified pathspecs for partial reset
) -> (r_: Result<(), GitAiError>)
//@     requires recon_pre(op(), target_commit_sha@, old_head_sha@, match user_pathspecs { Some(u) => Some(u@), None => None }),
//@     // every effect is pinned by the precondition of its stub: reset_working_log (may_clear), opq_write_initial, opq_delete_old
{
    debug_log(opq_msg());

    // Step 1: Get all files changed between target and old_head
    let all_changed_files =
        get_files_changed_between_commits(repo, target_commit_sha, old_head_sha)?;

    // Filter to user pathspecs if provided
    let pathspecs: Vec<String> = if let Some(user_paths) = user_pathspecs {
        opq_filter_user(all_changed_files, user_paths)
    } else {
        all_changed_files
    };

    // Get all commits in the range from old_head back to target (exclusive of target)
    // Uses git rev-list which safely handles the range without infinite walking
    let range = CommitRange::new_infer_refname(
        repo,
        target_commit_sha.to_string(),
        old_head_sha.to_string(),
        None,
    )?;
    let commits_in_range = range.all_commits();
    let mut pathspecs =
        filter_pathspecs_to_ai_touched_files(repo, &commits_in_range, &pathspecs)?;
//@ let ghost ai = pathspecs@; let ghost mut placed = false; let ghost mut cleared = false;
//@ let ghost oldh = old_head_sha@; let ghost ncps = log_cps_at(oldh, 0).len() as int;
//@ proof { assert(Some(ai) == carry_files(old_head_sha@, target_commit_sha@, user_of(op()))); }

    // The old HEAD's working log is deleted below, so every file with pending (uncommitted)
    // attribution in it has to be carried over as well, whether or not the unwound commits
    // touched it. (For pathspec resets the caller keeps the rest of that log itself.)
    if user_pathspecs.is_none() && repo.storage.has_working_log(old_head_sha) {
        let old_working_log = repo.storage.working_log_for_base_commit(old_head_sha);
        let mut pending_files: Vec<String> = opq_initial_files(&old_working_log);
        //@ proof { assert(collects(pending_files@, oldh, 0)); }
        for checkpoint in it_0: opq_read_cps_at(&old_working_log, Ghost(0int))
        //@     invariant it_0.snapshot@.remaining() == log_cps_at(oldh, 0), collects(pending_files@, oldh, it_0.index@),
        {
            //@ let ghost k = it_0.index@; let ghost v0 = pending_files@;
            //@ proof { assert(checkpoint == log_cps_at(oldh, 0)[k]); }
            opq_extend_entry_files(&mut pending_files, checkpoint.entries);
            //@ proof { lemma_collect_step(v0, pending_files@, oldh, k); }
        }
        opq_sort_names(&mut pending_files);
        //@ let ghost pf = pending_files@;
        //@ proof { assert(collects(pf, oldh, ncps)); }
        for file in it_1: pending_files
        //@     invariant
        //@         it_1.snapshot@.remaining() == pf, collects(pf, oldh, ncps), ncps == log_cps_at(oldh, 0).len(),
        //@         ext_ok(pathspecs@, ai, oldh), covered(pathspecs@, pf, it_1.index@),
        {
            //@ let ghost n = it_1.index@; let ghost cf0 = pathspecs@;
            //@ proof { assert(file == pf[n]); assert(has_name(pf, pf[n]@)); assert(pending_has(oldh, pf[n]@)); }
            if !opq_has_name(&pathspecs, &file) {
                pathspecs.push(file);
            }
            //@ proof { lemma_cover_step(cf0, pathspecs@, ai, pf, n, oldh); }
        }
        //@ proof { lemma_cover_all(pathspecs@, pf, oldh); assert(ext_ok(pathspecs@, ai, oldh) && pending_within(oldh, pathspecs@)); }
    }
//@ let ghost cf = pathspecs@;
//@ // C02 (was finding 1): every file with pending attribution in the old head's log is among the carried files - PROVED, no longer assumed
//@ proof { assert(carried_ok(cf, oldh, target_commit_sha@, user_of(op()))); }

    if pathspecs.is_empty() {
        debug_log("No files changed between commits, nothing to reconstruct");
        // Still delete old working log
        opq_delete_old(repo, old_head_sha, Ghost(placed), Ghost(cf))?;
        return Ok(());
    }

    debug_log(opq_msg());

    // Step 2: Build VirtualAttributions from old_head with working log applied
    // from_working_log_for_commit now runs blame (gets ALL prompts) AND applies working log
    let repo_clone = opq_repo_clone(repo);
    let old_head_clone = old_head_sha.to_string();
    let pathspecs_clone = opq_clone_paths(&pathspecs);

    let old_head_va = opq_va_old(repo_clone, old_head_clone, &pathspecs_clone, target_commit_sha)?;

    debug_log(opq_msg());

    // Step 3: Build VirtualAttributions from target_commit
    let repo_clone = opq_repo_clone(repo);
    let target_clone = target_commit_sha.to_string();
    let pathspecs_clone = opq_clone_paths(&pathspecs);

    let target_va = opq_va_target(repo_clone, target_clone, &pathspecs_clone, target_commit_sha)?;

    debug_log(opq_msg());

    // Step 4: Build final state from working directory
    use std::collections::HashMap;
    let mut final_state: FileMap = opq_map_new();

    let workdir = repo.workdir()?;
//@ let ghost wd = workdir@;
//@ proof { assert(is_wt(fm_view(final_state), wd, cf, 0)); }
    for file_path in it_2: &pathspecs
//@     invariant
//@         cf == pathspecs@, it_2.snapshot@.remaining().len() == cf.len(), forall|k: int| 0 <= k < cf.len() ==> *(#[trigger] it_2.snapshot@.remaining()[k]) == cf[k],
//@         workdir@ == wd, is_wt(fm_view(final_state), wd, cf, it_2.index@),
    {
//@ let ghost k = it_2.index@; let ghost m0 = fm_view(final_state);
//@ proof { assert(*file_path == cf[k]); }
        let abs_path = workdir.join(file_path);
        let content = if abs_path.exists() {
            opq_read_or_default(&abs_path)
        } else {
            opq_new_string()
        };
        final_state.insert(file_path.clone(), content);
//@ proof { lemma_wt_step(wd, cf, k, m0, fm_view(final_state)); }
    }

    debug_log(opq_msg());

    // Step 5: Merge VAs favoring old_head to preserve uncommitted AI changes
    // old_head (with working log) wins overlaps, target fills gaps
//@ let ghost fin = fm_view(final_state);
    let merged_va = crate::authorship::virtual_attribution::merge_attributions_favoring_first(
        old_head_va,
        target_va,
        final_state.clone(),
    )?;

    debug_log(opq_msg());

    // Step 6: Convert to INITIAL (everything is uncommitted after reset)
    // Pass same SHA for parent and commit to get empty diff (no committed hunks)
    // IMPORTANT: Pass pathspecs to limit diff to only changed files (major performance optimization)
    let pathspecs_set: StrSet = opq_to_set(&pathspecs);
    let (authorship_log, initial_attributions) = merged_va
        .to_authorship_log_and_initial_working_log(
            repo,
            target_commit_sha,
            target_commit_sha,
            Some(&pathspecs_set),
        )?;

    debug_log(opq_msg());

    // Step 7: Write INITIAL file
    let new_working_log = repo.storage.working_log_for_base_commit(target_commit_sha);
    new_working_log.reset_working_log()?;
//@ proof { cleared = true; }

    if !initial_attributions.files.is_empty() {
        opq_write_initial(&new_working_log, initial_attributions.files, initial_attributions.prompts, Ghost(cleared), Ghost(cf), Ghost(fin))?;
    }
//@ proof { placed = true; }

    // Delete old working log
    opq_delete_old(repo, old_head_sha, Ghost(placed), Ghost(cf))?;

    debug_log(opq_msg());

    Ok(())
}
//#end

// ---------------------------------------------------------------- the handlers
//#item file=src/commands/hooks/reset_hooks.rs kind=fn name=handle_reset_hard opaque='[{"expr": "& format ! ( \"Reset --hard: deleted working log for {}\" , old_head_sha )", "call": "opq_msg()"}]'
fn handle_reset_hard(repository: &Repository, old_head_sha: &str, _target_commit_sha: &str)
//@     requires decide(op()) == Action::DropPending, op().old == Some(old_head_sha@),
//@     // the only effect: delete_working_log_for_base_commit(old) (may_drop); nothing is written for any head
{
    // Delete working log for old HEAD - all uncommitted work is gone
    let _ = repository
        .storage
        .delete_working_log_for_base_commit(old_head_sha);

    debug_log(opq_msg());
}
//#end
//#item file=src/commands/hooks/reset_hooks.rs kind=fn name=handle_reset_preserve_working_dir opaque='[{"expr": "new_head_sha != target_commit_sha", "call": "!opq_str_eq(new_head_sha, target_commit_sha)"}, {"expr": "old_head_sha == target_commit_sha", "call": "opq_str_eq(old_head_sha, target_commit_sha)"}, {"expr": "& format ! ( \"Warning: new HEAD ({}) != target commit ({})\" , new_head_sha , target_commit_sha )", "call": "opq_msg()"}, {"expr": "& format ! ( \"\u2713 Successfully reconstructed working log after reset to {}\" , target_commit_sha )", "call": "opq_msg()"}, {"expr": "& format ! ( \"Failed to reconstruct working log after reset: {}\" , e )", "call": "opq_msg()"}]'
fn handle_reset_preserve_working_dir(
    repository: &Repository,
    old_head_sha: &str,
    target_commit_sha: &str,
    new_head_sha: &str,
    human_author: &str,
)
//@     requires decide(op()) == Action::Carry, op().old == Some(old_head_sha@), op().target == Some(target_commit_sha@),
{
    // Sanity check: new HEAD should equal target after reset
    if !opq_str_eq(new_head_sha, target_commit_sha) {
        debug_log(opq_msg());
    }

    // No-op if resetting to same commit
    if opq_str_eq(old_head_sha, target_commit_sha) {
        debug_log("Reset to same commit, no authorship changes needed");
        return;
    }

    // Check direction: are we resetting backward or forward?
    let is_backward = is_ancestor(repository, target_commit_sha, old_head_sha);

    if !is_backward {
        // Forward reset or unrelated history - treat as no-op for authorship
        // The commits we're "gaining" already have their authorship logs
        debug_log("Reset forward or to unrelated commit, no reconstruction needed");

        // Still need to delete old working log since the base commit changed
        let _ = repository
            .storage
            .delete_working_log_for_base_commit(old_head_sha);

        return;
    }

    // Backward reset: need to reconstruct working log
    match crate::authorship::rebase_authorship::reconstruct_working_log_after_reset(
        repository,
        target_commit_sha,
        old_head_sha,
        human_author,
        None, // No user-specified pathspecs for regular resets
    ) {
        Ok(_) => {
            debug_log(opq_msg());
        }
        Err(e) => {
            debug_log(opq_msg());
        }
    }
}
//#end
//#item file=src/commands/hooks/reset_hooks.rs kind=fn name=handle_reset_pathspec_preserve_working_dir opaque='[{"expr": "target_commit_sha == old_head_sha", "call": "opq_str_eq(target_commit_sha, old_head_sha)"}, {"expr": "old_head_sha != new_head_sha", "call": "!opq_str_eq(old_head_sha, new_head_sha)"}, {"expr": "target_commit_sha != new_head_sha", "call": "!opq_str_eq(target_commit_sha, new_head_sha)"}, {"expr": "working_log.read_all_checkpoints().unwrap_or_default()", "call": "opq_read_cps_at(&working_log, Ghost(0int))"}, {"expr": "target_working_log .read_all_checkpoints() .unwrap_or_default()", "call": "opq_read_cps_at(&target_working_log, Ghost(1int))"}, {"expr": "checkpoint.entries.retain(|entry| { !pathspecs.iter().any(|pathspec| { entry.file == *pathspec || (pathspec.ends_with(\u0027/\u0027) && entry.file.starts_with(pathspec)) || entry.file.starts_with(&format!(\"{}/\", pathspec)) }) })", "call": "opq_retain_unselected(&mut checkpoint.entries, pathspecs)"}, {"expr": "merged_checkpoints.extend(pathspec_checkpoints)", "call": "opq_extend_cps(&mut merged_checkpoints, pathspec_checkpoints)"}, {"expr": "head_working_log.append_checkpoint(&checkpoint)", "call": "opq_append_cp(&head_working_log, &checkpoint, Ghost(kept_g), Ghost(appended))"}, {"expr": "repository .storage .delete_working_log_for_base_commit(target_commit_sha)", "call": "opq_delete_temp(repository, target_commit_sha, Ghost(rewritten))"}, {"expr": "& format ! ( \"Handling pathspec reset: old_head={}, target={}, pathspecs={:?}\" , old_head_sha , target_commit_sha , pathspecs )", "call": "opq_msg()"}, {"expr": "& format ! ( \"Warning: pathspec reset but HEAD moved from {} to {}\" , old_head_sha , new_head_sha )", "call": "opq_msg()"}, {"expr": "& format ! ( \"\u2713 Reconstructed working log for pathspec reset: {:?}\" , pathspecs )", "call": "opq_msg()"}, {"expr": "& format ! ( \"Failed to reconstruct working log for pathspec reset: {}\" , e )", "call": "opq_msg()"}, {"expr": "& format ! ( \"\u2713 Updated working log for pathspec reset: {} pathspec checkpoints, {} non-pathspec checkpoints preserved\" , pathspec_count , non_pathspec_count )", "call": "opq_msg()"}]'
fn handle_reset_pathspec_preserve_working_dir(
    repository: &Repository,
    old_head_sha: &str,
    target_commit_sha: &str,
    new_head_sha: &str, // Should equal old_head_sha for pathspec resets
    human_author: &str,
    pathspecs: &[String],
)
//@     // a pathspec reset whose target is the old head (Unstage) has NO effect; the effect stubs below all demand CarryPaths
//@     requires decide(op()) == Action::CarryPaths || decide(op()) == Action::Unstage, op().old == Some(old_head_sha@), op().target == Some(target_commit_sha@), op().new == Some(new_head_sha@), pathspecs@ == op().paths,
{
    debug_log(opq_msg());

    // For pathspec resets, HEAD doesn't move
    if !opq_str_eq(old_head_sha, new_head_sha) {
        debug_log(opq_msg());
    }

    // Resetting paths to HEAD itself (`git reset -- <paths>`, `git reset HEAD <paths>`) only
    // unstages them: neither the history nor the working tree changes, so the pending
    // attribution of those files stays exactly as it is.
    if opq_str_eq(target_commit_sha, old_head_sha) {
        debug_log("Pathspec reset to HEAD only unstages, working log left untouched");
        return;
    }

    // For pathspec resets, HEAD doesn't move, so we're reconstructing for the current HEAD
    // but only for the specified pathspecs

    // Check if this is a backward reset
    let is_backward = is_ancestor(repository, target_commit_sha, old_head_sha);

    if !is_backward {
        debug_log("Pathspec reset forward or to unrelated commit, no reconstruction needed");
        return;
    }

    // Backup existing working log for HEAD (non-pathspec files)
    let working_log = repository.storage.working_log_for_base_commit(old_head_sha);
    let existing_checkpoints = opq_read_cps_at(&working_log, Ghost(0int));

    // Filter existing checkpoints to keep only non-pathspec files
//@ let ghost ex = existing_checkpoints@; let ghost paths = pathspecs@;
    let mut non_pathspec_checkpoints = Vec::new();
    for mut checkpoint in it_0: existing_checkpoints
//@     invariant it_0.snapshot@.remaining() == ex, paths == pathspecs@, kept_rel(non_pathspec_checkpoints@, ex.take(it_0.index@), paths),
    {
//@ let ghost k = it_0.index@; let ghost c0 = checkpoint; let ghost out0 = non_pathspec_checkpoints@;
//@ proof { assert(c0 == ex[k]); }
        opq_retain_unselected(&mut checkpoint.entries, pathspecs);
        if !checkpoint.entries.is_empty() {
            non_pathspec_checkpoints.push(checkpoint);
        }
//@ proof { lemma_kept_step(out0, non_pathspec_checkpoints@, ex, k, checkpoint, paths); }
    }
//@ proof { assert(ex.take(ex.len() as int) =~= ex); }
//@ let ghost kept_g = non_pathspec_checkpoints@;

    // Reconstruct working log for pathspec files only
    // Pass pathspecs to limit reconstruction to only those files
    match crate::authorship::rebase_authorship::reconstruct_working_log_after_reset(
        repository,
        target_commit_sha,
        old_head_sha,
        human_author,
        Some(pathspecs), // Pass pathspecs to limit reconstruction
    ) {
        Ok(_) => {
            debug_log(opq_msg());
        }
        Err(e) => {
            debug_log(opq_msg());
            return;
        }
    }

    // Read the newly created working log for target_commit_sha
    let target_working_log = repository
        .storage
        .working_log_for_base_commit(target_commit_sha);
    let pathspec_checkpoints = opq_read_cps_at(&target_working_log, Ghost(1int));

    // Merge the two sets of checkpoints: non-pathspec from old + pathspec from new
//@ let ghost pc = pathspec_checkpoints@;
    let pathspec_count = pathspec_checkpoints.len();
    let non_pathspec_count = non_pathspec_checkpoints.len();
    let mut merged_checkpoints = non_pathspec_checkpoints;
    opq_extend_cps(&mut merged_checkpoints, pathspec_checkpoints);

    // Save merged working log for HEAD (which hasn't moved)
    let head_working_log = repository.storage.working_log_for_base_commit(new_head_sha);
    let _ = head_working_log.reset_working_log();
//@ let ghost all = merged_checkpoints@; let ghost mut appended: int = 0; let ghost mut rewritten = false;
    for checkpoint in it_1: merged_checkpoints
//@     invariant
//@         it_1.snapshot@.remaining() == all, all == kept_g + pc, appended == it_1.index@,
//@         decide(op()) == Action::CarryPaths, back(op()), Some(wl_head(head_working_log)) == op().new,
//@         kept_rel(kept_g, log_cps_at(op().old.unwrap(), 0), op().paths), pc == log_cps_at(op().target.unwrap(), 1),
    {
//@ proof { assert(checkpoint == all[appended]); }
        let _ = opq_append_cp(&head_working_log, &checkpoint, Ghost(kept_g), Ghost(appended));
//@ proof { appended = appended + 1; }
    }
//@ // everything kept and everything the reconstruction left has been written back, in this order
//@ assert(appended == kept_g.len() + pc.len());
//@ proof { rewritten = true; }

    // Clean up the temporary working log for target_commit_sha (unless it's the same as HEAD)
    if !opq_str_eq(target_commit_sha, new_head_sha) {
        let _ = opq_delete_temp(repository, target_commit_sha, Ghost(rewritten));
    }

    debug_log(opq_msg());
}
//#end

// ---------------------------------------------------------------- the entry point: which handler for which reset
//#item file=src/commands/hooks/reset_hooks.rs kind=fn name=post_reset_hook opaque='[{"expr": "std::process::ExitStatus", "call": "ExitStatusT"}, {"expr": "extract_pathspecs(parsed_args).unwrap_or_else(|e| { debug_log(&format!(\"Failed to extract pathspecs: {}\", e)); Vec::new() })", "call": "opq_or_empty(extract_pathspecs(parsed_args))"}, {"expr": "debug_log(&format!( \"Reset: tree-ish=\u0027{}\u0027, pathspecs={:?}\", tree_ish, pathspecs ))", "call": "debug_log(opq_msg())"}, {"expr": "repository.head().ok().and_then(|h| h.target().ok())", "call": "opq_head_target(repository)"}, {"expr": "new_head_sha.to_string()", "call": "opq_string_copy(&new_head_sha)"}, {"expr": "old_head_sha.to_string()", "call": "opq_string_copy(&old_head_sha)"}, {"expr": "& format ! ( \"Warning: No pre-resolved target commit, attempting post-reset resolution of \u0027{}\u0027\" , tree_ish )", "call": "opq_msg()"}, {"expr": "& format ! ( \"Failed to resolve tree-ish \u0027{}\u0027: {}\" , tree_ish , e )", "call": "opq_msg()"}]'
pub fn post_reset_hook(
    parsed_args: &ParsedGitInvocation,
    repository: &mut Repository,
    exit_status: ExitStatusT,
)
//@     requires describes(*parsed_args, *old(repository), exit_status, op()),
//@     // which handler runs is pinned by the handlers' preconditions; that nothing else happens by those of the effect stubs
{
    if !exit_status.success() {
        debug_log("Reset failed, skipping authorship handling");
        return;
    }

    // Extract tree-ish (what we're resetting TO)
    let tree_ish = extract_tree_ish(parsed_args);

    // Extract pathspecs
    let pathspecs = opq_or_empty(extract_pathspecs(parsed_args));

    debug_log(opq_msg());

    // Get old HEAD (before reset) from pre-command hook
    let old_head_sha = match &repository.pre_command_base_commit {
        Some(sha) => sha.clone(),
        None => {
            debug_log("No pre-command head captured, skipping authorship handling");
            return;
        }
    };

    // Get new HEAD (after reset)
    let new_head_sha = match opq_head_target(repository) {
        Some(sha) => sha,
        None => {
            debug_log("No HEAD after reset, skipping authorship handling");
            return;
        }
    };

    // Use pre-resolved target commit from pre-reset hook
    // This is critical because relative refs like HEAD~1 resolve differently after the reset
    let target_commit_sha = match &repository.pre_reset_target_commit {
        Some(sha) => sha.clone(),
        None => {
            // Fallback to resolving tree-ish post-reset (for backwards compatibility)
            // This will be incorrect for relative refs but better than failing
            debug_log(opq_msg());
            match resolve_tree_ish_to_commit(repository, &tree_ish) {
                Ok(sha) => sha,
                Err(e) => {
                    debug_log(opq_msg());
                    return;
                }
            }
        }
    };

    // Get human author
    let human_author = commit_hooks::get_commit_default_author(repository, &[]);

    // Determine reset kind
    let reset_kind = if parsed_args.has_command_flag("--hard") {
        crate::git::rewrite_log::ResetKind::Hard
    } else if parsed_args.has_command_flag("--soft") {
        crate::git::rewrite_log::ResetKind::Soft
    } else {
        // --mixed is default, or explicit --mixed, --merge, or no mode flag
        crate::git::rewrite_log::ResetKind::Mixed
    };

    let keep = parsed_args.has_command_flag("--keep");
    let merge = parsed_args.has_command_flag("--merge");

    // Handle different reset modes
    // Note: Git does not allow --soft or --hard with pathspecs
    if reset_kind == ResetKind::Hard {
        handle_reset_hard(repository, &old_head_sha, &target_commit_sha);
    } else if reset_kind == ResetKind::Soft
        || reset_kind == ResetKind::Mixed
        || merge
        || !has_reset_mode_flag(parsed_args)
    // default is --mixed
    {
        if !pathspecs.is_empty() {
            // Pathspec reset: HEAD doesn't move, but specific files are reset
            handle_reset_pathspec_preserve_working_dir(
                repository,
                &old_head_sha,
                &target_commit_sha,
                &new_head_sha,
                &human_author,
                &pathspecs,
            );
        } else {
            // Regular reset: HEAD moves
            handle_reset_preserve_working_dir(
                repository,
                &old_head_sha,
                &target_commit_sha,
                &new_head_sha,
                &human_author,
            );
        }
    }

    // Log reset event
    let _ =
        repository
            .storage
            .append_rewrite_event(crate::git::rewrite_log::RewriteLogEvent::Reset {
                reset: crate::git::rewrite_log::ResetEvent::new(
                    reset_kind,
                    keep,
                    merge,
                    opq_string_copy(&new_head_sha),
                    opq_string_copy(&old_head_sha),
                ),
            });
}
//#end

} // verus!
fn main() {}
