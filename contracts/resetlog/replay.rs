// Replay driver for unit resetlog: the ORIGINAL post_reset_hook / handle_reset_* / reconstruct_working_log_after_reset / is_ancestor /
// get_files_changed_between_commits run against a stand-in repository: a five-commit history (c0 <- c1 <- c2 <- c3, s1 <- c0), a table
// of changed / AI-touched files, working logs held in memory (every effect is recorded in a trace) and symbolic VirtualAttributions
// (a VA is the text naming how it was built).  The working tree is a real scratch directory (the original text uses Path::exists /
// fs::read_to_string).
// Oracle, written from the property (not from the code): what may happen to which working log for which reset; see `check`.
// RESETLOG_STRICT=1 also reports the remaining recorded deviation (REPORT.md finding 2b: a pathspec reset to an OLDER commit drops the named
// files' pending attribution) and observation 4, which the sweep otherwise skips.  Findings 1 and 2a are repaired in /repo and REQUIRED here.
#![allow(dead_code, unused)]
use std::collections::{BTreeMap, BTreeSet, HashMap, HashSet};
use std::cell::RefCell;
use std::path::PathBuf;
#[derive(Debug)]
pub enum GitAiError { Generic(String) }
impl std::fmt::Display for GitAiError { fn fmt(&self, f: &mut std::fmt::Formatter) -> std::fmt::Result { write!(f, "{:?}", self) } }

// ---------------------------------------------------------------- the world
#[derive(Clone, Debug, PartialEq)] pub struct WorkingLogEntry { pub file: String, pub tag: u32 }
#[derive(Clone, Debug, PartialEq, Default)] pub struct Checkpoint { pub entries: Vec<WorkingLogEntry>, pub id: u32 }
#[derive(Clone, Debug, PartialEq, Default)] pub struct Log { pub cps: Vec<Checkpoint>, pub initial: Option<String>, pub ifiles: Vec<String> }   // initial: what the INITIAL file holds (symbolic), ifiles: the files it names
#[derive(Clone, Debug, PartialEq)] pub enum Eff { Delete(String), Clear(String), WriteInitial(String, String), Append(String, Checkpoint), Event(String) }
#[derive(Default)]
pub struct World {
    logs: BTreeMap<String, Log>, trace: Vec<Eff>,
    changed: Vec<String>, touched: BTreeMap<String, Vec<String>>, head_after: Option<String>, resolve: Option<String>,
    init_empty: bool, fail_at: Option<usize>, calls: usize, bad_query: Option<String>, root: PathBuf,
}
thread_local! { static W: RefCell<World> = Default::default(); }
fn w<T>(f: impl FnOnce(&mut World) -> T) -> T { W.with(|x| f(&mut x.borrow_mut())) }
/// every fallible stand-in passes here: the n-th call fails when the case says so
fn fallible() -> Result<(), GitAiError> { w(|x| { x.calls += 1; if Some(x.calls) == x.fail_at { Err(GitAiError::Generic("injected".into())) } else { Ok(()) } }) }
fn parent(c: &str) -> Option<&'static str> { match c { "c1" => Some("c0"), "c2" => Some("c1"), "c3" => Some("c2"), "s1" => Some("c0"), _ => None } }
fn known(c: &str) -> bool { matches!(c, "c0" | "c1" | "c2" | "c3" | "s1") }
/// a is d or an ancestor of d
fn anc(a: &str, d: &str) -> bool { let mut x = Some(d); while let Some(c) = x { if c == a { return true; } x = parent(c); } false }
/// the commits of start..end, newest first
fn range(start: &str, end: &str) -> Vec<String> { let mut v = vec![]; let mut x = Some(end); while let Some(c) = x { if anc(c, start) { break; } v.push(c.to_string()); x = parent(c); } v }

pub fn debug_log(_s: &str) {}
fn sorted(v: &[String]) -> String { let mut v = v.to_vec(); v.sort(); v.join(",") }
pub struct Output { pub stdout: Vec<u8> }
pub mod git {
    pub mod rewrite_log { pub use crate::{ResetKind, ResetEvent, RewriteLogEvent}; }
    pub mod repository {
        /// the only git command of the unit: `<global args> merge-base --is-ancestor <a> <d>`
        pub fn exec_git(args: &[String]) -> Result<crate::Output, crate::GitAiError> {
            let g = crate::Repository::gargs();
            let ok = args.len() == g.len() + 4 && args[..g.len()] == g[..] && args[g.len()] == "merge-base" && args[g.len() + 1] == "--is-ancestor" && crate::known(&args[g.len() + 2]) && crate::known(&args[g.len() + 3]);
            if !ok { crate::w(|x| x.bad_query = Some(format!("{:?}", args))); return Err(crate::GitAiError::Generic("usage".into())); }
            if crate::anc(&args[g.len() + 2], &args[g.len() + 3]) { Ok(crate::Output { stdout: vec![] }) } else { Err(crate::GitAiError::Generic("exit 1".into())) }
        }
    }
}
pub mod authorship {
    pub mod rebase_authorship { pub use crate::reconstruct_working_log_after_reset; }
    pub mod virtual_attribution { pub use crate::{VirtualAttributions, merge_attributions_favoring_first}; }
}
pub mod smol {
    pub fn block_on<F: std::future::Future>(f: F) -> F::Output {
        let mut f = std::pin::pin!(f); let mut cx = std::task::Context::from_waker(std::task::Waker::noop());
        match f.as_mut().poll(&mut cx) { std::task::Poll::Ready(v) => v, std::task::Poll::Pending => panic!("stand-in future pending") }
    }
}
pub mod commit_hooks { pub fn get_commit_default_author(_r: &crate::Repository, _a: &[String]) -> String { "T <t@e.x>".to_string() } }
pub enum RewriteLogEvent { Reset { reset: ResetEvent } }
#[derive(Clone)] pub struct RepoStorage;
#[derive(Clone)] pub struct Repository { pub storage: RepoStorage, pub pre_command_base_commit: Option<String>, pub pre_reset_target_commit: Option<String> }
pub struct Head;
impl Head { pub fn target(&self) -> Result<String, GitAiError> { w(|x| x.head_after.clone()).ok_or(GitAiError::Generic("unborn".into())) } }
impl Repository {
    pub fn gargs() -> Vec<String> { vec!["-C".to_string(), "/r".to_string()] }
    pub fn global_args_for_exec(&self) -> Vec<String> { Self::gargs() }
    pub fn head(&self) -> Result<Head, GitAiError> { Ok(Head) }
    pub fn workdir(&self) -> Result<PathBuf, GitAiError> { fallible()?; Ok(w(|x| x.root.clone())) }
    pub fn diff_changed_files(&self, from: &str, to: &str) -> Result<Vec<String>, GitAiError> { fallible()?; Ok(w(|x| x.changed.clone())) }
}
pub struct CommitRange { s: String, e: String }
impl CommitRange {
    pub fn new_infer_refname(_r: &Repository, s: String, e: String, _n: Option<String>) -> Result<Self, GitAiError> { fallible()?; Ok(CommitRange { s, e }) }
    pub fn all_commits(&self) -> Vec<String> { range(&self.s, &self.e) }
}
pub fn filter_pathspecs_to_ai_touched_files(_r: &Repository, commits: &[String], pathspecs: &[String]) -> Result<Vec<String>, GitAiError> {
    fallible()?;
    Ok(w(|x| pathspecs.iter().filter(|p| commits.iter().any(|c| x.touched.get(c).map_or(false, |v| v.contains(p)))).cloned().collect()))
}
#[derive(Clone, Debug)] pub struct VirtualAttributions(pub String);
pub struct Meta { pub prompts: Vec<u8> }
pub struct AuthorshipLog { pub attestations: Vec<u8>, pub metadata: Meta }
pub struct InitialAttributions { pub files: HashMap<String, String>, pub prompts: HashMap<String, String> }
impl VirtualAttributions {
    pub async fn from_working_log_for_commit(_r: Repository, base: String, pathspecs: &[String], human: Option<String>, stop: Option<String>) -> Result<Self, GitAiError> {
        fallible()?; Ok(VirtualAttributions(format!("notes+pending(head={};files={};human={:?};stop={:?})", base, sorted(pathspecs), human, stop)))
    }
    pub async fn new_for_base_commit(_r: Repository, base: String, pathspecs: &[String], stop: Option<String>) -> Result<Self, GitAiError> {
        fallible()?; Ok(VirtualAttributions(format!("committed(head={};files={};stop={:?})", base, sorted(pathspecs), stop)))
    }
    pub fn files(&self) -> Vec<String> { vec![] }
    pub fn prompts(&self) -> Vec<String> { vec![] }
    pub fn to_authorship_log_and_initial_working_log(&self, _r: &Repository, parent: &str, commit: &str, pathspecs: Option<&HashSet<String>>) -> Result<(AuthorshipLog, InitialAttributions), GitAiError> {
        fallible()?;
        let mut ps: Vec<String> = pathspecs.map(|s| s.iter().cloned().collect()).unwrap_or_else(|| vec!["*".to_string()]); ps.sort();
        let mut files = HashMap::new();
        if !w(|x| x.init_empty) { files.insert("desc".to_string(), format!("initial(of={};parent={};commit={};files={})", self.0, parent, commit, ps.join(","))); }
        Ok((AuthorshipLog { attestations: vec![], metadata: Meta { prompts: vec![] } }, InitialAttributions { files, prompts: HashMap::new() }))
    }
}
pub fn merge_attributions_favoring_first(a: VirtualAttributions, b: VirtualAttributions, fin: HashMap<String, String>) -> Result<VirtualAttributions, GitAiError> {
    fallible()?;
    let mut f: Vec<String> = fin.iter().map(|(k, v)| format!("{}={}", k, v)).collect(); f.sort();
    Ok(VirtualAttributions(format!("merge(first={};second={};text={})", a.0, b.0, f.join(","))))
}
pub struct PersistedWorkingLog { sha: String }
impl RepoStorage {
    pub fn working_log_for_base_commit(&self, sha: &str) -> PersistedWorkingLog { PersistedWorkingLog { sha: sha.to_string() } }
    pub fn has_working_log(&self, sha: &str) -> bool { w(|x| x.logs.contains_key(sha)) }
    pub fn delete_working_log_for_base_commit(&self, sha: &str) -> Result<(), GitAiError> { fallible()?; w(|x| { x.trace.push(Eff::Delete(sha.to_string())); x.logs.remove(sha); }); Ok(()) }
    pub fn append_rewrite_event(&self, e: RewriteLogEvent) -> Result<Vec<RewriteLogEvent>, GitAiError> {
        let RewriteLogEvent::Reset { reset } = e;
        w(|x| x.trace.push(Eff::Event(format!("{:?};keep={};merge={};new={};old={}", reset.kind, reset.keep, reset.merge, reset.new_head_sha, reset.old_head_sha)))); Ok(vec![])
    }
}
impl PersistedWorkingLog {
    pub fn reset_working_log(&self) -> Result<(), GitAiError> { fallible()?; w(|x| { x.trace.push(Eff::Clear(self.sha.clone())); x.logs.insert(self.sha.clone(), Log::default()); }); Ok(()) }
    pub fn write_initial_attributions(&self, files: HashMap<String, String>, _p: HashMap<String, String>) -> Result<(), GitAiError> {
        fallible()?; let d = files.get("desc").cloned().unwrap_or_default();
        w(|x| { x.trace.push(Eff::WriteInitial(self.sha.clone(), d.clone())); let l = x.logs.entry(self.sha.clone()).or_default(); l.initial = Some(d); l.ifiles = vec![]; }); Ok(())
    }
    pub fn read_initial_attributions(&self) -> InitialAttributions { InitialAttributions { files: w(|x| x.logs.get(&self.sha).map(|l| l.ifiles.iter().map(|f| (f.clone(), String::new())).collect()).unwrap_or_default()), prompts: HashMap::new() } }
    pub fn read_all_checkpoints(&self) -> Result<Vec<Checkpoint>, GitAiError> { Ok(w(|x| x.logs.get(&self.sha).map(|l| l.cps.clone()).unwrap_or_default())) }
    pub fn append_checkpoint(&self, c: &Checkpoint) -> Result<(), GitAiError> { fallible()?; w(|x| { x.trace.push(Eff::Append(self.sha.clone(), c.clone())); x.logs.entry(self.sha.clone()).or_default().cps.push(c.clone()); }); Ok(()) }
}
/// the argument readers are under contract in unit hookargs: here the invocation carries their results
pub struct ParsedGitInvocation { pub flags: Vec<String>, pub tree_ish: String, pub paths: Option<Vec<String>> }
impl ParsedGitInvocation { pub fn has_command_flag(&self, f: &str) -> bool { self.flags.iter().any(|x| x == f) } }
fn extract_tree_ish(p: &ParsedGitInvocation) -> String { p.tree_ish.clone() }
fn extract_pathspecs(p: &ParsedGitInvocation) -> Result<Vec<String>, std::io::Error> { p.paths.clone().ok_or(std::io::Error::new(std::io::ErrorKind::NotFound, "pathspec file")) }
fn has_reset_mode_flag(p: &ParsedGitInvocation) -> bool { ["--hard", "--soft", "--mixed", "--merge", "--keep"].iter().any(|f| p.has_command_flag(f)) }
fn resolve_tree_ish_to_commit(_r: &Repository, _t: &str) -> Result<String, GitAiError> { w(|x| x.resolve.clone()).ok_or(GitAiError::Generic("bad revision".into())) }
include!("@ITEMS@");

// ---------------------------------------------------------------- harness
use std::panic::{catch_unwind, AssertUnwindSafe};
struct Ctx { evaluated: u64, failed: std::collections::HashSet<String>, only: String, strict: bool }
impl Ctx {
    fn fail(&mut self, f: &str, clause: &str, input: String, observed: String, expected: String) {
        if self.only != "*" && self.only != f { return; }
        if self.failed.insert(format!("{}::{}", f, clause)) { println!("FAIL fn=[[{}]] clause=[[{}]] input=[[{}]] observed=[[{}]] expected=[[{}]]", f, clause, input, observed, expected); }
    }
}
fn guarded<T>(f: impl FnOnce() -> T) -> Result<T, String> {
    catch_unwind(AssertUnwindSafe(f)).map_err(|e| { let m = e.downcast_ref::<String>().cloned().or_else(|| e.downcast_ref::<&str>().map(|s| s.to_string())).unwrap_or_default(); format!("panic: {}", m) })
}
struct Rng(u64);
impl Rng { fn next(&mut self) -> u64 { self.0 ^= self.0 << 13; self.0 ^= self.0 >> 7; self.0 ^= self.0 << 17; self.0 } fn below(&mut self, n: u64) -> u64 { self.next() % n } }

const FILES: [&str; 5] = ["a.txt", "b.txt", "dir/x", "dir/y", "dir2/z"];     // a.txt, dir/x exist in the scratch working tree; the others do not
#[derive(Clone, Debug)]
struct Case {
    ok: bool, flags: Vec<String>, paths: Option<Vec<String>>, old: Option<String>, new: Option<String>, pre: Option<String>, res: Option<String>,
    changed: Vec<String>, touched: BTreeMap<String, Vec<String>>, logs: BTreeMap<String, Log>, init_empty: bool, fail_at: Option<usize>,
}
fn opt(s: &Option<String>) -> String { s.clone().unwrap_or("-".into()) }
fn unopt(s: &str) -> Option<String> { if s == "-" { None } else { Some(s.to_string()) } }
fn list(s: &str) -> Vec<String> { if s.is_empty() { vec![] } else { s.split(',').map(|x| x.to_string()).collect() } }
impl Case {
    fn enc(&self) -> String {
        let logs: Vec<String> = self.logs.iter().map(|(k, l)| format!("{}:{}:{}", k, match &l.initial { Some(d) => format!("{}!{}", d, l.ifiles.join("+")), None => "-".into() }, l.cps.iter().map(|c| format!("{}={}", c.id, c.entries.iter().map(|e| format!("{}@{}", e.file, e.tag)).collect::<Vec<_>>().join("+"))).collect::<Vec<_>>().join("^"))).collect();
        let touched: Vec<String> = self.touched.iter().map(|(k, v)| format!("{}:{}", k, v.join("+"))).collect();
        format!("ok={};flags={};paths={};old={};new={};pre={};res={};chg={};touch={};logs={};ie={};fail={}", self.ok as u8, self.flags.join(","), match &self.paths { Some(p) => p.join(","), None => "!".into() },
            opt(&self.old), opt(&self.new), opt(&self.pre), opt(&self.res), self.changed.join(","), touched.join("~"), logs.join("~"), self.init_empty as u8, self.fail_at.map_or("-".to_string(), |n| n.to_string()))
    }
    fn dec(s: &str) -> Case {
        let m: HashMap<&str, &str> = s.split(';').filter_map(|kv| kv.split_once('=')).collect();
        let g = |k: &str| m.get(k).copied().unwrap_or("");
        let mut logs = BTreeMap::new();
        for l in g("logs").split('~').filter(|x| !x.is_empty()) {
            let p: Vec<&str> = l.splitn(3, ':').collect();
            let cps = p[2].split('^').filter(|x| !x.is_empty()).map(|c| { let (id, es) = c.split_once('=').unwrap(); Checkpoint { id: id.parse().unwrap(), entries: es.split('+').filter(|x| !x.is_empty()).map(|e| { let (f, t) = e.rsplit_once('@').unwrap(); WorkingLogEntry { file: f.to_string(), tag: t.parse().unwrap() } }).collect() } }).collect();
            let (initial, ifiles) = match p[1].split_once('!') { Some((d, fs)) => (Some(d.to_string()), fs.split('+').filter(|x| !x.is_empty()).map(|x| x.to_string()).collect()), None => (unopt(p[1]), vec![]) };
            logs.insert(p[0].to_string(), Log { cps, initial, ifiles });
        }
        let mut touched = BTreeMap::new();
        for t in g("touch").split('~').filter(|x| !x.is_empty()) { let (k, v) = t.split_once(':').unwrap(); touched.insert(k.to_string(), v.split('+').filter(|x| !x.is_empty()).map(|x| x.to_string()).collect()); }
        Case { ok: g("ok") == "1", flags: list(g("flags")), paths: if g("paths") == "!" { None } else { Some(list(g("paths"))) }, old: unopt(g("old")), new: unopt(g("new")), pre: unopt(g("pre")), res: unopt(g("res")),
            changed: list(g("chg")), touched, logs, init_empty: g("ie") == "1", fail_at: g("fail").parse().ok() }
    }
}
/// the pathspec reading of gitglossary: the path itself, or anything under it taken as a directory
fn named(paths: &[String], f: &str) -> bool { paths.iter().any(|p| f == p || f.starts_with(&format!("{}/", p.trim_end_matches('/')))) }
fn flat(l: Option<&Log>, keep: impl Fn(&str) -> bool) -> Vec<(u32, String, u32)> { l.map(|l| l.cps.iter().flat_map(|c| c.entries.iter().filter(|e| keep(&e.file)).map(move |e| (c.id, e.file.clone(), e.tag))).collect()).unwrap_or_default() }
fn norm(l: Option<&Log>) -> Log { l.cloned().unwrap_or_default() }

fn check(c: &mut Ctx, case: &Case) {
    c.evaluated += 1;
    let input = case.enc();
    let root = scratch_root();
    w(|x| { *x = World { logs: case.logs.clone(), changed: case.changed.clone(), touched: case.touched.clone(), head_after: case.new.clone(), resolve: case.res.clone(), init_empty: case.init_empty, fail_at: case.fail_at, root: root.clone(), ..Default::default() }; });
    let pa = ParsedGitInvocation { flags: case.flags.clone(), tree_ish: "TREEISH".into(), paths: case.paths.clone() };
    let mut repo = Repository { storage: RepoStorage, pre_command_base_commit: case.old.clone(), pre_reset_target_commit: case.pre.clone() };
    let status = <std::process::ExitStatus as std::os::unix::process::ExitStatusExt>::from_raw(if case.ok { 0 } else { 1 << 8 });
    let r = guarded(|| post_reset_hook(&pa, &mut repo, status));
    if let Err(p) = r { c.fail("post_reset_hook", "safety", input, p, "no panic".into()); return; }
    let (trace, after, calls, bad) = w(|x| (x.trace.clone(), x.logs.clone(), x.calls, x.bad_query.clone()));
    if let Some(q) = bad { c.fail("is_ancestor", "pre@exec_git#0", input.clone(), q, "<global args> merge-base --is-ancestor <commit> <commit>".into()); }
    let failed_inside = case.fail_at.map_or(false, |n| n <= calls);
    let log_effects: Vec<&Eff> = trace.iter().filter(|e| !matches!(e, Eff::Event(_))).collect();
    let events: Vec<&Eff> = trace.iter().filter(|e| matches!(e, Eff::Event(_))).collect();
    let has = |f: &str| case.flags.iter().any(|x| x == f);
    let target = case.pre.clone().or(case.res.clone());
    // ---- nothing known / failed reset: C02 "leaves every existing note and all pending attribution exactly as it was"
    if !case.ok || case.old.is_none() || case.new.is_none() || target.is_none() {
        if !trace.is_empty() { c.fail("post_reset_hook", "nothing-on-failure", input, format!("{:?}", trace), "no effect at all".into()); }
        return;
    }
    let (old, new, target) = (case.old.clone().unwrap(), case.new.clone().unwrap(), target.unwrap());
    let paths = case.paths.clone().unwrap_or_default();
    // ---- the rewrite-log event
    let kind = if has("--hard") { "Hard" } else if has("--soft") { "Soft" } else { "Mixed" };
    let ev = Eff::Event(format!("{};keep={};merge={};new={};old={}", kind, has("--keep"), has("--merge"), new, old));
    if events.len() != 1 || *events[0] != ev || trace.last() != Some(&ev) { c.fail("post_reset_hook", "event", input.clone(), format!("{:?}", events), format!("exactly {:?}, after the handler", ev)); }
    let untouched = |c_: &mut Ctx, f: &str, clause: &str, except: &[&String]| { for k in case.logs.keys().chain(after.keys()) { if !except.contains(&k) && norm(case.logs.get(k)) != norm(after.get(k)) { c_.fail(f, clause, input.clone(), format!("log {}: {:?}", k, after.get(k)), format!("{:?}", case.logs.get(k))); } } };
    if has("--hard") {
        // C03: the text is gone; the old head's pending attribution is dropped, nothing is written for any head
        if log_effects.iter().any(|e| **e != Eff::Delete(old.clone())) || (!failed_inside && !log_effects.contains(&&Eff::Delete(old.clone()))) { c.fail("handle_reset_hard", "hard-drops-old-only", input.clone(), format!("{:?}", log_effects), format!("Delete({})", old)); }
        untouched(c, "handle_reset_hard", "hard-drops-old-only", &[&old]);
        return;
    }
    let back = anc(&target, &old);
    let un_done = range(&target, &old);
    let ai_files: Vec<String> = case.changed.iter().filter(|f| un_done.iter().any(|k| case.touched.get(k).map_or(false, |v| v.contains(f)))).cloned().collect();
    let text = |fs: &[String]| { let mut v: Vec<String> = fs.iter().map(|f| format!("{}={}", f, match f.as_str() { "a.txt" => "A\n", "dir/x" => "X\n", _ => "" })).collect(); v.sort(); v.join(",") };
    let initial_for = |fs: &[String]| { let mut s = fs.to_vec(); s.sort(); let fs = &s[..];
        format!("initial(of=merge(first=notes+pending(head={o};files={f};human=None;stop=Some(\"{t}\"));second=committed(head={t};files={f};stop=Some(\"{t}\"));text={x});parent={t};commit={t};files={s})", o = old, t = target, f = fs.join(","), x = text(fs), s = s.join(",")) };
    if paths.is_empty() {
        let f = "handle_reset_preserve_working_dir";
        if old == target { if !log_effects.is_empty() { c.fail(f, "same-commit-noop", input.clone(), format!("{:?}", log_effects), "no effect".into()); } return; }
        if !back {
            // nothing becomes AI: nothing is written; dropping the old head's log is loss (tolerated)
            if log_effects.iter().any(|e| **e != Eff::Delete(old.clone())) { c.fail(f, "forward-writes-nothing", input.clone(), format!("{:?}", log_effects), "nothing written".into()); }
            untouched(c, f, "forward-writes-nothing", &[&old]);
            return;
        }
        let f = "reconstruct_working_log_after_reset";
        // carried: what the notes of the un-done commits attribute, AND every file with pending attribution in the old head's log
        // (that log is deleted; C02 - this was finding 1, now required)
        let pending: BTreeSet<String> = case.logs.get(&old).map(|l| l.cps.iter().flat_map(|c| c.entries.iter().map(|e| e.file.clone())).chain(l.ifiles.iter().cloned()).collect()).unwrap_or_default();
        let notes_files = ai_files.clone();
        let ai_files: Vec<String> = { let mut v = ai_files.clone(); for p in &pending { if !v.contains(p) { v.push(p.clone()); } } v };
        let want = initial_for(&ai_files);
        let mut placed = false; let mut cleared = false;
        for e in &log_effects { match e {
            Eff::Clear(s) if *s == target => { cleared = true; }
            Eff::WriteInitial(s, d) => { if *s != target || !cleared || *d != want || ai_files.is_empty() { c.fail(f, "carry-what-is-written", input.clone(), format!("{:?}", e), format!("after Clear({t}): WriteInitial({t}, {w})", t = target, w = want)); } placed = true; }
            Eff::Delete(s) if *s == old => { if !(ai_files.is_empty() || (cleared && (placed || case.init_empty))) { c.fail(f, "carry-old-removed-after-new-written", input.clone(), format!("{:?}", log_effects), "Delete(old) only after the target's log is in place".into()); } }
            _ => { c.fail(f, "carry-no-other-effect", input.clone(), format!("{:?}", e), "only Clear(target), WriteInitial(target, ..), Delete(old)".into()); }
        } }
        untouched(c, f, "carry-no-other-effect", &[&old, &target]);
        if !failed_inside {
            let want_log = if ai_files.is_empty() { norm(case.logs.get(&target)) } else { Log { cps: vec![], initial: if case.init_empty { None } else { Some(want.clone()) }, ifiles: vec![] } };
            if norm(after.get(&target)) != want_log { c.fail(f, "carry-target-log", input.clone(), format!("{:?}", after.get(&target)), format!("{:?}", want_log)); }
            if after.contains_key(&old) { c.fail(f, "carry-old-log-removed", input.clone(), format!("{:?}", after.get(&old)), "removed".into()); }
            // C02: the old head's log is gone, so every file with pending attribution in it must be among the files of what was written
            let written: Vec<String> = log_effects.iter().filter_map(|e| if let Eff::WriteInitial(_, d) = e { d.rsplit_once(";files=").map(|(_, l)| l.trim_end_matches(')').split(',').map(|x| x.to_string()).collect::<Vec<_>>()) } else { None }).last().unwrap_or_default();
            let left: Vec<&String> = pending.iter().filter(|p| !written.contains(p)).collect();
            if !case.init_empty && !left.is_empty() { c.fail(f, "carry-pending-outside-carried-files", input.clone(), format!("pending attribution of {:?} deleted with the old head's log; files of the notes {:?}, written for {:?}", left, notes_files, written), "every file with pending attribution is carried".into()); }
        }
        return;
    }
    // ---- reset <tree-ish> -- <paths>: HEAD does not move, the working tree is not touched
    let f = "handle_reset_pathspec_preserve_working_dir";
    // un-staging (the target is HEAD itself): only the index changes, no working log is touched (was finding 2, now required)
    if target == old { if !log_effects.is_empty() { c.fail(f, "paths-unstage-noop", input.clone(), format!("{:?}", log_effects), "no effect on any working log".into()); } return; }
    if !back { if !log_effects.is_empty() { c.fail(f, "paths-forward-noop", input.clone(), format!("{:?}", log_effects), "no effect".into()); } return; }
    untouched(c, f, "paths-other-logs-untouched", &[&old, &new, &target]);
    for e in &log_effects { if let Eff::WriteInitial(s, d) = e { let cf: Vec<String> = ai_files.iter().filter(|x| named(&paths, x)).cloned().collect(); if *s != target || *d != initial_for(&cf) { c.fail("reconstruct_working_log_after_reset", "carry-what-is-written", input.clone(), format!("{:?}", e), format!("WriteInitial({}, {})", target, initial_for(&cf))); } } }
    if !failed_inside && old == new {
        // only the named files may be touched: the entries of every other file stay, in order
        let b = flat(case.logs.get(&old), |x| !named(&paths, x)); let a = flat(after.get(&new), |x| !named(&paths, x));
        // (observation 4, REPORT.md: a log that already existed for the target commit is swallowed into HEAD's log when nothing is carried; strict only)
        let mut b_stale = b.clone(); if target != new { b_stale.extend(flat(case.logs.get(&target), |x| !named(&paths, x))); }
        if a != b && (c.strict || a != b_stale) { c.fail(f, "paths-other-files-kept", input.clone(), format!("{:?}", a), format!("{:?}", b)); }
        if target != new && after.get(&target).map_or(false, |l| *l != norm(case.logs.get(&target))) { c.fail(f, "paths-temporary-log-removed", input.clone(), format!("{:?}", after.get(&target)), "removed or as before".into()); }
        // the working tree is unchanged and HEAD did not move: the pending attribution of the NAMED files is still valid (finding 2)
        let b2 = flat(case.logs.get(&old), |x| named(&paths, x)); let a2 = flat(after.get(&new), |x| named(&paths, x));
        let ini = case.logs.get(&old).and_then(|l| l.initial.clone());
        if c.strict && (a2 != b2 || after.get(&new).and_then(|l| l.initial.clone()) != ini) { c.fail(f, "paths-named-files-pending-kept", input.clone(), format!("{:?} INITIAL {:?}", a2, after.get(&new).and_then(|l| l.initial.clone())), format!("{:?} INITIAL {:?}", b2, ini)); }
    }
}

/// the scratch working tree lives next to the driver binary (the framework's work directory)
fn scratch_root() -> PathBuf { std::env::current_exe().ok().and_then(|p| p.parent().map(|d| d.to_path_buf())).unwrap_or_else(std::env::temp_dir).join(format!("resetlog_wt_{}", std::process::id())) }
fn gen_case(r: &mut Rng) -> Case {
    let commits = ["c0", "c1", "c2", "c3", "s1"];
    let pick = |r: &mut Rng| commits[r.below(5) as usize].to_string();
    let modes: [&[&str]; 8] = [&[], &["--hard"], &["--soft"], &["--mixed"], &["--keep"], &["--merge"], &["-q"], &["--hard", "-q"]];
    let flags: Vec<String> = modes[r.below(8) as usize].iter().map(|s| s.to_string()).collect();
    let pathsets: [&[&str]; 6] = [&[], &[], &["a.txt"], &["dir"], &["dir/"], &["dir/x", "b.txt"]];
    let paths: Option<Vec<String>> = if r.below(12) == 0 { None } else { Some(pathsets[r.below(6) as usize].iter().map(|s| s.to_string()).collect()) };
    let old = if r.below(10) == 0 { None } else { Some(pick(r)) };
    let pre = if r.below(6) == 0 { None } else { Some(pick(r)) };
    let res = if r.below(3) == 0 { None } else { Some(pick(r)) };
    // the new head: the target for a plain reset, the old head with pathspecs (mostly; the hook must not rely on it)
    let new = if r.below(10) == 0 { None } else if r.below(6) == 0 { Some(pick(r)) } else if paths.as_ref().map_or(false, |p| !p.is_empty()) { old.clone().or(Some(pick(r))) } else { pre.clone().or(res.clone()).or(Some(pick(r))) };
    let subset = |r: &mut Rng| FILES.iter().filter(|_| r.below(2) == 0).map(|s| s.to_string()).collect::<Vec<_>>();
    let mut touched = BTreeMap::new(); for k in commits { if r.below(2) == 0 { touched.insert(k.to_string(), subset(r)); } }
    let mut logs = BTreeMap::new(); let mut id = 1;
    for k in commits { if r.below(2) == 0 {
        let n = r.below(4); let mut cps = vec![];
        for _ in 0..n { let es: Vec<WorkingLogEntry> = subset(r).into_iter().map(|f| WorkingLogEntry { file: f, tag: r.below(100) as u32 }).collect(); if !es.is_empty() { cps.push(Checkpoint { entries: es, id }); id += 1; } }
        let ini = r.below(3) == 0;
        logs.insert(k.to_string(), Log { cps, initial: if ini { Some(format!("INIT-{}", k)) } else { None }, ifiles: if ini { subset(r) } else { vec![] } });
    } }
    Case { ok: r.below(8) != 0, flags, paths, old, new, pre, res, changed: subset(r), touched, logs, init_empty: r.below(5) == 0, fail_at: if r.below(4) == 0 { Some(1 + r.below(12) as usize) } else { None } }
}

fn main() {
    let a: Vec<String> = std::env::args().collect();
    let mode = a.get(1).map(|s| s.as_str()).unwrap_or("search");
    let mut c = Ctx { evaluated: 0, failed: Default::default(), only: "*".into(), strict: std::env::var("RESETLOG_STRICT").map_or(false, |v| v == "1") };
    let root = scratch_root();
    std::fs::create_dir_all(root.join("dir")).unwrap(); std::fs::write(root.join("a.txt"), "A\n").unwrap(); std::fs::write(root.join("dir/x"), "X\n").unwrap();
    std::panic::set_hook(Box::new(|_| {}));
    if mode == "replay" {
        c.strict = true;   // a recorded input is always checked against the full property
        c.only = a.get(2).cloned().unwrap_or("*".into());
        check(&mut c, &Case::dec(a.get(3).map(|s| s.as_str()).unwrap_or("")));
    } else {
        c.only = a.get(2).cloned().unwrap_or("*".into());
        let seed: u64 = a.get(3).and_then(|s| s.parse().ok()).unwrap_or(0);
        // exhaustive-small: outcome x mode x pathspecs x old x target on one fixed repository state
        let mut touched = BTreeMap::new(); touched.insert("c2".to_string(), vec!["a.txt".to_string(), "dir/x".to_string()]); touched.insert("c3".to_string(), vec!["dir/y".to_string()]);
        let mk = |k: &str, fs: &[&str], id: u32| (k.to_string(), Log { cps: vec![Checkpoint { id, entries: fs.iter().enumerate().map(|(i, f)| WorkingLogEntry { file: f.to_string(), tag: i as u32 }).collect() }], initial: None, ifiles: vec![] });
        for ok in [true, false] { for flags in [vec![], vec!["--hard"], vec!["--soft"], vec!["--mixed"], vec!["--keep"], vec!["--merge"]] { for paths in [vec![], vec!["a.txt"], vec!["dir"], vec!["dir/"]] {
            for old in ["c3", "c2", "c1"] { for tgt in ["c0", "c1", "c2", "c3", "s1"] { for withlog in [0, 1, 2] { for pre in [true, false] {
                let mut logs = BTreeMap::new();
                if withlog >= 1 { let (k, l) = mk(old, &["a.txt", "dir/x"], 1); logs.insert(k, l); }
                if withlog == 2 { let (k, l) = mk(tgt, &["dir2/z"], 7); logs.entry(k).or_insert(l); let (k, l) = mk("s1", &["b.txt"], 9); logs.entry(k).or_insert(l); }
                let new = if paths.is_empty() { tgt } else { old };
                let case = Case { ok, flags: flags.iter().map(|s| s.to_string()).collect(), paths: Some(paths.iter().map(|s| s.to_string()).collect()), old: Some(old.to_string()), new: Some(new.to_string()),
                    pre: if pre { Some(tgt.to_string()) } else { None }, res: Some(tgt.to_string()), changed: vec!["a.txt".into(), "dir/x".into(), "dir/y".into(), "b.txt".into()], touched: touched.clone(), logs, init_empty: false, fail_at: None };
                check(&mut c, &case);
            } } } }
        } } }
        let mut r = Rng(0x9E3779B97F4A7C15 ^ seed.wrapping_mul(0x2545F4914F6CDD1D).wrapping_add(1));
        for _ in 0..20000 { let case = gen_case(&mut r); check(&mut c, &case); }
    }
    let _ = std::fs::remove_dir_all(&root);
    println!("DONE evaluated={}", c.evaluated);
}
