// End-to-end demonstration (real binary through the repository's own test harness) of the two findings of unit resetlog, C02 / C04:
//  finding 1: `git reset --soft|--mixed <older commit>` deletes the OLD head's working log; only files that the notes of the un-done
//             commits attribute are carried to the target's working log - pending (uncommitted) AI lines of every other file are lost.
//  finding 2: `git reset <tree-ish> [--] <paths>` (HEAD does not move, the working tree is not touched) deletes the pending
//             attribution of the named files.
// Every scenario: a.txt / b.txt committed by a person, then (variant-dependent) commits, an agent appends "AI pending line" to a.txt
// WITHOUT committing it, the reset under test, `git add -A; git commit`.  Expected everywhere: the line is blamed on the agent.
#[macro_use]
mod repos;
use repos::test_file::ExpectedLineExt;
use repos::test_repo::TestRepo;

fn is_ai(author: &str) -> bool { author.contains("mock_ai") }
fn blame(repo: &TestRepo, file: &str) -> Vec<(String, String)> {
    let f = repo.filename(file);
    let out = repo.git_ai(&["blame", file]).unwrap();
    out.lines().filter(|l| !l.trim().is_empty()).map(|l| f.parse_blame_line(l)).collect()
}
/// the lines the agent wrote, and only those, are blamed on it
fn assert_ai_exactly(b: &[(String, String)], ai_lines: &[&str]) {
    eprintln!("{:?}", b);
    for l in ai_lines { assert!(b.iter().any(|(_, t)| t.trim() == *l), "line {:?} is missing from the file", l); }
    for (a, t) in b { assert_eq!(is_ai(a), ai_lines.contains(&t.trim()), "line {:?} blamed to {:?}", t, a); }
}

#[derive(Clone, Copy, PartialEq)]
enum Second { PersonEditsB, AgentEditsB, PersonEditsA }
/// c1: a.txt = a1 a2, b.txt = b1 (a person).  c2: see `second`.  Then the agent appends "AI pending line" to a.txt (checkpoint, not
/// committed); `reset` runs through git-ai; everything is staged and committed.  Returns (blame a.txt, blame b.txt).
fn undo_last_commit(second: Second, reset: &[&str]) -> (Vec<(String, String)>, Vec<(String, String)>) {
    let repo = TestRepo::new();
    let mut a = repo.filename("a.txt");
    let mut b = repo.filename("b.txt");
    a.set_contents(lines!["a1", "a2"]);
    b.set_contents(lines!["b1"]);
    repo.stage_all_and_commit("c1 (person)").unwrap();
    match second {
        Second::PersonEditsB => { b.insert_at(1, lines!["b2 typed by a person"]); }
        Second::AgentEditsB => { b.insert_at(1, lines!["b2 written by the agent".ai()]); }
        Second::PersonEditsA => { a.insert_at(0, lines!["a0 typed by a person"]); }
    }
    repo.stage_all_and_commit("c2").unwrap();
    let n = if second == Second::PersonEditsA { 3 } else { 2 };
    a.insert_at(n, lines!["AI pending line".ai()]);            // uncommitted AI work (checkpoint mock_ai)
    if !reset.is_empty() { repo.git(reset).expect("reset should succeed"); }
    repo.stage_all_and_commit("c3: everything").unwrap();
    (blame(&repo, "a.txt"), blame(&repo, "b.txt"))
}

// ---------------------------------------------------------------- finding 1
#[test]
fn control_commit_without_reset_keeps_pending_ai_line() {
    let (a, b) = undo_last_commit(Second::PersonEditsB, &[]);
    assert_ai_exactly(&a, &["AI pending line"]); assert_ai_exactly(&b, &[]);
}
#[test]
fn control_soft_reset_carries_ai_line_of_undone_commit() {
    // nothing pending besides what the un-done commit holds: this is what the reconstruction is built for
    let repo = TestRepo::new();
    let mut b = repo.filename("b.txt");
    b.set_contents(lines!["b1"]);
    repo.stage_all_and_commit("c1 (person)").unwrap();
    b.insert_at(1, lines!["b2 written by the agent".ai()]);
    repo.stage_all_and_commit("c2 (agent)").unwrap();
    repo.git(&["reset", "--soft", "HEAD~1"]).unwrap();
    repo.commit("c2 again").unwrap();
    assert_ai_exactly(&blame(&repo, "b.txt"), &["b2 written by the agent"]);
}
#[test]
fn soft_reset_keeps_pending_ai_line_of_untouched_file() {
    let (a, b) = undo_last_commit(Second::PersonEditsB, &["reset", "--soft", "HEAD~1"]);
    assert_ai_exactly(&b, &[]); assert_ai_exactly(&a, &["AI pending line"]);
}
#[test]
fn mixed_reset_keeps_pending_ai_line_of_untouched_file() {
    let (a, b) = undo_last_commit(Second::PersonEditsB, &["reset", "HEAD~1"]);
    assert_ai_exactly(&b, &[]); assert_ai_exactly(&a, &["AI pending line"]);
}
#[test]
fn soft_reset_over_ai_commit_keeps_pending_ai_line_of_other_file() {
    // b.txt is carried (the un-done commit's note attributes it); a.txt's pending line is in the same deleted log
    let (a, b) = undo_last_commit(Second::AgentEditsB, &["reset", "--soft", "HEAD~1"]);
    assert_ai_exactly(&b, &["b2 written by the agent"]); assert_ai_exactly(&a, &["AI pending line"]);
}
#[test]
fn soft_reset_keeps_pending_ai_line_of_file_a_person_changed_in_the_undone_commit() {
    // a.txt IS changed between target and old head, but not attributed by the un-done commit's note: filtered out as well
    let (a, b) = undo_last_commit(Second::PersonEditsA, &["reset", "--soft", "HEAD~1"]);
    assert_ai_exactly(&b, &[]); assert_ai_exactly(&a, &["AI pending line"]);
}

// ---------------------------------------------------------------- finding 2
/// c1 as above; (optionally c2 by a person, editing a.txt); the agent appends one line to a.txt AND one to b.txt (uncommitted);
/// `git add a.txt`; the pathspec reset under test; `git add -A; git commit`.
fn unstage(with_c2: bool, reset: &[&str]) -> (Vec<(String, String)>, Vec<(String, String)>) {
    let repo = TestRepo::new();
    let mut a = repo.filename("a.txt");
    let mut b = repo.filename("b.txt");
    a.set_contents(lines!["a1", "a2"]);
    b.set_contents(lines!["b1"]);
    let c1 = repo.stage_all_and_commit("c1 (person)").unwrap();
    if with_c2 { a.insert_at(0, lines!["a0 typed by a person"]); repo.stage_all_and_commit("c2 (person)").unwrap(); }
    a.insert_at(if with_c2 { 3 } else { 2 }, lines!["AI pending line".ai()]);
    b.insert_at(1, lines!["AI pending line in b".ai()]);
    repo.git(&["add", "a.txt"]).unwrap();
    let reset: Vec<String> = reset.iter().map(|s| if *s == "<c1>" { c1.commit_sha.clone() } else { s.to_string() }).collect();
    if !reset.is_empty() { repo.git(&reset.iter().map(|s| s.as_str()).collect::<Vec<_>>()).expect("reset should succeed"); }
    repo.stage_all_and_commit("everything").unwrap();
    (blame(&repo, "a.txt"), blame(&repo, "b.txt"))
}
#[test]
fn control_add_without_reset_keeps_pending_ai_lines() {
    let (a, b) = unstage(false, &[]);
    assert_ai_exactly(&a, &["AI pending line"]); assert_ai_exactly(&b, &["AI pending line in b"]);
}
#[test]
fn control_pathspec_reset_keeps_pending_ai_line_of_the_other_file() {
    let (_a, b) = unstage(false, &["reset", "HEAD", "a.txt"]);
    assert_ai_exactly(&b, &["AI pending line in b"]);
}
#[test]
fn pathspec_reset_after_add_keeps_pending_ai_line() {
    let (a, b) = unstage(false, &["reset", "HEAD", "a.txt"]);
    assert_ai_exactly(&b, &["AI pending line in b"]); assert_ai_exactly(&a, &["AI pending line"]);
}
#[test]
fn pathspec_reset_with_separator_keeps_pending_ai_line() {
    let (a, b) = unstage(false, &["reset", "HEAD", "--", "a.txt"]);
    assert_ai_exactly(&b, &["AI pending line in b"]); assert_ai_exactly(&a, &["AI pending line"]);
}
#[test]
fn pathspec_reset_to_older_commit_keeps_pending_ai_line() {
    // the index entry of a.txt becomes c1's; HEAD stays c2 and the working tree is not touched
    let (a, b) = unstage(true, &["reset", "<c1>", "--", "a.txt"]);
    assert_ai_exactly(&b, &["AI pending line in b"]); assert_ai_exactly(&a, &["AI pending line"]);
}
