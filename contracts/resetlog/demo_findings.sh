#!/bin/sh
# End-to-end demonstration of REPORT.md findings 1 and 2 with the built binary (no rebuild): usage  demo_findings.sh <scratch dir>
# With a binary built BEFORE /repo 5decae7d / 42fcdb81: CONTROL line attributed to mock_ai, the three other runs to the human committer T.
# With a binary built from the repaired tree all four lines say mock_ai (the remaining case, reset <older commit> -- <paths>, is in demo_e2e.rs).
set -e
D=${1:?scratch dir}; GA=${GIT_AI_BIN:-/repo/target/debug/git-ai}
mkdir -p "$D/home"; export HOME="$D/home" GIT_CONFIG_GLOBAL="$D/home/.gitconfig" GIT_CONFIG_NOSYSTEM=1 GIT_AI_TEST_DB_PATH="$D/home/t.db" GITAI_TEST_DB_PATH="$D/home/t.db"
git config --global user.name T; git config --global user.email t@e.x; git config --global init.defaultBranch main
g() { GIT_AI=git "$GA" "$@" >/dev/null 2>&1; }
setup() {  # two commits by a person (the second touches only b.txt), then an UNCOMMITTED AI edit of a.txt
  rm -rf "$D/$1"; mkdir -p "$D/$1"; cd "$D/$1"; g init -q .
  printf 'a1\na2\n' > a.txt; printf 'b1\n' > b.txt; g add -A; g commit -q -m c1
  printf 'b1\nb2 human\n' > b.txt; g add -A; g commit -q -m c2
  printf 'a1\na2\nAI pending line\n' > a.txt; "$GA" checkpoint mock_ai a.txt >/dev/null 2>&1
}
show() { g add -A; g commit -q -m c3; printf '%-38s' "$1"; "$GA" blame a.txt 2>/dev/null | tail -1; }
setup control;  show "CONTROL (no reset):"
setup soft;     g reset --soft HEAD~1;  show "finding 1: reset --soft HEAD~1:"
setup mixed;    g reset HEAD~1;         show "finding 1: reset HEAD~1 (mixed):"
setup unstage;  g add a.txt; g reset HEAD a.txt; show "finding 2: add; reset HEAD a.txt:"
