// Unit switchhooks — properties C02 / C03: what `git checkout`, `git switch` and `git stash` do to PENDING (uncommitted)
// attribution.  The hooks are checked against an EFFECT specification derived from the property statements and from
// git-checkout(1) / git-switch(1) / git-stash(1):
//   * a command that failed leads to no write, no delete, no move;
//   * a branch switch that keeps the working tree moves the working log of `old` to `new` - one move, no copy left behind;
//   * a forced / discarding switch drops the pending attribution of what was thrown away; a path checkout drops the pending
//     attribution of the named paths in the working log of the commit HEAD pointed to, and nothing else;
//   * `-m`: the attribution captured before the command is re-anchored on the new head (restore_stashed_va, unit vamerge);
//   * stash push saves, then removes, the files the pathspecs select (all files without pathspecs); pop / apply restore into the
//     working log of the CURRENT head.
// Every git / file-system / VirtualAttributions call is a rule-O1 stub.  Stubs that change the repository's state append an
// `Effect` to a ghost log carried by the stand-in `Repository` (`repository.w@.log`); the hooks' postconditions state the log
// EXACTLY (`final log == old log + expected effects`), so a missing, doubled, misdirected or additional effect fails the proof.
// The argument vectors on which the code does NOT follow git's reading are named deviation classes (`dev_*`); they are findings
// (REPORT.md), never encoded as expected behaviour; the repaired ones (F1, F3, F4, F5) are required behaviour now.
use vstd::prelude::*;
use vstd::std_specs::iter::IteratorSpec;
verus! {

// ================================================================== stand-ins (typing only) and the ghost world
#[verifier::external_type_specification]
#[verifier::external_body]
pub struct ExExitStatus(std::process::ExitStatus);
pub uninterp spec fn exit_ok(s: std::process::ExitStatus) -> bool;
pub assume_specification[ std::process::ExitStatus::success ](s: &std::process::ExitStatus) -> (r: bool)
    ensures r == exit_ok(*s);

pub enum GitAiError { Generic(String) }
#[verifier::external_body] pub struct VirtualAttributions { _o: () }
#[verifier::external_body] pub struct RepoStorage { _o: () }
/// what a hook did to the pending attribution, in order
pub enum Effect {
    /// storage.delete_working_log_for_base_commit(base): ALL pending attribution recorded against `base` is dropped
    DeleteLog { base: Seq<char> },
    /// storage.rename_working_log(from, to): the working log of `from` becomes the working log of `to`
    RenameLog { from: Seq<char>, to: Seq<char> },
    /// remove_attributions_for_pathspecs(repo, base, paths): the files selected by `paths` lose their pending attribution in `base`'s log
    DropPaths { base: Seq<char>, paths: Seq<Seq<char>> },
    /// restore_stashed_va(repo, old, new, va) (contract: unit vamerge): va is merged into the working log of `new`
    RestoreVA { old: Seq<char>, new: Seq<char>, va: VirtualAttributions },
    /// the attribution captured before a `-m` switch: VirtualAttributions::from_just_working_log(repo, head, ..)
    CaptureVA { head: Seq<char> },
    /// save_stash_authorship_log(repo, paths)
    SaveStash { paths: Seq<Seq<char>> },
    /// restore_stash_attributions(repo, stash, ..)
    RestoreStash { stash: Seq<char> },
    /// checkpoint::run(.., Human, ..)
    HumanCheckpoint,
}
/// the environment as the hook sees it (uninterpreted answers of git) plus the log of effects
pub ghost struct World {
    /// what `git rev-parse HEAD` answers now
    pub head: Option<Seq<char>>,
    /// `git status` lists at least one staged or unstaged file
    pub dirty: bool,
    /// from_just_working_log(head) answers Ok with a non-empty attribution map
    pub pending: bool,
    pub log: Seq<Effect>,
}
pub struct Repository {
    pub storage: RepoStorage,
    pub pre_command_base_commit: Option<String>,
    pub pre_command_refname: Option<String>,
    pub w: Ghost<World>,
}
pub struct CommandHooksContext {
    pub stash_sha: Option<String>,
    pub stashed_va: Option<VirtualAttributions>,
}
pub open spec fn strs(v: Seq<String>) -> Seq<Seq<char>> { Seq::new(v.len(), |i: int| v[i]@) }
pub open spec fn opt_view(o: Option<String>) -> Option<Seq<char>> { match o { Some(s) => Some(s@), None => None } }
/// everything but the log is untouched
pub open spec fn same_env(a: Repository, b: Repository) -> bool {
    a.pre_command_base_commit == b.pre_command_base_commit && a.pre_command_refname == b.pre_command_refname
    && a.w@.head == b.w@.head && a.w@.dirty == b.w@.dirty && a.w@.pending == b.w@.pending
}
pub open spec fn logged(a: Repository, b: Repository, e: Effect) -> bool { same_env(a, b) && b.w@.log == a.w@.log.push(e) }

// ------------------------------------------------------------------ rule-O1 stubs
#[verifier::external_body] pub fn debug_log(s: &str) { unimplemented!() }
/// every `&format!(..)` handed to debug_log
#[verifier::external_body] fn opq_msg() -> (r: &'static str) { unimplemented!() }
#[verifier::external_body]
fn opq_string_eq(a: &String, b: &String) -> (r: bool)
    ensures r == (a@ == b@),
{ unimplemented!() }
/// `v.iter().any(|arg| arg == flag)`
#[verifier::external_body]
fn opq_any_is(v: &Vec<String>, flag: &str) -> (r: bool)
    ensures r == strs(v@).contains(flag@),
{ unimplemented!() }
/// `.iter().any(|arg| arg == "-f" || arg == "--force")`
#[verifier::external_body]
fn opq_any_force2(v: &Vec<String>) -> (r: bool)
    ensures r == (strs(v@).contains("-f"@) || strs(v@).contains("--force"@)),
{ unimplemented!() }
/// `.iter().any(|arg| arg == "-f" || arg == "--force" || arg == "--discard-changes")`
#[verifier::external_body]
fn opq_any_force3(v: &Vec<String>) -> (r: bool)
    ensures r == (strs(v@).contains("-f"@) || strs(v@).contains("--force"@) || strs(v@).contains("--discard-changes"@)),
{ unimplemented!() }
/// `v.iter().position(|arg| arg == "--")`: the FIRST index holding `--`
#[verifier::external_body]
fn opq_position_sep(v: &Vec<String>) -> (r: Option<usize>)
    ensures match r { Some(k) => sep_at(strs(v@), k as int) && k < usize::MAX, None => !has_sep(strs(v@)) },
{ unimplemented!() }
/// `v[k..].to_vec()`; the slice precondition k <= len is kept
#[verifier::external_body]
fn opq_tail_to_vec(v: &Vec<String>, k: usize) -> (r: Vec<String>)
    requires k <= v@.len(),
    ensures strs(r@) == strs(v@).subrange(k as int, v@.len() as int),
{ unimplemented!() }
/// the whole loop of pathspecs_without_separator (`for` with `continue` after other statements: outside the verifier's subset) - TRUSTED,
/// checked by the replay sweep: the positionals, in order
#[verifier::external_body]
fn opq_co_scan(v: &Vec<String>, out: &mut Vec<String>, skip_next: &mut bool)
    requires old(out)@.len() == 0, !*old(skip_next),
    ensures strs(final(out)@) == co_positionals(strs(v@), 0),
{ unimplemented!() }
#[verifier::external_body] pub struct GitObject { _o: () }
impl Repository {
    /// `git rev-parse --verify <spec>` (stand-in: the real parameter is &str)
    #[verifier::external_body]
    pub fn revparse_single(&self, spec: &String) -> (o: Result<GitObject, GitAiError>)
        ensures o is Ok <==> is_rev(spec@),
    { unimplemented!() }
}
/// `repository.head().ok().and_then(|h| h.target().ok())`: what HEAD resolves to NOW
#[verifier::external_body]
fn opq_head_target(r: &Repository) -> (o: Option<String>)
    ensures opt_view(o) == r.w@.head,
{ unimplemented!() }
/// `repository.storage.delete_working_log_for_base_commit(sha)`
#[verifier::external_body]
fn opq_delete_log(r: &mut Repository, sha: &String) -> (o: Result<(), GitAiError>)
    ensures logged(*old(r), *final(r), Effect::DeleteLog { base: sha@ }),
{ unimplemented!() }
/// `repository.storage.rename_working_log(a, b)`
#[verifier::external_body]
fn opq_rename_log(r: &mut Repository, a: &String, b: &String) -> (o: Result<(), GitAiError>)
    ensures logged(*old(r), *final(r), Effect::RenameLog { from: a@, to: b@ }),
{ unimplemented!() }
/// the CALL of remove_attributions_for_pathspecs (its body is an item of this unit; it takes `&Repository`, so the effect is logged here)
#[verifier::external_body]
fn opq_call_drop_paths(r: &mut Repository, head: &String, pathspecs: &Vec<String>) -> (o: ())
    ensures logged(*old(r), *final(r), Effect::DropPaths { base: head@, paths: strs(pathspecs@) }),
{ unimplemented!() }
/// crate::authorship::virtual_attribution::restore_stashed_va (under contract in unit vamerge)
#[verifier::external_body]
pub fn restore_stashed_va(repository: &mut Repository, old_head: &str, new_head: &str, stashed_va: VirtualAttributions)
    ensures logged(*old(repository), *final(repository), Effect::RestoreVA { old: old_head@, new: new_head@, va: stashed_va }),
{ unimplemented!() }
impl Repository {
    /// records HEAD before the command, unless already recorded (by the caller)
    #[verifier::external_body]
    pub fn require_pre_command_head(&mut self)
        ensures final(self).w@ == old(self).w@,
            (old(self).pre_command_base_commit is Some || old(self).pre_command_refname is Some) ==> *final(self) == *old(self),
            (old(self).pre_command_base_commit is None && old(self).pre_command_refname is None) ==> opt_view(final(self).pre_command_base_commit) == old(self).w@.head,
    { unimplemented!() }
}

/// crate::commands::hooks::commit_hooks::get_commit_default_author (reads git config; no effect)
#[verifier::external_body] pub fn get_commit_default_author(r: &Repository, args: &Vec<String>) -> (o: String) { unimplemented!() }
/// the attribution held by the working log of `head` (VirtualAttributions::from_just_working_log's answer when it is Ok)
pub uninterp spec fn wl_va(head: Seq<char>) -> VirtualAttributions;
/// `VirtualAttributions::from_just_working_log(repository.clone(), head_sha.clone(), Some(human_author))`: reads, writes nothing
#[verifier::external_body]
fn opq_va_from_working_log(r: &Repository, head: &String, human_author: String) -> (o: Result<VirtualAttributions, GitAiError>)
    ensures o matches Ok(va) ==> va == wl_va(head@),
{ unimplemented!() }
/// `!va.attributions.is_empty()`
#[verifier::external_body] fn opq_va_nonempty(va: &VirtualAttributions) -> (o: bool) { unimplemented!() }
/// both hook files' has_uncommitted_changes: `match repository.get_staged_and_unstaged_filenames() { Ok(f) => !f.is_empty(), Err(_) => false }`
#[verifier::external_body]
pub fn has_uncommitted_changes(repository: &Repository) -> (o: bool)
    ensures o == repository.w@.dirty,
{ unimplemented!() }
/// what the pre hook of a `-m` switch may leave in the context: nothing new, or the attribution of the working log of the CURRENT head
pub open spec fn captured_ok(c0: CommandHooksContext, c1: CommandHooksContext, head: Option<Seq<char>>) -> bool {
    c1.stash_sha == c0.stash_sha && (c1.stashed_va == c0.stashed_va || (head is Some && c1.stashed_va == Some(wl_va(head.unwrap()))))
}

// ================================================================== git's reading of the argument vector
pub open spec fn has_sep(a: Seq<Seq<char>>) -> bool { exists|i: int| 0 <= i < a.len() && #[trigger] a[i] == "--"@ }
pub open spec fn sep_at(a: Seq<Seq<char>>, k: int) -> bool { 0 <= k < a.len() && a[k] == "--"@ && forall|j: int| 0 <= j < k ==> #[trigger] a[j] != "--"@ }
/// where the options end: the first `--`, or the end of the vector
pub open spec fn opts_end(a: Seq<Seq<char>>) -> int { if has_sep(a) { choose|k: int| sep_at(a, k) } else { a.len() as int } }
/// "git checkout [<tree-ish>] -- <pathspec>...": everything after the first `--`, verbatim
pub open spec fn sep_paths(a: Seq<Seq<char>>) -> Seq<Seq<char>> { if has_sep(a) { a.subrange(opts_end(a) + 1, a.len() as int) } else { Seq::empty() } }
proof fn lemma_sep_unique(a: Seq<Seq<char>>, k: int)
    requires sep_at(a, k),
    ensures has_sep(a), opts_end(a) == k,
{
    let c = choose|c: int| sep_at(a, c);
    if c < k { assert(a[c] != "--"@); }
    if k < c { assert(a[k] != "--"@); }
}
pub open spec fn dash(t: Seq<char>) -> bool { t.len() > 0 && t[0] == '-' }
/// git-checkout(1): the options that take their value as the NEXT argument
pub open spec fn co_takes_value(t: Seq<char>) -> bool { t == "-b"@ || t == "-B"@ || t == "--orphan"@ || t == "--conflict"@ || t == "--pathspec-from-file"@ }
/// the positional arguments of a[i..): what is neither an option nor the value of one
pub open spec fn co_positionals(a: Seq<Seq<char>>, i: int) -> Seq<Seq<char>>
    decreases a.len() - i
{
    if i < 0 || i >= a.len() { Seq::empty() }
    else if dash(a[i]) { if co_takes_value(a[i]) && i + 1 < a.len() { co_positionals(a, i + 2) } else { co_positionals(a, i + 1) } }
    else { seq![a[i]] + co_positionals(a, i + 1) }
}
/// `git rev-parse --verify <x>` succeeds (the repository's answer; uninterpreted)
pub uninterp spec fn is_rev(x: Seq<char>) -> bool;
/// WITHOUT `--` ("git checkout f.txt", "git checkout HEAD~1 f.txt", "git checkout ."): "git checkout [<tree-ish>] <pathspec>...": the first
/// positional is the tree-ish when it names a revision (git refuses an argument that is both a revision and a file), the rest are pathspecs
pub open spec fn git_nosep_paths(a: Seq<Seq<char>>) -> Seq<Seq<char>> {
    let p = co_positionals(a, 0);
    if p.len() > 0 && is_rev(p[0]) { p.subrange(1, p.len() as int) } else { p }
}
pub open spec fn git_paths(a: Seq<Seq<char>>) -> Seq<Seq<char>> { if has_sep(a) { sep_paths(a) } else { git_nosep_paths(a) } }
/// parse-options: a short option may be bundled with value-less short options in front of it (`-qf`)
pub open spec fn bundle_has(t: Seq<char>, c: char, valueless: Set<char>) -> bool {
    t.len() >= 2 && t[0] == '-' && t[1] != '-' && exists|k: int| 1 <= k < t.len() && #[trigger] t[k] == c && forall|j: int| 1 <= j < k ==> valueless.contains(#[trigger] t[j])
}
/// parse-options: a long option may be abbreviated to a prefix that is unique among the command's long options (at least `min` chars)
pub open spec fn long_abbrev(t: Seq<char>, full: Seq<char>, min: int) -> bool { min <= t.len() <= full.len() && t == full.subrange(0, t.len() as int) }
pub open spec fn CO_VALUELESS() -> Set<char> { set!['q', 'f', 'm', 'l', 'd', 't', 'p'] }     // git checkout: -b -B take a value
pub open spec fn SW_VALUELESS() -> Set<char> { set!['q', 'f', 'm', 'd', 't'] }               // git switch: -c -C take a value
/// git-checkout(1): -f / --force (only `--force` starts with `--f`)
pub open spec fn co_force_tok(t: Seq<char>) -> bool { bundle_has(t, 'f', CO_VALUELESS()) || long_abbrev(t, "--force"@, 3) }
/// git-checkout(1): -m / --merge (only `--merge` starts with `--m`)
pub open spec fn co_merge_tok(t: Seq<char>) -> bool { bundle_has(t, 'm', CO_VALUELESS()) || long_abbrev(t, "--merge"@, 3) }
/// git-switch(1): -f / --force / --discard-changes (`--force-create` exists: only the full `--force` is unambiguous; `--di..`)
pub open spec fn sw_force_tok(t: Seq<char>) -> bool { bundle_has(t, 'f', SW_VALUELESS()) || t == "--force"@ || long_abbrev(t, "--discard-changes"@, 4) }
pub open spec fn sw_merge_tok(t: Seq<char>) -> bool { bundle_has(t, 'm', SW_VALUELESS()) || long_abbrev(t, "--merge"@, 3) }
/// some option token (in front of `--`) satisfies p
pub open spec fn opt_any(a: Seq<Seq<char>>, p: spec_fn(Seq<char>) -> bool) -> bool { exists|i: int| 0 <= i < opts_end(a) && i < a.len() && p(#[trigger] a[i]) }
pub open spec fn co_force(a: Seq<Seq<char>>) -> bool { opt_any(a, |t: Seq<char>| co_force_tok(t)) }
pub open spec fn co_merge(a: Seq<Seq<char>>) -> bool { opt_any(a, |t: Seq<char>| co_merge_tok(t)) }
pub open spec fn sw_force(a: Seq<Seq<char>>) -> bool { opt_any(a, |t: Seq<char>| sw_force_tok(t)) }
pub open spec fn sw_merge(a: Seq<Seq<char>>) -> bool { opt_any(a, |t: Seq<char>| sw_merge_tok(t)) }
/// the spellings the code looks for, anywhere in the vector
pub open spec fn co_force_exact(a: Seq<Seq<char>>) -> bool { a.contains("-f"@) || a.contains("--force"@) }
pub open spec fn sw_force_exact(a: Seq<Seq<char>>) -> bool { a.contains("-f"@) || a.contains("--force"@) || a.contains("--discard-changes"@) }
pub open spec fn merge_exact(a: Seq<Seq<char>>) -> bool { a.contains("--merge"@) || a.contains("-m"@) }

// ================================================================== the expected effects (from the property)
/// git checkout, after the command.  old = HEAD before, new = HEAD after, captured = what the pre hook kept for `-m`
pub open spec fn checkout_effects(a: Seq<Seq<char>>, ok: bool, old: Option<Seq<char>>, new: Option<Seq<char>>, captured: Option<VirtualAttributions>) -> Seq<Effect> {
    if !ok || old is None || new is None { Seq::empty() }                         // C02: a failed command changes nothing
    else if git_paths(a).len() > 0 { seq![Effect::DropPaths { base: old.unwrap(), paths: git_paths(a) }] }   // C03: the named paths, nothing else
    else { switch_effects(co_force(a), co_merge(a), old.unwrap(), new.unwrap(), captured) }
}
/// a switch of branches (both commands)
pub open spec fn switch_effects(force: bool, merge: bool, old: Seq<char>, new: Seq<char>, captured: Option<VirtualAttributions>) -> Seq<Effect> {
    if force { seq![Effect::DeleteLog { base: old }] }                            // C03: local changes are thrown away, whether HEAD moves or not
    else if old == new { Seq::empty() }                                             // nothing moved
    else if merge && captured is Some { seq![Effect::DeleteLog { base: old }, Effect::RestoreVA { old: old, new: new, va: captured.unwrap() }] }
    else { seq![Effect::RenameLog { from: old, to: new }] }                       // C02: carried, once; nothing stays under `old`
}
pub open spec fn sw_effects(a: Seq<Seq<char>>, ok: bool, old: Option<Seq<char>>, new: Option<Seq<char>>, captured: Option<VirtualAttributions>) -> Seq<Effect> {
    if !ok || old is None || new is None { Seq::empty() }
    else { switch_effects(sw_force(a), sw_merge(a), old.unwrap(), new.unwrap(), captured) }
}
// ---- deviation classes: argument vectors / situations on which the code does not do the above (REPORT.md; F1, F3, F4, F5 were REPAIRED
// in /repo and are REQUIRED now; what is left: F2 spellings, the forced bare-path checkout, and the stash classes F6 / F8)
/// a path checkout written without `--` (repaired finding F1: /repo 56a9cab7 - now REQUIRED to drop exactly these paths)
pub open spec fn bare_path_checkout(a: Seq<Seq<char>>) -> bool { !has_sep(a) && git_nosep_paths(a).len() > 0 }
/// git fact: a path checkout does not move HEAD
pub open spec fn path_checkout_keeps_head(a: Seq<Seq<char>>, old: Option<Seq<char>>, new: Option<Seq<char>>) -> bool { bare_path_checkout(a) ==> old == new }
/// residue of F1 + F3: `git checkout -f f.txt` (forced, paths without `--`) drops the WHOLE working log instead of the named paths (a loss)
pub open spec fn dev_force_bare_paths(a: Seq<Seq<char>>) -> bool { bare_path_checkout(a) && co_force_exact(a) }
/// F2: force / merge spelled as a bundle (`-qf`), as an abbreviation (`--forc`), - or an exact spelling that is not an option (after `--`)
pub open spec fn dev_co_spelling(a: Seq<Seq<char>>) -> bool { co_force(a) != co_force_exact(a) || co_merge(a) != merge_exact(a) }
pub open spec fn dev_sw_spelling(a: Seq<Seq<char>>) -> bool { sw_force(a) != sw_force_exact(a) || sw_merge(a) != merge_exact(a) }
// (repaired finding F3, /repo 4492141d: a forced checkout / switch drops the old head's log also when HEAD does not move - REQUIRED by switch_effects)

proof fn lemma_seq1_push(s: Seq<Effect>, e: Effect)
    ensures s.push(e) == s + seq![e],
{ assert(s.push(e) =~= s + seq![e]); }
proof fn lemma_seq2_push(s: Seq<Effect>, e: Effect, f: Effect)
    ensures s.push(e).push(f) == s + seq![e, f], s + Seq::<Effect>::empty() == s,
{ assert(s.push(e).push(f) =~= s + seq![e, f]); assert(s + Seq::<Effect>::empty() =~= s); }

// ================================================================== ParsedGitInvocation
//#item file=src/git/cli_parser.rs kind=struct name=ParsedGitInvocation
pub struct ParsedGitInvocation {
    pub global_args: Vec<String>,
    pub command: Option<String>,
    pub command_args: Vec<String>,
    pub saw_end_of_opts: bool,
    pub is_help: bool,
}
//#end
impl ParsedGitInvocation {
//#item file=src/git/cli_parser.rs kind=fn name=has_command_flag impl="ParsedGitInvocation" opaque='[{"expr": "self.command_args.iter().any(|arg| arg == flag)", "call": "opq_any_is(&self.command_args, flag)"}]'
    pub fn has_command_flag(&self, flag: &str) -> (r_: bool)
    //@     ensures r_ == strs(self.command_args@).contains(flag@),
    {
        opq_any_is(&self.command_args, flag)
    }
//#end
//#item file=src/git/cli_parser.rs kind=fn name=pathspecs impl="ParsedGitInvocation" opaque='[{"expr": "self.command_args.iter().position(|arg| arg == \"--\")", "call": "opq_position_sep(&self.command_args)"}, {"expr": "self.command_args[separator_pos + 1..].to_vec()", "call": "opq_tail_to_vec(&self.command_args, separator_pos + 1)"}]'
    pub fn pathspecs(&self) -> (r_: Vec<String>)
    //@     ensures strs(r_@) == sep_paths(strs(self.command_args@)),
    {
        if let Some(separator_pos) = opq_position_sep(&self.command_args) {
            //@ proof { lemma_sep_unique(strs(self.command_args@), separator_pos as int); assert(separator_pos < self.command_args@.len()); }
            opq_tail_to_vec(&self.command_args, separator_pos + 1)
        } else {
            //@ proof { assert(strs(Seq::<String>::empty()) =~= Seq::<Seq<char>>::empty()); }
            Vec::new()
        }
    }
//#end
}

// ================================================================== git checkout
//#item file=src/commands/hooks/checkout_hooks.rs kind=fn name=is_force_checkout opaque='[{"expr": "parsed_args .command_args .iter() .any(|arg| arg == \"-f\" || arg == \"--force\")", "call": "opq_any_force2(&parsed_args.command_args)"}]'
fn is_force_checkout(parsed_args: &ParsedGitInvocation) -> (r_: bool)
//@     ensures r_ == co_force_exact(strs(parsed_args.command_args@)),
{
    opq_any_force2(&parsed_args.command_args)
}
//#end

//#item file=src/commands/hooks/checkout_hooks.rs kind=fn name=is_merge_checkout
fn is_merge_checkout(parsed_args: &ParsedGitInvocation) -> (r_: bool)
//@     ensures r_ == merge_exact(strs(parsed_args.command_args@)),
{
    parsed_args.has_command_flag("--merge") || parsed_args.has_command_flag("-m")
}
//#end

/// strs of a vector without its first element
proof fn lemma_strs_remove0(v0: Seq<String>, v1: Seq<String>)
    requires v0.len() > 0, v1 == v0.remove(0),
    ensures strs(v1) == strs(v0).subrange(1, v0.len() as int),
{ assert(strs(v1) =~= strs(v0).subrange(1, v0.len() as int)); }
//#item file=src/commands/hooks/checkout_hooks.rs kind=fn name=pathspecs_without_separator opaque='[{"stmt_from": "for arg in &parsed_args.command_args {", "call": "opq_co_scan(&parsed_args.command_args, &mut positionals, &mut skip_next);"}]'
fn pathspecs_without_separator(
    parsed_args: &ParsedGitInvocation,
    repository: &Repository,
) -> (r_: Vec<String>)
//@     ensures strs(r_@) == git_nosep_paths(strs(parsed_args.command_args@)),
{
    let mut positionals: Vec<String> = Vec::new();
    let mut skip_next = false;
    opq_co_scan(&parsed_args.command_args, &mut positionals, &mut skip_next);

    //@ let ghost p0 = positionals@;
    //@ proof { assert(strs(p0).len() == p0.len()); }
    // Git reads the first positional as the tree-ish when it names a revision
    // (without `--` it rejects an argument that is both a revision and a file).
    if let Some(first) = positionals.first() { if repository.revparse_single(first).is_ok() {
        //@ proof { assert(strs(p0)[0] == first@); }
        positionals.remove(0);
        //@ proof { lemma_strs_remove0(p0, positionals@); }
    } }

    positionals
}
//#end

//#item file=src/commands/hooks/checkout_hooks.rs kind=fn name=post_checkout_hook opaque='[{"expr": "repository.head().ok().and_then(|h| h.target().ok())", "call": "opq_head_target(repository)"}, {"expr": "&format!( \"Pathspec checkout detected, removing attributions for: {:?}\", pathspecs )", "call": "opq_msg()"}, {"expr": "remove_attributions_for_pathspecs(repository, &old_head, &pathspecs)", "call": "opq_call_drop_paths(repository, &old_head, &pathspecs)"}, {"expr": "old_head == new_head", "call": "opq_string_eq(&old_head, &new_head)"}, {"expr": "&format!( \"Force checkout detected, deleting working log for {}\", &old_head )", "call": "opq_msg()"}, {"expr": "repository .storage .delete_working_log_for_base_commit(&old_head)", "call": "opq_delete_log(repository, &old_head)"}, {"expr": "&format!( \"Pathspec checkout without `--` detected, removing attributions for: {:?}\", pathspecs )", "call": "opq_msg()"}, {"expr": "&format!( \"Checkout changed HEAD: {} -> {}\", &old_head, &new_head )", "call": "opq_msg()"}, {"expr": "repository.storage.rename_working_log(&old_head, &new_head)", "call": "opq_rename_log(repository, &old_head, &new_head)"}]'
pub fn post_checkout_hook(
    parsed_args: &ParsedGitInvocation,
    repository: &mut Repository,
    exit_status: std::process::ExitStatus,
    command_hooks_context: &mut CommandHooksContext,
)
//@     ensures
//@         same_env(*old(repository), *final(repository)),
//@         // C02, first of all: a command that failed leaves everything as it was - on EVERY argument vector
//@         !exit_ok(exit_status) ==> final(repository).w@.log == old(repository).w@.log,
//@         // outside the remaining deviation classes: exactly the effects the property asks for, in the working log of the right commit, once
//@         !dev_co_spelling(strs(parsed_args.command_args@)) && !dev_force_bare_paths(strs(parsed_args.command_args@))
//@             && path_checkout_keeps_head(strs(parsed_args.command_args@), opt_view(old(repository).pre_command_base_commit), old(repository).w@.head)
//@             && (co_merge(strs(parsed_args.command_args@)) || old(command_hooks_context).stashed_va is None)
//@         ==> final(repository).w@.log == old(repository).w@.log + checkout_effects(strs(parsed_args.command_args@), exit_ok(exit_status),
//@                 opt_view(old(repository).pre_command_base_commit), old(repository).w@.head, old(command_hooks_context).stashed_va),
{
    //@ let ghost a = strs(parsed_args.command_args@);
    //@ let ghost log0 = repository.w@.log;
    //@ proof { lemma_seq2_push(log0, arbitrary(), arbitrary()); }
    if !exit_status.success() {
        debug_log("Checkout failed, skipping working log handling");
        return;
    }

    let old_head = match &repository.pre_command_base_commit {
        Some(sha) => sha.clone(),
        None => return,
    };

    let new_head = match opq_head_target(repository) {
        Some(sha) => sha,
        None => return,
    };

    let pathspecs = parsed_args.pathspecs();

    // Case 1: Pathspec checkout (git checkout branch -- file.txt)
    // HEAD unchanged, specific files reverted - remove their attributions
    if !pathspecs.is_empty() {
        debug_log(opq_msg());
        opq_call_drop_paths(repository, &old_head, &pathspecs);
        //@ proof { assert(strs(pathspecs@).len() == pathspecs@.len()); assert(has_sep(a)); lemma_seq1_push(log0, Effect::DropPaths { base: old_head@, paths: git_paths(a) }); }
        return;
    }

    //@ proof { assert(strs(pathspecs@).len() == 0); }
    // Case 2: Force checkout - delete working log (changes discarded).
    // Checked before the HEAD comparison: `git checkout -f` discards local changes
    // even when HEAD does not move.
    if is_force_checkout(parsed_args) {
        debug_log(opq_msg());
        let _ = opq_delete_log(repository, &old_head);
        //@ proof { lemma_seq1_push(log0, Effect::DeleteLog { base: old_head@ }); }
        return;
    }

    // Case 3: HEAD unchanged (e.g., checkout current branch)
    if opq_string_eq(&old_head, &new_head) {
        // `git checkout <path>...` / `git checkout <tree-ish> <path>...` written without `--`
        // reverts files just like Case 1: remove their attributions
        if !parsed_args.has_command_flag("--") {
            //@ proof { if has_sep(a) { let i = choose|i: int| 0 <= i < a.len() && #[trigger] a[i] == "--"@; assert(a.contains("--"@)); } }
            let pathspecs = pathspecs_without_separator(parsed_args, repository);
            //@ proof { assert(strs(pathspecs@).len() == pathspecs@.len()); }
            if !pathspecs.is_empty() {
                debug_log(opq_msg());
                opq_call_drop_paths(repository, &old_head, &pathspecs);
                //@ proof { lemma_seq1_push(log0, Effect::DropPaths { base: old_head@, paths: git_paths(a) }); }
                return;
            }
        }
        //@ proof { if !has_sep(a) { assert(!a.contains("--"@)) by { if a.contains("--"@) { let i = choose|i: int| 0 <= i < a.len() && a[i] == "--"@; assert(a[i] == "--"@); } } } }
        debug_log("HEAD unchanged after checkout, no working log handling needed");
        return;
    }

    // Case 4: --merge checkout - restore VirtualAttributions (lines may have shifted)
    if let Some(stashed_va) = command_hooks_context.stashed_va.take() {
        debug_log("Restoring VA after checkout --merge");
        let _ = opq_delete_log(repository, &old_head);
        restore_stashed_va(repository, &old_head, &new_head, stashed_va);
        //@ proof { lemma_seq2_push(log0, Effect::DeleteLog { base: old_head@ }, Effect::RestoreVA { old: old_head@, new: new_head@, va: stashed_va }); }
        return;
    }

    // Case 5: Normal branch checkout - migrate working log
    debug_log(opq_msg());
    let _ = opq_rename_log(repository, &old_head, &new_head);
    //@ proof { lemma_seq1_push(log0, Effect::RenameLog { from: old_head@, to: new_head@ }); }
}
//#end

//#item file=src/commands/hooks/checkout_hooks.rs kind=fn name=capture_va_for_merge opaque='[{"expr": "repository.head().ok().and_then(|h| h.target().ok())", "call": "opq_head_target(repository)"}, {"expr": "VirtualAttributions::from_just_working_log( repository.clone(), head_sha.clone(), Some(human_author), )", "call": "opq_va_from_working_log(repository, &head_sha, human_author)"}, {"expr": "!va.attributions.is_empty()", "call": "opq_va_nonempty(&va)"}, {"expr": "&format!( \"Captured VA with {} files for checkout --merge preservation\", va.attributions.len() )", "call": "opq_msg()"}, {"expr": "&format!(\"Failed to build VirtualAttributions: {}\", e)", "call": "opq_msg()"}]'
fn capture_va_for_merge(
    parsed_args: &ParsedGitInvocation,
    repository: &Repository,
    command_hooks_context: &mut CommandHooksContext,
)
//@     ensures captured_ok(*old(command_hooks_context), *final(command_hooks_context), repository.w@.head),
{
    debug_log("Detected checkout --merge with uncommitted changes, capturing VirtualAttributions");

    let head_sha = match opq_head_target(repository) {
        Some(sha) => sha,
        None => {
            debug_log("Failed to get HEAD for VA capture");
            return;
        }
    };

    let human_author = get_commit_default_author(repository, &parsed_args.command_args);
    match opq_va_from_working_log(repository, &head_sha, human_author) {
        Ok(va) => {
            if opq_va_nonempty(&va) {
                debug_log(opq_msg());
                command_hooks_context.stashed_va = Some(va);
            } else {
                debug_log("No attributions in working log to preserve");
            }
        }
        Err(e) => {
            debug_log(opq_msg());
        }
    }
}
//#end

//#item file=src/commands/hooks/checkout_hooks.rs kind=fn name=pre_checkout_hook
pub fn pre_checkout_hook(
    parsed_args: &ParsedGitInvocation,
    repository: &mut Repository,
    command_hooks_context: &mut CommandHooksContext,
)
//@     ensures
//@         // the pre hook writes, deletes and moves nothing; it records HEAD (unless the caller already did) and may capture the
//@         // attribution of the CURRENT head's working log, only for a `-m` switch of a dirty tree
//@         final(repository).w@ == old(repository).w@,
//@         (old(repository).pre_command_base_commit is None && old(repository).pre_command_refname is None) ==> opt_view(final(repository).pre_command_base_commit) == old(repository).w@.head,
//@         (old(repository).pre_command_base_commit is Some || old(repository).pre_command_refname is Some) ==> final(repository).pre_command_base_commit == old(repository).pre_command_base_commit,
//@         captured_ok(*old(command_hooks_context), *final(command_hooks_context), old(repository).w@.head),
//@         !(merge_exact(strs(parsed_args.command_args@)) && old(repository).w@.dirty) ==> final(command_hooks_context).stashed_va == old(command_hooks_context).stashed_va,
{
    repository.require_pre_command_head();

    // If --merge is used, we need to capture VirtualAttributions before the checkout
    // because the merge might shift lines around
    if is_merge_checkout(parsed_args) && has_uncommitted_changes(repository) {
        capture_va_for_merge(parsed_args, repository, command_hooks_context);
    }
}
//#end

// ================================================================== git switch (same names as in checkout_hooks.rs: own module)
pub mod sw {
use super::*;
//#item file=src/commands/hooks/switch_hooks.rs kind=fn name=is_force_switch opaque='[{"expr": "parsed_args .command_args .iter() .any(|arg| arg == \"-f\" || arg == \"--force\" || arg == \"--discard-changes\")", "call": "opq_any_force3(&parsed_args.command_args)"}]'
fn is_force_switch(parsed_args: &ParsedGitInvocation) -> (r_: bool)
//@     ensures r_ == sw_force_exact(strs(parsed_args.command_args@)),
{
    opq_any_force3(&parsed_args.command_args)
}
//#end

//#item file=src/commands/hooks/switch_hooks.rs kind=fn name=is_merge_switch
fn is_merge_switch(parsed_args: &ParsedGitInvocation) -> (r_: bool)
//@     ensures r_ == merge_exact(strs(parsed_args.command_args@)),
{
    parsed_args.has_command_flag("--merge") || parsed_args.has_command_flag("-m")
}
//#end

/// switch_hooks.rs' own copy of capture_va_for_merge: the engine keys items by name, so the copy cannot be a second `fn` item; its
/// deciding part (WHICH head's working log is captured) is the statement region below, the three lines in front of it (debug_log,
/// `repository.head()` -> head_sha or return) are covered only by the driver
#[verifier::external_body]
fn capture_va_for_merge(parsed_args: &ParsedGitInvocation, repository: &Repository, command_hooks_context: &mut CommandHooksContext)
    ensures captured_ok(*old(command_hooks_context), *final(command_hooks_context), repository.w@.head),
{ unimplemented!() }
//#item file=src/commands/hooks/switch_hooks.rs kind=region name=sw_capture in=capture_va_for_merge from="let human_author =" to="$block_end" from_nth=0 to_nth=0 opaque='[{"expr": "VirtualAttributions::from_just_working_log( repository.clone(), head_sha.clone(), Some(human_author), )", "call": "opq_va_from_working_log(repository, &head_sha, human_author)"}, {"expr": "!va.attributions.is_empty()", "call": "opq_va_nonempty(&va)"}, {"expr": "&format!( \"Captured VA with {} files for switch --merge preservation\", va.attributions.len() )", "call": "opq_msg()"}, {"expr": "&format!(\"Failed to build VirtualAttributions: {}\", e)", "call": "opq_msg()"}]'
//@ fn region_sw_capture(parsed_args: &ParsedGitInvocation, repository: &Repository, command_hooks_context: &mut CommandHooksContext, head_sha: String)
//@     requires repository.w@.head == Some(head_sha@),
//@     ensures captured_ok(*old(command_hooks_context), *final(command_hooks_context), repository.w@.head),
//@ {
    let human_author = get_commit_default_author(repository, &parsed_args.command_args);
    match opq_va_from_working_log(repository, &head_sha, human_author) {
        Ok(va) => {
            if opq_va_nonempty(&va) {
                debug_log(opq_msg());
                command_hooks_context.stashed_va = Some(va);
            } else {
                debug_log("No attributions in working log to preserve");
            }
        }
        Err(e) => {
            debug_log(opq_msg());
        }
    }
//@ }
//#end

//#item file=src/commands/hooks/switch_hooks.rs kind=fn name=pre_switch_hook
pub fn pre_switch_hook(
    parsed_args: &ParsedGitInvocation,
    repository: &mut Repository,
    command_hooks_context: &mut CommandHooksContext,
)
//@     ensures
//@         // the pre hook writes, deletes and moves nothing; it records HEAD (unless the caller already did) and may capture the
//@         // attribution of the CURRENT head's working log, only for a `-m` switch of a dirty tree
//@         final(repository).w@ == old(repository).w@,
//@         (old(repository).pre_command_base_commit is None && old(repository).pre_command_refname is None) ==> opt_view(final(repository).pre_command_base_commit) == old(repository).w@.head,
//@         (old(repository).pre_command_base_commit is Some || old(repository).pre_command_refname is Some) ==> final(repository).pre_command_base_commit == old(repository).pre_command_base_commit,
//@         captured_ok(*old(command_hooks_context), *final(command_hooks_context), old(repository).w@.head),
//@         !(merge_exact(strs(parsed_args.command_args@)) && old(repository).w@.dirty) ==> final(command_hooks_context).stashed_va == old(command_hooks_context).stashed_va,
{
    repository.require_pre_command_head();

    // If --merge is used, we need to capture VirtualAttributions before the switch
    // because the merge might shift lines around
    if is_merge_switch(parsed_args) && has_uncommitted_changes(repository) {
        capture_va_for_merge(parsed_args, repository, command_hooks_context);
    }
}
//#end

//#item file=src/commands/hooks/switch_hooks.rs kind=fn name=post_switch_hook opaque='[{"expr": "repository.head().ok().and_then(|h| h.target().ok())", "call": "opq_head_target(repository)"}, {"expr": "old_head == new_head", "call": "opq_string_eq(&old_head, &new_head)"}, {"expr": "&format!( \"Force switch detected, deleting working log for {}\", &old_head )", "call": "opq_msg()"}, {"expr": "repository .storage .delete_working_log_for_base_commit(&old_head)", "call": "opq_delete_log(repository, &old_head)"}, {"expr": "&format!( \"Switch changed HEAD: {} -> {}\", &old_head, &new_head )", "call": "opq_msg()"}, {"expr": "repository.storage.rename_working_log(&old_head, &new_head)", "call": "opq_rename_log(repository, &old_head, &new_head)"}]'
pub fn post_switch_hook(
    parsed_args: &ParsedGitInvocation,
    repository: &mut Repository,
    exit_status: std::process::ExitStatus,
    command_hooks_context: &mut CommandHooksContext,
)
//@     ensures
//@         same_env(*old(repository), *final(repository)),
//@         !exit_ok(exit_status) ==> final(repository).w@.log == old(repository).w@.log,
//@         !dev_sw_spelling(strs(parsed_args.command_args@))
//@             && (sw_merge(strs(parsed_args.command_args@)) || old(command_hooks_context).stashed_va is None)
//@         ==> final(repository).w@.log == old(repository).w@.log + sw_effects(strs(parsed_args.command_args@), exit_ok(exit_status),
//@                 opt_view(old(repository).pre_command_base_commit), old(repository).w@.head, old(command_hooks_context).stashed_va),
{
    //@ let ghost log0 = repository.w@.log;
    //@ proof { lemma_seq2_push(log0, arbitrary(), arbitrary()); }
    if !exit_status.success() {
        debug_log("Switch failed, skipping working log handling");
        return;
    }

    let old_head = match &repository.pre_command_base_commit {
        Some(sha) => sha.clone(),
        None => return,
    };

    let new_head = match opq_head_target(repository) {
        Some(sha) => sha,
        None => return,
    };

    // Force switch - delete working log (changes discarded).
    // Checked before the HEAD comparison: `git switch --discard-changes <current branch>`
    // discards local changes even though HEAD does not move.
    if is_force_switch(parsed_args) {
        debug_log(opq_msg());
        let _ = opq_delete_log(repository, &old_head);
        //@ proof { lemma_seq1_push(log0, Effect::DeleteLog { base: old_head@ }); }
        return;
    }

    if opq_string_eq(&old_head, &new_head) {
        debug_log("HEAD unchanged after switch, no working log handling needed");
        return;
    }

    // --merge switch - restore VirtualAttributions (lines may have shifted)
    if let Some(stashed_va) = command_hooks_context.stashed_va.take() {
        debug_log("Restoring VA after switch --merge");
        let _ = opq_delete_log(repository, &old_head);
        restore_stashed_va(repository, &old_head, &new_head, stashed_va);
        //@ proof { lemma_seq2_push(log0, Effect::DeleteLog { base: old_head@ }, Effect::RestoreVA { old: old_head@, new: new_head@, va: stashed_va }); }
        return;
    }

    // Normal branch switch - migrate working log
    debug_log(opq_msg());
    let _ = opq_rename_log(repository, &old_head, &new_head);
    //@ proof { lemma_seq1_push(log0, Effect::RenameLog { from: old_head@, to: new_head@ }); }
}
//#end
} // mod sw

// ================================================================== git stash
// ---- stand-ins of the working-log storage (typing only) and FACTS about what was written
#[verifier::external_body] pub struct LineAttrs { _o: () }            // Vec<LineAttribution>
#[verifier::external_body] pub struct InitFiles { _o: () }            // HashMap<String, Vec<LineAttribution>>
#[verifier::external_body] pub struct InitPrompts { _o: () }          // HashMap<String, PromptRecord>
#[verifier::external_body] pub struct InitialFile { _o: () }         // PathBuf of <working log dir>/INITIAL
pub struct PersistedWorkingLog { pub initial_file: InitialFile }
#[verifier::external_body] pub struct AuthorshipLog { _o: () }
pub struct InitialAttributions { pub files: InitFiles, pub prompts: InitPrompts }
pub uninterp spec fn fview(f: InitFiles) -> Map<Seq<char>, LineAttrs>;
pub uninterp spec fn la_empty(v: LineAttrs) -> bool;
/// the base commit whose working log the INITIAL file belongs to
pub uninterp spec fn file_head(f: InitialFile) -> Seq<char>;
pub open spec fn wl_head(w: PersistedWorkingLog) -> Seq<char> { file_head(w.initial_file) }
/// what the INITIAL file of `base`'s working log holds when the function under contract starts (empty when there is no file)
pub uninterp spec fn init_files(base: Seq<char>) -> InitFiles;
pub uninterp spec fn init_prompts(base: Seq<char>) -> InitPrompts;
pub open spec fn m_empty(m: Map<Seq<char>, LineAttrs>) -> bool { forall|k: Seq<char>| !m.dom().contains(k) }
/// the entries with at least one line
pub open spec fn nonempty(m: Map<Seq<char>, LineAttrs>) -> Map<Seq<char>, LineAttrs> { m.restrict(m.dom().filter(|k: Seq<char>| !la_empty(m[k]))) }
/// m without the first n of the given files
pub open spec fn without(m: Map<Seq<char>, LineAttrs>, files: Seq<Seq<char>>, n: int) -> Map<Seq<char>, LineAttrs>
    decreases n
{
    if n <= 0 { m } else { without(m, files, n - 1).remove(files[n - 1]) }
}
/// FACT (only a write stub establishes it): the INITIAL file of `base`'s working log was overwritten with exactly (m, p)
pub uninterp spec fn fact_initial_is(base: Seq<char>, m: Map<Seq<char>, LineAttrs>, p: InitPrompts) -> bool;
/// FACT: `git notes --ref=ai-stash add -f -F - <stash>` was given `content`
pub uninterp spec fn fact_note_saved(stash: Seq<char>, content: Seq<char>) -> bool;
/// the INITIAL attribution of `base` is now m: it was written, or there is nothing to hold and nothing was there
/// FACT (only the remove stub establishes it): the INITIAL file of `base`'s working log was removed
pub uninterp spec fn fact_initial_removed(base: Seq<char>) -> bool;
pub open spec fn initial_now_is(base: Seq<char>, m: Map<Seq<char>, LineAttrs>, p: InitPrompts) -> bool {
    fact_initial_is(base, m, p) || (m_empty(m) && (m_empty(fview(init_files(base))) || fact_initial_removed(base)))
}
impl InitialFile {
    /// Path::exists: without a file read_initial_attributions answers the empty default
    #[verifier::external_body] pub fn exists(&self) -> (r: bool) ensures !r ==> m_empty(fview(init_files(file_head(*self)))), { unimplemented!() }
}
/// std::fs as the storage uses it on the INITIAL file (stand-in module: the calls are NOT abstracted away, removing one fails the contract)
pub mod fs {
    use super::*;
    #[verifier::external_body]
    pub fn remove_file(f: &InitialFile) -> (r: Result<(), GitAiError>)
        ensures r is Ok ==> fact_initial_removed(file_head(*f)),
    { unimplemented!() }
    #[verifier::external_body]
    pub fn write(f: &InitialFile, json: String) -> (r: Result<(), GitAiError>)
        ensures r is Ok ==> fact_initial_is(file_head(*f), json_of(json@).0, json_of(json@).1),
    { unimplemented!() }
}
impl RepoStorage {
    #[verifier::external_body] pub fn working_log_for_base_commit(&self, sha: &str) -> (r: PersistedWorkingLog) ensures wl_head(r) == sha@, { unimplemented!() }
}
impl InitFiles {
    #[verifier::external_body] pub fn is_empty(&self) -> (r: bool) ensures r == m_empty(fview(*self)), { unimplemented!() }
    #[verifier::external_body] pub fn remove(&mut self, k: &String) -> (r: Option<LineAttrs>) ensures fview(*final(self)) == fview(*old(self)).remove(k@), { unimplemented!() }
    #[verifier::external_body] pub fn clone(&self) -> (r: InitFiles) ensures fview(r) == fview(*self), { unimplemented!() }
}
impl InitPrompts {
    #[verifier::external_body] pub fn is_empty(&self) -> (r: bool) { unimplemented!() }
    #[verifier::external_body] pub fn clone(&self) -> (r: InitPrompts) ensures r == *self, { unimplemented!() }
}
/// `attributions.into_iter().filter(|(_, attrs)| !attrs.is_empty()).collect()`
#[verifier::external_body]
fn opq_drop_empty(attributions: InitFiles) -> (r: InitFiles)
    ensures fview(r) == nonempty(fview(attributions)),
{ unimplemented!() }
/// `serde_json::to_string_pretty(&initial_data)?` followed by `fs::write(&self.initial_file, json)?`: the file of THIS working log
pub uninterp spec fn json_of(s: Seq<char>) -> (Map<Seq<char>, LineAttrs>, InitPrompts);
#[verifier::external_body]
fn opq_to_json(d: &InitialAttributions) -> (r: Result<String, GitAiError>)
    ensures r matches Ok(s) ==> json_of(s@) == (fview(d.files), d.prompts),
{ unimplemented!() }
proof fn lemma_nonempty_idem(m: Map<Seq<char>, LineAttrs>)
    ensures nonempty(nonempty(m)) =~= nonempty(m),
{ }
impl PersistedWorkingLog {
    #[verifier::external_body] pub fn read_initial_attributions(&self) -> (r: InitialAttributions)
        ensures r.files == init_files(wl_head(*self)), r.prompts == init_prompts(wl_head(*self)), { unimplemented!() }
//#item file=src/git/repo_storage.rs kind=fn name=write_initial_attributions impl="PersistedWorkingLog" opaque='[{"expr": "HashMap<String, Vec<LineAttribution>>", "call": "InitFiles"}, {"expr": "HashMap<String, PromptRecord>", "call": "InitPrompts"}, {"expr": "attributions .into_iter() .filter(|(_, attrs)| !attrs.is_empty()) .collect()", "call": "opq_drop_empty(attributions)"}, {"expr": "serde_json::to_string_pretty(&initial_data)?", "call": "opq_to_json(&initial_data)?"}]'
    pub fn write_initial_attributions(
        &self,
        attributions: InitFiles,
        prompts: InitPrompts,
    ) -> (r_: Result<(), GitAiError>)
    //@     ensures
    //@         // after Ok the INITIAL file of THIS working log holds exactly the entries given that have lines (and the prompts given)
    //@         r_ is Ok ==> initial_now_is(wl_head(*self), nonempty(fview(attributions)), prompts),
    {
        // Filter out empty attributions
        let filtered: InitFiles = opq_drop_empty(attributions);

        if filtered.is_empty() {
            // Don't create an INITIAL file if there are no attributions, and don't leave
            // one behind: callers that removed the last file expect it to be gone.
            if self.initial_file.exists() {
                fs::remove_file(&self.initial_file)?;
            }
            return Ok(());
        }

        let initial_data = InitialAttributions {
            files: filtered,
            prompts,
        };

        let json = opq_to_json(&initial_data)?;
        fs::write(&self.initial_file, json)?;

        Ok(())
    }
//#end
}

//#item file=src/commands/hooks/stash_hooks.rs kind=fn name=delete_working_log_for_files
fn delete_working_log_for_files(
    repo: &Repository,
    base_commit: &str,
    files: &[String],
) -> (r_: Result<(), GitAiError>)
//@     ensures
//@         // after Ok: the INITIAL attribution of base_commit is what it was, minus exactly `files` (prompts untouched)
//@         r_ is Ok && files@.len() > 0
//@             ==> initial_now_is(base_commit@, nonempty(without(fview(init_files(base_commit@)), strs(files@), files@.len() as int)), init_prompts(base_commit@)),
{
    if files.is_empty() {
        return Ok(());
    }

    let working_log = repo.storage.working_log_for_base_commit(base_commit);

    // Read current initial attributions
    let mut initial_attrs = working_log.read_initial_attributions();

    //@ let ghost m0 = fview(init_files(base_commit@));
    // Remove entries for the specified files
    for file in it_0: files
    //@     invariant
    //@         it_0.snapshot@.remaining().len() == files@.len(), forall|k: int| 0 <= k < files@.len() ==> *(#[trigger] it_0.snapshot@.remaining()[k]) == files@[k],
    //@         fview(initial_attrs.files) == without(m0, strs(files@), it_0.index@ as int), initial_attrs.prompts == init_prompts(base_commit@),
    {
        //@ proof { assert(*file == files@[it_0.index@ as int]); assert(strs(files@)[it_0.index@ as int] == file@); }
        initial_attrs.files.remove(file);
    }

    // Write back the modified attributions
    working_log.write_initial_attributions(initial_attrs.files, initial_attrs.prompts)?;

    // Note: We're not modifying checkpoints here as they're historical records
    // The files were stashed, so we just remove them from the initial attributions

    Ok(())
}
//#end

// ---- the stash hooks
/// ParsedGitInvocation::pos_command(n) (under contract in unit hookargs): the n-th positional argument as the CODE reads it
pub uninterp spec fn pos_cmd(a: Seq<Seq<char>>, n: int) -> Option<Seq<char>>;
/// extract_stash_pathspecs (under contract in unit hookargs)
pub uninterp spec fn stash_paths(a: Seq<Seq<char>>) -> Seq<Seq<char>>;
/// what `git rev-parse <ref>` answered when the pre hook / the post hook asked
pub uninterp spec fn rev_of(r: Seq<char>) -> Seq<char>;
/// file_matches_pathspecs (under contract in unit hookargs)
pub uninterp spec fn stash_selects(f: Seq<char>, paths: Seq<Seq<char>>) -> bool;
pub uninterp spec fn va_files(va: VirtualAttributions) -> Seq<Seq<char>>;
pub uninterp spec fn va_log(va: VirtualAttributions) -> AuthorshipLog;
/// the attestations of the log restricted to the given files
pub uninterp spec fn restrict_log(l: AuthorshipLog, files: Seq<Seq<char>>) -> AuthorshipLog;
pub uninterp spec fn ser_log(l: AuthorshipLog) -> Seq<char>;
impl ParsedGitInvocation {
    #[verifier::external_body] pub fn pos_command(&self, n: u8) -> (r: Option<String>) ensures opt_view(r) == pos_cmd(strs(self.command_args@), n as int), { unimplemented!() }
}
#[verifier::external_body] pub fn extract_stash_pathspecs(parsed_args: &ParsedGitInvocation) -> (r: Vec<String>) ensures strs(r@) == stash_paths(strs(parsed_args.command_args@)), { unimplemented!() }
#[verifier::external_body] fn opq_string_is(a: &String, b: &str) -> (r: bool) ensures r == (a@ == b@), { unimplemented!() }
/// `parsed_args.pos_command(1).unwrap_or_else(|| "stash@{0}".to_string())`
#[verifier::external_body]
fn opq_stash_ref(p: &ParsedGitInvocation) -> (r: String)
    ensures r@ == (match pos_cmd(strs(p.command_args@), 1) { Some(x) => x, None => "stash@{0}"@ }),
{ unimplemented!() }
/// `git rev-parse <ref>` (reads only)
#[verifier::external_body]
pub fn resolve_stash_to_sha(repo: &Repository, stash_ref: &str) -> (r: Result<String, GitAiError>)
    ensures r matches Ok(s) ==> s@ == rev_of(stash_ref@),
{ unimplemented!() }
/// the statement `let _ = match crate::commands::checkpoint::run(repository, .., CheckpointKind::Human, ..) { Ok(r) => r, Err(e) => { debug_log(..); return; } };`
/// (last statement of the function: the `return` changes nothing)
#[verifier::external_body]
fn opq_human_checkpoint(r: &mut Repository, args: &Vec<String>)
    ensures logged(*old(r), *final(r), Effect::HumanCheckpoint),
{ unimplemented!() }
/// the CALL of save_stash_authorship_log (an item of this unit; it takes `&Repository`, so the effect is logged here)
#[verifier::external_body]
fn opq_call_save_stash(r: &mut Repository, pathspecs: &Vec<String>) -> (o: Result<(), GitAiError>)
    ensures logged(*old(r), *final(r), Effect::SaveStash { paths: strs(pathspecs@) }),
{ unimplemented!() }
/// the CALL of restore_stash_attributions (its deciding part is region rs_write)
#[verifier::external_body]
fn opq_call_restore_stash(r: &mut Repository, stash_sha: &String, human_author: &String) -> (o: Result<(), GitAiError>)
    ensures logged(*old(r), *final(r), Effect::RestoreStash { stash: stash_sha@ }),
{ unimplemented!() }
/// `repo.head()?.target()?.to_string()`
#[verifier::external_body]
fn opq_head_sha(r: &Repository) -> (o: Result<String, GitAiError>)
    ensures o matches Ok(s) ==> r.w@.head == Some(s@),
{ unimplemented!() }
/// `VirtualAttributions::from_just_working_log(repo.clone(), head_sha.clone(), None)?`
#[verifier::external_body]
fn opq_va_from_working_log_none(r: &Repository, head: &String) -> (o: Result<VirtualAttributions, GitAiError>)
    ensures o matches Ok(va) ==> va == wl_va(head@),
{ unimplemented!() }
/// `va.files().into_iter().map(|f| f.to_string()).collect()`
#[verifier::external_body]
fn opq_va_files(va: &VirtualAttributions) -> (r: Vec<String>)
    ensures strs(r@) == va_files(*va),
{ unimplemented!() }
/// `va.files().into_iter().filter(|file| file_matches_pathspecs(file, pathspecs, repo)).map(|f| f.to_string()).collect()`
#[verifier::external_body]
fn opq_va_files_matching(va: &VirtualAttributions, pathspecs: &[String], repo: &Repository) -> (r: Vec<String>)
    ensures strs(r@) == va_files(*va).filter(|f: Seq<char>| stash_selects(f, strs(pathspecs@))),
{ unimplemented!() }
#[verifier::external_body]
fn opq_to_authorship_log(va: &VirtualAttributions) -> (r: Result<AuthorshipLog, GitAiError>)
    ensures r matches Ok(l) ==> l == va_log(*va),
{ unimplemented!() }
/// `authorship_log.attestations.retain(|a| filtered_files.contains(&a.file_path))`
#[verifier::external_body]
fn opq_retain_files(l: &mut AuthorshipLog, files: &Vec<String>)
    ensures *final(l) == restrict_log(*old(l), strs(files@)),
{ unimplemented!() }
#[verifier::external_body]
fn opq_serialize(l: &AuthorshipLog) -> (r: Result<String, GitAiError>)
    ensures r matches Ok(s) ==> s@ == ser_log(*l),
{ unimplemented!() }
/// save_stash_note: `git notes --ref=ai-stash add -f -F - <stash>` with the content on stdin
#[verifier::external_body]
pub fn save_stash_note(repo: &Repository, stash_sha: &str, content: &str) -> (r: Result<(), GitAiError>)
    ensures r is Ok ==> fact_note_saved(stash_sha@, content@),
{ unimplemented!() }
/// git-stash(1): no argument, or an option first, is `push`; otherwise the first argument names the subcommand
pub open spec fn git_stash_sub(a: Seq<Seq<char>>) -> Seq<char> { if a.len() == 0 || (a[0].len() > 0 && a[0][0] == '-') { "push"@ } else { a[0] } }
pub open spec fn code_stash_sub(a: Seq<Seq<char>>) -> Seq<char> { match pos_cmd(a, 0) { Some(x) => x, None => "push"@ } }
/// F6: the implicit push written with options / `--` in front (`git stash -- f.txt`, `git stash -q -- f.txt`) is read as subcommand `f.txt`
pub open spec fn dev_stash_sub(a: Seq<Seq<char>>) -> bool { code_stash_sub(a) != git_stash_sub(a) }
pub open spec fn stash_effects(a: Seq<Seq<char>>, ok: bool, captured: Option<Seq<char>>) -> Seq<Effect> {
    let sub = git_stash_sub(a);
    if !ok { Seq::empty() }                                                              // C02: a failed stash changes nothing
    else if sub == "push"@ || sub == "save"@ { seq![Effect::SaveStash { paths: stash_paths(a) }] }
    else if (sub == "pop"@ || sub == "apply"@) && captured is Some { seq![Effect::RestoreStash { stash: captured.unwrap() }] }
    else { Seq::empty() }                                                                // list / show / drop / clear / ..: nothing pending changes
}

//#item file=src/commands/hooks/stash_hooks.rs kind=fn name=pre_stash_hook opaque='[{"expr": "subcommand == \"pop\"", "call": "opq_string_is(&subcommand, \"pop\")"}, {"expr": "subcommand == \"apply\"", "call": "opq_string_is(&subcommand, \"apply\")"}, {"expr": "parsed_args .pos_command(1) .unwrap_or_else(|| \"stash@{0}\".to_string())", "call": "opq_stash_ref(parsed_args)"}, {"expr": "&format!(\"Pre-stash: captured stash SHA for {}\", subcommand)", "call": "opq_msg()"}, {"stmt_from": "let _ = match crate::commands::checkpoint::run( repository, &get_commit_default_author(repository, &parsed_args.command_args), CheckpointKind::Human, false, false, true, None, true, ) {", "call": "opq_human_checkpoint(repository, &parsed_args.command_args);"}]'
pub fn pre_stash_hook(
    parsed_args: &ParsedGitInvocation,
    repository: &mut Repository,
    command_hooks_context: &mut CommandHooksContext,
)
//@     ensures
//@         same_env(*old(repository), *final(repository)), final(command_hooks_context).stashed_va == old(command_hooks_context).stashed_va,
//@         // nothing is written before the command, except a HUMAN checkpoint (which credits no AI session)
//@         final(repository).w@.log == old(repository).w@.log || final(repository).w@.log == old(repository).w@.log.push(Effect::HumanCheckpoint),
//@         // pop / apply: the stash that is about to be applied is resolved NOW (pop deletes it): the named one, else stash@{0}
//@         (code_stash_sub(strs(parsed_args.command_args@)) == "pop"@ || code_stash_sub(strs(parsed_args.command_args@)) == "apply"@) && pos_cmd(strs(parsed_args.command_args@), 0) is Some
//@             ==> final(repository).w@.log == old(repository).w@.log
//@                 && (final(command_hooks_context).stash_sha == old(command_hooks_context).stash_sha
//@                     || opt_view(final(command_hooks_context).stash_sha) == Some(rev_of(match pos_cmd(strs(parsed_args.command_args@), 1) { Some(x) => x, None => "stash@{0}"@ }))),
//@         !(code_stash_sub(strs(parsed_args.command_args@)) == "pop"@ || code_stash_sub(strs(parsed_args.command_args@)) == "apply"@) ==> final(command_hooks_context).stash_sha == old(command_hooks_context).stash_sha,
{
    // Check if this is a pop or apply command - we need to capture the stash SHA before Git deletes it
    let subcommand = match parsed_args.pos_command(0) {
        Some(cmd) => cmd,
        None => return, // Implicit push, nothing to capture
    };

    if opq_string_is(&subcommand, "pop") || opq_string_is(&subcommand, "apply") {
        // Capture the stash SHA BEFORE git runs (pop will delete it)
        let stash_ref = opq_stash_ref(parsed_args);

        if let Ok(stash_sha) = resolve_stash_to_sha(repository, &stash_ref) {
            command_hooks_context.stash_sha = Some(stash_sha);
            debug_log(opq_msg());
        }
    } else {
        opq_human_checkpoint(repository, &parsed_args.command_args);
    }
}
//#end

//#item file=src/commands/hooks/stash_hooks.rs kind=fn name=post_stash_hook opaque='[{"expr": "&format!(\"Post-stash: processing stash {}\", subcommand)", "call": "opq_msg()"}, {"expr": "subcommand == \"push\"", "call": "opq_string_is(&subcommand, \"push\")"}, {"expr": "subcommand == \"save\"", "call": "opq_string_is(&subcommand, \"save\")"}, {"expr": "subcommand == \"pop\"", "call": "opq_string_is(&subcommand, \"pop\")"}, {"expr": "subcommand == \"apply\"", "call": "opq_string_is(&subcommand, \"apply\")"}, {"expr": "save_stash_authorship_log(repository, &pathspecs)", "call": "opq_call_save_stash(repository, &pathspecs)"}, {"expr": "&format!(\"Failed to save stash authorship log: {}\", e)", "call": "opq_msg()"}, {"expr": "&format!( \"Restoring attributions from stash SHA: {}\", stash_sha )", "call": "opq_msg()"}, {"expr": "restore_stash_attributions(repository, &stash_sha, &human_author)", "call": "opq_call_restore_stash(repository, &stash_sha, &human_author)"}, {"expr": "&format!(\"Failed to restore stash attributions: {}\", e)", "call": "opq_msg()"}]'
pub fn post_stash_hook(
    command_hooks_context: &CommandHooksContext,
    parsed_args: &ParsedGitInvocation,
    repository: &mut Repository,
    exit_status: std::process::ExitStatus,
)
//@     ensures
//@         same_env(*old(repository), *final(repository)),
//@         !exit_ok(exit_status) ==> final(repository).w@.log == old(repository).w@.log,
//@         !dev_stash_sub(strs(parsed_args.command_args@)) ==> final(repository).w@.log == old(repository).w@.log
//@             + stash_effects(strs(parsed_args.command_args@), exit_ok(exit_status), opt_view(command_hooks_context.stash_sha)),
{
    //@ let ghost log0 = repository.w@.log;
    //@ proof { lemma_seq2_push(log0, arbitrary(), arbitrary()); }
    if !exit_status.success() {
        debug_log("Stash failed, skipping post-stash hook");
        return;
    }

    // Check what subcommand was used
    let subcommand = match parsed_args.pos_command(0) {
        Some(cmd) => cmd,
        None => {
            // No subcommand means implicit "push"
            "push".to_string()
        }
    };

    debug_log(opq_msg());

    // Handle different subcommands
    if opq_string_is(&subcommand, "push") || opq_string_is(&subcommand, "save") {
        // Extract pathspecs from command
        let pathspecs = extract_stash_pathspecs(parsed_args);

        // Stash was created - save authorship log as git note
        if let Err(e) = opq_call_save_stash(repository, &pathspecs) {
            debug_log(opq_msg());
        }
        //@ proof { lemma_seq1_push(log0, Effect::SaveStash { paths: strs(pathspecs@) }); }
    } else if opq_string_is(&subcommand, "pop") || opq_string_is(&subcommand, "apply") {
        // Stash was applied - restore attributions from git note
        // Use the stash SHA we captured in pre-hook (before Git deleted it)
        let stash_sha = match &command_hooks_context.stash_sha {
            Some(sha) => sha.clone(),
            None => {
                debug_log("No stash SHA captured in pre-hook, cannot restore attributions");
                return;
            }
        };

        debug_log(opq_msg());

        let human_author = get_commit_default_author(repository, &parsed_args.command_args);

        if let Err(e) = opq_call_restore_stash(repository, &stash_sha, &human_author) {
            debug_log(opq_msg());
        }
        //@ proof { lemma_seq1_push(log0, Effect::RestoreStash { stash: stash_sha@ }); }
    }
}
//#end

/// the files whose attribution goes into the stash note and out of the working log: all files the working log knows when no pathspec
/// is given, else those the pathspecs select
pub open spec fn stash_selected(va: VirtualAttributions, paths: Seq<Seq<char>>) -> Seq<Seq<char>> {
    if paths.len() == 0 { va_files(va) } else { va_files(va).filter(|f: Seq<char>| stash_selects(f, paths)) }
}
//#item file=src/commands/hooks/stash_hooks.rs kind=fn name=save_stash_authorship_log opaque='[{"expr": "repo.head()?.target()?.to_string()", "call": "opq_head_sha(repo)?"}, {"expr": "&format!(\"Stash created with SHA: {}\", stash_sha)", "call": "opq_msg()"}, {"expr": "VirtualAttributions::from_just_working_log(repo.clone(), head_sha.clone(), None)?", "call": "opq_va_from_working_log_none(repo, &head_sha)?"}, {"expr": "working_log_va .files() .into_iter() .map(|f| f.to_string()) .collect()", "call": "opq_va_files(&working_log_va)"}, {"expr": "working_log_va .files() .into_iter() .filter(|file| file_matches_pathspecs(file, pathspecs, repo)) .map(|f| f.to_string()) .collect()", "call": "opq_va_files_matching(&working_log_va, pathspecs, repo)"}, {"expr": "&format!( \"Saving attributions for {} files (pathspecs: {:?})\", filtered_files.len(), pathspecs )", "call": "opq_msg()"}, {"expr": "working_log_va.to_authorship_log()?", "call": "opq_to_authorship_log(&working_log_va)?"}, {"expr": "authorship_log .attestations .retain(|a| filtered_files.contains(&a.file_path))", "call": "opq_retain_files(&mut authorship_log, &filtered_files)"}, {"expr": "authorship_log .serialize_to_string() .map_err(|e| GitAiError::Generic(format!(\"Failed to serialize authorship log: {}\", e)))?", "call": "opq_serialize(&authorship_log)?"}, {"expr": "&format!( \"Saved authorship log to refs/notes/ai-stash for stash {}\", stash_sha )", "call": "opq_msg()"}, {"expr": "&format!( \"Deleted working log entries for {} files\", filtered_files.len() )", "call": "opq_msg()"}]'
fn save_stash_authorship_log(repo: &Repository, pathspecs: &[String]) -> (r_: Result<(), GitAiError>)
//@     ensures
//@         // after Ok, with H the CURRENT head and S the selected files of H's working log (S non-empty): the note of the NEW stash
//@         // (stash@{0}) holds the attribution of H's working log restricted to S, and H's INITIAL attribution lost exactly S
//@         r_ is Ok ==> repo.w@.head is Some && ({
//@             let h = repo.w@.head.unwrap(); let sel = stash_selected(wl_va(h), strs(pathspecs@));
//@             sel.len() == 0 || (fact_note_saved(rev_of("stash@{0}"@), ser_log(restrict_log(va_log(wl_va(h)), sel)))
//@                 && initial_now_is(h, nonempty(without(fview(init_files(h)), sel, sel.len() as int)), init_prompts(h))) }),
{
    let head_sha = opq_head_sha(repo)?;

    // Get the stash SHA that was just created (stash@{0})
    let stash_sha = resolve_stash_to_sha(repo, "stash@{0}")?;
    debug_log(opq_msg());

    // Build VirtualAttributions from the working log before it was cleared
    let working_log_va =
        opq_va_from_working_log_none(repo, &head_sha)?;

    // Filter attributions to only include files that match the pathspecs
    let filtered_files: Vec<String> = if pathspecs.is_empty() {
        // No pathspecs means all files
        opq_va_files(&working_log_va)
    } else {
        opq_va_files_matching(&working_log_va, pathspecs, repo)
    };

    //@ proof { assert(strs(pathspecs@).len() == pathspecs@.len()); assert(strs(filtered_files@).len() == filtered_files@.len()); }
    // If there are no attributions, just clean up working log for filtered files
    if filtered_files.is_empty() {
        debug_log("No attributions to save for stash");
        delete_working_log_for_files(repo, &head_sha, &filtered_files)?;
        return Ok(());
    }

    debug_log(opq_msg());

    // Convert to authorship log, filtering to only include matched files
    let mut authorship_log = opq_to_authorship_log(&working_log_va)?;
    opq_retain_files(&mut authorship_log, &filtered_files);

    // Save as git note at refs/notes/ai-stash
    let json = opq_serialize(&authorship_log)?;
    save_stash_note(repo, &stash_sha, &json)?;

    debug_log(opq_msg());

    // Delete the working log entries for files that were stashed
    delete_working_log_for_files(repo, &head_sha, &filtered_files)?;
    debug_log(opq_msg());

    Ok(())
}
//#end

/// `working_log.write_initial_attributions(initial_files.clone(), initial_prompts.clone())?` inside region rs_write (a region may not
/// contain `?`): the call of the item above, its error swallowed
#[verifier::external_body]
fn opq_write_initial_q(w: &PersistedWorkingLog, files: InitFiles, prompts: InitPrompts, Ghost(base): Ghost<Seq<char>>)
    requires wl_head(*w) == base,          // WHICH working log is written
{ unimplemented!() }
//#item file=src/commands/hooks/stash_hooks.rs kind=region name=rs_write in=restore_stash_attributions from="if !initial_files.is_empty()" to="Ok(())" from_nth=0 to_nth=0 to_exclusive=yes opaque='[{"expr": "working_log.write_initial_attributions(initial_files.clone(), initial_prompts.clone())?", "call": "opq_write_initial_q(&working_log, initial_files.clone(), initial_prompts.clone(), Ghost(cur_head))"}, {"expr": "&format!( \"✓ Wrote INITIAL attributions to working log for {}\", head_sha )", "call": "opq_msg()"}]'
//@ fn region_rs_write(repo: &Repository, head_sha: String, initial_files: InitFiles, initial_prompts: InitPrompts)
//@     requires repo.w@.head == Some(head_sha@),      // head_sha is `repo.head()?.target()?` read at the top of the function: the CURRENT head
//@ {
    //@ let ghost cur_head = repo.w@.head.unwrap();
    if !initial_files.is_empty() || !initial_prompts.is_empty() {
        let working_log = repo.storage.working_log_for_base_commit(&head_sha);
        opq_write_initial_q(&working_log, initial_files.clone(), initial_prompts.clone(), Ghost(cur_head));

        debug_log(opq_msg());
    }
//@ }
//#end

// ================================================================== path checkout: which entries leave the working log
#[verifier::external_body] pub struct Checkpoint { _o: () }
pub open spec fn is_prefix(p: Seq<char>, s: Seq<char>) -> bool { p.len() <= s.len() && s.subrange(0, p.len() as int) == p }
/// gitglossary(7) pathspec, literal forms: `.` names the whole work tree (repaired finding F4, /repo 92077dfb), the file itself,
/// everything below a directory written with or without the trailing slash
pub open spec fn co_selects1(p: Seq<char>, f: Seq<char>) -> bool {
    p == "."@ || f == p || (p.len() > 0 && p.last() == '/' && is_prefix(p, f)) || is_prefix(p.push('/'), f)
}
pub open spec fn co_selects(f: Seq<char>, paths: Seq<Seq<char>>) -> bool { exists|i: int| 0 <= i < paths.len() && co_selects1(#[trigger] paths[i], f) }
/// `git checkout -- .` leaves no file's pending attribution behind
proof fn theorem_dot_selects_every_file(paths: Seq<Seq<char>>, m: Map<Seq<char>, LineAttrs>)
    requires paths.contains("."@),
    ensures forall|f: Seq<char>| co_selects(f, paths), m_empty(keep_unselected(m, paths)),
{
    let i = choose|i: int| 0 <= i < paths.len() && paths[i] == "."@;
    assert forall|f: Seq<char>| co_selects(f, paths) by { assert(co_selects1(paths[i], f)); }
}
/// rule O1: the whole `.iter().any(..)` expression of matches_any_pathspec (iterator adapter with a closure over str predicates), with the
/// documented meaning of Iterator::any, String == &str, str::ends_with(char), str::starts_with(&str), format!("{}/", p); the sweep runs the original
#[verifier::external_body]
fn opq_any_pathspec_matches(file: &str, pathspecs: &[String]) -> (r: bool)
    ensures r == co_selects(file@, strs(pathspecs@)),
{ unimplemented!() }
//#item file=src/commands/hooks/checkout_hooks.rs kind=fn name=matches_any_pathspec opaque='[{"expr": "pathspecs.iter().any(|p| { p == \".\" || file == p || (p.ends_with(\u0027/\u0027) && file.starts_with(p)) || file.starts_with(&format!(\"{}/\", p)) })", "call": "opq_any_pathspec_matches(file, pathspecs)"}]'
fn matches_any_pathspec(file: &str, pathspecs: &[String]) -> (r_: bool)
//@     ensures r_ == co_selects(file@, strs(pathspecs@)),
{
    opq_any_pathspec_matches(file, pathspecs)
}
//#end
pub open spec fn keep_unselected(m: Map<Seq<char>, LineAttrs>, paths: Seq<Seq<char>>) -> Map<Seq<char>, LineAttrs> { m.restrict(m.dom().filter(|k: Seq<char>| !co_selects(k, paths))) }
/// the checkpoints of `base`'s working log
pub uninterp spec fn cps_of(base: Seq<char>) -> Seq<Checkpoint>;
/// every checkpoint without its entries for selected files; checkpoints left without entries dropped
pub uninterp spec fn cps_without(c: Seq<Checkpoint>, paths: Seq<Seq<char>>) -> Seq<Checkpoint>;
/// `initial.files.into_iter().filter(|(file, _)| !matches_any_pathspec(file, pathspecs)).collect()`
#[verifier::external_body]
fn opq_filter_initial(files: InitFiles, pathspecs: &[String]) -> (r: InitFiles)
    ensures fview(r) == keep_unselected(fview(files), strs(pathspecs@)),
{ unimplemented!() }
/// `checkpoints.into_iter().map(|mut cp| { cp.entries.retain(|entry| !matches_any_pathspec(&entry.file, pathspecs)); cp }).filter(|cp| !cp.entries.is_empty()).collect()`
#[verifier::external_body]
fn opq_filter_checkpoints(c: Vec<Checkpoint>, pathspecs: &[String]) -> (r: Vec<Checkpoint>)
    ensures r@ == cps_without(c@, strs(pathspecs@)),
{ unimplemented!() }
impl PersistedWorkingLog {
    #[verifier::external_body] pub fn read_all_checkpoints(&self) -> (r: Result<Vec<Checkpoint>, GitAiError>)
        ensures r matches Ok(c) ==> c@ == cps_of(wl_head(*self)), { unimplemented!() }
}
/// the two writes of remove_attributions_for_pathspecs (results dropped by the code): the PRECONDITION is the statement about what is written where
#[verifier::external_body]
fn opq_write_initial_pinned(w: &PersistedWorkingLog, files: InitFiles, prompts: InitPrompts, Ghost(exp): Ghost<(Seq<char>, Map<Seq<char>, LineAttrs>, InitPrompts)>) -> (r: Result<(), GitAiError>)
    requires wl_head(*w) == exp.0, fview(files) == exp.1, prompts == exp.2,
{ unimplemented!() }
#[verifier::external_body]
fn opq_write_checkpoints_pinned(w: &PersistedWorkingLog, c: &Vec<Checkpoint>, Ghost(exp): Ghost<(Seq<char>, Seq<Checkpoint>)>) -> (r: Result<(), GitAiError>)
    requires wl_head(*w) == exp.0, c@ == exp.1,
{ unimplemented!() }

//#item file=src/commands/hooks/checkout_hooks.rs kind=fn name=remove_attributions_for_pathspecs opaque='[{"expr": "initial .files .into_iter() .filter(|(file, _)| !matches_any_pathspec(file, pathspecs)) .collect()", "call": "opq_filter_initial(initial.files, pathspecs)"}, {"expr": "working_log.write_initial_attributions(filtered_files, initial.prompts)", "call": "opq_write_initial_pinned(&working_log, filtered_files, initial.prompts, Ghost(exp_initial))"}, {"expr": "checkpoints .into_iter() .map(|mut cp| { cp.entries .retain(|entry| !matches_any_pathspec(&entry.file, pathspecs)); cp }) .filter(|cp| !cp.entries.is_empty()) .collect()", "call": "opq_filter_checkpoints(checkpoints, pathspecs)"}, {"expr": "working_log.write_all_checkpoints(&filtered)", "call": "opq_write_checkpoints_pinned(&working_log, &filtered, Ghost(exp_cps))"}]'
fn remove_attributions_for_pathspecs(repository: &Repository, head: &str, pathspecs: &[String])
//@     // what is written is pinned by the preconditions of the two write stubs (proved at the call sites): `head`'s working log gets
//@     // its INITIAL entries minus the selected files (prompts as they were) and its checkpoints minus the selected files' entries
{
    //@ let ghost exp_initial = (head@, keep_unselected(fview(init_files(head@)), strs(pathspecs@)), init_prompts(head@));
    //@ let ghost exp_cps = (head@, cps_without(cps_of(head@), strs(pathspecs@)));
    let working_log = repository.storage.working_log_for_base_commit(head);

    // Filter INITIAL attributions
    let initial = working_log.read_initial_attributions();
    if !initial.files.is_empty() {
        let filtered_files = opq_filter_initial(initial.files, pathspecs);
        let _ = opq_write_initial_pinned(&working_log, filtered_files, initial.prompts, Ghost(exp_initial));
    }

    // Filter checkpoints
    if let Ok(checkpoints) = working_log.read_all_checkpoints() {
        let filtered: Vec<_> = opq_filter_checkpoints(checkpoints, pathspecs);
        let _ = opq_write_checkpoints_pinned(&working_log, &filtered, Ghost(exp_cps));
    }
}
//#end

} // verus!
fn main() {}
