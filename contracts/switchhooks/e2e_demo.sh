#!/bin/bash
# End-to-end reproduction of findings F1..F8 of unit switchhooks (REPORT.md) with a git-ai binary used as git wrapper (GIT_AI=git).
# usage: GITAI_BIN=<git-ai built from the CURRENT /repo sources> E2E=<scratch dir> bash e2e_demo.sh
# NOTE: /repo/target/debug/git-ai (2026-09-18) predates /repo 7f7e01a4; with it even the control rows show mock_ai.  The results in
# REPORT.md were obtained with `cargo build --offline` on a COPY of /repo (rsync --exclude target --exclude .git) - /repo untouched.
# Every row: two files hold pending AI attribution as INITIAL entries (left over by a partial commit); the command under test throws
# f.txt's AI lines away; a PERSON then writes HUMAN1 / HUMAN2 at the same lines and commits.  `mock_ai` on a HUMAN line = C03 violated.
set -u
: "${GITAI_BIN:?path of the git-ai binary}"; : "${E2E:=/var/tmp/w-switchhooks/e2e}"
export HOME=$E2E/home; mkdir -p $HOME/.git-ai
export GIT_CONFIG_GLOBAL=$HOME/.gitconfig GIT_AI_TEST_DB_PATH=$E2E/db.sqlite GITAI_TEST_DB_PATH=$E2E/db.sqlite
echo '{"exclude_prompts_in_repositories": [], "prompt_storage": "notes", "disable_version_checks": true, "disable_auto_updates": true, "telemetry_oss": "off"}' > $HOME/.git-ai/config.json
git config --global user.name Tester; git config --global user.email t@example.com; git config --global init.defaultBranch main
G() { GIT_AI=git $GITAI_BIN "$@"; }
GA() { $GITAI_BIN "$@"; }
newrepo() { R=$E2E/$1; rm -rf $R; mkdir -p $R; cd $R; git init -q .; }
blame() { GA blame $1 | sed -E 's/^[^(]*\(([A-Za-z_]+) .* [0-9]+\) /\1:/' | tr '\n' ' '; }
row() { name=$1; shift
 newrepo $name; printf 'a\nb\nc\n' > f.txt; printf 'a\nb\nc\n' > h.txt; printf 'x\ny\n' > g.txt; G add .; G commit -q -m init 2>/dev/null; G branch other 2>/dev/null
 printf 'a\nAI1\nAI2\nb\nc\n' > f.txt; printf 'a\nAI3\nb\nc\n' > h.txt; GA checkpoint mock_ai f.txt h.txt >/dev/null 2>&1
 echo z >> g.txt; G add g.txt; G commit -q -m "only g" >/dev/null 2>&1          # f.txt / h.txt stay uncommitted: INITIAL entries under the new HEAD
 G "$@" >/dev/null 2>&1; rc=$?
 printf 'a\nHUMAN1\nHUMAN2\nb\nc\n' > f.txt; G commit -q -am human >/dev/null 2>&1
 printf '%-4s git %-34s rc=%s  f.txt: %s\n' "$name" "$*" "$rc" "$(blame f.txt)"
}
row ctl1 checkout -- f.txt                  # control: Tester
row ctl2 checkout -f other                  # control
row ctl3 switch --discard-changes other     # control
row ctl4 stash push -- h.txt                # control (f.txt untouched by the stash, then rewritten by the person: Tester)
row F1a checkout f.txt
row F1b checkout HEAD f.txt
row F2a checkout -qf other
row F2b checkout --forc other
row F2c switch -qf other
row F3a checkout -f
row F3b switch --discard-changes main
row F4  checkout -- .
row F5  stash                               # all files stashed -> INITIAL would become empty -> not written -> stays
row F6  stash -- f.txt
row F7  stash push -- f.txt                 # INITIAL entry removed, the pre-stash human checkpoint's entry for f.txt stays
# F5 in the path-checkout flow: f.txt is the ONLY file with pending attribution
newrepo F5b; printf 'a\nb\nc\n' > f.txt; printf 'x\n' > g.txt; G add .; G commit -q -m init 2>/dev/null
printf 'a\nAI1\nAI2\nb\nc\n' > f.txt; GA checkpoint mock_ai f.txt >/dev/null 2>&1; echo z >> g.txt; G add g.txt; G commit -q -m "only g" >/dev/null 2>&1
G checkout -- f.txt >/dev/null 2>&1; printf 'a\nHUMAN1\nHUMAN2\nb\nc\n' > f.txt; G commit -q -am human >/dev/null 2>&1
printf '%-4s git %-34s       f.txt: %s\n' F5b "checkout -- f.txt (only file)" "$(blame f.txt)"
# F8: stash pop overwrites the INITIAL entries the current head already holds (h.txt loses its AI line: a C02 loss)
newrepo F8; printf 'a\nb\nc\n' > f.txt; printf 'a\nb\nc\n' > h.txt; printf 'x\n' > g.txt; G add .; G commit -q -m init 2>/dev/null
printf 'a\nAI1\nAI2\nb\nc\n' > f.txt; GA checkpoint mock_ai f.txt >/dev/null 2>&1; G stash push -- f.txt >/dev/null 2>&1
printf 'a\nAI3\nb\nc\n' > h.txt; GA checkpoint mock_ai h.txt >/dev/null 2>&1; echo z >> g.txt; G add g.txt; G commit -q -m "only g" >/dev/null 2>&1
G stash pop >/dev/null 2>&1; G commit -q -am all >/dev/null 2>&1
printf '%-4s git %-34s       h.txt: %s (AI3 was written by mock_ai)\n' F8 "stash pop over pending h.txt" "$(blame h.txt)"
