// Replay driver for unit switchhooks: the ORIGINAL checkout / switch / stash hooks over a stand-in repository that keeps a MODEL of
// the working logs (per base commit: the INITIAL entries and the checkpoints), of HEAD, of the stash refs and of the stash notes.
// Commands are generated STRUCTURED (what git will do is known by construction: which branch, which paths, forced or not, ok or
// failed) and rendered into argument vectors in several spellings; the oracle states the property on the model state:
//   failed command -> nothing changed at all;  keep-tree switch -> the log of `old` is now the log of `new`, nothing under `old`;
//   forced switch -> nothing pending under `old`, nothing new under `new`;  path checkout / stash push -> exactly the selected
//   files' entries gone from the log of HEAD, everything else as it was;  pop / apply -> the stashed files' lines in the INITIAL of
//   the CURRENT head.  The repaired findings F1 (paths without `--`), F3 (forced, HEAD unmoved), F4 (`.`), F5 (last pending file
//   removed) are part of the STANDING sweep; inputs of the remaining deviation classes (REPORT.md: F2, F6, F7, F8, stash `.`,
//   forced + bare paths) are skipped unless SWITCHHOOKS_STRICT=1.
#![allow(dead_code, unused)]
use std::collections::{HashMap, HashSet, BTreeMap, BTreeSet};
use std::cell::RefCell;
#[derive(Debug, Clone)]
pub enum GitAiError { Generic(String) }
impl std::fmt::Display for GitAiError { fn fmt(&self, f: &mut std::fmt::Formatter) -> std::fmt::Result { write!(f, "{:?}", self) } }
#[derive(Clone, Debug, PartialEq, Eq, PartialOrd, Ord)]
pub struct LineAttribution { pub start_line: u32, pub end_line: u32, pub author_id: String, pub overrode: Option<String> }
#[derive(Clone, Debug, PartialEq, Eq, Default)]
pub struct PromptRecord { pub id: String }
#[derive(Clone, Debug, PartialEq, Eq)]
pub struct Entry { pub file: String }
#[derive(Clone, Debug, PartialEq, Eq)]
pub struct Checkpoint { pub entries: Vec<Entry> }
#[derive(Clone, Debug, Default)]
pub struct InitialAttributions { pub files: HashMap<String, Vec<LineAttribution>>, pub prompts: HashMap<String, PromptRecord> }
/// model of one working log
#[derive(Clone, Debug, Default, PartialEq, Eq)]
struct WL { initial: Option<(BTreeMap<String, Vec<LineAttribution>>, BTreeMap<String, String>)>, checkpoints: Vec<Vec<String>> }
#[derive(Clone, Debug, Default)]
struct World { head: Option<String>, dirty: bool, logs: BTreeMap<String, WL>, calls: Vec<String>, notes: BTreeMap<String, String>, revs: BTreeMap<String, String>, json: Vec<InitialAttributions> }
thread_local! { static W: RefCell<World> = Default::default(); }
fn w<T>(f: impl FnOnce(&mut World) -> T) -> T { W.with(|c| f(&mut c.borrow_mut())) }
pub fn debug_log(_: &str) {}
pub mod utils { pub use super::debug_log; }
pub struct Head { t: Option<String> }
impl Head { pub fn target(&self) -> Result<String, GitAiError> { self.t.clone().ok_or(GitAiError::Generic("unborn".into())) } pub fn name(&self) -> Option<&str> { Some("refs/heads/x") } }
#[derive(Clone, Debug)]
pub struct RepoStorage { pub _o: () }
#[derive(Clone, Debug)]
pub struct Repository { pub storage: RepoStorage, pub pre_command_base_commit: Option<String>, pub pre_command_refname: Option<String> }
impl Repository {
    pub fn head(&self) -> Result<Head, GitAiError> { Ok(Head { t: w(|x| x.head.clone()) }) }
    pub fn require_pre_command_head(&mut self) {
        if self.pre_command_base_commit.is_some() || self.pre_command_refname.is_some() { return; }
        if let Some(h) = w(|x| x.head.clone()) { self.pre_command_base_commit = Some(h); self.pre_command_refname = Some("refs/heads/x".into()); }
    }
    /// `git rev-parse --verify`: the names that are revisions in the modelled repository
    pub fn revparse_single(&self, spec: &str) -> Result<(), GitAiError> { if ["HEAD", "main", "other", "HEAD~1"].contains(&spec) { Ok(()) } else { Err(GitAiError::Generic("not a revision".into())) } }
    pub fn get_staged_and_unstaged_filenames(&self) -> Result<HashSet<String>, GitAiError> { Ok(if w(|x| x.dirty) { ["f.txt".to_string()].into_iter().collect() } else { HashSet::new() }) }
}
pub struct InitialFile { base: String }
impl InitialFile { pub fn exists(&self) -> bool { w(|x| x.logs.get(&self.base).map(|l| l.initial.is_some()).unwrap_or(false)) } }
pub struct PersistedWorkingLog { pub initial_file: InitialFile, pub base_commit: String }
impl RepoStorage {
    pub fn working_log_for_base_commit(&self, sha: &str) -> PersistedWorkingLog { PersistedWorkingLog { initial_file: InitialFile { base: sha.to_string() }, base_commit: sha.to_string() } }
    pub fn delete_working_log_for_base_commit(&self, sha: &str) -> Result<(), GitAiError> { w(|x| { x.calls.push(format!("delete {}", sha)); x.logs.remove(sha); }); Ok(()) }
    /// the storage's rule: only when `old` exists and `new` does not (the generator never gives `new` a log before a switch)
    pub fn rename_working_log(&self, a: &str, b: &str) -> Result<(), GitAiError> {
        w(|x| { x.calls.push(format!("rename {} {}", a, b)); if x.logs.contains_key(a) && !x.logs.contains_key(b) { let l = x.logs.remove(a).unwrap(); x.logs.insert(b.to_string(), l); } }); Ok(())
    }
}
pub mod serde_json { use super::*; pub fn to_string_pretty(d: &InitialAttributions) -> Result<String, GitAiError> { Ok(w(|x| { x.json.push(d.clone()); format!("{}", x.json.len() - 1) })) } }
pub mod fs { use super::*; pub fn remove_file(p: &InitialFile) -> Result<(), GitAiError> { w(|x| { x.calls.push(format!("remove-initial {}", p.base)); if let Some(l) = x.logs.get_mut(&p.base) { l.initial = None; } }); Ok(()) }
    pub fn write(p: &InitialFile, json: String) -> Result<(), GitAiError> {
    w(|x| { let d = x.json[json.parse::<usize>().unwrap()].clone(); x.calls.push(format!("write-initial {}", p.base));
        x.logs.entry(p.base.clone()).or_default().initial = Some((d.files.into_iter().collect(), d.prompts.into_iter().map(|(k, v)| (k, v.id)).collect())); }); Ok(()) } }
impl PersistedWorkingLog {
    pub fn read_initial_attributions(&self) -> InitialAttributions {
        match w(|x| x.logs.get(&self.base_commit).and_then(|l| l.initial.clone())) { Some((f, p)) => InitialAttributions { files: f.into_iter().collect(), prompts: p.into_iter().map(|(k, v)| (k, PromptRecord { id: v })).collect() }, None => InitialAttributions::default() }
    }
    pub fn read_all_checkpoints(&self) -> Result<Vec<Checkpoint>, GitAiError> {
        Ok(w(|x| x.logs.get(&self.base_commit).map(|l| l.checkpoints.clone()).unwrap_or_default()).into_iter().map(|c| Checkpoint { entries: c.into_iter().map(|f| Entry { file: f }).collect() }).collect())
    }
    pub fn write_all_checkpoints(&self, cps: &[Checkpoint]) -> Result<(), GitAiError> {
        w(|x| { x.calls.push(format!("write-checkpoints {}", self.base_commit)); x.logs.entry(self.base_commit.clone()).or_default().checkpoints = cps.iter().map(|c| c.entries.iter().map(|e| e.file.clone()).collect()).collect(); }); Ok(())
    }
}
// ---- VirtualAttributions / AuthorshipLog stand-ins: per file the INITIAL line attributions (checkpoint-only files get one line by "cp")
#[derive(Clone, Debug, PartialEq)]
pub struct VirtualAttributions { pub attributions: BTreeMap<String, Vec<LineAttribution>>, pub base: String, pub prompts: BTreeMap<String, String> }
impl VirtualAttributions {
    pub fn from_just_working_log(_repo: Repository, base: String, _human: Option<String>) -> Result<Self, GitAiError> {
        let l = w(|x| { x.calls.push(format!("read-va {}", base)); x.logs.get(&base).cloned().unwrap_or_default() });
        let mut a: BTreeMap<String, Vec<LineAttribution>> = BTreeMap::new(); let mut p = BTreeMap::new();
        if let Some((f, pr)) = l.initial { a = f; p = pr; }
        for c in l.checkpoints { for f in c { a.entry(f).or_insert_with(|| vec![LineAttribution { start_line: 1, end_line: 1, author_id: "cp".into(), overrode: None }]); } }
        Ok(VirtualAttributions { attributions: a, base, prompts: p })
    }
    pub fn files(&self) -> Vec<String> { self.attributions.keys().cloned().collect() }
    pub fn to_authorship_log(&self) -> Result<AuthorshipLog, GitAiError> {
        Ok(AuthorshipLog { attestations: self.attributions.iter().map(|(f, v)| Attestation { file_path: f.clone(), entries: v.iter().map(|l| AEntry { hash: l.author_id.clone(), line_ranges: vec![if l.start_line == l.end_line { LineRange::Single(l.start_line) } else { LineRange::Range(l.start_line, l.end_line) }] }).collect() }).collect(),
            metadata: Metadata { prompts: self.prompts.iter().map(|(k, v)| (k.clone(), PromptRecord { id: v.clone() })).collect() } })
    }
}
#[derive(Clone, Debug)] pub enum LineRange { Single(u32), Range(u32, u32) }
#[derive(Clone, Debug)] pub struct AEntry { pub hash: String, pub line_ranges: Vec<LineRange> }
#[derive(Clone, Debug)] pub struct Attestation { pub file_path: String, pub entries: Vec<AEntry> }
#[derive(Clone, Debug)] pub struct Metadata { pub prompts: BTreeMap<String, PromptRecord> }
#[derive(Clone, Debug)] pub struct AuthorshipLog { pub attestations: Vec<Attestation>, pub metadata: Metadata }
impl AuthorshipLog {
    pub fn serialize_to_string(&self) -> Result<String, GitAiError> {
        let mut s = String::new();
        for a in &self.attestations { for e in &a.entries { for r in &e.line_ranges { let (x, y) = match r { LineRange::Single(l) => (*l, *l), LineRange::Range(x, y) => (*x, *y) }; s.push_str(&format!("A\t{}\t{}\t{}\t{}\n", a.file_path, e.hash, x, y)); } } }
        for (k, v) in &self.metadata.prompts { s.push_str(&format!("P\t{}\t{}\n", k, v.id)); }
        Ok(s)
    }
    pub fn deserialize_from_string(s: &str) -> Result<AuthorshipLog, GitAiError> {
        let mut at: Vec<Attestation> = vec![]; let mut pr = BTreeMap::new();
        for l in s.lines() { let p: Vec<&str> = l.split('\t').collect();
            if p[0] == "A" { let r = if p[3] == p[4] { LineRange::Single(p[3].parse().unwrap()) } else { LineRange::Range(p[3].parse().unwrap(), p[4].parse().unwrap()) };
                if at.last().map(|a| a.file_path != p[1]).unwrap_or(true) { at.push(Attestation { file_path: p[1].into(), entries: vec![] }); }
                at.last_mut().unwrap().entries.push(AEntry { hash: p[2].into(), line_ranges: vec![r] }); }
            else if p[0] == "P" { pr.insert(p[1].to_string(), PromptRecord { id: p[2].into() }); } }
        Ok(AuthorshipLog { attestations: at, metadata: Metadata { prompts: pr } })
    }
}
pub mod authorship {
    pub mod authorship_log_serialization { pub use crate::AuthorshipLog; }
    pub mod authorship_log { pub use crate::LineRange; }
    pub mod attribution_tracker { pub use crate::LineAttribution; }
}
pub enum CheckpointKind { Human }
pub mod commands { pub mod checkpoint { use crate::*;
    pub fn run(_r: &Repository, _a: &str, _k: CheckpointKind, _b1: bool, _b2: bool, _b3: bool, _o: Option<()>, _b4: bool) -> Result<(usize, usize, usize), GitAiError> { w(|x| x.calls.push("human-checkpoint".into())); Ok((0, 0, 0)) } } }
pub struct CommandHooksContext { pub stash_sha: Option<String>, pub stashed_va: Option<VirtualAttributions> }
pub fn get_commit_default_author(_r: &Repository, _a: &[String]) -> String { "Tester <t@example.com>".into() }
/// restore_stashed_va (unit vamerge): recorded, and the stashed attribution put into the INITIAL of new_head
pub fn restore_stashed_va(_r: &mut Repository, old_head: &str, new_head: &str, va: VirtualAttributions) {
    w(|x| { x.calls.push(format!("restore-va {} {} from={} files={:?}", old_head, new_head, va.base, va.attributions.keys().collect::<Vec<_>>()));
        let l = x.logs.entry(new_head.to_string()).or_default(); let mut cur = l.initial.clone().unwrap_or_default(); for (f, v) in va.attributions { cur.0.insert(f, v); } for (k, v) in va.prompts { cur.1.insert(k, v); } l.initial = Some(cur); });
}
fn resolve_stash_to_sha(_r: &Repository, r: &str) -> Result<String, GitAiError> { w(|x| x.revs.get(r).cloned()).ok_or(GitAiError::Generic("bad rev".into())) }
fn save_stash_note(_r: &Repository, sha: &str, content: &str) -> Result<(), GitAiError> { w(|x| { x.calls.push(format!("save-note {}", sha)); x.notes.insert(sha.to_string(), content.to_string()); }); Ok(()) }
fn read_stash_note(_r: &Repository, sha: &str) -> Result<String, GitAiError> { w(|x| x.notes.get(sha).cloned()).ok_or(GitAiError::Generic("no note".into())) }
fn has_uncommitted_changes(repository: &Repository) -> bool { match repository.get_staged_and_unstaged_filenames() { Ok(f) => !f.is_empty(), Err(_) => false } }
include!("@ITEMS@");
use std::panic::{catch_unwind, AssertUnwindSafe};
struct Ctx { evaluated: u64, failed: std::collections::HashSet<String>, strict: bool }
impl Ctx {
    fn fail(&mut self, f: &str, clause: &str, input: String, observed: String, expected: String) {
        if self.failed.insert(format!("{}::{}", f, clause)) { println!("FAIL fn=[[{}]] clause=[[{}]] input=[[{}]] observed=[[{}]] expected=[[{}]]", f, clause, input, observed, expected); }
    }
}
fn guarded<T>(f: impl FnOnce() -> T) -> Result<T, String> {
    catch_unwind(AssertUnwindSafe(f)).map_err(|e| { let m = e.downcast_ref::<String>().cloned().or_else(|| e.downcast_ref::<&str>().map(|s| s.to_string())).unwrap_or_default(); format!("panic: {}", m) })
}
struct Rng(u64);
impl Rng { fn next(&mut self) -> u64 { self.0 ^= self.0 << 13; self.0 ^= self.0 >> 7; self.0 ^= self.0 << 17; self.0 } fn below(&mut self, n: u64) -> u64 { self.next() % n } }
fn status(ok: bool) -> std::process::ExitStatus { use std::os::unix::process::ExitStatusExt; std::process::ExitStatus::from_raw(if ok { 0 } else { 1 << 8 }) }
const OLD: &str = "aaaaaaaaaaaaaaaaaaaaaaaaaaaaaaaaaaaaaaaa";
const NEW: &str = "bbbbbbbbbbbbbbbbbbbbbbbbbbbbbbbbbbbbbbbb";
const FILES: &[&str] = &["f.txt", "g.txt", "dir/x.txt", "dir/y.txt", "dirx/z.txt"];
fn la(s: u32, e: u32, a: &str) -> Vec<LineAttribution> { vec![LineAttribution { start_line: s, end_line: e, author_id: a.into(), overrode: None }] }
/// a working log: bit i of `ini` = FILES[i] has INITIAL lines, bit i of `cp` = FILES[i] has a checkpoint entry
fn mk_wl(ini: u32, cp: u32) -> WL {
    let mut f = BTreeMap::new(); for (i, n) in FILES.iter().enumerate() { if ini >> i & 1 == 1 { f.insert(n.to_string(), la(2, 3 + i as u32, "p1")); } }
    let mut cps: Vec<Vec<String>> = vec![]; let a: Vec<String> = FILES.iter().enumerate().filter(|(i, _)| cp >> i & 1 == 1 && i % 2 == 0).map(|(_, n)| n.to_string()).collect(); let b: Vec<String> = FILES.iter().enumerate().filter(|(i, _)| cp >> i & 1 == 1 && i % 2 == 1).map(|(_, n)| n.to_string()).collect();
    if !a.is_empty() { cps.push(a); } if !b.is_empty() { cps.push(b); }
    WL { initial: if f.is_empty() { None } else { Some((f, [("p1".to_string(), "P1".to_string())].into_iter().collect())) }, checkpoints: cps }
}
/// what the property compares: per file the INITIAL lines and the number of checkpoint entries (empty checkpoints / an INITIAL without files do not count)
fn pending(l: Option<&WL>) -> BTreeMap<String, (Vec<LineAttribution>, usize)> {
    let mut m: BTreeMap<String, (Vec<LineAttribution>, usize)> = BTreeMap::new();
    if let Some(l) = l { if let Some((f, _)) = &l.initial { for (k, v) in f { if !v.is_empty() { m.entry(k.clone()).or_default().0 = v.clone(); } } } for c in &l.checkpoints { for f in c { m.entry(f.clone()).or_default().1 += 1; } } }
    m
}
/// gitglossary(7) pathspec, literal forms: the file, a directory (with or without `/`), `.` = everything (commands run at the top level)
fn git_selects(paths: &[String], f: &str) -> bool { paths.iter().any(|p| p == "." || p == f || f.starts_with(&format!("{}/", p.trim_end_matches('/')))) }
#[derive(Clone, Debug)]
struct Sw { switch_cmd: bool, force: u8, merge: u8, quiet: bool, target: u8 /* 0 none, 1 other branch (NEW), 2 current branch */, rev_for_paths: bool, paths: Vec<String>, sep: bool, ok: bool, dirty: bool, ini: u32, cp: u32 }
const CO_FORCE: &[&str] = &["", "-f", "--force", "-qf", "-fq", "--forc"];
const SW_FORCE: &[&str] = &["", "-f", "--force", "--discard-changes", "-qf", "--disc"];
const MERGE: &[&str] = &["", "-m", "--merge", "-qm"];
fn render(s: &Sw) -> Vec<String> {
    let mut a: Vec<String> = vec![];
    if s.quiet { a.push("-q".into()); }
    let f = if s.switch_cmd { SW_FORCE[s.force as usize] } else { CO_FORCE[s.force as usize] }; if !f.is_empty() { a.push(f.into()); }
    if !MERGE[s.merge as usize].is_empty() { a.push(MERGE[s.merge as usize].into()); }
    if s.paths.is_empty() { match s.target { 1 => a.push("other".into()), 2 => a.push("main".into()), _ => {} } } else if s.rev_for_paths { a.push("HEAD".into()); }
    if s.sep { a.push("--".into()); }
    a.extend(s.paths.iter().cloned());
    a
}
fn chk_switch(c: &mut Ctx, s: &Sw) {
    let args = render(s);
    let fname = if s.switch_cmd { "post_switch_hook" } else { "post_checkout_hook" };
    let input = format!("{}|ok={} dirty={} ini={} cp={}", args.join(" "), s.ok, s.dirty, s.ini, s.cp);
    let path_mode = !s.paths.is_empty();
    let forced = s.force != 0; let merged = s.merge != 0;
    // ---- deviation classes (REPORT.md)
    let dev: Option<&str> = if !s.ok { None }
        else if path_mode && !s.sep && (s.force == 1 || s.force == 2) { Some("dev_force_bare_paths") }
        else if !path_mode && (s.force >= (if s.switch_cmd { 4 } else { 3 }) || s.merge == 3) { Some("dev_spelling") }
        else { None };
    if dev.is_some() && !c.strict { return; }
    c.evaluated += 1;
    let before_old = mk_wl(s.ini, s.cp);
    w(|x| { *x = World::default(); x.head = Some(OLD.into()); x.dirty = s.dirty; if before_old != WL::default() { x.logs.insert(OLD.into(), before_old.clone()); } });
    let before = w(|x| x.logs.clone());
    let parsed = ParsedGitInvocation { global_args: vec![], command: Some(if s.switch_cmd { "switch" } else { "checkout" }.into()), command_args: args.clone(), saw_end_of_opts: false, is_help: false };
    let mut repo = Repository { storage: RepoStorage { _o: () }, pre_command_base_commit: None, pre_command_refname: None };
    let mut ctx = CommandHooksContext { stash_sha: None, stashed_va: None };
    let new_head = if s.ok && !path_mode && s.target == 1 { NEW } else { OLD };
    let r = guarded(|| {
        if s.switch_cmd { pre_switch_hook(&parsed, &mut repo, &mut ctx); } else { pre_checkout_hook(&parsed, &mut repo, &mut ctx); }
        let after_pre = w(|x| x.logs.clone());
        w(|x| { x.head = Some(new_head.into()); x.calls.push("--git--".into()); });
        if s.switch_cmd { post_switch_hook(&parsed, &mut repo, status(s.ok), &mut ctx); } else { post_checkout_hook(&parsed, &mut repo, status(s.ok), &mut ctx); }
        after_pre
    });
    let after_pre = match r { Err(p) => { c.fail(fname, "safety", input, p, "no panic".into()); return; } Ok(x) => x };
    let pre_name = if s.switch_cmd { "pre_switch_hook" } else { "pre_checkout_hook" };
    if after_pre != before { c.fail(pre_name, "ensures#0", input.clone(), format!("{:?}", after_pre), "the pre hook changes no working log".into()); }
    let (after, calls) = w(|x| (x.logs.clone(), x.calls.clone()));
    let post_calls: Vec<&String> = calls.iter().skip_while(|x| *x != "--git--").skip(1).collect();
    let clause = match dev { Some(d) => format!("ensures#2 ({})", d), None => "ensures#2".to_string() };
    if !s.ok {
        if after != before || !post_calls.is_empty() { c.fail(fname, "ensures#1", input, format!("{:?} logs {:?}", post_calls, after.keys().collect::<Vec<_>>()), "a failed command: no write, no delete, no move".into()); }
        return;
    }
    let p_old = pending(after.get(OLD)); let p_new = pending(after.get(NEW)); let b_old = pending(before.get(OLD));
    if path_mode {
        let want: BTreeMap<_, _> = b_old.iter().filter(|(f, _)| !git_selects(&s.paths, f)).map(|(k, v)| (k.clone(), v.clone())).collect();
        if p_old != want || !p_new.is_empty() { c.fail(fname, &clause, input, format!("old: {:?} new: {:?}", p_old.keys().collect::<Vec<_>>(), p_new.keys().collect::<Vec<_>>()), format!("old: {:?} (exactly the files selected by {:?} lose their pending attribution), new: nothing", want.keys().collect::<Vec<_>>(), s.paths)); }
        return;
    }
    if forced {
        if !p_old.is_empty() || !p_new.is_empty() { c.fail(fname, &clause, input, format!("old: {:?} new: {:?}", p_old.keys().collect::<Vec<_>>(), p_new.keys().collect::<Vec<_>>()), "a forced switch throws the local changes away: nothing pending stays, under either head".into()); }
        return;
    }
    if new_head == OLD {
        if after != before { c.fail(fname, &clause, input, format!("{:?}", after), "HEAD did not move, nothing was discarded: unchanged".into()); }
        return;
    }
    // keep-tree switch OLD -> NEW: everything pending is now pending under NEW (the same lines - or, after -m with a dirty tree, handed to restore_stashed_va), nothing under OLD
    if !p_old.is_empty() { c.fail(fname, &clause, input.clone(), format!("old still holds {:?}", p_old.keys().collect::<Vec<_>>()), "nothing stays behind under the old head".into()); }
    let restores: Vec<&&String> = post_calls.iter().filter(|x| x.starts_with("restore-va")).collect();
    if merged && s.dirty && !b_old.is_empty() {
        let want = format!("restore-va {} {} from={} files={:?}", OLD, NEW, OLD, b_old.keys().collect::<Vec<_>>());
        if restores.len() != 1 || **restores[0] != want { c.fail(fname, &clause, input, format!("{:?}", restores), format!("exactly once: {}", want)); }
    } else {
        if !restores.is_empty() { c.fail(fname, &clause, input.clone(), format!("{:?}", restores), "no restore without a captured attribution".into()); }
        if p_new != b_old { c.fail(fname, &clause, input, format!("new: {:?}", p_new), format!("new: {:?} (carried over once, unchanged)", b_old)); }
    }
}
#[derive(Clone, Debug)]
struct St { form: u8, paths: Vec<String>, ok: bool, ini: u32, cp: u32, head_moved: bool, other_ini: u32 }
/// stash argument vectors; the selected paths are known by construction
fn render_stash(s: &St) -> (Vec<String>, &'static str) {
    let p = s.paths.clone(); let v = |x: &[&str]| x.iter().map(|y| y.to_string()).collect::<Vec<String>>();
    match s.form {
        0 => (v(&[]), "push"), 1 => (v(&["push"]), "push"), 2 => (v(&["save"]), "push"), 3 => (v(&["-q"]), "push"), 4 => (v(&["push", "-m", "wip"]), "push"),
        5 => ([v(&["push", "--"]), p].concat(), "push"), 6 => ([v(&["push"]), p].concat(), "push"), 7 => ([v(&["push", "-q", "-m", "wip", "--"]), p].concat(), "push"),
        8 => ([v(&["--"]), p].concat(), "push"), 9 => ([v(&["-q", "--"]), p].concat(), "push"),
        10 => (v(&["pop"]), "pop"), 11 => (v(&["apply"]), "pop"), 12 => (v(&["pop", "stash@{1}"]), "pop1"), 13 => (v(&["apply", "-q", "stash@{1}"]), "pop1"), 14 => (v(&["pop", "--index"]), "pop"),
        15 => (v(&["list"]), "none"), 16 => (v(&["drop"]), "none"), 17 => (v(&["show", "-p"]), "none"), _ => (v(&["clear"]), "none"),
    }
}
fn chk_stash(c: &mut Ctx, s: &St) {
    let (args, kind) = render_stash(s);
    let takes_paths = matches!(s.form, 5..=9);
    if !takes_paths && !s.paths.is_empty() { return; }
    if takes_paths && s.paths.is_empty() && s.form != 5 && s.form != 7 { return; }
    let input = format!("{}|ok={} ini={} cp={} moved={} other_ini={}", args.join(" "), s.ok, s.ini, s.cp, s.head_moved, s.other_ini);
    let before_head = mk_wl(s.ini, s.cp);
    let b_head = pending(Some(&before_head));
    let selected: Vec<String> = b_head.keys().filter(|f| s.paths.is_empty() || git_selects(&s.paths, f)).cloned().collect();
    let dev: Option<&str> = if !s.ok { None }
        else if kind == "push" && (s.form == 8 || s.form == 9) { Some("dev_stash_sub") }
        else if kind == "push" && s.paths.iter().any(|p| p == ".") { Some("dev_stash_dot_pathspec") }
        else if kind == "push" && selected.iter().any(|f| b_head[f].1 > 0) { Some("dev_stash_checkpoints") }
        else if kind != "push" && kind != "none" && s.other_ini != 0 { Some("dev_pop_overwrites_initial") }
        else { None };
    if dev.is_some() && !c.strict { return; }
    c.evaluated += 1;
    // pop / apply: the stash was made on OLD; HEAD is CUR (= NEW when the person moved to another commit in between)
    let cur = if s.head_moved { NEW } else { OLD };
    let note = "A\tf.txt\tp1\t2\t3\nA\tdir/x.txt\tp2\t7\t7\nP\tp1\tP1\nP\tp2\tP2\n";
    w(|x| { *x = World::default(); x.head = Some(cur.into());
        if kind == "push" || kind == "none" { if before_head != WL::default() { x.logs.insert(cur.into(), before_head.clone()); } x.revs.insert("stash@{0}".into(), "s-old".into()); }
        else { x.revs.insert("stash@{0}".into(), "s0".into()); x.revs.insert("stash@{1}".into(), "s1".into()); x.notes.insert("s0".into(), note.into()); x.notes.insert("s1".into(), note.replace("p1", "q1"));
            let o = mk_wl(s.other_ini, 0); if o != WL::default() { x.logs.insert(cur.into(), o); } if s.head_moved && before_head != WL::default() { x.logs.insert(OLD.into(), before_head.clone()); } } });
    let before = w(|x| x.logs.clone()); let notes_before = w(|x| x.notes.clone());
    let parsed = ParsedGitInvocation { global_args: vec![], command: Some("stash".into()), command_args: args.clone(), saw_end_of_opts: false, is_help: false };
    let mut repo = Repository { storage: RepoStorage { _o: () }, pre_command_base_commit: None, pre_command_refname: None };
    let mut ctx = CommandHooksContext { stash_sha: None, stashed_va: None };
    let r = guarded(|| {
        pre_stash_hook(&parsed, &mut repo, &mut ctx);
        let after_pre = w(|x| x.logs.clone());
        // git runs: push creates the new stash@{0}; pop drops the applied one (the refs shift)
        w(|x| { x.calls.push("--git--".into()); if s.ok { if kind == "push" { x.revs.insert("stash@{0}".into(), "s-new".into()); } else if args[0] == "pop" { x.revs.insert("stash@{0}".into(), "s-shifted".into()); x.revs.remove("stash@{1}"); } } });
        post_stash_hook(&ctx, &parsed, &mut repo, status(s.ok));
        after_pre
    });
    let after_pre = match r { Err(p) => { c.fail("post_stash_hook", "safety", input, p, "no panic".into()); return; } Ok(x) => x };
    if after_pre != before { c.fail("pre_stash_hook", "ensures#1", input.clone(), format!("{:?}", after_pre), "the pre hook changes no pending attribution".into()); }
    let (after, calls, notes) = w(|x| (x.logs.clone(), x.calls.clone(), x.notes.clone()));
    let post_calls: Vec<&String> = calls.iter().skip_while(|x| *x != "--git--").skip(1).filter(|x| !x.starts_with("read-va")).collect();
    let clause = match dev { Some(d) => format!("ensures#2 ({})", d), None => "ensures#2".to_string() };
    if !s.ok || kind == "none" {
        if after != before || notes != notes_before || !post_calls.is_empty() { c.fail("post_stash_hook", if s.ok { "ensures#2" } else { "ensures#1" }, input, format!("{:?}", post_calls), "nothing pending changes (failed command, or list / show / drop / clear)".into()); }
        return;
    }
    if kind == "push" {
        let p_head = pending(after.get(cur));
        let want: BTreeMap<_, _> = b_head.iter().filter(|(f, _)| !selected.contains(f)).map(|(k, v)| (k.clone(), v.clone())).collect();
        if p_head != want { c.fail("save_stash_authorship_log", &clause.replace("ensures#2", "ensures#0"), input.clone(), format!("{:?}", p_head), format!("{:?}: exactly the stashed files {:?} leave the working log", want, selected)); }
        let saved = notes.get("s-new").map(|n| { let l = AuthorshipLog::deserialize_from_string(n).unwrap(); l.attestations.iter().map(|a| a.file_path.clone()).collect::<BTreeSet<_>>() });
        let want_note: BTreeSet<String> = selected.iter().cloned().collect();
        if selected.is_empty() { if notes != notes_before { c.fail("save_stash_authorship_log", "ensures#0", input, format!("{:?}", notes.keys().collect::<Vec<_>>()), "nothing selected: no note".into()); } }
        else if saved.as_ref() != Some(&want_note) || notes.len() != notes_before.len() + 1 { c.fail("save_stash_authorship_log", &clause.replace("ensures#2", "ensures#0"), input, format!("{:?}", saved), format!("a note on the NEW stash s-new holding exactly {:?}", want_note)); }
        return;
    }
    // pop / apply: the lines of the applied stash's note are pending in the INITIAL of the CURRENT head; other logs untouched
    let which = if kind == "pop1" { "q1" } else { "p1" };
    let p_cur = pending(after.get(cur));
    let mut want = pending(before.get(cur));
    want.insert("f.txt".into(), (la(2, 3, which), 0)); want.insert("dir/x.txt".into(), (la(7, 7, "p2"), 0));
    if p_cur != want { c.fail("region_rs_write", &clause.replace("ensures#2", "pre@opq_write_initial_q#0"), input.clone(), format!("{:?}", p_cur), format!("{:?} in the working log of the CURRENT head {}", want, cur)); }
    for (k, v) in &before { if k != cur && after.get(k) != Some(v) { c.fail("region_rs_write", "pre@opq_write_initial_q#0", input.clone(), format!("log {} changed", k), "only the current head's working log is written".into()); } }
    for k in after.keys() { if k != cur && !before.contains_key(k) { c.fail("region_rs_write", "pre@opq_write_initial_q#0", input.clone(), format!("log {} created", k), "only the current head's working log is written".into()); } }
}
/// region sw_capture (switch_hooks.rs' capture_va_for_merge): what is captured is the working log of head_sha
fn chk_sw_capture(c: &mut Ctx, ini: u32, cp: u32) {
    c.evaluated += 1;
    let l = mk_wl(ini, cp);
    w(|x| { *x = World::default(); x.head = Some(OLD.into()); if l != WL::default() { x.logs.insert(OLD.into(), l.clone()); } x.logs.insert(NEW.into(), mk_wl(31, 0)); });
    let parsed = ParsedGitInvocation { global_args: vec![], command: Some("switch".into()), command_args: vec!["-m".into(), "other".into()], saw_end_of_opts: false, is_help: false };
    let repo = Repository { storage: RepoStorage { _o: () }, pre_command_base_commit: None, pre_command_refname: None };
    let mut ctx = CommandHooksContext { stash_sha: None, stashed_va: None };
    let before = w(|x| x.logs.clone());
    region_sw_capture(&parsed, &repo, &mut ctx, OLD.to_string());
    let input = format!("ini={} cp={}", ini, cp);
    if w(|x| x.logs.clone()) != before { c.fail("region_sw_capture", "ensures#0", input.clone(), "a working log changed".into(), "capturing writes nothing".into()); }
    let want: Vec<String> = pending(Some(&l)).keys().cloned().collect();
    match &ctx.stashed_va { Some(va) => { if va.base != OLD || va.files() != want { c.fail("region_sw_capture", "ensures#0", input, format!("{} {:?}", va.base, va.files()), format!("{} {:?}", OLD, want)); } }
        None => { if !want.is_empty() { c.fail("region_sw_capture", "ensures#0", input, "nothing captured".into(), format!("{:?}", want)); } } }
}
const PATHSETS: &[&[&str]] = &[&[], &["f.txt"], &["dir"], &["dir/"], &["g.txt", "dir/x.txt"], &["."], &["nosuch.txt"], &["dir/x.txt"]];
fn all_switch(c: &mut Ctx, g: &mut Rng, which: &str) {
    let logs: &[(u32, u32)] = &[(0, 0), (1, 0), (0, 1), (3, 12), (5, 3), (31, 31), (8, 0)];
    for switch_cmd in [false, true] {
        if (switch_cmd && which == "post_checkout_hook") || (!switch_cmd && which == "post_switch_hook") { continue; }
        for force in 0..6u8 { for merge in 0..4u8 { for quiet in [false, true] { for target in 0..3u8 { for ok in [true, false] { for dirty in [false, true] { for &(ini, cp) in logs {
            if force != 0 && merge != 0 { continue; }
            chk_switch(c, &Sw { switch_cmd, force, merge, quiet, target, rev_for_paths: false, paths: vec![], sep: false, ok, dirty, ini, cp });
            if !switch_cmd && target == 0 && merge == 0 { for ps in PATHSETS.iter().skip(1) { for sep in [true, false] { for rev in [false, true] {
                chk_switch(c, &Sw { switch_cmd, force, merge, quiet, target, rev_for_paths: rev, paths: ps.iter().map(|x| x.to_string()).collect(), sep, ok, dirty, ini, cp });
            } } } }
        } } } } } } }
    }
}
fn all_stash(c: &mut Ctx) {
    for form in 0..19u8 { for ps in PATHSETS { for ok in [true, false] { for ini in [0u32, 1, 3, 5, 9, 31] { for cp in [0u32, 1, 6, 31] { for head_moved in [false, true] { for other_ini in [0u32, 2, 16] {
        if form < 10 && (head_moved || other_ini != 0) { continue; }
        chk_stash(c, &St { form, paths: ps.iter().map(|x| x.to_string()).collect(), ok, ini, cp, head_moved, other_ini });
    } } } } } } }
}
fn main() {
    std::panic::set_hook(Box::new(|_| {}));
    let a: Vec<String> = std::env::args().collect();
    let mut c = Ctx { evaluated: 0, failed: Default::default(), strict: std::env::var("SWITCHHOOKS_STRICT").map(|v| v == "1").unwrap_or(false) };
    if a[1] == "search" {
        let mut g = Rng(a[3].parse::<u64>().unwrap_or(0).wrapping_mul(0x9E3779B97F4A7C15) ^ 0x6a09e667f3bcc909);
        let f = a[2].as_str();
        let want = |names: &[&str]| f == "*" || names.contains(&f);
        if want(&["post_checkout_hook", "pre_checkout_hook", "post_switch_hook", "pre_switch_hook", "is_force_checkout", "is_merge_checkout", "is_force_switch", "is_merge_switch", "ParsedGitInvocation::pathspecs", "ParsedGitInvocation::has_command_flag", "remove_attributions_for_pathspecs", "capture_va_for_merge"]) {
            all_switch(&mut c, &mut g, if f == "post_checkout_hook" || f == "post_switch_hook" { f } else { "*" });
        }
        if want(&["post_stash_hook", "pre_stash_hook", "save_stash_authorship_log", "delete_working_log_for_files", "PersistedWorkingLog::write_initial_attributions", "region_rs_write"]) { all_stash(&mut c); }
        if want(&["region_sw_capture"]) { for ini in 0..32u32 { for cp in [0u32, 1, 6, 31] { chk_sw_capture(&mut c, ini, cp); } } }
    } else {
        // replay <fn> <input>: `sw <switch_cmd> <force> <merge> <quiet> <target> <rev> <sep> <ok> <dirty> <ini> <cp> <path>*` or `st <form> <ok> <ini> <cp> <moved> <other_ini> <path>*`
        c.strict = true;
        let t: Vec<&str> = a[3].split(' ').collect(); let n = |i: usize| t[i].parse::<u32>().unwrap();
        if t[0] == "sw" { chk_switch(&mut c, &Sw { switch_cmd: n(1) == 1, force: n(2) as u8, merge: n(3) as u8, quiet: n(4) == 1, target: n(5) as u8, rev_for_paths: n(6) == 1, sep: n(7) == 1, ok: n(8) == 1, dirty: n(9) == 1, ini: n(10), cp: n(11), paths: t[12..].iter().map(|x| x.to_string()).collect() }); }
        else if t[0] == "st" { chk_stash(&mut c, &St { form: n(1) as u8, ok: n(2) == 1, ini: n(3), cp: n(4), head_moved: n(5) == 1, other_ini: n(6), paths: t[7..].iter().map(|x| x.to_string()).collect() }); }
    }
    println!("DONE evaluated={}", c.evaluated);
}
