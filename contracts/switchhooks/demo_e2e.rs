// End-to-end demonstration (real binary through the repository's own test harness) of the findings of unit switchhooks, C03 / C02:
// a checkout / switch / stash that THROWS AWAY uncommitted AI lines must drop their pending attribution (F1..F5), and a stash pop
// must not lose pending attribution the current head already holds (F8).
// Setting of every case: f.txt and h.txt get AI lines (checkpoint mock_ai); only g.txt is committed, so the AI lines stay
// uncommitted and are carried over as INITIAL entries of the new HEAD; the command under test runs; a PERSON then writes
// HUMAN1 / HUMAN2 at the lines where f.txt's AI lines were (no checkpoint) and commits everything.
#[macro_use]
mod repos;
use repos::test_file::ExpectedLineExt;
use repos::test_repo::TestRepo;

type Blame = Vec<(String, String)>;
fn blame(repo: &TestRepo, name: &str) -> Blame {
    let f = repo.filename(name);
    let out = repo.git_ai(&["blame", name]).unwrap();
    out.lines().filter(|l| !l.trim().is_empty()).map(|l| f.parse_blame_line(l)).collect()
}
fn is_ai(author: &str) -> bool { author.contains("mock_ai") }
/// base: f.txt = a b c, h.txt = a b c, g.txt = x y, branch `other` at the base commit; the agent writes AI1 AI2 into f.txt and AI3
/// into h.txt; only g.txt is committed on top (HEAD != other).  `only_f`: h.txt gets no AI line (f.txt is the ONLY pending file).
fn prepare(only_f: bool) -> TestRepo {
    let repo = TestRepo::new();
    let mut f = repo.filename("f.txt");
    f.set_contents(lines!["a", "b", "c"]);
    let mut h = repo.filename("h.txt");
    h.set_contents(lines!["a", "b", "c"]);
    let mut g = repo.filename("g.txt");
    g.set_contents(lines!["x", "y"]);
    repo.stage_all_and_commit("base").unwrap();
    repo.git_og(&["branch", "other"]).unwrap();
    f.insert_at(1, lines!["AI1".ai(), "AI2".ai()]);
    if !only_f { h.insert_at(1, lines!["AI3".ai()]); }
    repo.git_og(&["reset", "-q"]).unwrap();                      // nothing staged
    std::fs::write(repo.path().join("g.txt"), "x\ny\nz\n").unwrap();
    repo.git(&["add", "g.txt"]).unwrap();
    repo.git(&["commit", "-m", "only g"]).unwrap();              // the AI lines are left out: carried over (INITIAL of the new HEAD)
    repo
}
/// the person's turn: other text at the lines the discarded AI lines occupied, no checkpoint, commit all
fn person_rewrites_f_and_commits(repo: &TestRepo) {
    std::fs::write(repo.path().join("f.txt"), "a\nHUMAN1\nHUMAN2\nb\nc\n").unwrap();
    repo.git(&["commit", "-a", "-m", "person"]).unwrap();
}
/// C03: nothing in f.txt is the agent's any more (its lines were thrown away, the person wrote HUMAN1 / HUMAN2)
fn assert_f_is_human(repo: &TestRepo) {
    let b = blame(repo, "f.txt");
    eprintln!("f.txt: {:?}", b);
    assert_eq!(b.iter().map(|(_, t)| t.trim().to_string()).collect::<Vec<_>>(), vec!["a", "HUMAN1", "HUMAN2", "b", "c"]);
    for (a, t) in &b { assert!(!is_ai(a), "C03: line {:?}, written by a person, is blamed to {:?}", t, a); }
}
/// `cmd` throws f.txt's uncommitted lines away (the test checks that it did), then the person writes
fn discard_then_person(cmd: &[&str], only_f: bool) -> TestRepo {
    let repo = prepare(only_f);
    let cmd: Vec<String> = cmd.iter().map(|c| if *c == "<current>" { repo.current_branch() } else { c.to_string() }).collect();
    let cmd: Vec<&str> = cmd.iter().map(|c| c.as_str()).collect();
    repo.git(&cmd).expect("the command under test succeeds");
    assert_eq!(repo.read_file("f.txt").unwrap().trim_end(), "a\nb\nc", "the command threw f.txt's uncommitted AI lines away");
    person_rewrites_f_and_commits(&repo);
    repo
}

// ---------------------------------------------------------------- controls (spellings the hooks handle)
#[test]
fn control_path_checkout_with_separator() { let r = discard_then_person(&["checkout", "--", "f.txt"], false); assert_f_is_human(&r); }
#[test]
fn control_forced_checkout_of_other_branch() { let r = discard_then_person(&["checkout", "-f", "other"], false); assert_f_is_human(&r); }
#[test]
fn control_switch_discard_changes_to_other_branch() { let r = discard_then_person(&["switch", "--discard-changes", "other"], false); assert_f_is_human(&r); }
#[test]
fn control_stash_push_of_another_file_keeps_it_out() {
    // h.txt is stashed, f.txt is not touched by the stash; the person then replaces f.txt's AI lines by hand
    let repo = prepare(false);
    repo.git(&["stash", "push", "--", "h.txt"]).unwrap();
    assert_eq!(repo.read_file("f.txt").unwrap().trim_end(), "a\nAI1\nAI2\nb\nc");
    person_rewrites_f_and_commits(&repo);
    assert_f_is_human(&repo);
}
#[test]
fn control_path_checkout_keeps_the_other_files_attribution() {
    // C02 side of the path checkout: h.txt's pending AI line is not dropped with f.txt's
    let r = discard_then_person(&["checkout", "--", "f.txt"], false);
    let b = blame(&r, "h.txt");
    eprintln!("h.txt: {:?}", b);
    for (a, t) in &b { assert_eq!(is_ai(a), t.trim() == "AI3", "line {:?} blamed to {:?}", t, a); }
}

// ---------------------------------------------------------------- F1: path checkout written without `--`
#[test]
fn f1_path_checkout_without_separator() { let r = discard_then_person(&["checkout", "f.txt"], false); assert_f_is_human(&r); }
#[test]
fn f1_path_checkout_with_tree_ish_without_separator() { let r = discard_then_person(&["checkout", "HEAD", "f.txt"], false); assert_f_is_human(&r); }
// ---------------------------------------------------------------- F2: force spelled as a bundle / an abbreviation
#[test]
fn f2_bundled_force_option() { let r = discard_then_person(&["checkout", "-qf", "other"], false); assert_f_is_human(&r); }
#[test]
fn f2_abbreviated_force_option() { let r = discard_then_person(&["checkout", "--forc", "other"], false); assert_f_is_human(&r); }
#[test]
fn f2_bundled_force_option_switch() { let r = discard_then_person(&["switch", "-qf", "other"], false); assert_f_is_human(&r); }
// ---------------------------------------------------------------- F3: forced checkout / switch that does not move HEAD
#[test]
fn f3_forced_checkout_without_head_move() { let r = discard_then_person(&["checkout", "-f"], false); assert_f_is_human(&r); }
#[test]
fn f3_switch_discard_changes_to_current_branch() { let r = discard_then_person(&["switch", "--discard-changes", "<current>"], false); assert_f_is_human(&r); }
// ---------------------------------------------------------------- F4: `.` as pathspec
#[test]
fn f4_checkout_dot() { let r = discard_then_person(&["checkout", "--", "."], false); assert_f_is_human(&r); }
// ---------------------------------------------------------------- F5: removing the LAST pending file leaves the INITIAL file as it was
#[test]
fn f5_plain_stash_leaves_stale_initial() { let r = discard_then_person(&["stash"], false); assert_f_is_human(&r); }
#[test]
fn f5_path_checkout_of_the_only_pending_file() { let r = discard_then_person(&["checkout", "--", "f.txt"], true); assert_f_is_human(&r); }
// ---------------------------------------------------------------- F8: stash pop overwrites the INITIAL entries the head already holds
#[test]
fn f8_stash_pop_overwrites_initial() {
    let repo = TestRepo::new();
    let mut f = repo.filename("f.txt");
    f.set_contents(lines!["a", "b", "c"]);
    let mut h = repo.filename("h.txt");
    h.set_contents(lines!["a", "b", "c"]);
    let mut g = repo.filename("g.txt");
    g.set_contents(lines!["x"]);
    repo.stage_all_and_commit("base").unwrap();
    f.insert_at(1, lines!["AI1".ai(), "AI2".ai()]);
    repo.git_og(&["reset", "-q"]).unwrap();
    repo.git(&["stash", "push", "--", "f.txt"]).unwrap();          // f.txt's AI lines go into the stash
    h.insert_at(1, lines!["AI3".ai()]);
    repo.git_og(&["reset", "-q"]).unwrap();
    std::fs::write(repo.path().join("g.txt"), "x\nz\n").unwrap();
    repo.git(&["add", "g.txt"]).unwrap();
    repo.git(&["commit", "-m", "only g"]).unwrap();                  // h.txt's AI3 is carried over (INITIAL of the new HEAD)
    repo.git(&["stash", "pop"]).unwrap();
    repo.git(&["commit", "-a", "-m", "everything"]).unwrap();
    let bf = blame(&repo, "f.txt"); let bh = blame(&repo, "h.txt");
    eprintln!("f.txt: {:?}\nh.txt: {:?}", bf, bh);
    for (a, t) in &bf { assert_eq!(is_ai(a), t.trim().starts_with("AI"), "f.txt line {:?} blamed to {:?}", t, a); }
    for (a, t) in &bh { assert_eq!(is_ai(a), t.trim() == "AI3", "C02: h.txt line {:?} blamed to {:?} (AI3 was pending for mock_ai before the pop)", t, a); }
}
